(* Runtime vocabulary of the translated tunnel handlers (gen/G04_onion.v, written by tools/tr/tr_onion.py).
   Fixed text: a state-plus-exception monad over the routing tables of M05_isolation (the state survives an
   exception, as in Python), one slot for the CellPayload object being sent, the nonce stream consumed by
   SessionKeys.encrypt_str, the emitted actions in program order.  What the translator may refer to is exactly
   what is defined here, in M04_onion and in M05_isolation.  No proofs here. *)
From Coq Require Import ZArith List Bool Lia.
From IPV8V Require Import lib.PyErr lib.Bytes lib.BE model.M02_wire model.M03_recv model.M04_onion model.M05_isolation.
Import ListNotations.
Open Scope Z_scope.

(* a payload object on its way out: msg_id, format_list, field values (the first one is the circuit id) *)
Record gpayload := mkP { p_mid : Z; p_fmt : msgfmt; p_vals : list val }.
Definition p_cid (p : gpayload) : res Z :=
  match p_vals p with VInt c :: _ => Ok c | _ => Raise TypeError end.

Definition is_some {A} (o : option A) : bool := match o with Some _ => true | None => false end.
Definition nonempty {A} (l : list A) : bool := match l with [] => false | _ => true end.
(* None.attribute -> AttributeError (rendered TypeError) *)
Definition deref {A} (o : option A) : res A := match o with Some a => Ok a | None => Raise TypeError end.
(* pack("!B", v) *)
Definition pack_u8 (v : Z) : res bytes := if (v <? 0) || (255 <? v) then Raise StructError else Ok [v].
Definition set_plain (v : bool) (c : cell) : cell := mkCell (cl_cid c) (cl_msg c) v (cl_early c).
Definition set_early (v : bool) (c : cell) : cell := mkCell (cl_cid c) (cl_msg c) (cl_plain c) v.

(* dict[int, X] lookups hand the key along: the objects of the three routing tables know their table key
   (RoutingObject.circuit_id of a Circuit; the id an exit socket / relay route is filed under) *)
Definition tab_get {V} (k : Z) (l : list (Z * V)) : option (Z * V) :=
  match assoc k l with Some v => Some (k, v) | None => None end.
Definition tab_item {V} (k : Z) (l : list (Z * V)) : res (Z * V) :=
  match assoc k l with Some v => Ok (k, v) | None => Raise KeyError end.
(* RequestCache.add: an identifier that is already present is refused *)
Definition cache_add {V} (k : Z) (v : V) (l : list (Z * V)) : list (Z * V) := if has k l then l else upd k v l.

(* what the translated code calls but the translation does not cover *)
Record oracles (key nonce secret : Type) := mkO {
  o_enc : key -> dir -> nonce -> bytes -> bytes;        (* SessionKeys.encrypt_str *)
  o_rnd : Z -> bytes;                                   (* os.urandom *)
  o_dh : bytes -> res (secret * bytes * bytes);         (* TunnelCrypto.generate_diffie_shared_secret *)
  o_session_keys : secret -> res key;                   (* TunnelCrypto.generate_session_keys *)
  o_pk : bytes -> res Z;                                (* Peer(<public key bytes>, address): the key it denotes *)
  o_cands : list (Z * peer);                            (* the candidates filed in a CreatedRequestCache *)
  o_has_cache : Z -> Z -> bool;                         (* request_cache.has / get of 0 Retry, 1 Ping, 2 Test *)
  o_opaque : Z -> bool;                                 (* decisions on values outside the model, by occurrence *)
  o_ext : Z -> cnode key -> cnode key;                  (* 0: _ours_on_created_extended *)
  o_delay : Z                                           (* settings.remove_tunnel_delay *)
}.
Arguments o_enc {key nonce secret}. Arguments o_rnd {key nonce secret}. Arguments o_dh {key nonce secret}.
Arguments o_session_keys {key nonce secret}. Arguments o_pk {key nonce secret}. Arguments o_cands {key nonce secret}.
Arguments o_has_cache {key nonce secret}. Arguments o_opaque {key nonce secret}. Arguments o_ext {key nonce secret}.
Arguments o_delay {key nonce secret}. Arguments mkO {key nonce secret}.

Definition to_opt {A} (r : res A) : option A := match r with Ok a => Some a | Raise _ => None end.
(* the session keys the key agreement yields for the DH half of a create (None: a step of it raised) *)
Definition create_keys {key nonce secret} (O : oracles key nonce secret) (kb : bytes) : option key :=
  match o_dh O kb with Ok (ss, _, _) => to_opt (o_session_keys O ss) | Raise _ => None end.

Section GenRt.
Variables key nonce : Type.
Variable enc : key -> dir -> nonce -> bytes -> bytes.

Record gst := mkG { g_c : cnode key; g_ns : nat -> nonce; g_cell : cell; g_out : list cact }.
Definition GM (A : Type) : Type := gst -> gst * res A.

Definition retG {A} (a : A) : GM A := fun s => (s, Ok a).
Definition raiseG {A} (e : exn) : GM A := fun s => (s, Raise e).
Definition bindG {A B} (m : GM A) (f : A -> GM B) : GM B :=
  fun s => match m s with
           | (s1, Ok a) => f a s1
           | (s1, Raise e) => (s1, Raise e)
           end.
Definition tryG {A} (m : GM A) (h : exn -> GM A) : GM A :=
  fun s => match m s with
           | (s1, Raise e) => h e s1
           | (s1, Ok a) => (s1, Ok a)
           end.
Definition liftG {A} (r : res A) : GM A := fun s => (s, r).
Definition getG {A} (f : cnode key -> A) : GM A := fun s => (s, Ok (f (g_c s))).
Definition modG (f : cnode key -> cnode key) : GM unit :=
  fun s => (mkG (f (g_c s)) (g_ns s) (g_cell s) (g_out s), Ok tt).
Definition emitG (a : cact) : GM unit :=
  fun s => (mkG (g_c s) (g_ns s) (g_cell s) (g_out s ++ [a]), Ok tt).
Definition andG (a b : GM bool) : GM bool := bindG a (fun x => if x then b else retG false).
Definition orG (a b : GM bool) : GM bool := bindG a (fun x => if x then retG true else b).

(* ---- the tables ---- *)
Definition circuits (c : cnode key) := n_circuits (cn_tab c).
Definition relays (c : cnode key) := n_relays (cn_tab c).
Definition exits (c : cnode key) := n_exits (cn_tab c).
Definition put_circuit (k : Z) (v : circuit key) (c : cnode key) : cnode key :=
  set_tab c (set_circuits (cn_tab c) (upd k v (n_circuits (cn_tab c)))).
Definition put_relay (k : Z) (v : relay_route key) (c : cnode key) : cnode key :=
  set_tab c (set_relays (cn_tab c) (upd k v (n_relays (cn_tab c)))).
Definition put_exit (k : Z) (v : exit_sock key) (c : cnode key) : cnode key :=
  set_tab c (set_exits (cn_tab c) (upd k v (n_exits (cn_tab c)))).
Definition drop_circuit (k : Z) (c : cnode key) : cnode key :=
  set_tab c (set_circuits (cn_tab c) (del k (n_circuits (cn_tab c)))).
Definition drop_relay (k : Z) (c : cnode key) : cnode key :=
  set_tab c (set_relays (cn_tab c) (del k (n_relays (cn_tab c)))).
Definition drop_exit (k : Z) (c : cnode key) : cnode key :=
  set_tab c (set_exits (cn_tab c) (del k (n_exits (cn_tab c)))).
(* dict.pop(k, None) *)
Definition pop_circuitG (k : Z) : GM (option (Z * circuit key)) :=
  bindG (getG (fun c => tab_get k (circuits c))) (fun r => bindG (modG (drop_circuit k)) (fun _ => retG r)).
Definition pop_relayG (k : Z) : GM (option (Z * relay_route key)) :=
  bindG (getG (fun c => tab_get k (relays c))) (fun r => bindG (modG (drop_relay k)) (fun _ => retG r)).
Definition pop_exitG (k : Z) : GM (option (Z * exit_sock key)) :=
  bindG (getG (fun c => tab_get k (exits c))) (fun r => bindG (modG (drop_exit k)) (fun _ => retG r)).

(* attribute stores on table objects *)
Definition circ_set_early (v : Z) (ci : circuit key) : circuit key :=
  mkCircuit (c_goal ci) (c_ctype ci) (c_hops ci) (c_unverified ci) (c_hs ci) (c_closing ci) v.
Definition circ_set_closing (v : bool) (ci : circuit key) : circuit key :=
  mkCircuit (c_goal ci) (c_ctype ci) (c_hops ci) (c_unverified ci) (c_hs ci) v (c_early ci).
Definition es_set_enabled (v : bool) (es : exit_sock key) : exit_sock key := mkES (es_cid es) (es_hop es) v.
Definition mk_hop (p : peer) (k : option key) : hop key := mkHop (pr_pk p) (pr_addr p) k.

(* the request caches that are part of the model *)
Definition set_created (l : list (Z * created_cache)) (c : cnode key) : cnode key :=
  mkCN (cn_tab c) l (cn_create c) (cn_pending c) (cn_max_joined c).
Definition set_create (l : list (Z * create_cache)) (c : cnode key) : cnode key :=
  mkCN (cn_tab c) (cn_created c) l (cn_pending c) (cn_max_joined c).
Definition pop_createG (k : Z) : GM create_cache :=
  bindG (getG (fun c => assoc k (cn_create c))) (fun r =>
    match r with
    | Some rq => bindG (modG (fun c => set_create (del k (cn_create c)) c)) (fun _ => retG rq)
    | None => raiseG KeyError
    end).

(* ---- the cell being sent ---- *)
Definition cellG : GM cell := fun s => (s, Ok (g_cell s)).
Definition cell_updG (f : cell -> cell) : GM unit :=
  fun s => (mkG (g_c s) (g_ns s) (f (g_cell s)) (g_out s), Ok tt).
Definition shiftn (n : nat) (ns : nat -> nonce) : nat -> nonce := fun i => ns (n + i)%nat.
(* PythonCryptoEndpoint.encrypt_cell(cell, direction, *hops): one nonce per layer unless the cell is plaintext *)
Definition encrypt_cellG (d : dir) (hops : list (hop key)) : GM unit :=
  fun s => match encrypt_cell enc (g_cell s) d hops (g_ns s) with
           | Ok c' => (mkG (g_c s) (if cl_plain (g_cell s) then g_ns s else shiftn (length hops) (g_ns s)) c' (g_out s), Ok tt)
           | Raise e => (s, Raise e)
           end.

(* what an observer of the node sees of a run: the tables and the actions, or the exception that escaped *)
Definition obs {A} (r : gst * res A) : res (cnode key * list cact) :=
  match snd r with Ok _ => Ok (g_c (fst r), g_out (fst r)) | Raise e => Raise e end.
(* the same when the caller swallows exceptions (a task with ignore=(Exception,), a handler inside try/except) *)
Definition final {A} (r : gst * res A) : cnode key * list cact := (g_c (fst r), g_out (fst r)).
Definition start (c : cnode key) (ns : nat -> nonce) : gst := mkG c ns (mkCell 0 [] false false) [].

End GenRt.

Arguments mkG {key nonce}. Arguments g_c {key nonce}. Arguments g_ns {key nonce}. Arguments g_cell {key nonce}.
Arguments g_out {key nonce}. Arguments retG {key nonce A}. Arguments raiseG {key nonce A}. Arguments bindG {key nonce A B}.
Arguments tryG {key nonce A}. Arguments liftG {key nonce A}. Arguments getG {key nonce A}. Arguments modG {key nonce}.
Arguments emitG {key nonce}. Arguments andG {key nonce}. Arguments orG {key nonce}.
Arguments circuits {key}. Arguments relays {key}. Arguments exits {key}.
Arguments put_circuit {key}. Arguments put_relay {key}. Arguments put_exit {key}.
Arguments drop_circuit {key}. Arguments drop_relay {key}. Arguments drop_exit {key}.
Arguments pop_circuitG {key nonce}. Arguments pop_relayG {key nonce}. Arguments pop_exitG {key nonce}.
Arguments circ_set_early {key}. Arguments circ_set_closing {key}. Arguments es_set_enabled {key}. Arguments mk_hop {key}.
Arguments set_created {key}. Arguments set_create {key}. Arguments pop_createG {key nonce}.
Arguments cellG {key nonce}. Arguments cell_updG {key nonce}. Arguments shiftn {nonce}. Arguments encrypt_cellG {key nonce}.
Arguments obs {key nonce A}. Arguments final {key nonce A}. Arguments start {key nonce}.
