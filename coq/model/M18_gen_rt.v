(* C18 (extension) - run-time vocabulary of the protocol code translated by tools/tr/tr_proofs.py
   (gen/G18_proofs.v): how random draws, the float square root and Python's loop idioms are read.
   Fixed text; no proofs. *)
From Coq Require Import ZArith List Bool.
From IPV8V Require Import lib.PyErr lib.Bytes model.M18_range model.M18_bitpairs.
Import ListNotations.
Open Scope Z_scope.

(* `x = _random_number(n)`: every syntactic call site has its own queue of draws (site i reads queue i);
   a site outside a loop takes the head of its queue *)
Definition draw1 (q : list Z) : res Z :=
  match q with [] => Raise OutOfFuel | d :: _ => Ok d end.

(* `x = 0; while not x: x = _random_number(n) % k`: draws of the site's queue until one is non-zero modulo k
   (k is loop invariant).  An exhausted queue is OutOfFuel: the loop would draw again. *)
Fixpoint draw_until (q : list Z) (k : Z) : res Z :=
  match q with
  | [] => Raise OutOfFuel
  | d :: q' => if k =? 0 then Raise ZeroDivisionError
               else if d mod k =? 0 then draw_until q' k else Ok (d mod k)
  end.

(* `secure_randint(lo, hi)`: the next element of the stream threaded through EL.create / SQR.create *)
Definition sec_draw (sec : list Z) : res (Z * list Z) :=
  match sec with [] => Raise OutOfFuel | d :: tl => Ok (d, tl) end.

(* int(math.sqrt(x)): ValueError ("math domain error") for a negative argument; the integer square root
   otherwise (the float rounding of math.sqrt is an assumption of the check, see c18.py) *)
Definition py_isqrt (x : Z) : res Z := if x <? 0 then Raise ValueError else Ok (Z.sqrt x).

(* the queues / the stream that correspond to the hand model's record of accepted draws *)
Definition queues_of (rd : range_rand) : list (list Z) :=
  [[d_r rd]; [d_ra rd]; [d_raa rd]; [d_w rd]; [d_m4 rd]; [d_m1 rd]; [d_r1 rd]; [d_r2 rd]].
Definition sec3 (t : Z * Z * Z) : list Z := let '(a, b, c) := t in [a; b; c].
Definition sec4 (t : Z * Z * Z * Z) : list Z := let '(a, b, c, d) := t in [a; b; c; d].
Definition sec_of (rd : range_rand) : list Z := sec3 (d_el rd) ++ sec4 (d_sq1 rd) ++ sec4 (d_sq2 rd).

(* dict {0: a, 1: b, 2: c, 3: d} of the bit-pair aggregate as the hand model's record *)
Definition rm_lookup (m : relmap) (k : Z) : res Z :=
  if (k =? 0) || (k =? 1) || (k =? 2) || (k =? 3) then Ok (rget m k) else Raise KeyError.

(* ---- bonehexact: floats are read as exact rationals, dicts {0:_,1:_,2:_,3:_} as relmap ---- *)
From Coq Require Import QArith.
Open Scope Z_scope.
Definition qdiv (a b : Q) : res Q := if Qeq_bool b 0%Q then Raise ZeroDivisionError else Ok (a / b)%Q.

(* `for k, v in m.items(): body` with one accumulator: the body answers inl r (`return r`) or inr acc (next round) *)
Fixpoint for_items_keys (ks : list Z) (m : relmap) (body : Z -> Z -> Q -> res (Q + Q)) (acc : Q) : res (Q + Q) :=
  match ks with
  | [] => Ok (inr acc)
  | k :: tl => bind (body k (rget m k) acc) (fun r => match r with inl x => Ok (inl x) | inr acc' => for_items_keys tl m body acc' end)
  end.
Definition for_items (m : relmap) (body : Z -> Z -> Q -> res (Q + Q)) (acc : Q) : res (Q + Q) :=
  for_items_keys [0%Z; 1%Z; 2%Z; 3%Z] m body acc.

(* `out = rndint(); while c(out): out = rndint()` with rndint = lambda: <draw> % m : the first draw of the queue
   (reduced modulo m) for which c is false; an exhausted queue is OutOfFuel *)
Fixpoint draw_while (c : Z -> bool) (q : list Z) (m : Z) : res Z :=
  match q with
  | [] => Raise OutOfFuel
  | d :: q' => if m =? 0 then Raise ZeroDivisionError
               else if c (d mod m) then draw_while c q' m else Ok (d mod m)
  end.
