(* Receive path: Endpoint.notify_listeners / _deliver_later, Community.on_packet,
   PythonCryptoEndpoint.on_packet / process_cell / relay_cell (control flow and every index /
   unpack operation; handler bodies and cell cryptography are oracles).  Follows the code after
   the `fix:` commits 9e353e6 and b0f344e.  No proofs here. *)
From Coq Require Import ZArith List Bool Lia.
From IPV8V Require Import lib.PyErr lib.Bytes lib.BE.
Import ListNotations.
Open Scope Z_scope.

Record community := mkComm { c_prefix : bytes; c_ids : list Z }.
Record relay := mkRelay { r_next : Z; r_early_count : Z; r_rendezvous : bool }.

Inductive listener :=
| LComm (c : community)
| LCrypto (c : community) (attached : bool) (max_early : Z) (relays : list (Z * relay)).

Inductive ev :=
| Delivered (i : nat)                       (* listener i's on_packet was called *)
| Entered (i : nat) (mid : Z) (d : bytes)   (* a message handler of overlay i was invoked with d *)
| Relayed (i : nat) (cid : Z) (msg : bytes).

Fixpoint assoc {A} (k : Z) (l : list (Z * A)) : option A :=
  match l with [] => None | (k', v) :: tl => if k =? k' then Some v else assoc k tl end.

Definition starts_with (p d : bytes) : bool := bytes_eqb p (firstn (length p) d).

Definition to_bin (prefix : bytes) (cid : Z) (plaintext early : bool) (msg : bytes) : bytes :=
  prefix ++ [0] ++ be_encode 4 cid ++ [if plaintext then 1 else 0] ++ [if early then 1 else 0] ++ msg.

Section Recv.
(* oracles: outcome of a handler body; incoming_crypto; the crypto step of relay_cell *)
Variable handler : nat -> Z -> bytes -> res unit.
Variable incoming : Z -> bool -> bytes -> option bytes.
Variable relay_crypto : Z -> bytes -> option bytes.

Definition community_on_packet (i : nat) (c : community) (data : bytes) : res (list ev) :=
  if negb (bytes_eqb (c_prefix c) (slice data None (Some 22))) || (blen data <? 23) then Ok []
  else
    do mid <- idx data 22;
    (* decode_map is a list of 256 entries and mid is a byte *)
    if (mid <? 0) || (255 <? mid) then Raise IndexError
    else if existsb (Z.eqb mid) (c_ids c) then
      (* try: handler(...) except Exception: log *)
      do _ <- try_catch (handler i mid data) (fun _ => Ok tt);
      Ok [Entered i mid data]
    else Ok [].

Definition relay_cell (i : nat) (relays : list (Z * relay)) (max_early : Z)
           (cid : Z) (plaintext early : bool) (msg : bytes) : res (list ev) :=
  if plaintext then Ok []
  else match assoc cid relays with
       | None => Raise KeyError
       | Some nxt =>
           if early && (max_early <=? r_early_count nxt) then Ok []
           else
             do _ <- (if r_rendezvous nxt
                      then match assoc (r_next nxt) relays with None => Raise KeyError | Some _ => Ok tt end
                      else Ok tt);
             match relay_crypto cid msg with
             | None => Ok []
             | Some m' => Ok [Relayed i (r_next nxt) m']
             end
       end.

Definition process_cell (i : nat) (c : community) (attached : bool) (max_early : Z)
           (relays : list (Z * relay)) (data : bytes) : res (list ev) :=
  if blen data <? 29 then Ok []
  else
    do cid <- unpack_u 4 data 23;
    do pt <- unpack_u 1 data 27;
    do re <- unpack_u 1 data 28;
    let plaintext := negb (pt =? 0) in
    let early := negb (re =? 0) in
    let msg := slice data (Some 29) None in
    match assoc cid relays with
    | Some _ => relay_cell i relays max_early cid plaintext early msg
    | None =>
        match incoming cid plaintext msg with
        | None => Ok []
        | Some m =>
            if (length m =? 0)%nat then Ok []
            else
              do m0 <- idx m 0;
              if (negb early && (m0 =? 4)) || (max_early <=? 0) then Ok []
              else if plaintext && negb ((m0 =? 2) || (m0 =? 3)) then Ok []
              else if negb attached then Ok []
              else community_on_packet i c (to_bin (c_prefix c) cid plaintext early m)
        end
    end.

Definition crypto_on_packet (i : nat) (c : community) (attached : bool) (max_early : Z)
           (relays : list (Z * relay)) (data : bytes) : res (list ev) :=
  if starts_with (c_prefix c) data && (22 <? blen data)
  then
    do b <- idx data 22;
    if b =? 0 then process_cell i c attached max_early relays data
    else if attached then community_on_packet i c data else Ok []
  else if attached then community_on_packet i c data else Ok [].

Definition on_packet (i : nat) (l : listener) (data : bytes) : res (list ev) :=
  match l with
  | LComm c => community_on_packet i c data
  | LCrypto c a m r => crypto_on_packet i c a m r data
  end.

(* Endpoint: listeners are identified by their index *)
Record endpoint := mkEp {
  ep_open : bool;
  ep_listeners : list (nat * listener);
  ep_pmap : list (bytes * list (nat * listener))
}.

Fixpoint pmap_get (p : bytes) (m : list (bytes * list (nat * listener))) : option (list (nat * listener)) :=
  match m with [] => None | (k, v) :: tl => if bytes_eqb p k then Some v else pmap_get p tl end.

Definition selected (ep : endpoint) (data : bytes) : list (nat * listener) :=
  match pmap_get (slice data None (Some 22)) (ep_pmap ep) with
  | Some ls => ls
  | None => ep_listeners ep
  end.

Definition deliver_later (ep : endpoint) (il : nat * listener) (data : bytes) : res (list ev) :=
  if ep_open ep
     && (match pmap_get (slice data None (Some 22)) (ep_pmap ep) with Some _ => true | None => false end
         || existsb (fun jl => Nat.eqb (fst jl) (fst il)) (ep_listeners ep))
  then do evs <- on_packet (fst il) (snd il) data; Ok (Delivered (fst il) :: evs)
  else Ok [].

(* the for loop of notify_listeners: an exception aborts the loop and propagates *)
Fixpoint deliver_all (ep : endpoint) (ls : list (nat * listener)) (data : bytes) : res (list ev) :=
  match ls with
  | [] => Ok []
  | il :: tl => do a <- deliver_later ep il data; do b <- deliver_all ep tl data; Ok (a ++ b)
  end.

Definition notify (ep : endpoint) (data : bytes) : res (list ev) := deliver_all ep (selected ep data) data.

End Recv.
