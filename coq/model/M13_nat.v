(* C13 - executable model, no proofs.
   (i)   a NAT network: hosts, sites (Open = directly on the internet, or a cone NAT box of one of three
         filtering disciplines) with endpoint-independent mapping, LAN delivery inside a site, no
         hairpinning;
   (ii)  the introduction protocol of ipv8/community.py as per-node transition functions
         (on_introduction_request / create_introduction_response / get_peer_for_introduction,
          on_introduction_response, on_puncture_request, on_puncture, walk_to,
          send_introduction_request) over the peer bookkeeping of peer.py / peerdiscovery/network.py that
         these handlers use (address slots of a Peer, add_verified_peer, discover_address,
         get_walkable_addresses, is_new_style);
   (iii) worlds (network + nodes + FIFO datagram queue + log), scripted operations, the C13 scenario and
         its observation / `holds` predicate.
   IPv4 only (no interface switching), authentic senders (signatures are C01's subject), fewer than
   max_peers peers, empty blacklists. *)
From Coq Require Import ZArith List Bool.
From IPV8V Require Import lib.PyErr gen.G13_lan.
Import ListNotations.
Open Scope Z_scope.

(* ------------------------------------------------------------------------------------------ addresses *)
Definition addr := (Z * Z)%type.          (* (32-bit IPv4 number, port) *)
Definition addr_eqb (a b : addr) : bool := (fst a =? fst b) && (snd a =? snd b).
Definition zero_addr : addr := (0, 0).
Definition ip4 (a b c d : Z) : Z := ((a * 256 + b) * 256 + c) * 256 + d.

(* EndpointListener._address_in_subnet / address_in_lan_subnets (table translated: gen/G13_lan.v) *)
Definition in_subnet (ip : Z) (s : Z * Z) : bool :=
  Z.shiftr ip (32 - snd s) =? Z.shiftr (fst s) (32 - snd s).
Definition in_lan_subnets (ip : Z) : bool := existsb (in_subnet ip) lan_subnets.

Definition addr_leb (a b : addr) : bool :=
  (fst a <? fst b) || ((fst a =? fst b) && (snd a <=? snd b)).
Fixpoint addr_insert (a : addr) (l : list addr) : list addr :=
  match l with
  | [] => [a]
  | b :: tl => if addr_leb a b then a :: l else b :: addr_insert a tl
  end.
Definition addr_sort (l : list addr) : list addr := fold_right addr_insert [] l.

(* ------------------------------------------------------------------------------------------ NAT network *)
Inductive nat_type := Open | FullCone | AddrRestricted | PortRestricted.
Definition nat_type_eqb (a b : nat_type) : bool :=
  match a, b with
  | Open, Open | FullCone, FullCone | AddrRestricted, AddrRestricted | PortRestricted, PortRestricted => true
  | _, _ => false
  end.
Definition is_open (t : nat_type) : bool := nat_type_eqb t Open.

Record host := mkHost { h_id : Z; h_lan : addr; h_site : Z }.
Record site := mkSite { s_id : Z; s_type : nat_type; s_pub : Z;
                        s_maps : list (addr * Z);      (* lan address -> external port *)
                        s_next : Z;                    (* next external port to allocate *)
                        s_filt : list (Z * addr) }.    (* (external port, remote address) contacted *)
Record net := mkNet { hosts : list host; sites : list site }.

Inductive drop := NoRouteLan | Hairpin | NoMapping | Filtered | NoHost | NoRoute | NoSender.
Inductive outcome := Deliver (h : Z) (src : addr) | Drop (d : drop).

Definition find_host (n : net) (id : Z) : option host := find (fun h => h_id h =? id) (hosts n).
Definition find_site (n : net) (id : Z) : option site := find (fun s => s_id s =? id) (sites n).
Definition site_type (n : net) (id : Z) : nat_type :=
  match find_site n id with Some s => s_type s | None => Open end.

Definition map_lookup (a : addr) (m : list (addr * Z)) : option Z :=
  match find (fun e => addr_eqb (fst e) a) m with Some e => Some (snd e) | None => None end.
Definition map_rev (p : Z) (m : list (addr * Z)) : option addr :=
  match find (fun e => snd e =? p) m with Some e => Some (fst e) | None => None end.

Definition filter_ok (t : nat_type) (f : list (Z * addr)) (port : Z) (src : addr) : bool :=
  match t with
  | Open | FullCone => true
  | AddrRestricted => existsb (fun e => (fst e =? port) && (fst (snd e) =? fst src)) f
  | PortRestricted => existsb (fun e => (fst e =? port) && addr_eqb (snd e) src) f
  end.

(* a datagram with (translated) source `src` travelling over the public internet to `dst` *)
Definition internet (n : net) (src dst : addr) : outcome :=
  match find (fun h => is_open (site_type n (h_site h)) && addr_eqb (h_lan h) dst) (hosts n) with
  | Some h => Deliver (h_id h) src
  | None =>
      match find (fun s => negb (is_open (s_type s)) && (s_pub s =? fst dst)) (sites n) with
      | None => Drop NoRoute
      | Some s =>
          if fst src =? s_pub s then Drop Hairpin
          else match map_rev (snd dst) (s_maps s) with
               | None => Drop NoMapping
               | Some lan =>
                   if filter_ok (s_type s) (s_filt s) (snd dst) src then
                     match find (fun h => (h_site h =? s_id s) && addr_eqb (h_lan h) lan) (hosts n) with
                     | Some h => Deliver (h_id h) src
                     | None => Drop NoHost
                     end
                   else Drop Filtered
               end
      end
  end.

Definition set_site (n : net) (s : site) : net :=
  mkNet (hosts n) (map (fun x => if s_id x =? s_id s then s else x) (sites n)).

Definition filt_add (e : Z * addr) (f : list (Z * addr)) : list (Z * addr) :=
  if existsb (fun x => (fst x =? fst e) && addr_eqb (snd x) (snd e)) f then f else f ++ [e].

(* host `hid` sends one datagram to `dst` *)
Definition route (n : net) (hid : Z) (dst : addr) : net * outcome :=
  match find_host n hid with
  | None => (n, Drop NoSender)
  | Some h =>
      match find_site n (h_site h) with
      | None => (n, Drop NoSender)
      | Some s =>
          if is_open (s_type s) then (n, internet n (h_lan h) dst)
          else
            match find (fun h2 => (h_site h2 =? s_id s) && addr_eqb (h_lan h2) dst) (hosts n) with
            | Some h2 => (n, Deliver (h_id h2) (h_lan h))
            | None =>
                if in_lan_subnets (fst dst) then (n, Drop NoRouteLan)
                else
                  let '(ext, maps', next') :=
                    match map_lookup (h_lan h) (s_maps s) with
                    | Some p => (p, s_maps s, s_next s)
                    | None => (s_next s, s_maps s ++ [(h_lan h, s_next s)], s_next s + 1)
                    end in
                  let s' := mkSite (s_id s) (s_type s) (s_pub s) maps' next' (filt_add (ext, dst) (s_filt s)) in
                  let n' := set_site n s' in
                  (n', internet n' (s_pub s, ext) dst)
            end
      end
  end.

(* the address under which the internet sees a host (None while a NATted host has no mapping) *)
Definition external (n : net) (hid : Z) : option addr :=
  match find_host n hid with
  | None => None
  | Some h =>
      match find_site n (h_site h) with
      | None => None
      | Some s => if is_open (s_type s) then Some (h_lan h)
                  else match map_lookup (h_lan h) (s_maps s) with
                       | Some p => Some (s_pub s, p)
                       | None => None
                       end
      end
  end.

(* the NAT box forgets a host's mapping (expiry / reboot): its next outbound packet gets a new external
   port, and the pinholes of the old one are gone *)
Definition rebind (n : net) (hid : Z) : net :=
  match find_host n hid with
  | None => n
  | Some h =>
      match find_site n (h_site h) with
      | None => n
      | Some s =>
          match map_lookup (h_lan h) (s_maps s) with
          | None => n
          | Some p =>
              set_site n (mkSite (s_id s) (s_type s) (s_pub s)
                                 (filter (fun e => negb (addr_eqb (fst e) (h_lan h))) (s_maps s))
                                 (s_next s)
                                 (filter (fun e => negb (fst e =? p)) (s_filt s)))
          end
      end
  end.

(* a sequence of sends (Some dst) and mapping losses (None): differential test of the two NAT
   implementations *)
Fixpoint route_seq (n : net) (l : list (Z * option addr)) : list outcome :=
  match l with
  | [] => []
  | (h, Some d) :: tl => let '(n', o) := route n h d in o :: route_seq n' tl
  | (h, None) :: tl => route_seq (rebind n h) tl
  end.

(* ------------------------------------------------------------------------------------------ messages *)
Inductive msg :=
| IntroReq (new : bool) (key : Z) (dest slan swan : addr) (sup : bool) (ident : Z)
| IntroResp (new : bool) (key : Z) (dest slan swan ilan iwan : addr) (sup inew : bool) (ident : Z)
| PunctReq (new : bool) (lanw wanw : addr) (ident : Z)          (* unsigned: no sender identity *)
| Punct (new : bool) (key : Z) (slan swan : addr) (ident : Z).

(* ------------------------------------------------------------------------------------------ node state *)
(* Peer: _addresses[UDPv4Address] (always present for a peer that was heard from), _addresses[UDPv4LANAddress],
   new_style_intro.  Peer.address is the UDPv4Address slot (INTERFACE_ORDER never selects the LAN slot). *)
Record peer := mkPeer { p_key : Z; p_v4 : addr; p_lan : option addr; p_new : bool }.

Record node := mkNode {
  n_key : Z;                                   (* identity (public key), also the host id *)
  n_lan : addr;                                (* my_estimated_lan; its ip is the machine's interface address *)
  n_wan : addr;                                (* my_estimated_wan *)
  n_gt : Z;                                    (* lamport clock of my_peer *)
  n_sel : Z;                                   (* oracle for random.choice: index (mod length) into the
                                                  candidates sorted by key *)
  n_peers : list peer;                         (* verified peers (all with the community's service), by key *)
  n_addrs : list (addr * (option Z * bool))    (* Network._all_addresses: introducer (None = b""), new_style *)
}.

Definition set_peers (n : node) (ps : list peer) : node :=
  mkNode (n_key n) (n_lan n) (n_wan n) (n_gt n) (n_sel n) ps (n_addrs n).
Definition set_addrs (n : node) (a : list (addr * (option Z * bool))) : node :=
  mkNode (n_key n) (n_lan n) (n_wan n) (n_gt n) (n_sel n) (n_peers n) a.
Definition set_wan (n : node) (w : addr) : node :=
  mkNode (n_key n) (n_lan n) w (n_gt n) (n_sel n) (n_peers n) (n_addrs n).
Definition set_gt (n : node) (g : Z) : node :=
  mkNode (n_key n) (n_lan n) (n_wan n) g (n_sel n) (n_peers n) (n_addrs n).

Definition find_peer (k : Z) (l : list peer) : option peer := find (fun p => p_key p =? k) l.
Fixpoint put_peer (p : peer) (l : list peer) : list peer :=
  match l with
  | [] => [p]
  | q :: tl => if p_key q =? p_key p then p :: tl
               else if p_key p <? p_key q then p :: q :: tl
               else q :: put_peer p tl
  end.
Definition peer_addrs (p : peer) : list addr :=
  p_v4 p :: match p_lan p with Some a => [a] | None => [] end.
Definition has_addr (a : addr) (p : peer) : bool := existsb (addr_eqb a) (peer_addrs p).

Definition addrs_get (a : addr) (l : list (addr * (option Z * bool))) : option (option Z * bool) :=
  match find (fun e => addr_eqb (fst e) a) l with Some e => Some (snd e) | None => None end.
Definition addrs_mem (a : addr) (l : list (addr * (option Z * bool))) : bool :=
  match addrs_get a l with Some _ => true | None => false end.
Fixpoint addrs_set (a : addr) (v : option Z * bool) (l : list (addr * (option Z * bool))) :=
  match l with
  | [] => [(a, v)]
  | e :: tl => if addr_eqb (fst e) a then (a, v) :: tl else e :: addrs_set a v tl
  end.

(* lazy_wrapper: the peer object of a signed message (the known one gets the source address) *)
Definition touch (n : node) (key : Z) (src : addr) : peer * bool :=
  match find_peer key (n_peers n) with
  | Some p => (mkPeer (p_key p) src (p_lan p) (p_new p), true)
  | None => (mkPeer key src None false, false)
  end.

(* Network.add_verified_peer (blacklist_mids = [own mid], blacklist = []); `known`: the object is the one
   already stored, so the caller's updates are in place *)
Definition add_verified (n : node) (p : peer) (known : bool) : node :=
  if p_key p =? n_key n then n
  else if known then set_peers n (put_peer p (n_peers n))
  else
    let al := n_addrs n in
    let al' :=
      if existsb (fun a => addrs_mem a al) (peer_addrs p) then al
      else fold_left (fun acc a => if addrs_mem a acc then acc else acc ++ [(a, (None, false))])
                     (peer_addrs p) al in
    set_addrs (set_peers n (put_peer p (n_peers n))) al'.

(* Network.discover_address (the trailing add_verified_peer is a no-op for a peer that is already stored
   or is ourselves; callers below have stored it) *)
Definition discover (n : node) (introducer : Z) (a : addr) (new : bool) : node :=
  let fresh :=
    match addrs_get a (n_addrs n) with
    | None => true
    | Some (None, _) => true
    | Some (Some k, _) => match find_peer k (n_peers n) with Some _ => false | None => true end
    end in
  if fresh then set_addrs n (addrs_set a (Some introducer, new) (n_addrs n)) else n.

Definition is_new_style (n : node) (a : addr) : bool :=
  match addrs_get a (n_addrs n) with Some (_, b) => b | None => false end.

(* Network.get_walkable_addresses(community_id), sorted (the implementation returns a set order) *)
Definition walkable (n : node) : list addr :=
  addr_sort (map fst (filter (fun e => match fst (snd e) with
                                       | Some _ => negb (existsb (has_addr (fst e)) (n_peers n))
                                       | None => false
                                       end) (n_addrs n))).

Definition opt_addr (o : option addr) : addr := match o with Some a => a | None => zero_addr end.

(* on_introduction_response: which of the introduced addresses are registered for walking *)
Definition intro_selection (my_lan my_wan ilan iwan : addr) : list addr :=
  if negb (addr_eqb iwan zero_addr) && negb (fst iwan =? fst my_wan) then
    (if negb (addr_eqb ilan zero_addr) then [ilan] else []) ++ [iwan]
  else if negb (addr_eqb ilan zero_addr) && (fst iwan =? fst my_wan) then [ilan]
  else if negb (addr_eqb iwan zero_addr) then [iwan; (fst my_lan, snd iwan)]
  else [].

(* on_puncture_request: where the puncture goes *)
Definition puncture_target (my_wan lanw wanw : addr) : addr :=
  if fst wanw =? fst my_wan then lanw else wanw.

(* get_peer_for_introduction + the address fields of create_introduction_response *)
Definition intro_candidates (n : node) (src : addr) : list peer :=
  match find (has_addr src) (n_peers n) with       (* get_verified_by_address(socket_address) *)
  | Some other => filter (fun q => negb (p_key q =? p_key other)) (n_peers n)
  | None => n_peers n
  end.
Definition pick_sel (sel : Z) (l : list peer) : option peer :=
  match l with
  | [] => None
  | _ => nth_error l (Z.to_nat (sel mod Z.of_nat (length l)))
  end.
Definition pick (n : node) (l : list peer) : option peer := pick_sel (n_sel n) l.
Definition intro_fields (n : node) (c : peer) : addr * addr :=
  if fst (p_v4 c) =? fst (n_lan n)                (* address_is_lan: one of this machine's own addresses *)
  then (p_v4 c, (fst (n_wan n), snd (p_v4 c)))
  else (opt_addr (p_lan c), p_v4 c).

Definition handle (n : node) (src : addr) (m : msg) : node * list (addr * msg) :=
  match m with
  | IntroReq new key dest slan swan sup ident =>
      let '(p0, known) := touch n key src in
      let p1 := mkPeer (p_key p0) (p_v4 p0) (Some slan) (new || sup || p_new p0) in
      let n1 := add_verified n p1 known in
      let st := p_new p1 in
      match pick n1 (intro_candidates n1 src) with
      | Some c =>
          let '(ilan, iwan) := intro_fields n1 c in
          (set_gt n1 (n_gt n1 + 2),
           [(p_v4 c, PunctReq st slan src ident);
            (src, IntroResp st (n_key n1) src (n_lan n1) (n_wan n1) ilan iwan true (p_new c) ident)])
      | None =>
          (set_gt n1 (n_gt n1 + 1),
           [(src, IntroResp st (n_key n1) src (n_lan n1) (n_wan n1) zero_addr zero_addr true false ident)])
      end
  | IntroResp new key dest slan swan ilan iwan sup inew ident =>
      let '(p0, known) := touch n key src in
      let p1 := mkPeer (p_key p0) (p_v4 p0) (Some slan) (new || sup || p_new p0) in
      let n0 := if in_lan_subnets (fst dest) then n else set_wan n dest in
      let n1 := add_verified n0 p1 known in
      (fold_left (fun acc a => discover acc key a inew)
                 (intro_selection (n_lan n1) (n_wan n1) ilan iwan) n1, [])
  | PunctReq new lanw wanw ident =>
      (set_gt n (n_gt n + 1),
       [(puncture_target (n_wan n) lanw wanw, Punct new (n_key n) (n_lan n) wanw ident)])
  | Punct new key slan swan ident =>
      let '(p0, known) := touch n key src in
      ((if known then set_peers n (put_peer p0 (n_peers n)) else n), [])
  end.

(* create_introduction_request *)
Definition make_request (n : node) (dst : addr) (new : bool) : node * msg :=
  let g := n_gt n + 1 in
  (set_gt n g, IntroReq new (n_key n) dst (n_lan n) (n_wan n) false (g mod 65536)).

(* ------------------------------------------------------------------------------------------ worlds *)
Inductive event := Ev (src : Z) (dst : addr) (m : msg) (out : outcome).

Record world := mkWorld {
  w_net : net;
  w_nodes : list node;
  w_queue : list (Z * addr * msg);        (* destination host, apparent source, message *)
  w_log : list event                      (* newest first *)
}.

Definition find_node (w : world) (id : Z) : option node := find (fun n => n_key n =? id) (w_nodes w).
Definition set_node (w : world) (n : node) : world :=
  mkWorld (w_net w) (map (fun x => if n_key x =? n_key n then n else x) (w_nodes w)) (w_queue w) (w_log w).

Definition send1 (w : world) (hid : Z) (out : addr * msg) : world :=
  let '(dst, m) := out in
  let '(net', oc) := route (w_net w) hid dst in
  mkWorld net' (w_nodes w)
          (match oc with Deliver h s => w_queue w ++ [(h, s, m)] | Drop _ => w_queue w end)
          (Ev hid dst m oc :: w_log w).
Definition send_all (w : world) (hid : Z) (outs : list (addr * msg)) : world :=
  fold_left (fun acc o => send1 acc hid o) outs w.

Definition deliver_one (w : world) : world :=
  match w_queue w with
  | [] => w
  | (hid, src, m) :: tl =>
      let w1 := mkWorld (w_net w) (w_nodes w) tl (w_log w) in
      match find_node w1 hid with
      | None => w1
      | Some n => let '(n', outs) := handle n src m in send_all (set_node w1 n') hid outs
      end
  end.

Fixpoint pump (fuel : nat) (w : world) : world :=
  match fuel with
  | O => w
  | S f => match w_queue w with [] => w | _ => pump f (deliver_one w) end
  end.

Inductive op :=
| OpWalk (h : Z) (dst : addr) (style : option bool)   (* walk_to(dst) / a request of the given style *)
| OpAsk (h : Z) (key : Z)                             (* send_introduction_request(known peer) *)
| OpWalkAll (h : Z)                                   (* walk_to every walkable address, sorted *)
| OpRebind (h : Z)                                    (* the host's NAT mapping is lost *)
| OpPump.

Definition PUMP_FUEL : nat := 400.

Definition walk1 (w : world) (h : Z) (dst : addr) (style : option bool) : world :=
  match find_node w h with
  | None => w
  | Some n =>
      let st := match style with Some b => b | None => is_new_style n dst end in
      let '(n', m) := make_request n dst st in
      send1 (set_node w n') h (dst, m)
  end.

Definition step_op (w : world) (o : op) : world :=
  match o with
  | OpWalk h dst style => walk1 w h dst style
  | OpAsk h key =>
      match find_node w h with
      | None => w
      | Some n => match find_peer key (n_peers n) with
                  | None => w
                  | Some p => walk1 w h (p_v4 p) (Some (p_new p))
                  end
      end
  | OpWalkAll h =>
      match find_node w h with
      | None => w
      | Some n => fold_left (fun acc a => walk1 acc h a None) (walkable n) w
      end
  | OpRebind h => mkWorld (rebind (w_net w) h) (w_nodes w) (w_queue w) (w_log w)
  | OpPump => pump PUMP_FUEL w
  end.
Definition run_ops (w : world) (ops : list op) : world := fold_left step_op ops w.

(* ------------------------------------------------------------------------------------------ observation *)
Record obs := mkObs {
  o_events : list event;                 (* oldest first *)
  o_peers : list (Z * list Z);           (* per node: keys of get_peers(), ascending *)
  o_wans : list (Z * addr);              (* per node: my_estimated_wan *)
  o_walk : list (Z * list addr);         (* per node: walkable addresses, sorted *)
  o_quiet : bool                         (* the datagram queue is empty *)
}.
Definition observe (w : world) : obs :=
  mkObs (rev (w_log w))
        (map (fun n => (n_key n, map p_key (n_peers n))) (w_nodes w))
        (map (fun n => (n_key n, n_wan n)) (w_nodes w))
        (map (fun n => (n_key n, walkable n)) (w_nodes w))
        (match w_queue w with [] => true | _ => false end).

(* decidable equality of observations (harness plumbing) *)
Definition drop_eqb (a b : drop) : bool :=
  match a, b with
  | NoRouteLan, NoRouteLan | Hairpin, Hairpin | NoMapping, NoMapping | Filtered, Filtered
  | NoHost, NoHost | NoRoute, NoRoute | NoSender, NoSender => true
  | _, _ => false
  end.
Definition outcome_eqb (a b : outcome) : bool :=
  match a, b with
  | Deliver h s, Deliver h' s' => (h =? h') && addr_eqb s s'
  | Drop d, Drop d' => drop_eqb d d'
  | _, _ => false
  end.
Definition msg_eqb (a b : msg) : bool :=
  match a, b with
  | IntroReq n k d l w s i, IntroReq n' k' d' l' w' s' i' =>
      Bool.eqb n n' && (k =? k') && addr_eqb d d' && addr_eqb l l' && addr_eqb w w' && Bool.eqb s s' && (i =? i')
  | IntroResp n k d l w il iw s ins i, IntroResp n' k' d' l' w' il' iw' s' ins' i' =>
      Bool.eqb n n' && (k =? k') && addr_eqb d d' && addr_eqb l l' && addr_eqb w w' && addr_eqb il il'
      && addr_eqb iw iw' && Bool.eqb s s' && Bool.eqb ins ins' && (i =? i')
  | PunctReq n l w i, PunctReq n' l' w' i' => Bool.eqb n n' && addr_eqb l l' && addr_eqb w w' && (i =? i')
  | Punct n k l w i, Punct n' k' l' w' i' =>
      Bool.eqb n n' && (k =? k') && addr_eqb l l' && addr_eqb w w' && (i =? i')
  | _, _ => false
  end.
Definition event_eqb (a b : event) : bool :=
  match a, b with
  | Ev s d m o, Ev s' d' m' o' => (s =? s') && addr_eqb d d' && msg_eqb m m' && outcome_eqb o o'
  end.
Fixpoint list_eqb {A} (eqb : A -> A -> bool) (a b : list A) : bool :=
  match a, b with
  | [], [] => true
  | x :: a', y :: b' => eqb x y && list_eqb eqb a' b'
  | _, _ => false
  end.
Definition obs_eqb (a b : obs) : bool :=
  list_eqb event_eqb (o_events a) (o_events b)
  && list_eqb (fun x y => (fst x =? fst y) && list_eqb Z.eqb (snd x) (snd y)) (o_peers a) (o_peers b)
  && list_eqb (fun x y => (fst x =? fst y) && addr_eqb (snd x) (snd y)) (o_wans a) (o_wans b)
  && list_eqb (fun x y => (fst x =? fst y) && list_eqb addr_eqb (snd x) (snd y)) (o_walk a) (o_walk b)
  && Bool.eqb (o_quiet a) (o_quiet b).
