(* C16 - the correspondence interface of M16_tokentree (same cases, same flat observations) run through
   the GENERATED definitions of gen/G16_tokentree.v.  No proofs.
   unserialize_public: the generated function returns `res (tree * bool)`, so the state reached before an
   exception is not part of its result; after a raised exception the run continues from the hand model's state.
   The translated Token.unserialize has the hash width 32 of the struct format built in: cases rendered with
   short codes (c_hl <> 32) use the hand model's unserialize_public, all other operations are the generated ones. *)
From Coq Require Import ZArith List Bool Arith.
From IPV8V Require Import lib.PyErr lib.Bytes model.M16_tokentree model.M16_tokentree_gen gen.G16_tokentree.
Import ListNotations.
Open Scope Z_scope.

Section RunGen.
Variable c : case.
Let H := tbl_hash (c_htbl c).
Let V := tbl_verify (c_vtbl c).
Let PK := c_pk c.
Let SL := c_sl c.

(* enough for every loop that terminates on an acyclic store *)
Definition loop_fuel (tr : tree) (md : Z) : nat :=
  if md <? 0 then S (S (length (elements tr))) else S (Z.to_nat md).

Definition enc_res_list {A} (f : A -> list Z) (r : res (list A)) : list Z :=
  match r with Ok l => enc_list f l | Raise e => [exn_code e] end.

Definition genc_state (tr : tree) : list Z :=
  enc_list (enc_tok c) (elements tr)
  ++ match g_get_missing H V SL PK tr with
     | Ok m => enc_list enc_bytes (sort_by bytes_leb m)
     | Raise e => [exn_code e]
     end
  ++ (if c_waiting c then
        enc_list (fun p : Z * Z => [fst p; snd p])
                 (sort_by pair_leb (map (fun t => (tok_index c t, content_index c (t_content t))) (unchained tr)))
      else []).

(* (tree, answer) as the hand model reports it *)
Definition gunser (tr : tree) (s : bytes) : tree * res bool :=
  if (c_hl c =? 32)%nat then
    match g_unserialize_public H V SL PK tr s with
    | Ok (tr', b) => (tr', Ok b)
    | Raise e => (fst (unserialize_public H V (c_hl c) (c_sl c) PK tr s), Raise e)
    end
  else unserialize_public H V (c_hl c) (c_sl c) PK tr s.

Definition gstep (tr : tree) (o : op) : tree * list Z :=
  match o with
  | OGather i co =>
      let p := nth_tok c i in
      let t0 := new_token (t_prev p) (t_chash p) (t_sig p) in
      (* Token.from_database_tuple: the constructor, then receive_content when a content is given *)
      let t := match co with
               | Some j => fst (gt_receive_content H V SL PK t0 (nth j (c_contents c) []))
               | None => t0
               end in
      match g_gather_token H V SL PK (call_fuel 2 tr) tr t with
      | Raise e => (tr, [exn_code e])
      | Ok (tr', None) => (tr', [0])
      | Ok (tr', Some r) => (tr', 1 :: enc_tok c r)
      end
  | OUnser s =>
      let '(tr', r) := gunser tr s in
      (tr', match r with Ok b => 2 :: enc_bool b | Raise e => [exn_code e] end)
  end.

Fixpoint grun_ops (tr : tree) (ops : list op) : tree * list Z :=
  match ops with
  | [] => (tr, [])
  | o :: tl =>
      let '(tr1, o1) := gstep tr o in
      let '(tr2, o2) := grun_ops tr1 tl in
      (tr2, o1 ++ (if c_trace c then genc_state tr1 else []) ++ o2)
  end.

Definition gfinal_obs (tr : tree) : list Z :=
  flat_map (fun p => flat_map (fun d =>
        (match g_verify H V SL PK (loop_fuel tr d) tr p d with
         | Ok b => enc_bool b | Raise e => [exn_code e] end)
        ++ enc_res_list (enc_tok c) (g_get_root_path H V SL PK (loop_fuel tr d) tr p d))
        (c_depths c)) (c_pool c)
  ++ (match g_serialize_public H V SL PK 0 tr None with Ok b => enc_bytes b | Raise e => [exn_code e] end)
  ++ flat_map (fun p => match g_serialize_public H V SL PK (S (S (length (elements tr)))) tr (Some p) with
                        | Ok b => 1 :: enc_bytes b | Raise e => [exn_code e] end) (c_pool c)
  ++ (match g_serialize_public H V SL PK 0 tr None with
      | Raise e => [exn_code e]
      | Ok dump =>
          let '(tr2, r) := gunser (empty_tree (cap tr)) dump in
          (match r with Ok b => 2 :: enc_bool b | Raise e => [exn_code e] end) ++ genc_state tr2
      end).

Definition run_case_gen_ : list Z :=
  let '(tr, o) := grun_ops (empty_tree (c_cap c)) (c_ops c) in o ++ genc_state tr ++ gfinal_obs tr.
End RunGen.

Definition run_case_gen (c : case) : list Z := run_case_gen_ c.

(* both models on one case: the hand model's observation when the generated code agrees with it,
   otherwise a marker followed by the generated code's observation *)
Definition run_case_both (c : case) : list Z :=
  let a := run_case c in
  let b := run_case_gen c in
  if bytes_eqb a b then a else (-777) :: b.
