(* C18 (extension) - the verifier's challenge bookkeeping: AttestationCommunity.on_challenge_response
   (wallet/community.py).  State = what the handler reads and writes: the pending challenges in the request
   cache ("proving-hash": hash -> honesty_check value), whether the verification is still registered
   ("proving-attestation"), and the ProvingAttestationCache's hashed_challenges, challenges and aggregate.
   First the run-time vocabulary used by the TRANSLATED handler (gen/G18_proofs.v), then the hand model the
   theorems are proved about; proofs/P18_proofs_gen.v shows the two compute the same.  No proofs here. *)
From Coq Require Import ZArith List Bool.
From IPV8V Require Import lib.PyErr lib.Bytes.
Import ListNotations.
Open Scope Z_scope.

Section Driver.
  Variable A : Type.                 (* the aggregate (relativity map / range-proof verdicts) *)
  Variable R : Type.                 (* a challenge response as received *)

  Record vstate : Type := MkVS {
    vs_pending : list (Z * Z);       (* request_cache, prefix "proving-hash": challenge hash -> honesty_check (-1: real challenge) *)
    vs_active : bool;                (* request_cache has the "proving-attestation" cache *)
    vs_hashed : list Z;              (* proving_cache.hashed_challenges *)
    vs_chals : list bytes;           (* proving_cache.challenges *)
    vs_agg : A }.                    (* proving_cache.relativity_map *)

  Definition set_pending (s : vstate) (p : list (Z * Z)) := MkVS p (vs_active s) (vs_hashed s) (vs_chals s) (vs_agg s).
  Definition set_active (s : vstate) (b : bool) := MkVS (vs_pending s) b (vs_hashed s) (vs_chals s) (vs_agg s).
  Definition set_hashed (s : vstate) (l : list Z) := MkVS (vs_pending s) (vs_active s) l (vs_chals s) (vs_agg s).
  Definition set_chals (s : vstate) (l : list bytes) := MkVS (vs_pending s) (vs_active s) (vs_hashed s) l (vs_agg s).
  Definition set_agg (s : vstate) (a : A) := MkVS (vs_pending s) (vs_active s) (vs_hashed s) (vs_chals s) a.

  (* what leaves the handler *)
  Inductive veff : Type :=
  | VCallback (a : A)                (* proving_cache.attestation_callbacks(hash, a) *)
  | VSend (msg : Z) (c : bytes).     (* endpoint.send(peer.address, _ez_pack(prefix, msg, [auth, dist, ChallengePayload(hash, c)])) *)

  (* ---- request cache, prefix "proving-hash" ---- *)
  Fixpoint pend_get (p : list (Z * Z)) (h : Z) : option Z :=
    match p with [] => None | (k, v) :: tl => if k =? h then Some v else pend_get tl h end.
  Definition pend_has (p : list (Z * Z)) (h : Z) : bool := match pend_get p h with Some _ => true | None => false end.
  Fixpoint pend_del (p : list (Z * Z)) (h : Z) : list (Z * Z) :=
    match p with [] => [] | (k, v) :: tl => if k =? h then tl else (k, v) :: pend_del tl h end.
  (* RequestCache.pop: KeyError when absent *)
  Definition pend_pop (p : list (Z * Z)) (h : Z) : res (list (Z * Z)) :=
    if pend_has p h then Ok (pend_del p h) else Raise KeyError.
  (* RequestCache.add: an identifier that is already present is refused (logged), nothing changes *)
  Definition pend_add (p : list (Z * Z)) (h v : Z) : list (Z * Z) := if pend_has p h then p else p ++ [(h, v)].

  (* ---- python list idioms ---- *)
  Fixpoint remove_first (x : Z) (l : list Z) : list Z :=
    match l with [] => [] | y :: tl => if y =? x then tl else y :: remove_first x tl end.
  (* list.remove(x): ValueError when absent *)
  Definition list_remove (x : Z) (l : list Z) : res (list Z) :=
    if existsb (Z.eqb x) l then Ok (remove_first x l) else Raise ValueError.
  (* l.pop(0) *)
  Definition pop_front {T} (l : list T) : res (T * list T) :=
    match l with [] => Raise IndexError | x :: tl => Ok (x, tl) end.

  (* `for v in l[:]: if p(v): l.remove(v); break` - the loop variable keeps its last value afterwards
     (`cur` is its value before the loop); returns (loop variable, l afterwards) *)
  Fixpoint for_remove_first (p : bytes -> bool) (l : list bytes) (cur : option bytes) : option bytes * list bytes :=
    match l with
    | [] => (cur, [])
    | c :: tl => if p c then (Some c, tl)
                 else let '(v, tl') := for_remove_first p tl (Some c) in (v, c :: tl')
    end.

  (* `for c in l: if p(c): x = c; break` : x afterwards *)
  Definition for_find_assign (p : bytes -> bool) (l : list bytes) (x : option bytes) : option bytes :=
    match find p l with Some c => Some c | None => x end.

  (* truthiness of a `bytes | None` value *)
  Definition truthy (c : option bytes) : bool := match c with Some (_ :: _) => true | _ => false end.

  (* `while not c or has(sha1(c)): c = create_honesty_challenge(..)` over the queue of challenges that call
     produces: the first non-empty one whose hash is not pending *)
  Fixpoint fresh_honesty (sha : bytes -> Z) (p : list (Z * Z)) (q : list bytes) (cur : option bytes) : res (option bytes) :=
    if truthy cur && negb (match cur with Some c => pend_has p (sha c) | None => false end) then Ok cur
    else match q with
         | [] => Raise OutOfFuel
         | c :: q' => fresh_honesty sha p q' (Some c)
         end.

  (* sha1(x).digest() of a `bytes | None` value *)
  Definition sha_of (sha : bytes -> Z) (c : option bytes) : res Z :=
    match c with Some b => Ok (sha b) | None => Raise TypeError end.
  Definition the_bytes (c : option bytes) : res bytes :=
    match c with Some b => Ok b | None => Raise TypeError end.

  (* ================================================================ hand model of on_challenge_response *)
  Variable sha : bytes -> Z.                               (* sha1(challenge).digest(), as a number *)
  Variable proc : A -> option bytes -> R -> res A.         (* algorithm.process_challenge_response(aggregate, challenge, response) *)
  Variable hon : Z -> R -> res bool.                       (* algorithm.process_honesty_challenge(value, response) *)
  Variable empty_agg : A.                                  (* algorithm.create_certainty_aggregate(None) *)
  Variable alg_honesty : bool.                             (* algorithm.honesty_check *)

  (* step 1: find the pending challenge the answer belongs to and retire it; which challenge bytes it was *)
  Definition match_challenge (st : vstate) (hh : Z) : option bytes * vstate :=
    if existsb (Z.eqb hh) (vs_hashed st) then
      let '(c, chals') := for_remove_first (fun c => sha c =? hh) (vs_chals st) None in
      (c, set_chals (set_hashed st (remove_first hh (vs_hashed st))) chals')
    else (None, st).

  (* step 3: choose what to send next (inputs: the urandom byte was < 38, the value of choice([0,1,2]),
     the honesty challenges create_honesty_challenge would produce) *)
  Definition next_challenge (st : vstate) (hc_draw : bool) (hc_byte : Z) (hc_q : list bytes) : res (option (bytes * Z)) :=
    let honesty := alg_honesty && hc_draw in
    bind (if honesty then fresh_honesty sha (vs_pending st) hc_q None else Ok None) (fun hchal =>
      if negb honesty || (truthy hchal && match hchal with Some c => pend_has (vs_pending st) (sha c) | None => false end) then
        match find (fun c => negb (pend_has (vs_pending st) (sha c))) (vs_chals st) with
        | Some (x :: c) => Ok (Some (x :: c, -1))
        | _ => Ok None                                       (* "No more bitpairs to challenge!" *)
        end
      else match hchal with Some c => Ok (Some (c, hc_byte)) | None => Raise TypeError end).

  Definition on_challenge_response (st : vstate) (hh : Z) (resp : R) (hc_draw : bool) (hc_byte : Z) (hc_q : list bytes)
    : res (vstate * list veff) :=
    match pend_get (vs_pending st) hh with
    | None => Ok (st, [])                                   (* not one of our outstanding challenges *)
    | Some hc =>
      let st := set_pending st (pend_del (vs_pending st) hh) in
      if negb (vs_active st) then Ok (st, [])               (* the verification has ended *)
      else
        let '(challenge, st) := match_challenge st hh in
        bind (if hc <? 0 then bind (proc (vs_agg st) challenge resp) (fun a => Ok (Some (set_agg st a)))
              else bind (hon hc resp) (fun ok => Ok (if ok then Some st else None))) (fun r =>
        match r with
        | None => Ok (set_active st false, [VCallback empty_agg])        (* caught cheating: report and stop *)
        | Some st =>
          if Z.of_nat (length (vs_hashed st)) =? 0 then
            Ok (set_active st false, [VCallback (vs_agg st)])            (* completed *)
          else
            bind (next_challenge st hc_draw hc_byte hc_q) (fun nx =>
              match nx with
              | None => Ok (st, [])
              | Some (c, b) => Ok (set_pending st (pend_add (vs_pending st) (sha c) b), [VSend 3 c])
              end)
        end)
    end.

  (* a whole verification: the answers arrive in any order, possibly repeated *)
  Fixpoint run_with (stepf : vstate -> Z -> R -> bool -> Z -> list bytes -> res (vstate * list veff))
           (st : vstate) (answers : list (Z * R * (bool * Z * list bytes))) : res (vstate * list veff) :=
    match answers with
    | [] => Ok (st, [])
    | (hh, resp, (d, b, q)) :: tl =>
        bind (stepf st hh resp d b q) (fun r =>
        bind (run_with stepf (fst r) tl) (fun r' => Ok (fst r', snd r ++ snd r')))
    end.
  Definition run_responses := run_with on_challenge_response.
  (* ---- vocabulary of the theorems ---- *)
  (* the two lists of the proving cache describe the same outstanding challenges, with distinct hashes *)
  Definition vs_ok (st : vstate) : Prop := NoDup (vs_hashed st) /\ map sha (vs_chals st) = vs_hashed st.
  (* every challenge has been sent and none answered yet (attestations of at most 10 bit pairs start like this) *)
  Definition all_outstanding (st : vstate) : Prop := forall h, In h (vs_hashed st) -> pend_get (vs_pending st) h = Some (-1).
  (* the aggregate obtained by counting the answers in their order of arrival, each with the challenge of its hash *)
  Fixpoint fold_answers (chals : list bytes) (a : A) (answers : list (Z * R)) : res A :=
    match answers with
    | [] => Ok a
    | (hh, resp) :: tl => bind (proc a (find (fun c => sha c =? hh) chals) resp) (fun a' => fold_answers chals a' tl)
    end.
End Driver.

Arguments MkVS {A}. Arguments vs_pending {A}. Arguments vs_active {A}. Arguments vs_hashed {A}.
Arguments vs_chals {A}. Arguments vs_agg {A}.
Arguments set_pending {A}. Arguments set_active {A}. Arguments set_hashed {A}. Arguments set_chals {A}. Arguments set_agg {A}.
Arguments VCallback {A}. Arguments VSend {A}.
Arguments match_challenge {A}. Arguments next_challenge {A}. Arguments on_challenge_response {A R}. Arguments run_responses {A R}. Arguments run_with {A R}.
Arguments vs_ok {A}. Arguments all_outstanding {A}. Arguments fold_answers {A R}.
