(* Tunnel data plane: PythonCryptoEndpoint (send_cell, process_cell, relay_cell, outgoing_crypto,
   incoming_crypto, encrypt_cell, decrypt_cell), CellPayload (to_bin, from_bin, unwrap),
   TunnelCommunity (send_cell, send_data, on_cell, on_packet_from_circuit, on_data, exit_data,
   on_ping, on_pong, on_test_request, on_test_response) and TunnelExitSocket.tunnel_data, transcribed
   function by function.  The AEAD (ipv8_rust_tunnels.SessionKeys.encrypt_str / decrypt_str) is a
   Section variable.  Payload (de)serialisation is the wire model of C02 (model/M02_wire.v).
   Follows the code after the `fix:` commit "a cell that fails authenticated decryption raises
   RuntimeError out of the receive path" (decrypt_cell turns every failure of decrypt_str into a
   CryptoException, i.e. a dropped cell), "a cell for a rendezvous relay whose other half was removed raises
   KeyError" and "circuit control messages returned through an exit are executed by the circuit's originator"
   (data_message_ids).  Statistics (bytes_up / bytes_down / last_activity) are not
   modelled.  No proofs here. *)
From Coq Require Import ZArith List Bool Lia.
From IPV8V Require Import lib.PyErr lib.Bytes lib.BE model.M02_wire model.M03_recv.
Import ListNotations.
Open Scope Z_scope.

Inductive dir := FORWARD | BACKWARD.                       (* tunnel.py: 0 / 1 *)
Inductive ctype := CT_DATA | CT_IP_SEEDER | CT_RP_SEEDER | CT_RP_DOWNLOADER.

Definition dir_eqb (a b : dir) : bool :=
  match a, b with FORWARD, FORWARD | BACKWARD, BACKWARD => true | _, _ => false end.
Definition ctype_eqb (a b : ctype) : bool :=
  match a, b with
  | CT_DATA, CT_DATA | CT_IP_SEEDER, CT_IP_SEEDER | CT_RP_SEEDER, CT_RP_SEEDER
  | CT_RP_DOWNLOADER, CT_RP_DOWNLOADER => true
  | _, _ => false
  end.

(* ---- dict[int, X] as association lists (first binding wins; keys kept unique by upd) ---- *)
Fixpoint upd {A} (k : Z) (v : A) (l : list (Z * A)) : list (Z * A) :=
  match l with
  | [] => [(k, v)]
  | (k', v') :: tl => if k =? k' then (k, v) :: tl else (k', v') :: upd k v tl
  end.
Fixpoint del {A} (k : Z) (l : list (Z * A)) : list (Z * A) :=
  match l with
  | [] => []
  | (k', v') :: tl => if k =? k' then del k tl else (k', v') :: del k tl
  end.
Definition has {A} (k : Z) (l : list (Z * A)) : bool :=
  match assoc k l with Some _ => true | None => false end.

(* ---- addresses: the wire model's addr; ("0.0.0.0", 0) ---- *)
Definition null_addr : addr := A4 [0; 0; 0; 0] 0.
(* destination != ("0.0.0.0", 0): namedtuple equality is tuple equality, so a DomainAddress
   ("0.0.0.0", 0) is the null address too; an IPv6 text form never equals "0.0.0.0" *)
Definition is_null (a : addr) : bool :=
  match a with
  | A4 ip p => bytes_eqb ip [0; 0; 0; 0] && (p =? 0)
  | A6 _ _ => false
  | ADom h p => bytes_eqb h [48; 46; 48; 46; 48; 46; 48] && (p =? 0)
  end.
(* a[0] == b[0] : same host part *)
Definition ip_eqb (a b : addr) : bool :=
  match a, b with
  | A4 i _, A4 j _ | A6 i _, A6 j _ | ADom i _, ADom j _ => bytes_eqb i j
  | _, _ => false
  end.

(* ---- CellPayload ---- *)
Record cell := mkCell { cl_cid : Z; cl_msg : bytes; cl_plain : bool; cl_early : bool }.
Definition set_msg (c : cell) (m : bytes) : cell := mkCell (cl_cid c) m (cl_plain c) (cl_early c).

Definition cell_to_bin (prefix : bytes) (c : cell) : bytes :=
  to_bin prefix (cl_cid c) (cl_plain c) (cl_early c) (cl_msg c).

(* CellPayload.from_bin: unpack_from("!I??", packet, 23), packet[29:] *)
Definition from_bin (data : bytes) : res cell :=
  do cid <- unpack_u 4 data 23;
  do pt <- unpack_u 1 data 27;
  do re <- unpack_u 1 data 28;
  Ok (mkCell cid (slice data (Some 29) None) (negb (pt =? 0)) (negb (re =? 0))).

(* CellPayload.unwrap: pack("!I", circuit_id) raises struct.error out of range *)
Definition unwrap (prefix : bytes) (c : cell) : res bytes :=
  if (cl_cid c <? 0) || (4294967296 <=? cl_cid c) then Raise StructError
  else Ok (prefix ++ slice (cl_msg c) (Some 0) (Some 1) ++ be_encode 4 (cl_cid c)
                  ++ slice (cl_msg c) (Some 1) None).

Definition NO_CRYPTO (mid : Z) : bool := (mid =? 2) || (mid =? 3).

(* tunnel.py PEER_FLAG_SPEED_TEST; DataChecker.could_be_ipv8:
   len(data) >= 23 and data[0:1] == b"\x00" and data[1:2] in [b"\x01", b"\x02"] *)
Definition PEER_FLAG_SPEED_TEST : Z := 8.
Definition could_be_ipv8 (data : bytes) : bool :=
  (23 <=? blen data) && bytes_eqb (slice data (Some 0) (Some 1)) [0]
  && (bytes_eqb (slice data (Some 1) (Some 2)) [1] || bytes_eqb (slice data (Some 1) (Some 2)) [2]).

(* message formats (payload.py format_list, the leading "I" is the circuit id) *)
Definition fmt_data : msgfmt := msg_of_list [FStruct [PU 4]; FAddr false; FAddr false; FRaw].
Definition fmt_ping : msgfmt := msg_of_list [FStruct [PU 4]; FStruct [PU 2]].
Definition fmt_test_request : msgfmt := msg_of_list [FStruct [PU 4]; FStruct [PU 2]; FStruct [PU 2]; FRaw].
Definition fmt_test_response : msgfmt := msg_of_list [FStruct [PU 4]; FStruct [PU 2]; FRaw].
Definition no_keys (_ : bytes) : bool := true.   (* no node-list fields in these formats *)

Section AEAD.
Variables key nonce : Type.
Variable enc : key -> dir -> nonce -> bytes -> bytes.       (* SessionKeys.encrypt_str *)
Variable dec : key -> dir -> bytes -> option bytes.         (* SessionKeys.decrypt_str; None = it raised *)

Record hop := mkHop { h_pk : Z; h_addr : addr; h_keys : option key }.
Record circuit := mkCircuit {
  c_goal : Z; c_ctype : ctype; c_hops : list hop; c_unverified : option hop;
  c_hs : option key; c_closing : bool; c_early : Z }.
Record relay_route := mkRR { rr_cid : Z; rr_hop : hop; rr_dir : dir; rr_rdv : bool; rr_early : Z }.
Record exit_sock := mkES { es_cid : Z; es_hop : hop; es_enabled : bool }.

Record node := mkNode {
  n_prefix : bytes;
  n_max_early : Z;                 (* settings.max_relay_early *)
  n_flags : list Z;                (* settings.peer_flags *)
  n_handlers : list Z;             (* keys of decode_map_private *)
  n_data_ids : list Z;             (* data_message_ids: cell messages also accepted out of a data message *)
  n_tunnel_ep : bool;              (* isinstance(self.endpoint, TunnelEndpoint) *)
  n_circuits : list (Z * circuit);
  n_relays : list (Z * relay_route);
  n_exits : list (Z * exit_sock) }.

Definition set_circuits (nd : node) cs :=
  mkNode (n_prefix nd) (n_max_early nd) (n_flags nd) (n_handlers nd) (n_data_ids nd) (n_tunnel_ep nd) cs (n_relays nd) (n_exits nd).
Definition set_relays (nd : node) rs :=
  mkNode (n_prefix nd) (n_max_early nd) (n_flags nd) (n_handlers nd) (n_data_ids nd) (n_tunnel_ep nd) (n_circuits nd) rs (n_exits nd).
Definition set_exits (nd : node) es :=
  mkNode (n_prefix nd) (n_max_early nd) (n_flags nd) (n_handlers nd) (n_data_ids nd) (n_tunnel_ep nd) (n_circuits nd) (n_relays nd) es.

(* Circuit.hop: first verified hop, else the unverified one (None.attr -> AttributeError, rendered TypeError) *)
Definition circuit_hop (c : circuit) : res hop :=
  match c_hops c with
  | h :: _ => Ok h
  | [] => match c_unverified c with Some h => Ok h | None => Raise TypeError end
  end.

(* what a node does, as seen from outside *)
Inductive action :=
| Send (dst : addr) (pkt : bytes)                          (* endpoint.send *)
| ExitSendto (cid : Z) (data : bytes) (dest : addr)        (* exit_sockets[cid].sendto(data, destination) *)
| RawData (cid : Z) (origin : addr) (data : bytes)         (* on_raw_data(circuit, origin, data) *)
| Reinject (origin : addr) (data : bytes) (cid : Z)        (* on_packet_from_circuit(origin, data, cid) from on_data *)
| NotifyOther (origin : addr) (data : bytes)               (* TunnelEndpoint.notify_listeners(.., from_tunnel=True) *)
| GotPong (src : addr) (cid ident : Z)                     (* on_pong body entered *)
| GotTestResponse (src : addr) (cid ident : Z) (data : bytes)
| Control (mid : Z) (src : addr) (cid : Z) (data : bytes)  (* another registered cell handler is called *)
| NonCell (src : addr) (data : bytes).                     (* not a cell: tunnel_community.on_packet *)

(* oracle inputs of one event: nonces used by encrypt_str in call order, os.urandom result *)
Definition shift (ns : nat -> nonce) : nat -> nonce := fun i => ns (S i).

(* ---- crypto.py ---- *)
Fixpoint encrypt_hops (d : dir) (rhops : list hop) (ns : nat -> nonce) (m : bytes) : res bytes :=
  match rhops with
  | [] => Ok m
  | h :: tl =>
      match h_keys h with
      | None => Raise CryptoError
      | Some k => encrypt_hops d tl (shift ns) (enc k d (ns O) m)
      end
  end.

(* encrypt_cell(cell, direction, *hops): for hop in reversed(hops) *)
Definition encrypt_cell (c : cell) (d : dir) (hops : list hop) (ns : nat -> nonce) : res cell :=
  if cl_plain c then Ok c
  else do m <- encrypt_hops d (rev hops) ns (cl_msg c); Ok (set_msg c m).

Fixpoint decrypt_hops (d : dir) (hops : list hop) (m : bytes) : res bytes :=
  match hops with
  | [] => Ok m
  | h :: tl =>
      match h_keys h with
      | None => Raise CryptoError
      | Some k => match dec k d m with
                  | None => Raise CryptoError
                  | Some m' => decrypt_hops d tl m'
                  end
      end
  end.

Definition decrypt_cell (c : cell) (d : dir) (hops : list hop) : res cell :=
  if cl_plain c then Ok c
  else do m <- decrypt_hops d hops (cl_msg c); Ok (set_msg c m).

(* try: ... except CryptoException: return None *)
Definition catch_crypto {A} (m : res A) : res (option A) :=
  match m with
  | Ok a => Ok (Some a)
  | Raise CryptoError => Ok None
  | Raise e => Raise e
  end.

Definition outgoing_crypto (nd : node) (c : cell) (ns : nat -> nonce) : res (option cell) :=
  let cid := cl_cid c in
  catch_crypto
    match assoc cid (n_circuits nd) with
    | Some ci =>
        match c_hs ci with
        | Some hk =>
            do h0 <- circuit_hop ci;
            do c1 <- encrypt_cell c (if ctype_eqb (c_ctype ci) CT_RP_SEEDER then FORWARD else BACKWARD)
                                  [mkHop (h_pk h0) (h_addr h0) (Some hk)] ns;
            encrypt_cell c1 FORWARD (c_hops ci) (if cl_plain c then ns else shift ns)
        | None => encrypt_cell c FORWARD (c_hops ci) ns
        end
    | None =>
        match assoc cid (n_exits nd) with
        | Some es => encrypt_cell c BACKWARD [es_hop es] ns
        | None =>
            match assoc cid (n_relays nd) with
            | Some r =>
                if rr_rdv r then encrypt_cell c BACKWARD [rr_hop r] ns
                else match assoc (rr_cid r) (n_relays nd) with
                     | None => Raise KeyError
                     | Some other => encrypt_cell c (rr_dir other) [rr_hop other] ns
                     end
            | None => Ok c
            end
        end
    end.

Definition incoming_crypto (nd : node) (c : cell) : res (option cell) :=
  let cid := cl_cid c in
  let ci := assoc cid (n_circuits nd) in
  let es := assoc cid (n_exits nd) in
  match ci, es, cl_plain c with
  | None, None, false => Ok None
  | _, _, _ =>
      catch_crypto
        match es with
        | Some e => decrypt_cell c FORWARD [es_hop e]
        | None =>
            match ci with
            | Some ci =>
                do c1 <- decrypt_cell c BACKWARD (c_hops ci);
                match c_hs ci with
                | Some hk =>
                    do h0 <- circuit_hop ci;
                    decrypt_cell c1 (if ctype_eqb (c_ctype ci) CT_RP_DOWNLOADER then FORWARD else BACKWARD)
                                 [mkHop (h_pk h0) (h_addr h0) (Some hk)]
                | None => Ok c1
                end
            | None => Ok c
            end
        end
  end.

(* PythonCryptoEndpoint.send_cell *)
Definition ep_send_cell (nd : node) (target : addr) (c : cell) (ns : nat -> nonce) : res (node * list action) :=
  let cid := cl_cid c in
  do (nd1, c1) <-
     match assoc cid (n_circuits nd) with
     | Some ci =>
         do m0 <- idx (cl_msg c) 0;
         let early := (m0 =? 4) || (c_early ci <? n_max_early nd) in
         let ci' := if early then mkCircuit (c_goal ci) (c_ctype ci) (c_hops ci) (c_unverified ci) (c_hs ci)
                                            (c_closing ci) (c_early ci + 1) else ci in
         Ok (set_circuits nd (upd cid ci' (n_circuits nd)), mkCell cid (cl_msg c) (cl_plain c) early)
     | None => Ok (nd, c)
     end;
  do oc <- outgoing_crypto nd1 c1 ns;
  match oc with
  | None => Ok (nd1, [])
  | Some c2 => Ok (nd1, [Send target (cell_to_bin (n_prefix nd1) c2)])
  end.

(* PythonCryptoEndpoint.relay_cell; called with cell.circuit_id in self.relays *)
Definition relay_cell (nd : node) (c : cell) (ns : nat -> nonce) : res (node * list action) :=
  if cl_plain c then Ok (nd, [])
  else
    match assoc (cl_cid c) (n_relays nd) with
    | None => Raise KeyError
    | Some nxt =>
        if cl_early c && (n_max_early nd <=? rr_early nxt) then Ok (nd, [])
        else
          do oc <-
            (if rr_rdv nxt then
               match assoc (rr_cid nxt) (n_relays nd) with
               | None => Ok None                       (* other half of the rendezvous relay is gone: dropped *)
               | Some this =>
                   match catch_crypto (decrypt_cell c FORWARD [rr_hop nxt]) with
                   | Raise e => Raise e
                   | Ok None => Ok None
                   | Ok (Some c1) =>
                       do oc2 <- catch_crypto (encrypt_cell c1 BACKWARD [rr_hop this] ns);
                       Ok (match oc2 with
                           | Some c2 => Some (mkCell (cl_cid c2) (cl_msg c2) (cl_plain c2) false)
                           | None => None
                           end)
                   end
               end
             else
               match rr_dir nxt with
               | FORWARD => catch_crypto (decrypt_cell c FORWARD [rr_hop nxt])
               | BACKWARD => catch_crypto (encrypt_cell c BACKWARD [rr_hop nxt] ns)
               end);
          match oc with
          | None => Ok (nd, [])
          | Some c1 =>
              let out := mkCell (rr_cid nxt) (cl_msg c1) (cl_plain c1) (cl_early c1) in
              let nxt' := mkRR (rr_cid nxt) (rr_hop nxt) (rr_dir nxt) (rr_rdv nxt) (rr_early nxt + 1) in
              Ok (set_relays nd (upd (cl_cid c) nxt' (n_relays nd)),
                  [Send (h_addr (rr_hop nxt)) (cell_to_bin (n_prefix nd) out)])
          end
    end.

(* ---- community.py ---- *)
(* TunnelCommunity.send_cell: message = pack_serializable(payload)[4:] *)
Definition send_cell (nd : node) (target : addr) (cid mid : Z) (m : msgfmt) (vals : list val)
           (ns : nat -> nonce) : res (node * list action) :=
  do packed <- pack_msg no_keys m (VInt cid :: vals);
  if (mid <? 0) || (255 <? mid) then Raise StructError
  else ep_send_cell nd target (mkCell cid (mid :: skipn 4 packed) (NO_CRYPTO mid) false) ns.

Definition send_data (nd : node) (target : addr) (cid : Z) (dest org : addr) (data : bytes)
           (ns : nat -> nonce) : res (node * list action) :=
  send_cell nd target cid 1 fmt_data [VAddr dest; VAddr org; VBytes data] ns.

(* TunnelExitSocket.tunnel_data (what datagram_received does with an allowed packet) *)
Definition tunnel_data (nd : node) (es : exit_sock) (source : addr) (data : bytes) (ns : nat -> nonce)
  : res (node * list action) :=
  send_data nd (h_addr (es_hop es)) (es_cid es) null_addr source data ns.

Definition set_enabled (nd : node) (cid : Z) (es : exit_sock) : node :=
  set_exits nd (upd cid (mkES (es_cid es) (es_hop es) true) (n_exits nd)).

(* exit_data *)
Definition exit_data (nd : node) (cid : Z) (sock_addr dest : addr) (data : bytes) : node * list action :=
  match assoc cid (n_exits nd) with
  | None => (nd, [])
  | Some es =>
      if es_enabled es then (nd, [ExitSendto cid data dest])
      else if ip_eqb sock_addr (h_addr (es_hop es)) then (set_enabled nd cid es, [ExitSendto cid data dest])
      else (nd, [])
  end.

Definition is_e2e (t : ctype) : bool := ctype_eqb t CT_RP_DOWNLOADER || ctype_eqb t CT_RP_SEEDER.

(* on_data(sock_addr, data, _): data is the unwrapped cell *)
Definition on_data (nd : node) (sock_addr : addr) (data : bytes) : res (node * list action) :=
  do (vs, _) <- unpack_msg no_keys fmt_data data 23;
  match vs with
  | [VInt cid; VAddr dest; VAddr origin; VBytes payload] =>
      let exit_branch :=
        if negb (is_null dest) then Ok (exit_data nd cid sock_addr dest payload) else Ok (nd, []) in
      match assoc cid (n_circuits nd) with
      | Some ci =>
          do h0 <- circuit_hop ci;
          if addr_eqb sock_addr (h_addr h0) then
            if could_be_ipv8 payload && negb (is_e2e (c_ctype ci)) then
              if bytes_eqb (n_prefix nd) (slice payload None (Some 22)) then
                (* only messages registered with from_data are taken from a data message; the rest is dropped *)
                do m <- idx payload 22;
                if existsb (Z.eqb m) (n_data_ids nd) then Ok (nd, [Reinject origin payload cid]) else Ok (nd, [])
              else if n_tunnel_ep nd then Ok (nd, [NotifyOther origin payload])
              else Ok (nd, [])
            else Ok (nd, [RawData cid origin payload])
          else exit_branch
      | None => exit_branch
      end
  | _ => Raise TypeError
  end.

Definition known_cid (nd : node) (cid : Z) : bool :=
  has cid (n_circuits nd) || has cid (n_exits nd) || has cid (n_relays nd).

Definition on_ping (nd : node) (src : addr) (data : bytes) (ns : nat -> nonce) : res (node * list action) :=
  do (vs, _) <- unpack_msg no_keys fmt_ping data 23;
  match vs with
  | [VInt cid; VInt ident] =>
      if negb (known_cid nd cid) then Ok (nd, [])
      else send_cell nd src cid 7 fmt_ping [VInt ident] ns
  | _ => Raise TypeError
  end.

Definition on_pong (nd : node) (src : addr) (data : bytes) : res (node * list action) :=
  do (vs, _) <- unpack_msg no_keys fmt_ping data 23;
  match vs with
  | [VInt cid; VInt ident] => Ok (nd, [GotPong src cid ident])
  | _ => Raise TypeError
  end.

(* on_test_request(source_address, data, circuit_id); rnd = os.urandom *)
Definition on_test_request (nd : node) (src : addr) (data : bytes) (cid : Z)
           (rnd : Z -> bytes) (ns : nat -> nonce) : res (node * list action) :=
  if negb (existsb (Z.eqb PEER_FLAG_SPEED_TEST) (n_flags nd)) then Ok (nd, [])
  else
    do (vs, _) <- unpack_msg no_keys fmt_test_request data 23;
    match vs with
    | [VInt _; VInt ident; VInt rsize; VBytes _] =>
        let e2e_circ := match assoc cid (n_circuits nd) with
                        | Some ci => ctype_eqb (c_ctype ci) CT_RP_SEEDER || ctype_eqb (c_ctype ci) CT_RP_DOWNLOADER
                        | None => false end in
        if negb (has cid (n_exits nd)) && negb e2e_circ then Ok (nd, [])
        else send_cell nd src cid 20 fmt_test_response [VInt ident; VBytes (rnd rsize)] ns
    | _ => Raise TypeError
    end.

Definition on_test_response (nd : node) (src : addr) (data : bytes) (cid : Z) : res (node * list action) :=
  do (vs, _) <- unpack_msg no_keys fmt_test_response data 23;
  match vs with
  | [VInt _; VInt ident; VBytes payload] =>
      if negb (has cid (n_circuits nd)) then Ok (nd, [])
      else Ok (nd, [GotTestResponse src cid ident payload])
  | _ => Raise TypeError
  end.

(* on_packet_from_circuit(source_address, data, circuit_id): the handler call sits in
   try/except Exception, so a raising handler has no visible effect here *)
Definition on_packet_from_circuit (nd : node) (src : addr) (data : bytes) (cid : Z)
           (rnd : Z -> bytes) (ns : nat -> nonce) : res (node * list action) :=
  if negb (bytes_eqb (n_prefix nd) (slice data None (Some 22))) then Ok (nd, [])
  else
    do mid <- idx data 22;
    if negb (existsb (Z.eqb mid) (n_handlers nd)) then Ok (nd, [])
    else
      try_catch
        (if mid =? 1 then on_data nd src data
         else if mid =? 6 then on_ping nd src data ns
         else if mid =? 7 then on_pong nd src data
         else if mid =? 19 then on_test_request nd src data cid rnd ns
         else if mid =? 20 then on_test_response nd src data cid
         else Ok (nd, [Control mid src cid data]))
        (fun _ => Ok (nd, [])).

(* on_cell(source_address, data) *)
Definition on_cell (nd : node) (src : addr) (data : bytes) (rnd : Z -> bytes) (ns : nat -> nonce)
  : res (node * list action) :=
  do c <- from_bin data;
  do skip <- (if cl_plain c then do m0 <- idx (cl_msg c) 0; Ok (negb (NO_CRYPTO m0)) else Ok false);
  if skip then Ok (nd, [])
  else do u <- unwrap (n_prefix nd) c; on_packet_from_circuit nd src u (cl_cid c) rnd ns.

(* Community.on_packet for a datagram carrying message id 0 (decode_map[0] = on_cell, in try/except) *)
Definition community_on_cell_packet (nd : node) (src : addr) (data : bytes) (rnd : Z -> bytes)
           (ns : nat -> nonce) : res (node * list action) :=
  if negb (bytes_eqb (n_prefix nd) (slice data None (Some 22))) || (blen data <? 23) then Ok (nd, [])
  else try_catch (on_cell nd src data rnd ns) (fun _ => Ok (nd, [])).

(* PythonCryptoEndpoint.process_cell *)
Definition process_cell (nd : node) (src : addr) (data : bytes) (rnd : Z -> bytes) (ns : nat -> nonce)
  : res (node * list action) :=
  if blen data <? 29 then Ok (nd, [])
  else
    do c <- from_bin data;
    if has (cl_cid c) (n_relays nd) then relay_cell nd c ns
    else
      do oc <- incoming_crypto nd c;
      match oc with
      | None => Ok (nd, [])
      | Some c1 =>
          if (length (cl_msg c1) =? 0)%nat then Ok (nd, [])
          else
            do m0 <- idx (cl_msg c1) 0;
            if (negb (cl_early c1) && (m0 =? 4)) || (n_max_early nd <=? 0) then Ok (nd, [])
            else if cl_plain c1 && negb (NO_CRYPTO m0) then Ok (nd, [])
            else community_on_cell_packet nd src (cell_to_bin (n_prefix nd) c1) rnd ns
      end.

(* PythonCryptoEndpoint.on_packet, reached through the endpoint's prefix map *)
Definition on_packet (nd : node) (src : addr) (data : bytes) (rnd : Z -> bytes) (ns : nat -> nonce)
  : res (node * list action) :=
  if negb (bytes_eqb (n_prefix nd) (slice data None (Some 22))) then Ok (nd, [])   (* no listener for this prefix *)
  else if (22 <? blen data) then
    do b <- idx data 22;
    if b =? 0 then process_cell nd src data rnd ns else Ok (nd, [NonCell src data])
  else Ok (nd, [NonCell src data]).

(* on_data's hand-over of a returned datagram to on_packet_from_circuit (action Reinject) happens inside the same
   call: the dispatcher runs on the returned bytes with the OUTSIDE sender as source address.  on_data returns right
   after it, with the state untouched, so the nested dispatches can be unrolled after the first-level result. *)
Fixpoint expand (fuel : nat) (rnd : Z -> bytes) (ns : nat -> nonce) {struct fuel}
  : node -> list action -> res (node * list action) :=
  fix go (nd : node) (acts : list action) {struct acts} : res (node * list action) :=
    match acts with
    | [] => Ok (nd, [])
    | Reinject origin payload cid :: tl =>
        match fuel with
        | O => do (nd2, a2) <- go nd tl; Ok (nd2, Reinject origin payload cid :: a2)
        | S f =>
            do (nd1, a1) <- on_packet_from_circuit nd origin payload cid rnd ns;
            do (nd1', a1') <- expand f rnd ns nd1 a1;
            do (nd2, a2) <- go nd1' tl;
            Ok (nd2, Reinject origin payload cid :: a1' ++ a2)
        end
    | a :: tl => do (nd2, a2) <- go nd tl; Ok (nd2, a :: a2)
    end.

Definition on_packet_rec (nd : node) (src : addr) (data : bytes) (rnd : Z -> bytes) (ns : nat -> nonce)
  : res (node * list action) :=
  do (nd1, a1) <- on_packet nd src data rnd ns; expand (length data) rnd ns nd1 a1.

End AEAD.

Arguments mkHop {key}. Arguments h_pk {key}. Arguments h_addr {key}. Arguments h_keys {key}.
Arguments mkCircuit {key}. Arguments c_goal {key}. Arguments c_ctype {key}. Arguments c_hops {key}.
Arguments c_unverified {key}. Arguments c_hs {key}. Arguments c_closing {key}. Arguments c_early {key}.
Arguments mkRR {key}. Arguments rr_cid {key}. Arguments rr_hop {key}. Arguments rr_dir {key}.
Arguments rr_rdv {key}. Arguments rr_early {key}.
Arguments mkES {key}. Arguments es_cid {key}. Arguments es_hop {key}. Arguments es_enabled {key}.
Arguments mkNode {key}. Arguments n_prefix {key}. Arguments n_max_early {key}. Arguments n_flags {key}.
Arguments n_handlers {key}. Arguments n_data_ids {key}. Arguments n_tunnel_ep {key}. Arguments n_circuits {key}.
Arguments n_relays {key}. Arguments n_exits {key}.
Arguments set_circuits {key}. Arguments set_relays {key}. Arguments set_exits {key}.
Arguments circuit_hop {key}. Arguments shift {nonce}.
Arguments encrypt_hops {key nonce}. Arguments encrypt_cell {key nonce}.
Arguments decrypt_hops {key}. Arguments decrypt_cell {key}.
Arguments outgoing_crypto {key nonce}. Arguments incoming_crypto {key}.
Arguments ep_send_cell {key nonce}. Arguments relay_cell {key nonce}.
Arguments send_cell {key nonce}. Arguments send_data {key nonce}. Arguments tunnel_data {key nonce}.
Arguments set_enabled {key}. Arguments exit_data {key}. Arguments on_data {key}. Arguments known_cid {key}.
Arguments on_ping {key nonce}. Arguments on_pong {key}. Arguments on_test_request {key nonce}.
Arguments on_test_response {key}. Arguments on_packet_from_circuit {key nonce}.
Arguments on_cell {key nonce}. Arguments community_on_cell_packet {key nonce}.
Arguments process_cell {key nonce}. Arguments on_packet {key nonce}.
Arguments expand {key nonce}. Arguments on_packet_rec {key nonce}.
