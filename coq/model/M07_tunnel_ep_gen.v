(* The TunnelEndpoint as a state machine ON TOP OF THE GENERATED DEFINITIONS of gen/G07_tunnel_ep.v (translated on
   every run from endpoint.py / community.py by tools/tr/tr_tunnel_ep.py): the same states, operations and outputs
   as the hand model model/M07_tunnel_ep.v, but every operation of the endpoint's own API is executed by the
   generated function.  What lies outside the translated set is supplied here:
     - create_circuit's effect on the circuits dict (`model_rt nh`: a fresh EXTENDING circuit towards the first hop
       `nh` the environment picked, or nothing) - as in the hand model;
     - the circuit life-cycle operations (NewCirc / AddHop / Close / Remove) are the environment: hand model;
     - Community.__init__ / TunnelCommunity.__init__ (Launch / LaunchTunnel) are not translated: their calls into
       the endpoint (set_anonymity, set_tunnel_community) are, and are composed here as those constructors do.
   No proofs here. *)
From Coq Require Import ZArith List Bool.
From IPV8V Require Import lib.PyErr lib.Bytes gen.G07_consts model.M07_tunnel_ep model.M07_tunnel_ep_rt
  gen.G07_tunnel_ep.
Import ListNotations.
Open Scope Z_scope.
Open Scope m_scope.

Definition model_rt (nh : option hop) : runtime :=
  mkRT (fun w goal ctype _ =>
          match nh with
          | Some h => mkW (w_circuits w ++ [mkCirc (w_next w) false goal ctype [] (Some h)]) (w_next w + 1)
          | None => w
          end).

(* the hand model's state, split into the endpoint object and the community's circuits *)
Definition ep_of (s : st) : ep :=
  mkEp (hops_cfg s) (if attached s then Some TheCommunity else None) (settings s) (queue s)
       (Some SEND_QUEUE_MAXLEN).
Definition w_of (s : st) : world := mkW (circuits s) (next_id s).
Definition to_st (e : ep) (w : world) : st :=
  mkSt (e_settings e) (is_some (e_tc e)) (e_hops e) (e_queue e) (w_circuits w) (w_next w).

(* the deque's maxlen is not part of the hand model's state (it is the constant SEND_QUEUE_MAXLEN there): a run of
   generated code that leaves the endpoint with a deque of another bound (or none) is not a step of the model *)
Definition bound_kept (e : ep) : bool :=
  match e_qmax e with Some n => n =? SEND_QUEUE_MAXLEN | None => false end.

Definition exec (m : M unit) (s : st) : res (st * list out) :=
  match m (mkGS (ep_of s) (w_of s) [] []) with
  | Ok (_, g) => if bound_kept (g_ep g) then Ok (to_st (g_ep g) (g_w g), g_outs g) else Raise AssertionError
  | Raise e => Raise e
  end.

(* a freshly constructed endpoint: __init__ on a blank object, no circuits *)
Definition blank : ep := mkEp 0 None [] [] None.
Definition init_gen : res (ep * world) :=
  match g_init (mkGS blank (mkW [] 0) [] []) with
  | Ok (_, g) => Ok (g_ep g, g_w g)
  | Raise e => Raise e
  end.

(* enough fuel for the flush loop: one iteration per waiting packet and the final test *)
Definition fuel_for (s : st) : nat := S (length (queue s)).

Definition step_gen (s : st) (o : op) : res (st * list out) :=
  match o with
  | Send a p nh => exec (g_send (model_rt nh) (fuel_for s) a p) s
  | SetAnon pfx b => exec (g_set_anonymity pfx b) s
  | Toggle pfx => exec (mdo cur <- settings_get pfx false; g_set_anonymity pfx (negb cur)) s
  | Attach h => exec (g_set_tunnel_community (Some TheCommunity) h) s
  | Detach => exec (g_set_tunnel_community None g_set_tunnel_community_default_hops) s
  | Launch pfx anonymize => if anonymize then exec (g_set_anonymity pfx true) s else Ok (s, [])
  | LaunchTunnel pfx =>
      exec (g_set_tunnel_community (Some TheCommunity) g_set_tunnel_community_default_hops ;;; g_set_anonymity pfx false) s
  | _ => Ok (fst (step s o), [])
  end.

(* the calls the node really makes (the hand model also emits the markers Queued / Evicted / Dropped) *)
Definition is_call (o : out) : bool :=
  match o with Raw _ _ | Tunnel _ _ _ _ _ | CreateCircuit _ _ => true | _ => false end.
Definition calls (l : list out) : list out := filter is_call l.

Fixpoint run_gen (s : st) (ops : list op) : res (list (list out * Z * Z) * st) :=
  match ops with
  | [] => Ok ([], s)
  | o :: tl =>
      match step_gen s o with
      | Raise e => Raise e
      | Ok (s1, outs) =>
          match run_gen s1 tl with
          | Raise e => Raise e
          | Ok (r, sf) => Ok ((outs, Z.of_nat (length (queue s1)), Z.of_nat (length (circuits s1))) :: r, sf)
          end
      end
  end.

(* delivery through the generated notify_listeners *)
Definition notify_gen (ls : list listener) (from_tunnel : bool) : res (list Z) :=
  match g_notify_listeners ls from_tunnel (mkGS blank (mkW [] 0) [] []) with
  | Ok (_, g) => Ok (g_delivered g)
  | Raise e => Raise e
  end.

(* ---- executable interface for the correspondence check: digest of a history, -1 if anything raised.  Same
   digest as M07.history_digest, over the real calls only. ---- *)
Definition gen_history_digest (ops : list op) : Z :=
  match init_gen with
  | Raise _ => -1
  | Ok (e0, w0) =>
      match run_gen (to_st e0 w0) ops with
      | Raise _ => -1
      | Ok (steps, sf) =>
          mix_st bytes_full
            (fold_left (fun h x => let '(outs, q, c) := x in
                                   mix (mix (fold_left (mix_out bytes_full) outs (mix h 7)) q) c) steps 0) sf
      end
  end.

Definition run_notify_gen (c : notify_case) : list Z :=
  match notify_gen (fst c) (snd c) with Ok l => l | Raise _ => [-1] end.
