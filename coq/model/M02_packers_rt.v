(* Run-time library of the translated Packer classes / Serializer methods (tools/tr/tr_packers.py ->
   gen/G02_packers.v).  Python values are M02 `val`s (as in M02_oldstyle.v, whose operations are reused); packer
   objects, Serializable classes and format-list entries have types of their own.  No proofs here.

   What is modelled, not translated (CPython / library behaviour, tied by the correspondence of C02):
   * struct.pack / unpack_from / Struct().size for literal or attribute-held format strings: a leading `>` or `!`
     is big-endian standard size; no prefix (DefaultArray's count) is native = little-endian, one field only;
     the field codecs are M02_wire's (struct_dec, be_decode, IEEE bit patterns);
   * socket.inet_aton/ntoa/pton/ntop: a textual IP address is not modelled as text but as `host4 b` / `host6 b`
     (the text of these address bytes; canonical address strings), any other host is a `VStr`;
     UDPv4Address / UDPv6Address / DomainAddress build M02's `VAddr`;
   * str.encode / bytes.decode (UTF-8, utf8_valid), array.array for the three registered item formats
     (machine order = little-endian), functools.reduce, filter(None, ..);
   * dht.routing.Node(key, address=..): `VNode`, refused (ValueError) when the key vault refuses the key;
   * a Serializable instance on the pack side is `VMsg` of its to_pack_list() tuples; on the unpack side
     from_unpack_list is the raw shim: `VMsg` of the unpack list (class glue: C02x).
   `Unmodelled` (= OutOfFuel) marks operand types outside the model and exhausted recursion fuel; it is never
   caught by a translated `except` and the theorems show it is not reached. *)
From Coq Require Import String Ascii.
From Coq Require Import ZArith List Bool.
From IPV8V Require Import lib.PyErr lib.Bytes lib.BE model.M02_wire model.M02_oldstyle.
Import ListNotations.
Open Scope Z_scope.

(* ---- objects ---- *)
Inductive packer := Pk (cls : string) (attrs : list (string * val)) (subs : list (string * packer)).
Definition pk_cls (p : packer) : string := match p with Pk c _ _ => c end.
Definition pk_attrs (p : packer) := match p with Pk _ a _ => a end.
Definition pk_subs (p : packer) := match p with Pk _ _ s => s end.

Definition pk_attr (p : packer) (n : string) : res val :=
  match alist_get n (pk_attrs p) with Some v => Ok v | None => Raise KeyError end.
Fixpoint subs_get (n : string) (l : list (string * packer)) : option packer :=
  match l with
  | [] => None
  | (k, p) :: tl => if String.eqb k n then Some p else subs_get n tl
  end.
Definition pk_sub (p : packer) (n : string) : res packer :=
  match subs_get n (pk_subs p) with Some q => Ok q | None => Raise KeyError end.

(* a Serializable class: its format_list; entries are a format name, a nested class, or [class] *)
Inductive pcls := PCls (name : string) (formats : list fent)
with fent := FeName (n : bytes) | FeClass (c : pcls) | FeList (c : pcls).
Definition cls_formats (c : pcls) : list fent := match c with PCls _ f => f end.

Definition ser := list (bytes * packer).          (* Serializer._packers, insertion order *)
Definition catchable (e : exn) : bool := negb (exn_eqb e OutOfFuel).

(* try: m except <classes in order>: ... ; `others`: except Exception *)
Definition py_try {A} (m : res A) (h : exn -> option (res A)) : res A :=
  match m with
  | Ok a => Ok a
  | Raise e => if catchable e then match h e with Some r => r | None => Raise e end else Raise e
  end.

(* dict lookup self._packers[key] *)
Fixpoint ser_find (s : ser) (n : bytes) : res packer :=
  match s with
  | [] => Raise KeyError
  | (k, p) :: tl => if bytes_eqb k n then Ok p else ser_find tl n
  end.
Definition ser_getitem (s : ser) (key : val) : res packer :=
  match key with
  | VStr n => ser_find s n
  | VList _ => Raise TypeError                      (* unhashable *)
  | VMsg _ | VNode _ _ | VFloat _ => Raise Unmodelled
  | _ => Raise KeyError
  end.
Definition ser_getitem_fent (s : ser) (key : fent) : res packer :=
  match key with
  | FeName n => ser_find s n
  | FeClass _ => Raise KeyError                     (* a class is hashable and not a key *)
  | FeList _ => Raise TypeError                     (* a list is unhashable *)
  end.
Definition fent_is_str (f : fent) : bool := match f with FeName _ => true | _ => false end.
Definition fent_is_list (f : fent) : bool := match f with FeList _ => true | _ => false end.
(* issubclass(fmt, Serializable): TypeError when fmt is not a class *)
Definition fent_issubclass (f : fent) : res bool := match f with FeClass _ => Ok true | _ => Raise TypeError end.
(* fmt[0] *)
Definition fent_first (f : fent) : res pcls :=
  match f with FeList c => Ok c | FeClass _ => Raise TypeError | FeName _ => Raise Unmodelled end.
Definition fent_cls (f : fent) : res pcls := match f with FeClass c => Ok c | _ => Raise Unmodelled end.
Definition cls_index (l : list pcls) (i : Z) : res pcls :=
  match l, i with
  | c :: _, 0 => Ok c
  | _ :: c :: _, 1 => Ok c
  | [], _ => Raise IndexError
  | _, _ => Raise Unmodelled
  end.

(* ---- integers ---- *)
Definition int2 (f : Z -> Z -> res val) (a b : val) : res val :=
  match as_int a, as_int b with
  | Some x, Some y => f x y
  | _, _ =>
    match a, b with
    | VFloat _, _ | _, VFloat _ | VMsg _, _ | _, VMsg _ | VNode _ _, _ | _, VNode _ _ => Raise Unmodelled
    | _, _ => Raise TypeError
    end
  end.
Definition py_sub := int2 (fun x y => Ok (VInt (x - y))).
Definition py_floordiv := int2 (fun x y => if y =? 0 then Raise ZeroDivisionError else Ok (VInt (x / y))).
Definition py_bitand := int2 (fun x y => Ok (VInt (Z.land x y))).
Definition py_bitor := int2 (fun x y => Ok (VInt (Z.lor x y))).
Definition py_pow := int2 (fun x y => if y <? 0 then Raise Unmodelled else Ok (VInt (x ^ y))).
(* a * b : ints; sequence repetition is not used by the packers *)
Definition py_mul (a b : val) : res val :=
  match as_int a, as_int b with
  | Some x, Some y => Ok (VInt (x * y))
  | _, _ => Raise Unmodelled
  end.
Definition cmp2 (f : Z -> Z -> bool) (a b : val) : res val :=
  match as_int a, as_int b with
  | Some x, Some y => Ok (VBool (f x y))
  | _, _ => Raise Unmodelled
  end.
Definition py_gt := cmp2 Z.gtb.
Definition py_lt := cmp2 Z.ltb.
Definition py_ge := cmp2 Z.geb.
Definition py_le := cmp2 Z.leb.
Definition py_not (v : val) : res val := do b <- py_truthy v; Ok (VBool (negb b)).

(* ---- struct ---- *)
Definition digit (c : Z) : option nat := if (48 <=? c) && (c <=? 57) then Some (Z.to_nat (c - 48)) else None.
Definition prim_of_char (c : Z) : option prim :=
  if c =? 66 then Some (PU 1) else if c =? 72 then Some (PU 2) else if c =? 73 then Some (PU 4)
  else if c =? 76 then Some (PU 4) else if c =? 81 then Some (PU 8)
  else if c =? 98 then Some (PS 1) else if c =? 104 then Some (PS 2) else if c =? 105 then Some (PS 4)
  else if c =? 108 then Some (PS 4) else if c =? 113 then Some (PS 8)
  else if c =? 63 then Some PBool else if c =? 99 then Some PChar
  else if c =? 102 then Some (PF 4) else if c =? 100 then Some (PF 8) else None.
(* <count><char>... ; `cnt` = the digits read so far *)
Fixpoint parse_items (s : bytes) (cnt : option nat) : option (list prim) :=
  match s with
  | [] => match cnt with None => Some [] | Some _ => None end
  | c :: tl =>
    match digit c with
    | Some d => parse_items tl (Some (match cnt with None => d | Some k => (10 * k + d)%nat end))
    | None =>
      if c =? 115 then                                      (* 's': one bytes field of <count> bytes *)
        match parse_items tl None with
        | Some r => Some (PBytes (match cnt with None => 1%nat | Some k => k end) :: r)
        | None => None
        end
      else
        match prim_of_char c, parse_items tl None with
        | Some p, Some r => Some (repeat p (match cnt with None => 1%nat | Some k => k end) ++ r)
        | _, _ => None
        end
    end
  end.
(* (little_endian, fields) *)
Definition parse_fmt (s : bytes) : option (bool * list prim) :=
  match s with
  | c :: tl =>
      if (c =? 62) || (c =? 33) then match parse_items tl None with Some ps => Some (false, ps) | None => None end
      else if (c =? 60) || (c =? 61) || (c =? 64) then None
      else match parse_items s None with
           | Some [p] => Some (true, [p])                  (* native: this machine, one field, no padding *)
           | _ => None
           end
  | [] => None
  end.
Definition fmt_of_val (v : val) : res (bool * list prim) :=
  match v with
  | VStr s => match parse_fmt s with Some r => Ok r | None => Raise Unmodelled end
  | _ => Raise Unmodelled
  end.

Definition py_struct_size (fmt : val) : res val :=
  do (_, ps) <- fmt_of_val fmt; Ok (VInt (Z.of_nat (struct_size ps))).

Definition nat_of_offset (off : val) : res nat :=
  match as_int off with
  | Some z => if z <? 0 then Raise Unmodelled else Ok (Z.to_nat z)   (* negative offsets count from the end: unused *)
  | None => Raise TypeError
  end.

(* struct.unpack_from(fmt, data, offset) *)
Definition py_unpack_from (fmt data off : val) : res val :=
  do (le, ps) <- fmt_of_val fmt;
  match data with
  | VBytes d =>
      do o <- nat_of_offset off;
      do bs <- take (struct_size ps) o d;
      Ok (VTuple (struct_dec ps (if le then rev bs else bs)))
  | _ => Raise TypeError
  end.

(* struct.pack(fmt, *args) *)
Definition py_pack (fmt : val) (args : list val) : res val :=
  do (le, ps) <- fmt_of_val fmt;
  do b <- spack ps args;
  Ok (VBytes (if le then rev b else b)).

(* a, b, ... = v *)
Definition py_destruct (n : nat) (v : val) : res (list val) :=
  do l <- py_iter v;
  if (length l =? n)%nat then Ok l else Raise ValueError.

(* ---- addresses ---- *)
Definition host4 (b : bytes) : val := VMsg [VInt 4; VBytes b].
Definition host6 (b : bytes) : val := VMsg [VInt 6; VBytes b].
Definition AF_INET : val := VInt 2.
Definition AF_INET6 : val := VInt 10.

Definition py_inet_ntoa (v : val) : res val :=
  match v with
  | VBytes b => if (length b =? 4)%nat then Ok (host4 b) else Raise OSError
  | _ => Raise TypeError
  end.
Definition py_inet_ntop (fam v : val) : res val :=
  match fam, v with
  | VInt 2, VBytes b => if (length b =? 4)%nat then Ok (host4 b) else Raise ValueError
  | VInt 10, VBytes b => if (length b =? 16)%nat then Ok (host6 b) else Raise ValueError
  | _, _ => Raise Unmodelled
  end.
Definition py_inet_aton (v : val) : res val :=
  match v with
  | VMsg [VInt 4; VBytes b] => Ok (VBytes b)
  | VMsg [VInt 6; VBytes _] | VStr _ => Raise OSError
  | _ => Raise TypeError
  end.
Definition py_inet_pton (fam v : val) : res val :=
  match fam, v with
  | VInt 2, VMsg [VInt 4; VBytes b] => Ok (VBytes b)
  | VInt 10, VMsg [VInt 6; VBytes b] => Ok (VBytes b)
  | VInt 2, VMsg [VInt 6; VBytes _] | VInt 2, VStr _ | VInt 10, VMsg [VInt 4; VBytes _] | VInt 10, VStr _ => Raise OSError
  | _, _ => Raise Unmodelled
  end.
(* the namedtuple constructors *)
Definition py_udp4 (host port : val) : res val :=
  match host, port with VMsg [VInt 4; VBytes b], VInt p => Ok (VAddr (A4 b p)) | _, _ => Raise Unmodelled end.
Definition py_udp6 (host port : val) : res val :=
  match host, port with VMsg [VInt 6; VBytes b], VInt p => Ok (VAddr (A6 b p)) | _, _ => Raise Unmodelled end.
Definition py_domain (host port : val) : res val :=
  match host, port with VStr s, VInt p => Ok (VAddr (ADom s p)) | _, _ => Raise Unmodelled end.

(* v[i], with address tuples: (host, port) *)
Definition pk_index (v i : val) : res val :=
  match v, as_int i with
  | VAddr a, Some k =>
      let '(h, p) := match a with A4 b p => (host4 b, p) | A6 b p => (host6 b, p) | ADom s p => (VStr s, p) end in
      if (k =? 0) || (k =? -2) then Ok h else if (k =? 1) || (k =? -1) then Ok (VInt p) else Raise IndexError
  | VMsg _, _ => Raise Unmodelled
  | _, _ => py_index v i
  end.

(* ---- text ---- *)
Definition py_encode (v : val) : res val := match v with VStr s => Ok (VBytes s) | _ => Raise Unmodelled end.
Definition py_decode (v : val) : res val :=
  match v with
  | VBytes b => if utf8_valid b then Ok (VStr b) else Raise UnicodeError
  | _ => Raise Unmodelled
  end.

(* ---- array.array ---- *)
Definition array_elem (tc : val) : res prim :=
  match tc with
  | VStr [66] => Ok (PU 1) | VStr [72] => Ok (PU 2) | VStr [73] => Ok (PU 4) | VStr [81] => Ok (PU 8)
  | VStr [113] => Ok (PS 8) | VStr [100] => Ok (PF 8)
  | _ => Raise Unmodelled
  end.
Definition py_array_itemsize (tc : val) : res val := do e <- array_elem tc; Ok (VInt (Z.of_nat (psize e))).
(* array(tc, items).tobytes(): bools are accepted where ints are (True -> 1) *)
Definition array_item (e : prim) (v : val) : res bytes :=
  match e, v with
  | PU w, VBool b => aenc e (VInt (if b then 1 else 0))
  | PF _, VInt _ | PF _, VBool _ => Raise Unmodelled
  | _, _ => match aenc e v with Ok b => Ok b | Raise _ => Raise TypeError end
  end.
Definition py_array_tobytes (tc items : val) : res val :=
  do e <- array_elem tc; do l <- py_iter items; do bs <- mapM (array_item e) l; Ok (VBytes (concat bs)).
(* a = array(tc); a.frombytes(b); the items of a *)
Definition py_array_frombytes (tc b : val) : res val :=
  do e <- array_elem tc;
  match b with
  | VBytes bs =>
      if (length bs mod psize e =? 0)%nat
      then Ok (VList (map (adec e) (chunks (psize e) (length bs / psize e) bs)))
      else Raise ValueError
  | _ => Raise TypeError
  end.

(* ---- functional helpers ---- *)
Fixpoint py_reduce (f : val -> val -> res val) (l : list val) (acc : val) : res val :=
  match l with
  | [] => Ok acc
  | x :: tl => do a <- f acc x; py_reduce f tl a
  end.
Fixpoint filter_truthy (l : list val) : res (list val) :=
  match l with
  | [] => Ok []
  | x :: tl => do b <- py_truthy x; do r <- filter_truthy tl; Ok (if b then x :: r else r)
  end.
Definition py_filter_none (v : val) : res val := do l <- py_iter v; do r <- filter_truthy l; Ok (VList r).
Definition py_list (v : val) : res val := do l <- py_iter v; Ok (VList l).

(* for x in items: state := body x state *)
Fixpoint py_for {X St} (items : list X) (body : X -> St -> res St) (s : St) : res St :=
  match items with
  | [] => Ok s
  | x :: tl => do s' <- body x s; py_for tl body s'
  end.
Fixpoint repeat_n {St} (n : nat) (body : St -> res St) (s : St) : res St :=
  match n with
  | O => Ok s
  | S n' => do s' <- body s; repeat_n n' body s'
  end.
(* for _ in range(n) *)
Definition py_repeat {St} (n : val) (body : St -> res St) (s : St) : res St :=
  match as_int n with
  | Some z => repeat_n (Z.to_nat z) body s
  | None => Raise TypeError
  end.

(* ---- nodes (dht.routing.Node) and Serializable instances ---- *)
Section Keys.
Variable key_ok : bytes -> bool.
Definition py_node_new (key addr : val) : res val :=
  match key, addr with
  | VBytes k, VAddr a => if key_ok k then Ok (VNode a k) else Raise ValueError
  | _, _ => Raise Unmodelled
  end.
End Keys.
Definition py_node_address (n : val) : res val := match n with VNode a _ => Ok (VAddr a) | _ => Raise Unmodelled end.
Definition py_node_key_bin (n : val) : res val := match n with VNode _ k => Ok (VBytes k) | _ => Raise Unmodelled end.
Definition py_to_pack_list (x : val) : res val := match x with VMsg l => Ok (VList l) | _ => Raise Unmodelled end.
Definition py_from_unpack_list (c : pcls) (ul : val) : res val := do l <- py_iter ul; Ok (VMsg l).
(* list.append / list += iterable, on a list nobody else refers to *)
Definition py_append (l x : val) : res val := match l with VList l => Ok (VList (l ++ [x])) | _ => Raise Unmodelled end.
Definition py_extend (l x : val) : res val :=
  match l with VList l => do y <- py_iter x; Ok (VList (l ++ y)) | _ => Raise Unmodelled end.
(* bytes += bytes, int += int, int |= int *)
Definition py_iadd (a b : val) : res val := match a with VList _ => py_extend a b | _ => py_add a b end.

(* f"..." : constant pieces and {int} pieces *)
Fixpoint dec_digits (fuel : nat) (n : nat) (acc : bytes) : bytes :=
  match fuel with
  | O => acc
  | S f => let acc' := (48 + Z.of_nat (n mod 10)) :: acc in
           if (n <? 10)%nat then acc' else dec_digits f (n / 10) acc'
  end.
Definition dec_of_nat (n : nat) : bytes := dec_digits (S n) n [].
Definition py_format_piece (v : val) : res bytes :=
  match v with
  | VStr s => Ok s
  | VInt z => if z <? 0 then Raise Unmodelled else Ok (dec_of_nat (Z.to_nat z))
  | _ => Raise Unmodelled
  end.
Definition py_fstring (pieces : list val) : res val := do l <- mapM py_format_piece pieces; Ok (VStr (concat l)).

(* the recursive calls of the translated methods (open recursion, closed with fuel in the generated file) *)
Record recs := {
  r_pack : packer -> list val -> res val;                                   (* p.pack( *args ) *)
  r_unpack : packer -> val -> val -> val -> list pcls -> res (val * val);   (* p.unpack(data, offset, unpack_list, *args):
                                                                               (the list after the call, returned offset) *)
  r_ser_pack : val -> val -> res val;                                       (* serializer.pack(fmt, item) *)
  r_ser_unpack : fent -> val -> val -> res val;                             (* serializer.unpack(fmt, data, offset) *)
  r_pack_serializable : val -> res val;
  r_unpack_serializable : pcls -> val -> val -> res val
}.
Definition recs_bottom : recs :=
  {| r_pack := fun _ _ => Raise OutOfFuel; r_unpack := fun _ _ _ _ _ => Raise OutOfFuel;
     r_ser_pack := fun _ _ => Raise OutOfFuel; r_ser_unpack := fun _ _ _ => Raise OutOfFuel;
     r_pack_serializable := fun _ => Raise OutOfFuel; r_unpack_serializable := fun _ _ _ => Raise OutOfFuel |}.

(* ================================================================================================
   Relation to the wire model M02_wire (definitions used by the refinement theorems; still no proofs)
   ================================================================================================ *)
Definition attr_is (p : packer) (n : string) (v : val) : bool :=
  match alist_get n (pk_attrs p) with Some w => val_eqb w v | None => false end.
Definition fmt_attr (p : packer) (n : string) : option (bool * list prim) :=
  match alist_get n (pk_attrs p) with Some (VStr s) => parse_fmt s | _ => None end.
(* a length / flags format attribute: one unsigned field of the stated byte order, with the size attribute agreeing *)
Definition len_attr (p : packer) (n sz : string) (le : bool) : option nat :=
  match fmt_attr p n with
  | Some (le', [PU lw]) => if Bool.eqb le le' && attr_is p sz (VInt (Z.of_nat lw)) then Some lw else None
  | _ => None
  end.
Definition nat_attr (p : packer) (n : string) : option nat :=
  match alist_get n (pk_attrs p) with Some (VInt z) => if 0 <=? z then Some (Z.to_nat z) else None | _ => None end.

(* the wire format a packer object stands for (what tools/vlib/wire.py reads off the live objects);
   NestedPayload needs the class it is applied to and is treated by packer_fmt below *)
Fixpoint fmt_of_packer (p : packer) : option fmt :=
  match p with
  | Pk cls attrs subs =>
    let sub := (fix find (l : list (string * packer)) : option fmt :=
                  match l with
                  | [] => None
                  | (k, q) :: tl => if String.eqb k "packer"%string then fmt_of_packer q else find tl
                  end) subs in
    if String.eqb cls "DefaultStruct"%string then
      match fmt_attr p "format_str"%string with
      | Some (false, ps) =>
          if negb (length ps =? 0)%nat && attr_is p "size"%string (VInt (Z.of_nat (struct_size ps))) then Some (FStruct ps) else None
      | _ => None
      end
    else if String.eqb cls "Bits"%string then Some FBits
    else if String.eqb cls "Raw"%string then Some FRaw
    else if String.eqb cls "IPv4"%string then Some FIPv4
    else if String.eqb cls "Address"%string then
      match alist_get "ip_only"%string attrs with Some (VBool b) => Some (FAddr b) | _ => None end
    else if String.eqb cls "VarLen"%string || String.eqb cls "VarLenUtf8"%string then
      match len_attr p "length_format"%string "length_size"%string false, nat_attr p "base"%string with
      | Some lw, Some base => Some (FVarLen lw base (String.eqb cls "VarLenUtf8"%string))
      | _, _ => None
      end
    else if String.eqb cls "ListOf"%string then
      match len_attr p "length_format"%string "length_size"%string false, sub with
      | Some lw, Some f => Some (FListOf lw f)
      | _, _ => None
      end
    else if String.eqb cls "DefaultArray"%string then
      match len_attr p "length_format"%string "length_size"%string true, alist_get "format_str"%string attrs, alist_get "real_format_str"%string attrs with
      | Some lw, Some (VStr tc), Some (VStr real) =>
          match array_elem (VStr real) with
          | Ok e' =>
              let e := if bytes_eqb tc [63] then PBool else e' in
              if attr_is p "base"%string (VInt (Z.of_nat (psize e')))
                 && (if bytes_eqb tc [63] then bytes_eqb real [66] else bytes_eqb tc real)
              then Some (FArray e lw) else None
          | Raise _ => None
          end
      | _, _, _ => None
      end
    else if String.eqb cls "Flags"%string then
      match len_attr p "format"%string "size"%string false with Some w => Some (FFlags w) | None => None end
    else if String.eqb cls "NodePacker"%string then Some FNode
    else None
  end.

Definition is_nested (p : packer) : bool := String.eqb (pk_cls p) "NestedPayload"%string.
Definition n_payload : bytes := [112; 97; 121; 108; 111; 97; 100].
Definition n_payload_list : bytes := [112; 97; 121; 108; 111; 97; 100; 45; 108; 105; 115; 116].
Definition n_ip_address : bytes := [105; 112; 95; 97; 100; 100; 114; 101; 115; 115].
Definition n_varlenH : bytes := [118; 97; 114; 108; 101; 110; 72].

(* the width of the count of "payload-list" = ListOf(NestedPayload) *)
Definition payload_list_lw (s : ser) : option nat :=
  match ser_find s n_payload_list with
  | Ok p =>
      if String.eqb (pk_cls p) "ListOf"%string then
        match len_attr p "length_format"%string "length_size"%string false, subs_get "packer"%string (pk_subs p) with
        | Some lw, Some q => if is_nested q then Some lw else None
        | _, _ => None
        end
      else None
  | Raise _ => None
  end.
(* the entries the translated Serializer and NodePacker rely on *)
Definition ser_wf (s : ser) : bool :=
  match ser_find s n_payload with Ok p => is_nested p | Raise _ => false end
  && match payload_list_lw s with Some _ => true | None => false end
  && match ser_find s n_ip_address with
     | Ok p => match fmt_of_packer p with Some (FAddr true) => true | _ => false end
     | Raise _ => false
     end
  && match ser_find s n_varlenH with
     | Ok p => match fmt_of_packer p with Some (FVarLen 2 1 false) => true | _ => false end
     | Raise _ => false
     end.

(* a packer object applied to class arguments / a format-list entry / a format list stands for a wire format *)
Inductive packer_fmt (s : ser) : packer -> list pcls -> fmt -> Prop :=
| pf_plain p cargs f : fmt_of_packer p = Some f -> packer_fmt s p cargs f
| pf_nested p c cargs m : is_nested p = true -> fents_msg s (cls_formats c) m -> packer_fmt s p (c :: cargs) (FNested m)
| pf_list p q cargs lw f :
    pk_cls p = "ListOf"%string -> len_attr p "length_format"%string "length_size"%string false = Some lw ->
    subs_get "packer"%string (pk_subs p) = Some q -> packer_fmt s q cargs f -> packer_fmt s p cargs (FListOf lw f)
with fent_fmt (s : ser) : fent -> fmt -> Prop :=
| ff_name n p f : ser_find s n = Ok p -> fmt_of_packer p = Some f -> fent_fmt s (FeName n) f
| ff_cls c m : fents_msg s (cls_formats c) m -> fent_fmt s (FeClass c) (FNested m)
| ff_list c m lw : payload_list_lw s = Some lw -> fents_msg s (cls_formats c) m -> fent_fmt s (FeList c) (FListOf lw (FNested m))
with fents_msg (s : ser) : list fent -> msgfmt -> Prop :=
| fm_nil : fents_msg s [] MNil
| fm_cons e f l m : fent_fmt s e f -> fents_msg s l m -> fents_msg s (e :: l) (MCons f m).

(* the same, computed (with fuel for the class nesting), to decide it for the live tables *)
Fixpoint msgfmt_fuel (n : nat) (s : ser) (fs : list fent) : option msgfmt :=
  match n with
  | O => None
  | S n' =>
    match fs with
    | [] => Some MNil
    | e :: tl =>
      let f := match e with
               | FeName nm => match ser_find s nm with Ok p => fmt_of_packer p | Raise _ => None end
               | FeClass c => option_map FNested (msgfmt_fuel n' s (cls_formats c))
               | FeList c =>
                   match payload_list_lw s, msgfmt_fuel n' s (cls_formats c) with
                   | Some lw, Some m => Some (FListOf lw (FNested m))
                   | _, _ => None
                   end
               end in
      match f, msgfmt_fuel n' s tl with Some f, Some m => Some (MCons f m) | _, _ => None end
    end
  end.

(* what the translated code appends to the unpack list for a wire value: `bits` appends its eight bits, a nested
   message is the raw shim of its (flat) unpack list *)
Fixpoint flat_val (f : fmt) (v : val) {struct f} : val :=
  match f, v with
  | FListOf _ f', VList l => VList (concat (map (fun x => match f', x with FBits, VTuple b => b | _, _ => [flat_val f' x] end) l))
  | FNested m, VMsg vs => VMsg (flat_msg m vs)
  | _, _ => v
  end
with flat_msg (m : msgfmt) (vs : list val) {struct m} : list val :=
  match m, vs with
  | MCons f m', v :: vs' => (match f, v with FBits, VTuple b => b | _, _ => [flat_val f v] end) ++ flat_msg m' vs'
  | _, _ => []
  end.
Definition entries (f : fmt) (v : val) : list val := match f, v with FBits, VTuple b => b | _, _ => [flat_val f v] end.

(* fuel that suffices: one unit per call through an object *)
Fixpoint need (f : fmt) : nat :=
  match f with
  | FListOf _ f' => S (need f')
  | FNested m => S (S (need_msg m))
  | FNode => 4
  | _ => 1
  end
with need_msg (m : msgfmt) : nat :=
  match m with
  | MNil => 0
  | MCons f m' => Nat.max (need f) (need_msg m')
  end.

(* "the translated function returns what the model returns": results agree through the embedding, both raise or
   neither, and the translated code never raises by leaving the modelled fragment / running out of fuel *)
Definition unpack_sim (f : fmt) (ul : list val) (g : res (val * val)) (w : res (val * nat)) : Prop :=
  match g, w with
  | Ok (l, o'), Ok (v, o) => l = VList (ul ++ entries f v) /\ o' = VInt (Z.of_nat o)
  | Raise e, Raise _ => e <> OutOfFuel
  | _, _ => False
  end.
Definition unpack_msg_sim (m : msgfmt) (g : res val) (w : res (list val * nat)) : Prop :=
  match g, w with
  | Ok r, Ok (vs, o) => r = VTuple [VMsg (flat_msg m vs); VInt (Z.of_nat o)]
  | Raise e, Raise _ => e <> OutOfFuel
  | _, _ => False
  end.

(* the registry entry (as tools/tr/tr_wire.py writes it) a live packer object stands for *)
Definition rfmt_of_packer (p : packer) : option rfmt :=
  if is_nested p then Some RPayload
  else if String.eqb (pk_cls p) "ListOf"%string
          && match subs_get "packer"%string (pk_subs p) with Some q => is_nested q | None => false end
       then option_map RPayloadList (len_attr p "length_format"%string "length_size"%string false)
       else option_map RF (fmt_of_packer p).
Definition cls_name (c : pcls) : string := match c with PCls n _ => n end.

(* Serializer.unpack_serializable_list in terms of the wire model: the classes one after the other, then either the
   remainder is appended or a non-empty remainder is an error *)
Section Seq.
Variable key_ok : bytes -> bool.
Fixpoint unpack_seq (ms : list msgfmt) (data : bytes) (off : nat) : res (list val * nat) :=
  match ms with
  | [] => Ok ([], off)
  | m :: tl => do (vs, o) <- unpack_msg key_ok m data off; do (r, o2) <- unpack_seq tl data o; Ok (VMsg (flat_msg m vs) :: r, o2)
  end.
Definition unpack_list_spec (ms : list msgfmt) (data : bytes) (off : nat) (consume_all : bool) : res val :=
  do (r, o) <- unpack_seq ms data off;
  if consume_all then (if (o <? length data)%nat then Raise PackError else Ok (VList r))
  else Ok (VList (r ++ [VBytes (skipn o data)])).
End Seq.
Definition val_sim (g w : res val) : Prop :=
  match g, w with
  | Ok a, Ok b => a = b
  | Raise e, Raise _ => e <> OutOfFuel
  | _, _ => False
  end.

(* ---- the pack side ---- *)
(* the Python arguments of packer.pack( *args ) for a model value: only the multi-field formats spread their tuple *)
Definition pargs (f : fmt) (v : val) : list val :=
  match f, v with
  | FBits, VTuple l => l
  | FStruct (_ :: _ :: _), VTuple l => l
  | _, _ => [v]
  end.
(* formats whose items a ListOf can hand to pack(item): one argument each *)
Fixpoint packable (f : fmt) : bool :=
  match f with
  | FListOf _ f' => packable f' && match f' with FBits | FStruct (_ :: _ :: _) => false | _ => true end
  | FNested _ => false
  | _ => true
  end.

(* a Serializable instance (its to_pack_list(): tuples (format name, arguments...)) of a class with format list fs,
   standing for the model values vs of the message format m *)
Inductive inst_rel (s : ser) : list fent -> msgfmt -> list val -> list val -> Prop :=
| ir_nil : inst_rel s [] MNil [] []
| ir_cons e f fs m v vs ent ents :
    entry_rel s e f v ent -> inst_rel s fs m vs ents -> inst_rel s (e :: fs) (MCons f m) (v :: vs) (ent :: ents)
with entry_rel (s : ser) : fent -> fmt -> val -> val -> Prop :=
| er_name n p f v :
    ser_find s n = Ok p -> fmt_of_packer p = Some f -> packable f = true ->
    entry_rel s (FeName n) f v (VTuple (VStr n :: pargs f v))
| er_cls c m vs ents :
    inst_rel s (cls_formats c) m vs ents ->
    entry_rel s (FeClass c) (FNested m) (VMsg vs) (VTuple [VStr n_payload; VMsg ents])
| er_list c m lw vss entss :
    payload_list_lw s = Some lw -> insts_rel s (cls_formats c) m vss entss ->
    entry_rel s (FeList c) (FListOf lw (FNested m)) (VList vss) (VTuple [VStr n_payload_list; VList entss])
with insts_rel (s : ser) : list fent -> msgfmt -> list val -> list val -> Prop :=
| is_nil fs m : insts_rel s fs m [] []
| is_cons fs m vs ents vss entss :
    inst_rel s fs m vs ents -> insts_rel s fs m vss entss -> insts_rel s fs m (VMsg vs :: vss) (VMsg ents :: entss).

Definition pack_sim (g : res val) (w : res bytes) : Prop :=
  match g, w with
  | Ok r, Ok b => r = VBytes b
  | Raise e, Raise _ => e <> OutOfFuel
  | _, _ => False
  end.

(* the arguments handed to p.pack( *args ) that stand for the model value v of format f *)
Inductive pack_rel (s : ser) : packer -> fmt -> val -> list val -> Prop :=
| pr_plain p f v : fmt_of_packer p = Some f -> packable f = true -> pack_rel s p f v (pargs f v)
| pr_nested p fs m vs ents : is_nested p = true -> inst_rel s fs m vs ents -> pack_rel s p (FNested m) (VMsg vs) [VMsg ents]
| pr_list p q lw fs m vss entss :
    pk_cls p = "ListOf"%string -> len_attr p "length_format"%string "length_size"%string false = Some lw ->
    subs_get "packer"%string (pk_subs p) = Some q -> is_nested q = true -> insts_rel s fs m vss entss ->
    pack_rel s p (FListOf lw (FNested m)) (VList vss) [VList entss].
