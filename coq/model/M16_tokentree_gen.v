(* C16 - vocabulary of the translation tools/tr/tr_tokentree.py (hand-written, fixed text).
   The generated file coq/gen/G16_tokentree.v contains only the translated bodies of the Python
   functions; what the recognised Python operations MEAN is fixed here:

     self.elements  : dict  hash -> Token, insertion ordered; the model keeps the values in order and the
                      key of a value is <value>.get_hash() (the translator aborts on any other key
                      expression in a store)                               -> d_has / d_get / d_put / d_upd
     self.unchained : OrderedDict keyed by Token objects (equality = translated __eq__), values None
                                                                           -> od_add / od_popitem_first / od_pop
     for x in xs: body         -> for_res xs body          (no break/return inside, else abort)
     while c: body ; rest      -> while_res fuel step      (break = leave to `rest`, return = leave with value)
     range(a, b, step)         -> zrange a b step          (ValueError for step 0)
     struct.unpack_from(">{a}s{b}s{c}s", data, offset=o) -> unpack_3s a b c data o   (struct.error when short)
   No proofs here. *)
From Coq Require Import ZArith List Bool Arith.
From IPV8V Require Import lib.PyErr lib.Bytes model.M16_tokentree.
Import ListNotations.
Open Scope Z_scope.

Definition set_elements (st : tree) (e : list token) : tree := mkTree e (unchained st) (cap st).
Definition set_unchained (st : tree) (u : list token) : tree := mkTree (elements st) u (cap st).
Definition set_content (t : token) (c : option bytes) : token :=
  mkToken (t_prev t) (t_chash t) (t_sig t) c.
(* Token(previous_token_hash, content_hash=.., signature=..): content is None (Token.__init__) *)
Definition new_token (prev chash sig : bytes) : token := mkToken prev chash sig None.

Definition is_none {A} (o : option A) : bool := match o with None => true | Some _ => false end.

Section Dict.
Variable kf : token -> bytes.      (* the key of a stored value *)
Definition d_has (h : bytes) (e : list token) : bool := existsb (fun x => bytes_eqb (kf x) h) e.
Definition d_get (h : bytes) (e : list token) : res token :=
  match find (fun x => bytes_eqb (kf x) h) e with Some x => Ok x | None => Raise KeyError end.
(* d[kf v] = v : an existing key keeps its position *)
Definition d_put (v : token) (e : list token) : list token :=
  if d_has (kf v) e then update_first (fun x => bytes_eqb (kf x) (kf v)) (fun _ => v) e else e ++ [v].
(* in-place mutation of the object stored under h (through a local alias of d[h]) *)
Definition d_upd (h : bytes) (f : token -> token) (e : list token) : list token :=
  update_first (fun x => bytes_eqb (kf x) h) f e.
End Dict.

Section ODict.
Variable eqf : token -> token -> bool.     (* Token.__eq__ *)
Definition od_add (t : token) (u : list token) : list token := if existsb (eqf t) u then u else u ++ [t].
Definition od_popitem_first (u : list token) : res (list token) :=
  match u with [] => Raise KeyError | _ :: tl => Ok tl end.
Definition od_pop (t : token) (u : list token) : res (list token) :=
  if existsb (eqf t) u then Ok (remove_first (eqf t) u) else Raise KeyError.
End ODict.

Fixpoint for_res {A L} (xs : list A) (body : A -> L -> res L) (l : L) : res L :=
  match xs with
  | [] => Ok l
  | x :: tl => match body x l with Raise e => Raise e | Ok l' => for_res tl body l' end
  end.

Fixpoint while_res {L R} (fuel : nat) (step : L -> res (L + R)) (l : L) : res R :=
  match fuel with
  | O => Raise OutOfFuel
  | S f => match step l with
           | Raise e => Raise e
           | Ok (inr r) => Ok r
           | Ok (inl l') => while_res f step l'
           end
  end.
Definition exit_with {L R} (m : res R) : res (L + R) :=
  match m with Ok r => Ok (inr r) | Raise e => Raise e end.
Definition continue_with {L R} (l : L) : res (L + R) := Ok (inl l).

Fixpoint zrange_up (n : nat) (a b step : Z) : list Z :=
  match n with O => [] | S n' => if a <? b then a :: zrange_up n' (a + step) b step else [] end.
Fixpoint zrange_down (n : nat) (a b step : Z) : list Z :=
  match n with O => [] | S n' => if b <? a then a :: zrange_down n' (a + step) b step else [] end.
Definition zrange (a b step : Z) : res (list Z) :=
  if step =? 0 then Raise ValueError
  else if 0 <? step then Ok (zrange_up (Z.to_nat (b - a)) a b step)
  else Ok (zrange_down (Z.to_nat (a - b)) a b step).

(* three byte-string fields of the given widths at a non-negative offset *)
Definition unpack_3s (w1 w2 w3 : Z) (data : bytes) (off : Z) : res (bytes * bytes * bytes) :=
  if (off <? 0) || (w1 <? 0) || (w2 <? 0) || (w3 <? 0) || (blen data - off <? w1 + w2 + w3)
  then Raise StructError
  else let d := skipn (Z.to_nat off) data in
       Ok (firstn (Z.to_nat w1) d,
           firstn (Z.to_nat w2) (skipn (Z.to_nat w1) d),
           firstn (Z.to_nat w3) (skipn (Z.to_nat (w1 + w2)) d)).

(* the fuel handed to a method of a recursive group (of `n` methods) when it is entered from outside:
   every turn of the recursion gather_token -> chain reaction -> gather_token removes a waiting token *)
Definition call_fuel (n : nat) (st : tree) : nat := (n * S (length (unchained st)))%nat.
