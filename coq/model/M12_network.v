(* C12 - executable model of ipv8/peerdiscovery/network.py (class Network) and of the parts of
   ipv8/peer.py it relies on (Peer equality by public key, the per-interface address dict, the
   preferred address).  No proofs here.

   Peers are Python objects: `add_verified_peer` of a second object with a known key updates the
   address dict of the first object, caches hold references.  The model therefore keeps a heap of
   peer objects (key, address dict) indexed by allocation number; every operation that receives a
   Peer argument which may be stored allocates a fresh object (the harness does the same: a fresh
   Peer per call).  Dicts / OrderedDicts are association lists in insertion order.

   The model follows the code of the *fixed* tree (see corpus/C12 for the defects of the pinned
   tree and the `fix:` commits). *)
From Coq Require Import ZArith List Bool Lia.
From IPV8V Require Import lib.PyErr lib.Bytes lib.BE model.M02_wire.
Import ListNotations.
Open Scope Z_scope.

Definition key := Z.        (* public key material; the mid (sha1 of it) is identified with it *)
Definition service := Z.    (* 20-byte service / community id *)

(* Addresses are the ones of the C02 wire model (model/M02_wire.v): A4 ip port = UDPv4Address (4 address
   bytes), A6 ip port = UDPv6Address (16 address bytes), ADom host port = DomainAddress (host name as
   its UTF-8 encoding); equality is M02_wire.addr_eqb.  A host name is assumed not to be an IP literal
   (Python compares address tuples by value: DomainAddress("1.2.3.4", 5) == UDPv4Address("1.2.3.4", 5)). *)

(* Peer.addresses : dict[type[Address], Address]; one slot per interface class *)
Record addrmap : Type := mkAm { am4 : option addr; am6 : option addr; amd : option addr }.

Definition opt_list {A} (o : option A) : list A := match o with Some a => [a] | None => [] end.
Definition am_values (m : addrmap) : list addr := opt_list (am4 m) ++ opt_list (am6 m) ++ opt_list (amd m).

(* known.addresses.update(peer.addresses) *)
Definition opt_or {A} (new old : option A) : option A := match new with Some x => Some x | None => old end.
Definition am_update (m m' : addrmap) : addrmap :=
  mkAm (opt_or (am4 m') (am4 m)) (opt_or (am6 m') (am6 m)) (opt_or (amd m') (amd m)).

(* Peer.address: INTERFACE_ORDER = [UDPv6Address, UDPv4Address, tuple, DomainAddress] (host names last,
   fix 7095a0f; plain tuples are not modelled); no address -> 0.0.0.0:0 *)
Definition null_addr : addr := A4 [0; 0; 0; 0] 0.
Definition am_preferred (m : addrmap) : addr :=
  match am6 m with
  | Some a => a
  | None => match am4 m with
            | Some a => a
            | None => match amd m with Some a => a | None => null_addr end
            end
  end.

(* WalkableAddress(introduced_by, services, new_style); introduced_by = b"" is None *)
Record walk : Type := mkWalk { w_intro : option key; w_service : option service; w_new : bool }.

(* ------------------------------------------------------------------ dicts as association lists *)
Section Dict.
  Context {K V : Type} (eqb : K -> K -> bool).

  Fixpoint d_get (k : K) (l : list (K * V)) : option V :=
    match l with
    | [] => None
    | (k', v) :: tl => if eqb k' k then Some v else d_get k tl
    end.

  Definition d_mem (k : K) (l : list (K * V)) : bool :=
    match d_get k l with Some _ => true | None => false end.

  (* d.pop(k, None) / del d[k] *)
  Definition d_del (k : K) (l : list (K * V)) : list (K * V) :=
    filter (fun kv => negb (eqb (fst kv) k)) l.

  (* d[k] = v : an existing key keeps its position, a new key goes to the end *)
  Definition d_set (k : K) (v : V) (l : list (K * V)) : list (K * V) :=
    if d_mem k l then map (fun kv => if eqb (fst kv) k then (fst kv, v) else kv) l
    else l ++ [(k, v)].
End Dict.

Definition mem_z (x : Z) (l : list Z) : bool := existsb (Z.eqb x) l.
Definition mem_addr (a : addr) (l : list addr) : bool := existsb (addr_eqb a) l.

(* `if len(cache) > size: cache.popitem(False)` *)
Definition evict {A} (cap : Z) (c : list A) : list A :=
  if Z.of_nat (length c) >? cap then tl c else c.

(* ------------------------------------------------------------------ heap of Peer objects *)
Definition obj := (key * addrmap)%type.
Definition null_obj : obj := (0, mkAm None None None).
Definition hget (h : list obj) (i : nat) : obj := nth i h null_obj.
Definition hkey (h : list obj) (i : nat) : key := fst (hget h i).
Definition haddrs (h : list obj) (i : nat) : addrmap := snd (hget h i).
Fixpoint hset (h : list obj) (i : nat) (o : obj) : list obj :=
  match h, i with
  | [], _ => []
  | _ :: tl, O => o :: tl
  | x :: tl, S i' => x :: hset tl i' o
  end.

(* ------------------------------------------------------------------ the Network object *)
Record net : Type := mkNet {
  heap : list obj;
  all_addrs : list (addr * walk);          (* _all_addresses *)
  verified : list nat;                     (* verified_peers (set of Peer, equality by key) *)
  by_key : list (key * nat);               (* verified_by_public_key_bin *)
  services : list (key * list service);    (* services_per_peer *)
  bl_addr : list addr;                     (* blacklist *)
  bl_mid : list key;                       (* blacklist_mids *)
  ip_cache : list (addr * nat);            (* reverse_ip_lookup, oldest first *)
  ip_cap : Z;
  intro_cache : list (key * list addr);    (* reverse_intro_lookup (keyed by Peer = by key) *)
  intro_cap : Z;
  svc_cache : list (service * list nat);   (* reverse_service_lookup *)
  svc_cap : Z
}.

Definition init_net (ipc intc svcc : Z) (bla : list addr) (blm : list key) : net :=
  mkNet [] [] [] [] [] bla blm [] ipc [] intc [] svcc.

Definition set_heap (n : net) (x : list obj) : net :=
  mkNet x (all_addrs n) (verified n) (by_key n) (services n) (bl_addr n) (bl_mid n)
        (ip_cache n) (ip_cap n) (intro_cache n) (intro_cap n) (svc_cache n) (svc_cap n).
Definition set_all (n : net) (x : list (addr * walk)) : net :=
  mkNet (heap n) x (verified n) (by_key n) (services n) (bl_addr n) (bl_mid n)
        (ip_cache n) (ip_cap n) (intro_cache n) (intro_cap n) (svc_cache n) (svc_cap n).
Definition set_verified (n : net) (x : list nat) : net :=
  mkNet (heap n) (all_addrs n) x (by_key n) (services n) (bl_addr n) (bl_mid n)
        (ip_cache n) (ip_cap n) (intro_cache n) (intro_cap n) (svc_cache n) (svc_cap n).
Definition set_by_key (n : net) (x : list (key * nat)) : net :=
  mkNet (heap n) (all_addrs n) (verified n) x (services n) (bl_addr n) (bl_mid n)
        (ip_cache n) (ip_cap n) (intro_cache n) (intro_cap n) (svc_cache n) (svc_cap n).
Definition set_services (n : net) (x : list (key * list service)) : net :=
  mkNet (heap n) (all_addrs n) (verified n) (by_key n) x (bl_addr n) (bl_mid n)
        (ip_cache n) (ip_cap n) (intro_cache n) (intro_cap n) (svc_cache n) (svc_cap n).
Definition set_ip_cache (n : net) (x : list (addr * nat)) : net :=
  mkNet (heap n) (all_addrs n) (verified n) (by_key n) (services n) (bl_addr n) (bl_mid n)
        x (ip_cap n) (intro_cache n) (intro_cap n) (svc_cache n) (svc_cap n).
Definition set_intro_cache (n : net) (x : list (key * list addr)) : net :=
  mkNet (heap n) (all_addrs n) (verified n) (by_key n) (services n) (bl_addr n) (bl_mid n)
        (ip_cache n) (ip_cap n) x (intro_cap n) (svc_cache n) (svc_cap n).
Definition set_svc_cache (n : net) (x : list (service * list nat)) : net :=
  mkNet (heap n) (all_addrs n) (verified n) (by_key n) (services n) (bl_addr n) (bl_mid n)
        (ip_cache n) (ip_cap n) (intro_cache n) (intro_cap n) x (svc_cap n).

(* a fresh Peer(key) with the given addresses; its allocation number is the old heap length *)
Definition alloc (n : net) (k : key) (am : addrmap) : net * nat :=
  (set_heap n (heap n ++ [(k, am)]), length (heap n)).

(* self.services_per_peer.get(key, set()) *)
Definition svc_lookup (svcs : list (key * list service)) (k : key) : list service :=
  match d_get Z.eqb k svcs with Some l => l | None => [] end.
Definition svc_of (n : net) (k : key) : list service := svc_lookup (services n) k.

(* `peer in self.verified_peers` (set membership: hash and equality by public key) *)
Definition in_ver (h : list obj) (ver : list nat) (k : key) : bool :=
  existsb (fun i => hkey h i =? k) ver.
Definition in_verified (n : net) (k : key) : bool := in_ver (heap n) (verified n) k.

Definition owns (n : net) (a : addr) (i : nat) : bool :=
  mem_addr a (am_values (haddrs (heap n) i)).

Definition opt_z_eqb (a b : option Z) : bool :=
  match a, b with Some x, Some y => x =? y | None, None => true | _, _ => false end.

(* [k for k, v in self._all_addresses.items() if v.introduced_by == key] *)
Definition introduced_by (k : key) (e : addr * walk) : bool := opt_z_eqb (w_intro (snd e)) (Some k).
Definition intros_of (all : list (addr * walk)) (k : key) : list addr :=
  map fst (filter (introduced_by k) all).

(* ------------------------------------------------------------------ add_verified_peer *)
(* _forget_service_caches *)
Definition forget_service_caches (n : net) (k : key) : net :=
  set_svc_cache n (filter (fun e => negb (mem_z (fst e) (svc_of n k))) (svc_cache n)).

(* if peer not in self.verified_peers: add to the set and the index, drop stale service caches *)
Definition verify (n : net) (i : nat) : net :=
  let k := hkey (heap n) i in
  if in_verified n k then n
  else forget_service_caches
         (set_by_key (set_verified n (verified n ++ [i])) (d_set Z.eqb k i (by_key n))) k.

Definition blacklisted (n : net) (k : key) (am : addrmap) : bool :=
  mem_z k (bl_mid n) || existsb (fun a => mem_addr a (bl_addr n)) (am_values am).

Definition add_walkable (all : list (addr * walk)) (a : addr) : list (addr * walk) :=
  if d_mem addr_eqb a all then all else all ++ [(a, mkWalk None None false)].

Definition add_verified_peer (n : net) (i : nat) : net :=
  let k := hkey (heap n) i in
  let am := haddrs (heap n) i in
  if blacklisted n k am then n
  else match d_get Z.eqb k (by_key n) with
       | Some j =>   (* known.addresses.update(peer.addresses) *)
           set_heap n (hset (heap n) j (hkey (heap n) j, am_update (haddrs (heap n) j) am))
       | None =>
           if existsb (fun a => d_mem addr_eqb a (all_addrs n)) (am_values am) then verify n i
           else verify (set_all n (fold_left add_walkable (am_values am) (all_addrs n))) i
       end.

(* ------------------------------------------------------------------ discover_address *)
(* _forget_introduction *)
Definition forget_intro (a : addr) (c : list (key * list addr)) : list (key * list addr) :=
  map (fun e => (fst e, filter (fun x => negb (addr_eqb x a)) (snd e))) c.

Definition intro_verified (n : net) (a : addr) : bool :=
  match d_get addr_eqb a (all_addrs n) with
  | Some w => match w_intro w with Some k' => d_mem Z.eqb k' (by_key n) | None => false end
  | None => false
  end.

Definition discover_address (n : net) (i : nat) (a : addr) (s : option service) (ns : bool) : net :=
  let k := hkey (heap n) i in
  if mem_addr a (bl_addr n) then add_verified_peer n i
  else
    let n1 :=
      if negb (d_mem addr_eqb a (all_addrs n)) || negb (intro_verified n a) then
        let c := forget_intro a (intro_cache n) in
        let c' := match d_get Z.eqb k c with
                  | Some l => d_set Z.eqb k (l ++ [a]) c      (* intro_cache.append(address) *)
                  | None => c
                  end in
        set_intro_cache (set_all n (d_set addr_eqb a (mkWalk (Some k) s ns) (all_addrs n))) c'
      else n in
    add_verified_peer n1 i.

(* ------------------------------------------------------------------ discover_services *)
Definition set_union (old new : list service) : list service :=
  fold_left (fun acc s => if mem_z s acc then acc else acc ++ [s]) new old.

(* set(services) *)
Definition svc_set (l : list service) : list service := set_union [] l.

(* service_cache.remove(peer): first element equal (by key) to the peer *)
Fixpoint remove_first_key (h : list obj) (k : key) (l : list nat) : list nat :=
  match l with
  | [] => []
  | j :: tl => if hkey h j =? k then tl else j :: remove_first_key h k tl
  end.

Definition svc_cache_add (h : list obj) (cap : Z) (k : key) (p : nat)
           (c : list (service * list nat)) (s : service) : list (service * list nat) :=
  match d_get Z.eqb s c with
  | Some l => evict cap (d_set Z.eqb s (remove_first_key h k l ++ [p]) c)
  | None => c
  end.

Definition discover_services (n : net) (i : nat) (ss : list service) : net :=
  let k := hkey (heap n) i in
  let n1 := set_services n (d_set Z.eqb k (set_union (svc_of n k) (svc_set ss)) (services n)) in
  let p := match d_get Z.eqb k (by_key n) with Some j => j | None => i end in
  set_svc_cache n1 (fold_left (svc_cache_add (heap n) (svc_cap n) k p) ss (svc_cache n)).

(* ------------------------------------------------------------------ queries *)
Definition has_service (n : net) (s : service) (i : nat) : bool :=
  mem_z s (svc_of n (hkey (heap n) i)).

Definition get_peers_for_service (n : net) (s : service) : net * list nat :=
  let out := match d_get Z.eqb s (svc_cache n) with
             | None => filter (has_service n s) (verified n)
             | Some l => filter (fun i => in_verified n (hkey (heap n) i) && has_service n s i) l
             end in
  (set_svc_cache n (evict (svc_cap n) (d_del Z.eqb s (svc_cache n) ++ [(s, out)])), out).

Definition get_services_for_peer (n : net) (k : key) : list service := svc_of n k.

Definition walk_serves (n : net) (s : service) (old : bool) (a : addr) : bool :=
  match d_get addr_eqb a (all_addrs n) with
  | None => false
  | Some w =>
      negb (old && w_new w) &&
      (opt_z_eqb (Some s) (w_service w) ||
       mem_z s (match w_intro w with Some k => svc_of n k | None => [] end))
  end.

Definition addrs_of (n : net) (l : list nat) : list addr :=
  flat_map (fun i => am_values (haddrs (heap n) i)) l.

Definition get_walkable_addresses (n : net) (so : option service) (old : bool) : net * list addr :=
  match so with
  | None =>
      (n, filter (fun a => negb (mem_addr a (addrs_of n (verified n)))) (map fst (all_addrs n)))
  | Some s =>
      let '(n1, known) := get_peers_for_service n s in
      let out := filter (fun a => negb (mem_addr a (addrs_of n1 known))) (map fst (all_addrs n1)) in
      (n1, filter (walk_serves n1 s old) out)
  end.

(* the cached peer is still the verified peer for its key and still has the address *)
Definition ip_valid (n : net) (a : addr) (i : nat) : bool :=
  match d_get Z.eqb (hkey (heap n) i) (by_key n) with
  | Some j => Nat.eqb j i && owns n a i
  | None => false
  end.

(* `for p in self.verified_peers: if address in p.addresses.values(): ... break` iterates a set:
   which owner comes first is not determined by the program.  The hint names the one to take
   (if it is an owner), so every iteration order is covered by some hint. *)
Definition choose (hint : option nat) (owners : list nat) : option nat :=
  match hint with
  | Some h => if existsb (Nat.eqb h) owners then Some h else hd_error owners
  | None => hd_error owners
  end.

Definition get_verified_by_address (n : net) (a : addr) (hint : option nat) : net * option nat :=
  let c1 := d_del addr_eqb a (ip_cache n) in
  let hit := match d_get addr_eqb a (ip_cache n) with
             | Some i => if ip_valid n a i then Some i else None
             | None => None
             end in
  let pick := match hit with
              | Some i => Some i
              | None => choose hint (filter (owns n a) (verified n))
              end in
  match pick with
  | Some i => (set_ip_cache n (evict (ip_cap n) (c1 ++ [(a, i)])), Some i)
  | None => (set_ip_cache n c1, None)
  end.

Definition get_verified_by_public_key_bin (n : net) (k : key) : option nat :=
  d_get Z.eqb k (by_key n).

Definition get_introductions_from (n : net) (k : key) : net * list addr :=
  match d_get Z.eqb k (intro_cache n) with
  | Some l => (n, l)
  | None =>
      let l := intros_of (all_addrs n) k in
      (set_intro_cache n (evict (intro_cap n) (d_set Z.eqb k l (intro_cache n))), l)
  end.

(* ------------------------------------------------------------------ removal *)
Definition remove_by_address (n : net) (a : addr) : net :=
  let removed := map (hkey (heap n)) (filter (owns n a) (verified n)) in
  let n1 := set_intro_cache (set_all n (d_del addr_eqb a (all_addrs n)))
                            (forget_intro a (intro_cache n)) in
  let n2 := set_verified n1 (filter (fun i => negb (owns n a i)) (verified n)) in
  let n3 := set_services n2 (filter (fun e => negb (mem_z (fst e) removed)) (services n)) in
  set_by_key n3 (filter (fun e => negb (mem_z (fst e) removed)) (by_key n)).

Definition remove_peer (n : net) (k : key) (am : addrmap) : net :=
  let n1 := set_intro_cache
              (set_all n (fold_left (fun all a => d_del addr_eqb a all) (am_values am) (all_addrs n)))
              (fold_left (fun c a => forget_intro a c) (am_values am) (intro_cache n)) in
  let n2 := set_verified n1 (filter (fun i => negb (hkey (heap n) i =? k)) (verified n)) in
  set_services (set_by_key n2 (d_del Z.eqb k (by_key n))) (d_del Z.eqb k (services n)).

(* ------------------------------------------------------------------ snapshot codec *)
(* default_serializer.pack("address", a) / .unpack("address", data, offset): the `address` packer of the
   C02 wire model (FAddr false: IPv4, IPv6 and host-name records), absolute offsets as in the code *)
Definition wire_keys : bytes -> bool := fun _ => true.    (* an address holds no key material *)
Definition pack_address (a : addr) : res bytes := pack wire_keys (FAddr false) (VAddr a).
Definition unpack_address (d : bytes) (off : nat) : res (addr * nat) :=
  match unpack wire_keys (FAddr false) d off with
  | Ok (VAddr a, o) => Ok (a, o)
  | Ok _ => Raise TypeError
  | Raise e => Raise e
  end.

Definition snapshot_addrs (n : net) : list addr :=
  filter (fun a => negb (addr_eqb a null_addr))
         (map (fun i => am_preferred (haddrs (heap n) i)) (verified n)).
Definition snapshot_records (n : net) : list (res bytes) := map pack_address (snapshot_addrs n).
(* out += pack(...) for every verified peer; an address that cannot be packed raises out of snapshot() *)
Definition snapshot (n : net) : res bytes := concat_res (snapshot_records n).

Fixpoint seq_res {A} (l : list (res A)) : res (list A) :=
  match l with
  | [] => Ok []
  | r :: tl => do a <- r; do b <- seq_res tl; Ok (a :: b)
  end.

(* the `while offset < snaplen` loop: whatever unpacks is kept (any family), any exception leaves the
   offset unchanged, hence `break`.  Returns the state and whether the fuel ran out (never, see
   load_snapshot_total). *)
Definition blank : walk := mkWalk None None false.
Fixpoint load_loop (fuel : nat) (d : bytes) (off : nat) (all : list (addr * walk)) (c : list (key * list addr))
  : list (addr * walk) * list (key * list addr) * bool :=
  if (off <? length d)%nat then
    match fuel with
    | O => (all, c, true)
    | S f =>
        match unpack_address d off with
        | Raise _ => (all, c, false)
        | Ok (a, o) => load_loop f d o (d_set addr_eqb a blank all) (forget_intro a c)
        end
    end
  else (all, c, false).

Definition load_snapshot (n : net) (d : bytes) : net :=
  let '(all, c, _) := load_loop (length d) d 0 (all_addrs n) (intro_cache n) in
  set_intro_cache (set_all n all) c.

(* ------------------------------------------------------------------ operations *)
Inductive op : Type :=
| AddVerified (k : key) (am : addrmap)
| DiscoverAddress (k : key) (am : addrmap) (a : addr) (s : option service) (ns : bool)
| DiscoverServices (k : key) (am : addrmap) (ss : list service)
| RemovePeer (k : key) (am : addrmap)
| RemoveByAddress (a : addr)
| GetByKey (k : key)
| GetByAddress (a : addr) (hint : option nat)
| GetPeersForService (s : service)
| GetServicesForPeer (k : key)
| GetWalkable (s : option service) (old : bool)
| GetIntroductionsFrom (k : key)
| Snapshot
| LoadSnapshot (d : bytes).

Inductive ret : Type :=
| RUnit
| RPeer (o : option nat)
| RPeers (l : list nat)
| RAddrs (l : list addr)
| RSvcs (l : list service)
| RRecords (l : list bytes)
| RRaise (e : exn).

Definition step (n : net) (o : op) : net * ret :=
  match o with
  | AddVerified k am => let '(n1, i) := alloc n k am in (add_verified_peer n1 i, RUnit)
  | DiscoverAddress k am a s ns =>
      let '(n1, i) := alloc n k am in (discover_address n1 i a s ns, RUnit)
  | DiscoverServices k am ss => let '(n1, i) := alloc n k am in (discover_services n1 i ss, RUnit)
  | RemovePeer k am => (remove_peer n k am, RUnit)
  | RemoveByAddress a => (remove_by_address n a, RUnit)
  | GetByKey k => (n, RPeer (get_verified_by_public_key_bin n k))
  | GetByAddress a hint => let '(n1, r) := get_verified_by_address n a hint in (n1, RPeer r)
  | GetPeersForService s => let '(n1, r) := get_peers_for_service n s in (n1, RPeers r)
  | GetServicesForPeer k => (n, RSvcs (get_services_for_peer n k))
  | GetWalkable s old => let '(n1, r) := get_walkable_addresses n s old in (n1, RAddrs r)
  | GetIntroductionsFrom k => let '(n1, r) := get_introductions_from n k in (n1, RAddrs r)
  | Snapshot => (n, match seq_res (snapshot_records n) with Ok l => RRecords l | Raise e => RRaise e end)
  | LoadSnapshot d => (load_snapshot n d, RUnit)
  end.

Fixpoint run (n : net) (ops : list op) : net :=
  match ops with
  | [] => n
  | o :: tl => run (fst (step n o)) tl
  end.

Definition is_query (o : op) : bool :=
  match o with
  | GetByKey _ | GetByAddress _ _ | GetPeersForService _ | GetServicesForPeer _
  | GetWalkable _ _ | GetIntroductionsFrom _ | Snapshot => true
  | _ => false
  end.

(* ------------------------------------------------------------------ interface of the correspondence
   check: a chained hash of (return value, whole state) after every operation.  Sets are put in a
   canonical order (Python set iteration order is not modelled), dicts keep insertion order. *)
Fixpoint insert_z (x : Z) (l : list Z) : list Z :=
  match l with
  | [] => [x]
  | y :: tl => if x <=? y then x :: l else y :: insert_z x tl
  end.
Definition sort_z (l : list Z) : list Z := fold_right insert_z [] l.

Definition bytes_code (b : bytes) : Z := fold_left (fun acc x => acc * 256 + x) b 1.
Definition addr_code (a : addr) : Z :=
  match a with
  | A4 ip p => 4 * (bytes_code ip * 65536 + p) + 1
  | A6 ip p => 4 * (bytes_code ip * 65536 + p) + 2
  | ADom h p => 4 * (bytes_code h * 65536 + p) + 3
  end.
Definition opt_code (o : option Z) : Z := match o with Some x => x | None => -1 end.
Definition am_code (m : addrmap) : list Z :=
  [opt_code (option_map addr_code (am4 m)); opt_code (option_map addr_code (am6 m));
   opt_code (option_map addr_code (amd m))].
Definition obj_code (h : list obj) (i : nat) : list Z :=
  Z.of_nat i :: hkey h i :: am_code (haddrs h i).
Definition len_z {A} (l : list A) : Z := Z.of_nat (length l).
Definition ids_sorted (l : list nat) : list nat := map Z.to_nat (sort_z (map Z.of_nat l)).
Definition flat_ret (h : list obj) (r : ret) : list Z :=
  match r with
  | RUnit => [0]
  | RPeer None => [1; -1]
  | RPeer (Some i) => 1 :: obj_code h i
  | RPeers l => 2 :: len_z l :: flat_map (obj_code h) (ids_sorted l)
  | RAddrs l => 3 :: len_z l :: sort_z (map addr_code l)
  | RSvcs l => 4 :: len_z l :: sort_z l
  | RRecords l => 5 :: len_z l :: sort_z (map bytes_code l)
  | RRaise _ => [6]
  end.

Definition flat_net (n : net) : list Z :=
  let h := heap n in
  (100 :: len_z (verified n) :: flat_map (obj_code h) (ids_sorted (verified n))) ++
  (101 :: len_z (by_key n) :: flat_map (fun e => fst e :: obj_code h (snd e)) (by_key n)) ++
  (102 :: flat_map (fun e => match snd e with
                             | [] => []
                             | l => fst e :: len_z l :: sort_z l
                             end) (services n)) ++
  (103 :: len_z (all_addrs n) ::
       flat_map (fun e => [addr_code (fst e); opt_code (w_intro (snd e)); opt_code (w_service (snd e));
                           if w_new (snd e) then 1 else 0]) (all_addrs n)) ++
  (104 :: len_z (ip_cache n) :: flat_map (fun e => addr_code (fst e) :: obj_code h (snd e)) (ip_cache n)) ++
  (105 :: len_z (intro_cache n) ::
       flat_map (fun e => fst e :: len_z (snd e) :: map addr_code (snd e)) (intro_cache n)) ++
  (106 :: len_z (svc_cache n) ::
       flat_map (fun e => fst e :: len_z (snd e) :: flat_map (obj_code h) (ids_sorted (snd e)))
                (svc_cache n)).

(* h * 1048705 + x + 7 modulo 2^61, with shifts and a mask only (cheap under vm_compute); the
   multiplier is odd, so two sequences that differ in one position never collide *)
Definition HASH_MASK : Z := 2305843009213693951.
Definition mix (h x : Z) : Z := Z.land (Z.shiftl h 20 + Z.shiftl h 7 + h + x + 7) HASH_MASK.
Definition mix_list (h : Z) (l : list Z) : Z := fold_left mix l h.

Definition hash_step (n : net) (h : Z) (o : op) : net * Z :=
  let '(n1, r) := step n o in
  (n1, mix_list (mix_list h (flat_ret (heap n1) r)) (flat_net n1)).

(* per-step hashes, chained *)
Fixpoint trace_from (n : net) (h : Z) (ops : list op) : list Z :=
  match ops with
  | [] => []
  | o :: tl => let '(n1, h1) := hash_step n h o in h1 :: trace_from n1 h1 tl
  end.

Fixpoint run_hashed (n : net) (h : Z) (ops : list op) : net * Z :=
  match ops with
  | [] => (n, h)
  | o :: tl => let '(n1, h1) := hash_step n h o in run_hashed n1 h1 tl
  end.

(* a correspondence case: configuration, a path, and a fan of alternative last operations;
   the answer is the chained hash after each alternative *)
Definition c12_case := (Z * Z * Z * list addr * list key * list op * list op)%type.
Definition case_init (c : c12_case) : net :=
  let '(ipc, intc, svcc, bla, blm, _, _) := c in init_net ipc intc svcc bla blm.
Definition case_path (c : c12_case) : list op := let '(_, _, _, _, _, p, _) := c in p.
Definition case_fan (c : c12_case) : list op := let '(_, _, _, _, _, _, f) := c in f.
Definition run_fan (c : c12_case) : list Z :=
  let '(n, h) := run_hashed (case_init c) 0 (case_path c) in
  map (fun o => snd (hash_step n h o)) (case_fan c).
Definition run_fan_hash (c : c12_case) : Z := mix_list 0 (run_fan c).
Definition run_trace (c : c12_case) : list Z :=
  trace_from (case_init c) 0 (case_path c ++ case_fan c).

Fixpoint zlist_eqb (a b : list Z) : bool :=
  match a, b with
  | [], [] => true
  | x :: a', y :: b' => (x =? y) && zlist_eqb a' b'
  | _, _ => false
  end.

(* detailed view used to localise a mismatch *)
Fixpoint detail_from (n : net) (ops : list op) : list (list Z * list Z) :=
  match ops with
  | [] => []
  | o :: tl => let '(n1, r) := step n o in (flat_ret (heap n1) r, flat_net n1) :: detail_from n1 tl
  end.
Definition run_detail (c : c12_case) := detail_from (case_init c) (case_path c ++ case_fan c).

(* round trip of a snapshot into a fresh Network: the walkable addresses afterwards *)
Definition snapshot_reload (n : net) : res (list addr) :=
  do d <- snapshot n;
  Ok (snd (get_walkable_addresses (load_snapshot (init_net 500 500 500 [] []) d) None false)).
