(* C18 - carrier of the translated FP2Value arithmetic (value.py): the record of the seven
   instance attributes, and the fuel given to the two `while` loops of value.py.  No proofs. *)
From Coq Require Import ZArith List Bool.
From IPV8V Require Import lib.PyErr.
Import ListNotations.
Open Scope Z_scope.

(* FP2Value instance: self.mod, self.a, self.b, self.c, self.aC, self.bC, self.cC *)
Record fp2 : Type := MkFP2 {
  fmod : Z; fa : Z; fb : Z; fc : Z; faC : Z; fbC : Z; fcC : Z }.

Definition fp2_eqb (x y : fp2) : bool :=
  (fmod x =? fmod y) && (fa x =? fa y) && (fb x =? fb y) && (fc x =? fc y) &&
  (faC x =? faC y) && (fbC x =? fbC y) && (fcC x =? fcC y).

(* Fuel for `while b > 0` in _modinv(e, m): Euclid on (e, m) halves the second component every
   two rounds (after the first swap).  P18_fp2.modinv_fuel_enough proves this never runs out. *)
Definition modinv_fuel (m : Z) : nat := S (S (S (2 * Z.to_nat (Z.log2_up m)))).

(* Fuel for `while n > 0: ...; n = n // 2` in intpow. *)
Definition pow_fuel (n : Z) : nat := S (S (Z.to_nat (Z.log2 n))).
