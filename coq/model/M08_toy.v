(* A concrete instance of the handshake primitives: a free term algebra (DH outputs normalised so that
   dh a (pub b) = dh b (pub a)).  It makes the model executable for the correspondence and shows that the
   hypotheses used by the proofs are jointly satisfiable.  Boolean equalities for the comparison of model
   results with the implementation's abstracted results.  No proofs here. *)
From Coq Require Import ZArith List Bool Lia.
From IPV8V Require Import lib.PyErr model.M08_handshake.
Import ListNotations.
Open Scope Z_scope.

Inductive tpk := TPub (i : Z) | TJunk (j : Z) | TBad (j : Z).
(* TJunk: a byte string that X25519 accepts but whose secret nobody drew; TBad: one that it rejects *)
Inductive tsec := TDH (a b : Z) | TDHJ (a j : Z).
Inductive ttag := TMac (s : tsec) (m : tpk) | TTagJunk (j : Z).
Inductive tkeys := TKdf (s1 s2 : tsec).
(* TCEnc: the list l under keys k; TCMal: decrypts under k but the plaintext is not a well-formed list (unpack
   raises e); TCJunk: not produced with any known keys (j < 0: shorter than nonce + tag) *)
Inductive tcenc := TCEnc (k : tkeys) (l : list Z) | TCMal (k : tkeys) (e : exn) | TCJunk (j : Z).

Definition tpk_eqb (a b : tpk) : bool :=
  match a, b with
  | TPub i, TPub j | TJunk i, TJunk j | TBad i, TBad j => i =? j
  | _, _ => false
  end.
Definition tsec_eqb (a b : tsec) : bool :=
  match a, b with
  | TDH a1 a2, TDH b1 b2 | TDHJ a1 a2, TDHJ b1 b2 => (a1 =? b1) && (a2 =? b2)
  | _, _ => false
  end.
Definition ttag_eqb (a b : ttag) : bool :=
  match a, b with
  | TMac s m, TMac s' m' => tsec_eqb s s' && tpk_eqb m m'
  | TTagJunk i, TTagJunk j => i =? j
  | _, _ => false
  end.
Definition tkeys_eqb (a b : tkeys) : bool :=
  match a, b with TKdf a1 a2, TKdf b1 b2 => tsec_eqb a1 b1 && tsec_eqb a2 b2 end.
Fixpoint zlist_eqb (a b : list Z) : bool :=
  match a, b with
  | [], [] => true
  | x :: a', y :: b' => (x =? y) && zlist_eqb a' b'
  | _, _ => false
  end.
Definition tcenc_eqb (a b : tcenc) : bool :=
  match a, b with
  | TCEnc k l, TCEnc k' l' => tkeys_eqb k k' && zlist_eqb l l'
  | TCMal k e, TCMal k' e' => tkeys_eqb k k' && exn_eqb e e'
  | TCJunk i, TCJunk j => i =? j
  | _, _ => false
  end.

Definition tdh (a : Z) (p : tpk) : option tsec :=
  match p with
  | TPub b => Some (TDH (Z.min a b) (Z.max a b))
  | TJunk j => Some (TDHJ a j)
  | TBad _ => None
  end.

(* public key bins: id k >= 0 is a well-formed key whose crypt part belongs to secret k;
   k < 0 stands for bytes that key_from_public_bin rejects *)
Definition Toy : crypto :=
  mkCrypto Z tpk tsec ttag tkeys tcenc
           (fun i => i) TPub tdh TMac ttag_eqb TKdf TCEnc
           (fun k c => match c with
                       | TCEnc k' l => if tkeys_eqb k k' then Ok l else Raise RuntimeError
                       | TCMal k' e => if tkeys_eqb k k' then Raise e else Raise RuntimeError
                       | TCJunk j => if j <? 0 then Raise ValueError else Raise RuntimeError
                       end)
           (fun k => if k <? 0 then TBad k else TPub k)
           (fun k => 0 <=? k).

(* ---- equality of model results (dict order is irrelevant) ---------------------------------------- *)
Definition opt_eqb {A} (f : A -> A -> bool) (a b : option A) : bool :=
  match a, b with Some x, Some y => f x y | None, None => true | _, _ => false end.
Fixpoint list_eqb {A} (f : A -> A -> bool) (a b : list A) : bool :=
  match a, b with
  | [], [] => true
  | x :: a', y :: b' => f x y && list_eqb f a' b'
  | _, _ => false
  end.
Definition alist_eqb {V} (f : V -> V -> bool) (a b : list (Z * V)) : bool :=
  (length a =? length b)%nat
  && forallb (fun kv => opt_eqb f (aget (fst kv) b) (Some (snd kv))) a
  && forallb (fun kv => opt_eqb f (aget (fst kv) a) (Some (snd kv))) b.

Definition peer_eqb2 (a b : peer) : bool := (p_key a =? p_key b) && (p_addr a =? p_addr b).

Definition hop_eqb (a b : @hop Toy) : bool :=
  peer_eqb2 (h_peer a) (h_peer b) && opt_eqb tkeys_eqb (h_keys a) (h_keys b) && opt_eqb Z.eqb (h_dh a) (h_dh b).
Definition circ_eqb (a b : @circuit Toy) : bool :=
  (c_goal a =? c_goal b) && list_eqb hop_eqb (c_hops a) (c_hops b) && opt_eqb hop_eqb (c_unv a) (c_unv b)
  && Bool.eqb (c_closing a) (c_closing b) && opt_eqb peer_eqb2 (c_reqexit a) (c_reqexit b).
Definition route_eqb (a b : @rroute Toy) : bool :=
  (rr_cid a =? rr_cid b) && hop_eqb (rr_hop a) (rr_hop b) && Bool.eqb (rr_fwd a) (rr_fwd b).
Definition retry_eqb (a b : retry) : bool :=
  (r_pid a =? r_pid b) && (r_tries a =? r_tries b) && Bool.eqb (r_initial a) (r_initial b)
  && list_eqb peer_eqb2 (r_peers a) (r_peers b) && zlist_eqb (r_keys a) (r_keys b).
Definition creq_eqb (a b : creq) : bool :=
  (q_ident a =? q_ident b) && (q_to a =? q_to b) && (q_from a =? q_from b)
  && peer_eqb2 (q_peer a) (q_peer b) && peer_eqb2 (q_to_peer a) (q_to_peer b).
Definition dreq_eqb (a b : dreq) : bool :=
  peer_eqb2 (d_peer a) (d_peer b) && list_eqb peer_eqb2 (d_cands a) (d_cands b).

Definition msg_eqb (a b : @msg Toy) : bool :=
  match a, b with
  | MCreate c i k x, MCreate c' i' k' x' => (c =? c') && (i =? i') && (k =? k') && tpk_eqb x x'
  | MCreated c i y a e, MCreated c' i' y' a' e' | MExtended c i y a e, MExtended c' i' y' a' e' =>
      (c =? c') && (i =? i') && tpk_eqb y y' && ttag_eqb a a' && tcenc_eqb e e'
  | MExtend c i k x d, MExtend c' i' k' x' d' => (c =? c') && (i =? i') && (k =? k') && tpk_eqb x x' && (d =? d')
  | _, _ => false
  end.
Definition action_eqb (a b : @action Toy) : bool :=
  match a, b with
  | Send t m, Send t' m' => (t =? t') && msg_eqb m m'
  | RmExit c, RmExit c' => c =? c'
  | _, _ => false
  end.

Definition node_eqb (a b : @node Toy) : bool :=
  (n_sk a =? n_sk b) && (n_pkbin a =? n_pkbin b) && Bool.eqb (n_any_flag a) (n_any_flag b)
  && Bool.eqb (n_relay_flag a) (n_relay_flag b) && (n_max_joined a =? n_max_joined b)
  && alist_eqb circ_eqb (n_circ a) (n_circ b) && alist_eqb hop_eqb (n_exit a) (n_exit b)
  && alist_eqb route_eqb (n_relay a) (n_relay b) && alist_eqb retry_eqb (n_retry a) (n_retry b)
  && alist_eqb creq_eqb (n_creq a) (n_creq b) && alist_eqb dreq_eqb (n_dreq a) (n_dreq b)
  && zlist_eqb (n_rm a) (n_rm b).

Definition out_eqb (a b : @out Toy) : bool :=
  let '(n, acts, e) := a in
  let '(n', acts', e') := b in
  node_eqb n n' && list_eqb action_eqb acts acts' && opt_eqb exn_eqb e e'.

(* one correspondence case: abstracted state of the real node before the handler ran, and the event *)
Definition run_case (c : @node Toy * @event Toy) : @out Toy := step (fst c) (snd c).

(* ---- a concrete run: originator 0, first hop 1 (address 11), second hop 2 (address 12) ------------- *)
Definition blank (k : Z) : @node Toy := mkNode (C := Toy) k k true true 100 [] [] [] [] [] [] [].
Definition orc (x pid : Z) (offer : list peer) (cid num : Z) : oracle := mkOracle x pid None offer cid num None.

Definition tO0 := blank 0.
Definition tO1 := st (step tO0 (EvNewCircuit 7 2 None [mkPeer 1 11] 6 (orc 100 500 [] 0 0))).
Definition tA1 := st (handle (blank 1) 10 (@MCreate Toy 7 500 0 (TPub 100)) (orc 101 0 [mkPeer 2 12; mkPeer 2 12] 0 0)).
Definition created1 : @msg Toy :=
  @MCreated Toy 7 500 (TPub 101) (TMac (TDH 100 101) (TPub 101)) (TCEnc (TKdf (TDH 100 101) (TDH 1 100)) [2; 2]).
Definition tO2 := st (handle tO1 11 created1 (orc 102 501 [] 0 0)).
Definition tA2 := st (handle tA1 10 (@MExtend Toy 7 501 2 (TPub 102) 0) (orc 0 0 [] 8 600)).
Definition tB1 := st (handle (blank 2) 11 (@MCreate Toy 8 600 1 (TPub 102)) (orc 103 0 [] 0 0)).
Definition created2 : @msg Toy :=
  @MCreated Toy 8 600 (TPub 103) (TMac (TDH 102 103) (TPub 103)) (TCEnc (TKdf (TDH 102 103) (TDH 2 102)) []).
Definition tA3 := st (handle tA2 12 created2 (orc 0 0 [] 0 0)).
Definition extended2 : @msg Toy :=
  @MExtended Toy 7 501 (TPub 103) (TMac (TDH 102 103) (TPub 103)) (TCEnc (TKdf (TDH 102 103) (TDH 2 102)) []).
Definition tO3 := st (handle tO2 11 extended2 (orc 104 502 [] 0 0)).


(* adversarial answers against tO1 (waiting for the created of hop 1 with identifier 500, secret 100) *)
Definition bad_ident : @msg Toy := @MCreated Toy 7 499 (TPub 101) (TMac (TDH 100 101) (TPub 101)) (TCJunk 0).
Definition bad_circuit : @msg Toy := @MCreated Toy 9 500 (TPub 101) (TMac (TDH 100 101) (TPub 101)) (TCJunk 0).
Definition bad_auth : @msg Toy := @MCreated Toy 7 500 (TPub 101) (TTagJunk 1) (TCJunk 0).
Definition bad_key : @msg Toy := @MCreated Toy 7 500 (TJunk 5) (TMac (TDH 100 101) (TPub 101)) (TCJunk 0).
Definition bad_point : @msg Toy := @MCreated Toy 7 500 (TBad 5) (TMac (TDH 100 101) (TPub 101)) (TCJunk 0).
(* substituted ephemeral key with an auth recomputed by someone who only saw the create (secret 66) *)
Definition subst_eph : @msg Toy :=
  @MCreated Toy 7 500 (TPub 66) (TMac (TDH 66 100) (TPub 66)) (TCJunk 0).


(* hop 1's own created (and the same fields as an extended), re-labelled with the identifier 501 of the extend that
   is pending in tO2 (hop 1 established with secret 100, unverified hop 2 with secret 102) *)
Definition relabelled_created : @msg Toy :=
  @MCreated Toy 7 501 (TPub 101) (TMac (TDH 100 101) (TPub 101)) (TCEnc (TKdf (TDH 100 101) (TDH 1 100)) [2; 2]).
Definition relabelled_extended : @msg Toy :=
  @MExtended Toy 7 501 (TPub 101) (TMac (TDH 100 101) (TPub 101)) (TCEnc (TKdf (TDH 100 101) (TDH 1 100)) [2; 2]).
