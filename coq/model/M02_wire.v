(* Wire model of ipv8/messaging/serialization.py (+ Flags, NodePacker): formats, values,
   pack / unpack with absolute offsets, message format lists.  No proofs here.
   The model follows the code AFTER the `fix:` commits recorded in known_findings.jsonl
   (VarLen / NestedPayload / DefaultArray reject bodies shorter than their length prefix;
   Flags.unpack returns offset + size). *)
From Coq Require Import ZArith List Bool Lia.
From IPV8V Require Import lib.PyErr lib.Bytes lib.BE.
Import ListNotations.
Open Scope Z_scope.

(* ---- struct primitives ---- *)
Inductive prim :=
| PU (w : nat)        (* unsigned big-endian: B=1 H=2 I,L=4 Q=8 *)
| PS (w : nat)        (* signed big-endian: l=4 q=8 *)
| PBool               (* ? *)
| PChar               (* c : a bytes object of length 1 *)
| PF (w : nat)        (* f=4 d=8 : carried as the IEEE bit pattern *)
| PBytes (n : nat).   (* <n>s *)

Inductive addr :=
| A4 (ip : bytes) (port : Z)       (* 4 address bytes *)
| A6 (ip : bytes) (port : Z)       (* 16 address bytes *)
| ADom (host : bytes) (port : Z).  (* host name as its UTF-8 encoding *)

Inductive val :=
| VInt (z : Z)
| VBool (b : bool)
| VBytes (b : bytes)
| VStr (b : bytes)                 (* a str, represented by its UTF-8 encoding *)
| VFloat (bits : Z)
| VAddr (a : addr)
| VNode (a : addr) (key : bytes)
| VList (l : list val)
| VTuple (l : list val)
| VMsg (l : list val).

Inductive fmt :=
| FStruct (ps : list prim)
| FBits
| FRaw
| FVarLen (lw : nat) (base : nat) (utf8 : bool)
| FIPv4
| FAddr (ip_only : bool)
| FFlags (w : nat)
| FArray (e : prim) (lw : nat)      (* array module + native struct: count AND elements in machine
                                       (little-endian) order - as built; the documentation says big-endian *)
| FNode
| FListOf (lw : nat) (f : fmt)
| FNested (m : msgfmt)
with msgfmt :=
| MNil
| MCons (f : fmt) (m : msgfmt).

Fixpoint msg_of_list (l : list fmt) : msgfmt :=
  match l with [] => MNil | f :: tl => MCons f (msg_of_list tl) end.

(* ---- equality on values (for the correspondence check) ---- *)
Definition addr_eqb (a b : addr) : bool :=
  match a, b with
  | A4 i p, A4 j q | A6 i p, A6 j q | ADom i p, ADom j q => bytes_eqb i j && (p =? q)
  | _, _ => false
  end.

Fixpoint val_eqb (a b : val) {struct a} : bool :=
  let fix list_eq (l1 l2 : list val) {struct l1} : bool :=
    match l1, l2 with
    | [], [] => true
    | x :: t1, y :: t2 => val_eqb x y && list_eq t1 t2
    | _, _ => false
    end in
  match a, b with
  | VInt x, VInt y => x =? y
  | VBool x, VBool y => Bool.eqb x y
  | VBytes x, VBytes y => bytes_eqb x y
  | VStr x, VStr y => bytes_eqb x y
  | VFloat x, VFloat y => x =? y
  | VAddr x, VAddr y => addr_eqb x y
  | VNode x k, VNode y l => addr_eqb x y && bytes_eqb k l
  | VList x, VList y => list_eq x y
  | VTuple x, VTuple y => list_eq x y
  | VMsg x, VMsg y => list_eq x y
  | _, _ => false
  end.

(* ---- UTF-8 well-formedness (what bytes.decode() accepts) ---- *)
Definition cont (b : Z) : bool := (128 <=? b) && (b <=? 191).
Fixpoint utf8_valid_fuel (n : nat) (l : bytes) : bool :=
  match n with
  | O => match l with [] => true | _ => false end
  | S n' =>
    match l with
    | [] => true
    | b0 :: t0 =>
      if b0 <=? 127 then utf8_valid_fuel n' t0
      else if (194 <=? b0) && (b0 <=? 223) then
        match t0 with b1 :: t1 => cont b1 && utf8_valid_fuel n' t1 | _ => false end
      else if (224 <=? b0) && (b0 <=? 239) then
        match t0 with
        | b1 :: b2 :: t2 =>
            cont b1 && cont b2
            && (if b0 =? 224 then 160 <=? b1 else true)       (* no overlong *)
            && (if b0 =? 237 then b1 <=? 159 else true)       (* no surrogates *)
            && utf8_valid_fuel n' t2
        | _ => false
        end
      else if (240 <=? b0) && (b0 <=? 244) then
        match t0 with
        | b1 :: b2 :: b3 :: t3 =>
            cont b1 && cont b2 && cont b3
            && (if b0 =? 240 then 144 <=? b1 else true)
            && (if b0 =? 244 then b1 <=? 143 else true)       (* <= U+10FFFF *)
            && utf8_valid_fuel n' t3
        | _ => false
        end
      else false
    end
  end.
Definition utf8_valid (l : bytes) : bool := utf8_valid_fuel (length l) l.

(* ---- little helpers ---- *)
Definition le_encode (w : nat) (v : Z) : bytes := rev (be_encode w v).
Definition le_decode (l : bytes) : Z := be_decode (rev l).

Definition take (n off : nat) (data : bytes) : res bytes :=
  if (off + n <=? length data)%nat then Ok (firstn n (skipn off data)) else Raise StructError.

Definition in_range (lo hi v : Z) : bool := (lo <=? v) && (v <? hi).

Definition psize (p : prim) : nat :=
  match p with PU w | PS w | PF w => w | PBool | PChar => 1%nat | PBytes n => n end.

Definition prim_ok (p : prim) (v : val) : bool :=
  match p, v with
  | PU w, VInt z => in_range 0 (256 ^ Z.of_nat w) z
  | PS w, VInt z => (0 <? Z.of_nat w) && in_range (- (256 ^ Z.of_nat w / 2)) (256 ^ Z.of_nat w / 2) z
  | PBool, VBool _ => true
  | PChar, VBytes [c] => is_byte c
  | PF w, VFloat z => in_range 0 (256 ^ Z.of_nat w) z
  | PBytes n, VBytes b => (length b =? n)%nat && bytes_okb b
  | _, _ => false
  end.

Definition penc (p : prim) (v : val) : res bytes :=
  if negb (prim_ok p v) then Raise StructError else
  match p, v with
  | PU w, VInt z => Ok (be_encode w z)
  | PS w, VInt z => Ok (be_encode w (of_signed w z))
  | PBool, VBool b => Ok [if b then 1 else 0]
  | PChar, VBytes b => Ok b
  | PF w, VFloat z => Ok (be_encode w z)
  | PBytes n, VBytes b => Ok b
  | _, _ => Raise StructError
  end.

(* bs has exactly psize p bytes *)
Definition pdec (p : prim) (bs : bytes) : val :=
  match p with
  | PU w => VInt (be_decode bs)
  | PS w => VInt (to_signed w (be_decode bs))
  | PBool => VBool (negb (be_decode bs =? 0))
  | PChar => VBytes bs
  | PF w => VFloat (be_decode bs)
  | PBytes n => VBytes bs
  end.

Definition struct_size (ps : list prim) : nat := fold_right (fun p a => (psize p + a)%nat) 0%nat ps.

Fixpoint struct_enc (ps : list prim) (vs : list val) : res bytes :=
  match ps, vs with
  | [], [] => Ok []
  | p :: ps', v :: vs' => do a <- penc p v; do b <- struct_enc ps' vs'; Ok (a ++ b)
  | _, _ => Raise StructError
  end.

Fixpoint struct_dec (ps : list prim) (bs : bytes) : list val :=
  match ps with
  | [] => []
  | p :: ps' => pdec p (firstn (psize p) bs) :: struct_dec ps' (skipn (psize p) bs)
  end.

Definition bit_of (b : Z) (i : Z) : val := VInt (if Z.testbit b i then 1 else 0).

Definition truthy (v : val) : res bool :=
  match v with
  | VInt z => Ok (negb (z =? 0))
  | VBool b => Ok b
  | _ => Raise TypeError
  end.

Fixpoint bits_enc (vs : list val) (weight : Z) : res Z :=
  match vs with
  | [] => Ok 0
  | v :: tl => do b <- truthy v; do r <- bits_enc tl (weight / 2); Ok ((if b then weight else 0) + r)
  end.

Fixpoint flags_or (vs : list val) : res Z :=
  match vs with
  | [] => Ok 0
  | VInt z :: tl => if z <? 0 then Raise StructError else do r <- flags_or tl; Ok (Z.lor z r)
  | _ => Raise TypeError
  end.

Definition flags_dec (w : nat) (n : Z) : list val :=
  flat_map (fun i => if Z.testbit n (Z.of_nat i) then [VInt (2 ^ Z.of_nat i)] else []) (seq 0 (w * 8)).

Fixpoint concat_res (l : list (res bytes)) : res bytes :=
  match l with
  | [] => Ok []
  | r :: tl => do a <- r; do b <- concat_res tl; Ok (a ++ b)
  end.

(* element decoding of the array packer: chunks of psize e bytes, little-endian *)
Definition adec (e : prim) (bs : bytes) : val :=
  match e with
  | PBool => VBool (negb (le_decode bs =? 0))
  | PS w => VInt (to_signed w (le_decode bs))
  | PF w => VFloat (le_decode bs)
  | _ => VInt (le_decode bs)
  end.
Definition aenc (e : prim) (v : val) : res bytes :=
  if negb (prim_ok e v) then Raise StructError else
  match e, v with
  | PBool, VBool b => Ok [if b then 1 else 0]
  | PS w, VInt z => Ok (le_encode w (of_signed w z))
  | PF w, VFloat z => Ok (le_encode w z)
  | PU w, VInt z => Ok (le_encode w z)
  | _, _ => Raise StructError
  end.
Fixpoint chunks (n : nat) (k : nat) (bs : bytes) : list bytes :=
  match k with
  | O => []
  | S k' => firstn n bs :: chunks n k' (skipn n bs)
  end.

Section Wire.
(* which byte strings the key vault accepts as a public key (external primitive, answered per case) *)
Variable key_ok : bytes -> bool.

Definition addr_pack (ip_only : bool) (a : addr) : res bytes :=
  match a with
  | A4 ip port =>
      if (length ip =? 4)%nat && bytes_okb ip && in_range 0 65536 port
      then Ok (1 :: ip ++ be_encode 2 port) else Raise PackError
  | A6 ip port =>
      if (length ip =? 16)%nat && bytes_okb ip && in_range 0 65536 port
      then Ok (3 :: ip ++ be_encode 2 port) else Raise PackError
  | ADom host port =>
      if ip_only then Raise PackError
      else if (Z.of_nat (length host) <? 65536) && bytes_okb host && utf8_valid host && in_range 0 65536 port
      then Ok (2 :: be_encode 2 (Z.of_nat (length host)) ++ host ++ be_encode 2 port)
      else Raise PackError
  end.

Definition addr_unpack (ip_only : bool) (data : bytes) (off : nat) : res (addr * nat) :=
  do t <- take 1 off data;
  let t := be_decode t in
  if t =? 1 then
    do b <- take 6 (off + 1) data;
    Ok (A4 (firstn 4 b) (be_decode (skipn 4 b)), (off + 7)%nat)
  else if t =? 3 then
    do b <- take 18 (off + 1) data;
    Ok (A6 (firstn 16 b) (be_decode (skipn 16 b)), (off + 19)%nat)
  else if negb ip_only && (t =? 2) then
    do l <- take 2 (off + 1) data;
    let l := Z.to_nat (be_decode l) in
    let host := firstn l (skipn (off + 3) data) in
    if negb (utf8_valid host) then Raise UnicodeError else
    do p <- take 2 (off + 3 + l) data;
    Ok (ADom host (be_decode p), (off + 5 + l)%nat)
  else Raise PackError.

Definition varlen_pack (lw base : nat) (b : bytes) : res bytes :=
  if (base =? 0)%nat then Raise ZeroDivisionError else
  let n := Z.of_nat (length b / base) in
  if in_range 0 (256 ^ Z.of_nat lw) n && bytes_okb b then Ok (be_encode lw n ++ b) else Raise StructError.

Definition varlen_unpack (lw base : nat) (data : bytes) (off : nat) : res (bytes * nat) :=
  do l <- take lw off data;
  let len := (Z.to_nat (be_decode l) * base)%nat in
  if (off + lw + len <=? length data)%nat
  then Ok (firstn len (skipn (off + lw) data), (off + lw + len)%nat)
  else Raise PackError.

Fixpoint unpack_n (u : bytes -> nat -> res (val * nat)) (n : nat) (data : bytes) (off : nat)
  : res (list val * nat) :=
  match n with
  | O => Ok ([], off)
  | S n' => do (v, o1) <- u data off; do (vs, o2) <- unpack_n u n' data o1; Ok (v :: vs, o2)
  end.

Fixpoint pack (f : fmt) (v : val) {struct f} : res bytes :=
  match f with
  | FStruct ps =>
      match ps, v with
      | [p], _ => penc p v
      | _, VTuple vs => struct_enc ps vs
      | _, _ => Raise StructError
      end
  | FBits =>
      match v with
      | VTuple vs => if (length vs =? 8)%nat then do z <- bits_enc vs 128; Ok [z] else Raise IndexError
      | _ => Raise TypeError
      end
  | FRaw => match v with VBytes b => if bytes_okb b then Ok b else Raise TypeError | _ => Raise TypeError end
  | FVarLen lw base utf8 =>
      match v, utf8 with
      | VBytes b, false => varlen_pack lw base b
      | VStr b, true => if utf8_valid b then varlen_pack lw base b else Raise UnicodeError
      | _, _ => Raise TypeError
      end
  | FIPv4 =>
      match v with
      | VAddr (A4 ip port) =>
          if (length ip =? 4)%nat && bytes_okb ip && in_range 0 65536 port
          then Ok (ip ++ be_encode 2 port) else Raise StructError
      | _ => Raise OSError
      end
  | FAddr ip_only => match v with VAddr a => addr_pack ip_only a | _ => Raise TypeError end
  | FFlags w =>
      match v with
      | VList vs => do z <- flags_or vs;
                    if in_range 0 (256 ^ Z.of_nat w) z then Ok (be_encode w z) else Raise StructError
      | _ => Raise TypeError
      end
  | FArray e lw =>
      match v with
      | VList vs =>
          if in_range 0 (256 ^ Z.of_nat lw) (Z.of_nat (length vs))
          then do body <- concat_res (map (aenc e) vs); Ok (le_encode lw (Z.of_nat (length vs)) ++ body)
          else Raise StructError
      | _ => Raise TypeError
      end
  | FNode =>
      match v with
      | VNode a key => do x <- addr_pack true a;
                       if key_ok key then do y <- varlen_pack 2 1 key; Ok (x ++ y) else Raise ValueError
      | _ => Raise TypeError
      end
  | FListOf lw f' =>
      match v with
      | VList vs =>
          if in_range 0 (256 ^ Z.of_nat lw) (Z.of_nat (length vs))
          then do body <- concat_res (map (pack f') vs); Ok (be_encode lw (Z.of_nat (length vs)) ++ body)
          else Raise StructError
      | _ => Raise TypeError
      end
  | FNested m =>
      match v with
      | VMsg vs => do body <- pack_msg m vs;
                   if Z.of_nat (length body) <? 65536
                   then Ok (be_encode 2 (Z.of_nat (length body)) ++ body) else Raise StructError
      | _ => Raise TypeError
      end
  end
with pack_msg (m : msgfmt) (vs : list val) {struct m} : res bytes :=
  match m, vs with
  | MNil, [] => Ok []
  | MCons f m', v :: vs' => do a <- pack f v; do b <- pack_msg m' vs'; Ok (a ++ b)
  | _, _ => Raise IndexError
  end.

Fixpoint unpack (f : fmt) (data : bytes) (off : nat) {struct f} : res (val * nat) :=
  match f with
  | FStruct ps =>
      do bs <- take (struct_size ps) off data;
      let vs := struct_dec ps bs in
      Ok (match vs with [v] => v | _ => VTuple vs end, (off + struct_size ps)%nat)
  | FBits =>
      do b <- take 1 off data;
      let b := be_decode b in
      Ok (VTuple (map (bit_of b) [7; 6; 5; 4; 3; 2; 1; 0]), (off + 1)%nat)
  | FRaw => Ok (VBytes (skipn off data), length data)
  | FVarLen lw base utf8 =>
      do (b, o) <- varlen_unpack lw base data off;
      if utf8 then (if utf8_valid b then Ok (VStr b, o) else Raise UnicodeError) else Ok (VBytes b, o)
  | FIPv4 =>
      do b <- take 6 off data;
      Ok (VAddr (A4 (firstn 4 b) (be_decode (skipn 4 b))), (off + 6)%nat)
  | FAddr ip_only => do (a, o) <- addr_unpack ip_only data off; Ok (VAddr a, o)
  | FFlags w =>
      do b <- take w off data;
      Ok (VList (flags_dec w (be_decode b)), (off + w)%nat)
  | FArray e lw =>
      do l <- take lw off data;
      let n := Z.to_nat (le_decode l) in
      let len := (n * psize e)%nat in
      if (off + lw + len <=? length data)%nat
      then Ok (VList (map (adec e) (chunks (psize e) n (firstn len (skipn (off + lw) data)))),
               (off + lw + len)%nat)
      else Raise PackError
  | FNode =>
      do (a, o1) <- addr_unpack true data off;
      do (k, o2) <- varlen_unpack 2 1 data o1;
      if key_ok k then Ok (VNode a k, o2) else Raise ValueError
  | FListOf lw f' =>
      do l <- take lw off data;
      do (vs, o) <- unpack_n (unpack f') (Z.to_nat (be_decode l)) data (off + lw);
      Ok (VList vs, o)
  | FNested m =>
      do l <- take 2 off data;
      let size := Z.to_nat (be_decode l) in
      if (off + 2 + size <=? length data)%nat then
        do (vs, _) <- unpack_msg m (firstn size (skipn (off + 2) data)) 0;
        Ok (VMsg vs, (off + 2 + size)%nat)
      else Raise PackError
  end
with unpack_msg (m : msgfmt) (data : bytes) (off : nat) {struct m} : res (list val * nat) :=
  match m with
  | MNil => Ok ([], off)
  | MCons f m' =>
      do (v, o1) <- unpack f data off;
      do (vs, o2) <- unpack_msg m' data o1;
      Ok (v :: vs, o2)
  end.

(* Serializer.unpack_serializable_list for one payload class with consume_all *)
Definition unpack_all (m : msgfmt) (data : bytes) (off : nat) : res (list val) :=
  do (vs, o) <- unpack_msg m data off;
  if (o <? length data)%nat then Raise PackError else Ok vs.

(* ---- legal values ---- *)
Definition addr_ok (ip_only : bool) (a : addr) : bool :=
  match a with
  | A4 ip port => (length ip =? 4)%nat && bytes_okb ip && in_range 0 65536 port
  | A6 ip port => (length ip =? 16)%nat && bytes_okb ip && in_range 0 65536 port
  | ADom host port =>
      negb ip_only && (Z.of_nat (length host) <? 65536) && bytes_okb host && utf8_valid host
      && in_range 0 65536 port
  end.

Definition is_bit (v : val) : bool := match v with VInt z => (z =? 0) || (z =? 1) | _ => false end.

Fixpoint forallb2 {A B} (p : A -> B -> bool) (l1 : list A) (l2 : list B) : bool :=
  match l1, l2 with
  | [], [] => true
  | a :: t1, b :: t2 => p a b && forallb2 p t1 t2
  | _, _ => false
  end.

Definition aelem (e : prim) : bool :=
  match e with PBool => true | PS w | PF w | PU w => (0 <? w)%nat | _ => false end.

Fixpoint val_ok (f : fmt) (v : val) {struct f} : bool :=
  match f with
  | FStruct ps =>
      match ps, v with
      | [p], _ => prim_ok p v
      | _, VTuple vs => forallb2 prim_ok ps vs
      | _, _ => false
      end
  | FBits => match v with VTuple vs => (length vs =? 8)%nat && forallb is_bit vs | _ => false end
  | FRaw => match v with VBytes b => bytes_okb b | _ => false end
  | FVarLen lw base utf8 =>
      let okb b := (0 <? base)%nat && (length b mod base =? 0)%nat && bytes_okb b
                   && (Z.of_nat (length b / base) <? 256 ^ Z.of_nat lw) in
      match v, utf8 with
      | VBytes b, false => okb b
      | VStr b, true => okb b && utf8_valid b
      | _, _ => false
      end
  | FIPv4 => match v with VAddr (A4 ip port) => addr_ok true (A4 ip port) | _ => false end
  | FAddr ip_only => match v with VAddr a => addr_ok ip_only a | _ => false end
  | FFlags w =>
      match v with
      | VList vs => val_eqb v (VList (flags_dec w (match flags_or vs with Ok z => z | _ => -1 end)))
      | _ => false
      end
  | FArray e lw =>
      match v with
      | VList vs => (Z.of_nat (length vs) <? 256 ^ Z.of_nat lw) && forallb (prim_ok e) vs
      | _ => false
      end
  | FNode =>
      match v with
      | VNode a k => addr_ok true a && key_ok k && bytes_okb k && (Z.of_nat (length k) <? 65536)
      | _ => false
      end
  | FListOf lw f' =>
      match v with
      | VList vs => (Z.of_nat (length vs) <? 256 ^ Z.of_nat lw) && forallb (val_ok f') vs
      | _ => false
      end
  | FNested m =>
      match v with
      | VMsg vs => msg_ok m vs
                   && match pack_msg m vs with Ok b => Z.of_nat (length b) <? 65536 | _ => false end
      | _ => false
      end
  end
with msg_ok (m : msgfmt) (vs : list val) {struct m} : bool :=
  match m, vs with
  | MNil, [] => true
  | MCons f m', v :: vs' => val_ok f v && msg_ok m' vs'
  | _, _ => false
  end.

(* ---- well-formed formats: what the registry and the shipped classes use ---- *)
Definition lw_ok (lw : nat) : bool := (lw =? 1)%nat || (lw =? 2)%nat || (lw =? 4)%nat.

Definition prim_wf (p : prim) : bool :=
  match p with PU w | PS w | PF w => (0 <? w)%nat | _ => true end.

(* greedy: consumes the rest of the buffer *)
Fixpoint wf_fmt (f : fmt) : bool :=
  match f with
  | FStruct ps => negb (length ps =? 0)%nat && forallb prim_wf ps
  | FVarLen lw base _ => lw_ok lw && (0 <? base)%nat
  | FFlags w => (0 <? w)%nat
  | FArray e lw => lw_ok lw && aelem e
  | FListOf lw f' => lw_ok lw && wf_fmt f' && negb (match f' with FRaw => true | _ => false end)
  | FNested m => wf_msg m
  | _ => true
  end
with wf_msg (m : msgfmt) : bool :=
  match m with
  | MNil => true
  | MCons f MNil => wf_fmt f
  | MCons f m' => wf_fmt f && negb (match f with FRaw => true | _ => false end) && wf_msg m'
  end.

Definition greedy (f : fmt) : bool := match f with FRaw => true | _ => false end.
Fixpoint msg_greedy (m : msgfmt) : bool :=
  match m with
  | MNil => false
  | MCons f MNil => greedy f
  | MCons _ m' => msg_greedy m'
  end.

End Wire.

(* ---- executable interface for the correspondence checks (C02, C03, C20) ---- *)
Definition res_eqb_loose {A} (eqb : A -> A -> bool) (x y : res A) : bool :=
  match x, y with
  | Ok a, Ok b => eqb a b
  | Raise _, Raise _ => true      (* exception classes of the packers are not part of any property *)
  | _, _ => false
  end.

Definition keyset (keys : list bytes) (k : bytes) : bool := existsb (bytes_eqb k) keys.

Fixpoint vlist_eqb (a b : list val) : bool :=
  match a, b with
  | [], [] => true
  | x :: a', y :: b' => val_eqb x y && vlist_eqb a' b'
  | _, _ => false
  end.

Definition pack_case := (list bytes * fmt * val)%type.
Definition run_pack (c : pack_case) : res bytes := let '(keys, f, v) := c in pack (keyset keys) f v.

Definition unpack_case := (list bytes * fmt * bytes * nat)%type.
Definition run_unpack (c : unpack_case) : res (val * nat) :=
  let '(keys, f, data, off) := c in unpack (keyset keys) f data off.
Definition vo_eqb (a b : val * nat) : bool := val_eqb (fst a) (fst b) && (snd a =? snd b)%nat.

Definition packm_case := (list bytes * list fmt * list val)%type.
Definition run_packm (c : packm_case) : res bytes :=
  let '(keys, fs, vs) := c in pack_msg (keyset keys) (msg_of_list fs) vs.

Definition unpackm_case := (list bytes * list fmt * bytes * nat)%type.
Definition run_unpackm (c : unpackm_case) : res (list val * nat) :=
  let '(keys, fs, data, off) := c in unpack_msg (keyset keys) (msg_of_list fs) data off.
Definition vso_eqb (a b : list val * nat) : bool := vlist_eqb (fst a) (fst b) && (snd a =? snd b)%nat.

(* legality as the model sees it (the harness compares it with its own generator's intent) *)
Definition run_ok (c : pack_case) : bool := let '(keys, f, v) := c in val_ok (keyset keys) f v.

(* registry entries: "payload" and "payload-list" take the nested class as an argument *)
Inductive rfmt := RF (f : fmt) | RPayload | RPayloadList (lw : nat).
