(* C16 - token tree.  Executable model of
     ipv8/attestation/tokentree/tree.py   (TokenTree.gather_token, unchained, _append_chain_reaction_token,
                                            get_missing, verify, get_root_path, serialize_public,
                                            unserialize_public)
     ipv8/attestation/tokentree/token.py  (Token: get_plaintext, unserialize, receive_content,
                                            from_database_tuple)
     ipv8/attestation/signed_object.py    (get_plaintext_signed, get_hash, verify, __eq__/__hash__)
   No proofs here.  SHA3-256 and the signature scheme are Section variables; the executable instances
   are at the end of the file (a table-driven one for the correspondence and a toy one). *)
From Coq Require Import ZArith List Bool Arith.
From IPV8V Require Import lib.PyErr lib.Bytes.
Import ListNotations.
Open Scope Z_scope.

(* A Token object: previous_token_hash, content_hash, signature, content (None until received). *)
Record token := mkToken {
  t_prev : bytes;
  t_chash : bytes;
  t_sig : bytes;
  t_content : option bytes
}.

(* TokenTree: `elements` is a dict keyed by token.get_hash() (insertion ordered; the key of a value is
   always its own hash, so the model keeps the values in insertion order); `unchained` is an
   OrderedDict whose keys are Token objects (equality = equal signed plaintext); `cap` is
   unchained_max_size. *)
Record tree := mkTree {
  elements : list token;
  unchained : list token;
  cap : nat
}.

Definition empty_tree (c : nat) : tree := mkTree [] [] c.

Definition strip (t : token) : token := mkToken (t_prev t) (t_chash t) (t_sig t) None.

(* Token.get_plaintext / AbstractSignedObject.get_plaintext_signed *)
Definition plaintext (t : token) : bytes := t_prev t ++ t_chash t.
Definition signed (t : token) : bytes := plaintext t ++ t_sig t.

(* AbstractSignedObject.__eq__ : equal signed plaintext *)
Definition tok_eqb (a b : token) : bool := bytes_eqb (signed a) (signed b).

Definition is_some {A} (o : option A) : bool := match o with Some _ => true | None => false end.

(* dict / OrderedDict helpers *)
Fixpoint update_first (p : token -> bool) (f : token -> token) (l : list token) : list token :=
  match l with
  | [] => []
  | x :: tl => if p x then f x :: tl else x :: update_first p f tl
  end.

Fixpoint remove_first (p : token -> bool) (l : list token) : list token :=
  match l with
  | [] => []
  | x :: tl => if p x then tl else x :: remove_first p tl
  end.

(* self.unchained[token] = None ; if len(self.unchained) > max: self.unchained.popitem(False) *)
Definition u_insert (u : list token) (t : token) (c : nat) : list token :=
  let u1 := if existsb (tok_eqb t) u then u else u ++ [t] in
  if (c <? length u1)%nat then tl u1 else u1.

(* self.unchained.pop(token) : KeyError when absent *)
Definition u_pop (u : list token) (t : token) : res (list token) :=
  if existsb (tok_eqb t) u then Ok (remove_first (tok_eqb t) u) else Raise KeyError.

(* the loop of _append_chain_reaction_token over the collected waiters; g is gather_token *)
Fixpoint wake_with (g : tree -> token -> res (tree * option token)) (ws : list token) (tr : tree)
  : res tree :=
  match ws with
  | [] => Ok tr
  | r :: ws' =>
      match u_pop (unchained tr) r with
      | Raise e => Raise e
      | Ok u' =>
          match g (mkTree (elements tr) u' (cap tr)) r with
          | Raise e => Raise e
          | Ok (tr', _) => wake_with g ws' tr'     (* a None result is only logged *)
          end
      end
  end.

Section TokenTree.
Variable hash : bytes -> bytes.                     (* hashlib.sha3_256(x).digest() *)
Variable sigverify : bytes -> bytes -> bytes -> bool.  (* ECCrypto.is_valid_signature(pk, msg, sig) *)
Variable hl : nat.                                  (* width of a hash on the wire (32) *)
Variable sl : nat.                                  (* public_key.get_signature_length() *)
Variable pk : bytes.                                (* public_key.key_to_bin() of the tree's owner *)

Definition genesis : bytes := hash pk.
Definition thash (t : token) : bytes := hash (signed t).          (* get_hash() *)
Definition tverify (t : token) : bool := sigverify pk (plaintext t) (t_sig t).   (* token.verify(pk) *)

(* Token.receive_content *)
Definition receive_content (t : token) (c : bytes) : token * bool :=
  if bytes_eqb (hash c) (t_chash t) then (mkToken (t_prev t) (t_chash t) (t_sig t) (Some c), true)
  else (t, false).

(* Token(prev, content_hash=.., signature=..) and Token.from_database_tuple *)
Definition from_db (prev sig chash : bytes) (content : option bytes) : token :=
  let t := mkToken prev chash sig None in
  match content with Some c => fst (receive_content t c) | None => t end.

Definition keys (e : list token) : list bytes := map thash e.
Definition has_key (h : bytes) (e : list token) : bool := existsb (fun x => bytes_eqb (thash x) h) e.
Definition find_key (h : bytes) (e : list token) : option token :=
  find (fun x => bytes_eqb (thash x) h) e.

(* not (prev != genesis and prev not in elements) *)
Definition readyb (e : list token) (t : token) : bool :=
  bytes_eqb (t_prev t) genesis || has_key (t_prev t) e.

(* shadow_token.content is None and token.content is not None -> shadow_token.receive_content(..) *)
Definition merge_content (shadow t : token) : token :=
  match t_content shadow, t_content t with
  | None, Some c => fst (receive_content shadow c)
  | _, _ => shadow
  end.

(* gather_token, with _append_chain_reaction_token inlined (repaired form: every waiter of the appended
   token is woken).  The recursion gather -> chain reaction -> gather is bounded by the size of the
   waiting area; fuel exhaustion is visible as OutOfFuel and excluded by P16 (gather_top_total). *)
Fixpoint gather (fuel : nat) (tr : tree) (t : token) : res (tree * option token) :=
  match fuel with
  | O => Raise OutOfFuel
  | S f =>
      if negb (tverify t) then Ok (tr, None)
      else if negb (readyb (elements tr) t) then
        Ok (mkTree (elements tr) (u_insert (unchained tr) t (cap tr)) (cap tr), None)
      else
        match find_key (thash t) (elements tr) with
        | Some shadow =>
            let sh := merge_content shadow t in
            Ok (mkTree (update_first (fun x => bytes_eqb (thash x) (thash t)) (fun _ => sh) (elements tr))
                       (unchained tr) (cap tr), Some sh)
        | None =>
            let tr1 := mkTree (elements tr ++ [t]) (unchained tr) (cap tr) in
            let ws := filter (fun l => bytes_eqb (t_prev l) (thash t)) (unchained tr) in
            match wake_with (gather f) ws tr1 with
            | Raise e => Raise e
            | Ok tr2 => Ok (tr2, Some t)
            end
        end
  end.

Definition gather_top (tr : tree) (t : token) : res (tree * option token) :=
  gather (S (length (unchained tr))) tr t.

(* the pinned (unrepaired) _append_chain_reaction_token: only the first waiter is woken *)
Fixpoint gather_pinned (fuel : nat) (tr : tree) (t : token) : res (tree * option token) :=
  match fuel with
  | O => Raise OutOfFuel
  | S f =>
      if negb (tverify t) then Ok (tr, None)
      else if negb (readyb (elements tr) t) then
        Ok (mkTree (elements tr) (u_insert (unchained tr) t (cap tr)) (cap tr), None)
      else
        match find_key (thash t) (elements tr) with
        | Some shadow =>
            let sh := merge_content shadow t in
            Ok (mkTree (update_first (fun x => bytes_eqb (thash x) (thash t)) (fun _ => sh) (elements tr))
                       (unchained tr) (cap tr), Some sh)
        | None =>
            let tr1 := mkTree (elements tr ++ [t]) (unchained tr) (cap tr) in
            let ws := firstn 1 (filter (fun l => bytes_eqb (t_prev l) (thash t)) (unchained tr)) in
            match wake_with (gather_pinned f) ws tr1 with
            | Raise e => Raise e
            | Ok tr2 => Ok (tr2, Some t)
            end
        end
  end.

(* a sequence of arrivals *)
Fixpoint gather_all (tr : tree) (arr : list token) : res tree :=
  match arr with
  | [] => Ok tr
  | t :: tl => match gather_top tr t with
               | Raise e => Raise e
               | Ok (tr', _) => gather_all tr' tl
               end
  end.

Fixpoint gather_all_pinned (tr : tree) (arr : list token) : res tree :=
  match arr with
  | [] => Ok tr
  | t :: tl => match gather_pinned (S (length (unchained tr))) tr t with
               | Raise e => Raise e
               | Ok (tr', _) => gather_all_pinned tr' tl
               end
  end.

(* get_missing: {token.previous_token_hash for token in self.unchained}, first occurrences *)
Fixpoint dedup (l : list bytes) : list bytes :=
  match l with
  | [] => []
  | x :: tl => x :: filter (fun y => negb (bytes_eqb x y)) (dedup tl)
  end.
Definition get_missing (tr : tree) : list bytes := dedup (map t_prev (unchained tr)).

(* verify / get_root_path: `n` is the number of loop iterations still allowed (maxdepth - steps).
   Leaving by `break` returns steps < maxdepth = True; running out of iterations returns False / []. *)
Fixpoint verify_loop (n : nat) (e : list token) (cur : token) : bool :=
  match n with
  | O => false
  | S n' =>
      if negb (tverify cur) then false
      else if bytes_eqb (t_prev cur) genesis then true
      else match find_key (t_prev cur) e with
           | None => false
           | Some nxt => verify_loop n' e nxt
           end
  end.

(* maxdepth < 0: for -1 the loop is unbounded but the final `steps < maxdepth` is False, other negative
   values skip the loop; both answer False (the unbounded loop on a cyclic store is not modelled) *)
Definition tree_verify (tr : tree) (t : token) (maxdepth : Z) : bool :=
  if maxdepth <? 0 then false else verify_loop (Z.to_nat maxdepth) (elements tr) t.

Fixpoint path_loop (n : nat) (e : list token) (cur : token) (path : list token) : list token :=
  match n with
  | O => []
  | S n' =>
      if negb (tverify cur) then []
      else if bytes_eqb (t_prev cur) genesis then path
      else match find_key (t_prev cur) e with
           | None => []
           | Some nxt => path_loop n' e nxt (path ++ [nxt])
           end
  end.

Definition get_root_path (tr : tree) (t : token) (maxdepth : Z) : list token :=
  if maxdepth <? 0 then [] else path_loop (Z.to_nat maxdepth) (elements tr) t [t].

(* serialize_public() : full dump in dict order *)
Definition serialize_public (tr : tree) : bytes := flat_map signed (elements tr).

(* serialize_public(up_to): walk back while the pointer is a key.  Fuel = |elements| + 1. *)
Fixpoint ser_walk (fuel : nat) (e : list token) (next : bytes) : res bytes :=
  match find_key next e with
  | None => Ok []
  | Some t =>
      match fuel with
      | O => Raise OutOfFuel
      | S f => match ser_walk f e (t_prev t) with
               | Raise x => Raise x
               | Ok rest => Ok (signed t ++ rest)
               end
      end
  end.
Definition serialize_up_to (tr : tree) (t : token) : res bytes :=
  match ser_walk (length (elements tr)) (elements tr) (t_prev t) with
  | Raise x => Raise x
  | Ok rest => Ok (signed t ++ rest)
  end.

(* Token.unserialize(data, pk, offset) on the rest of the data at that offset:
   struct.unpack_from(">32s32s{sig_len}s") raises struct.error when fewer bytes remain *)
Definition chunk : nat := (hl + hl + sl)%nat.
Definition token_unserialize (s : bytes) : res token :=
  if (length s <? chunk)%nat then Raise StructError
  else Ok (mkToken (firstn hl s) (firstn hl (skipn hl s)) (firstn sl (skipn (hl + hl) s)) None).

(* unserialize_public: the tree is mutated chunk by chunk, so the state reached before an exception
   is kept: the result is (tree, Ok correct | Raise e).  `s` is the data from the current offset. *)
Fixpoint unser_loop (fuel : nat) (tr : tree) (s : bytes) (correct : bool) : tree * res bool :=
  match s with
  | [] => (tr, Ok correct)
  | _ =>
      match fuel with
      | O => (tr, Raise OutOfFuel)
      | S f =>
          match token_unserialize s with
          | Raise e => (tr, Raise e)
          | Ok t =>
              match gather_top tr t with
              | Raise e => (tr, Raise e)
              | Ok (tr', r) => unser_loop f tr' (skipn chunk s) (correct && is_some r)
              end
          end
      end
  end.

Definition unserialize_public (tr : tree) (s : bytes) : tree * res bool :=
  if (chunk =? 0)%nat then (tr, if (length s =? 0)%nat then Ok true else Raise ValueError)
  else unser_loop (length s) tr s true.

End TokenTree.

(* ------------------------------------------------------------------------------------------------
   Executable instances.
   1. table-driven: the harness supplies SHA3-256 on the inputs of the case and the set of
      (plaintext, signature) pairs valid under the tree's key. *)
Definition tbl_hash (tbl : list (bytes * bytes)) (x : bytes) : bytes :=
  match find (fun p => bytes_eqb (fst p) x) tbl with Some p => snd p | None => [] end.
Definition tbl_verify (valid : list (bytes * bytes)) (_pk m s : bytes) : bool :=
  existsb (fun p => bytes_eqb (fst p) m && bytes_eqb (snd p) s) valid.

(* 2. toy: hash = identity (injective), signature of m under key k = k ++ m *)
Definition toy_hash (x : bytes) : bytes := x.
Definition toy_verify (k m s : bytes) : bool := bytes_eqb s (k ++ m).
Definition toy_token (k prev chash : bytes) : token := mkToken prev chash (k ++ prev ++ chash) None.

(* ------------------------------------------------------------------------------------------------
   Correspondence interface.  A case fixes widths, key, tables, capacity, a pool of token fields and a
   pool of contents; operations refer to the pools by index.  Observations are flat lists of Z:
   tokens are reported as (index in the pool of the first token with the same signed bytes, index of the
   content in the content pool or -1).  Only the public surface is ordered the way the implementation
   orders it (elements, serialisations); get_missing() is a set and is reported sorted; the waiting tokens
   themselves are internal to the implementation and are reported as a sorted set, and only when the
   harness could see them (c_waiting). *)
Inductive op :=
| OGather (i : nat) (c : option nat)   (* gather_token(from_database_tuple(pool[i], content c)) *)
| OUnser (s : bytes).                  (* unserialize_public(s) *)

Record case := mkCase {
  c_hl : nat; c_sl : nat; c_pk : bytes;
  c_htbl : list (bytes * bytes);
  c_vtbl : list (bytes * bytes);
  c_cap : nat;
  c_pool : list token;
  c_contents : list bytes;
  c_depths : list Z;          (* maxdepth values probed by verify / get_root_path at the end *)
  c_trace : bool;             (* report the state after every operation (else only at the end) *)
  c_waiting : bool;           (* the harness could read the waiting tokens: compare them (as a set) *)
  c_ops : list op
}.

Section Run.
Variable c : case.
Let H := tbl_hash (c_htbl c).
Let V := tbl_verify (c_vtbl c).
Let PK := c_pk c.

Fixpoint index_from {A} (p : A -> bool) (l : list A) (i : Z) : Z :=
  match l with [] => i | x :: tl => if p x then i else index_from p tl (i + 1) end.
Definition tok_index (t : token) : Z := index_from (tok_eqb t) (c_pool c) 0.
Definition content_index (o : option bytes) : Z :=
  match o with None => -1 | Some b => index_from (bytes_eqb b) (c_contents c) 0 end.

Definition enc_tok (t : token) : list Z := [tok_index t; content_index (t_content t)].
Definition enc_list {A} (f : A -> list Z) (l : list A) : list Z := Z.of_nat (length l) :: flat_map f l.
Definition enc_bytes (b : bytes) : list Z := Z.of_nat (length b) :: b.
Definition enc_bool (b : bool) : list Z := [if b then 1 else 0].
Definition exn_code (e : exn) : Z :=
  match e with StructError => 10 | KeyError => 11 | OutOfFuel => 12 | ValueError => 13 | _ => 19 end.

(* canonical order for sets: insertion sort *)
Fixpoint insert_by {A} (leb : A -> A -> bool) (x : A) (l : list A) : list A :=
  match l with
  | [] => [x]
  | y :: tl => if leb x y then x :: l else y :: insert_by leb x tl
  end.
Definition sort_by {A} (leb : A -> A -> bool) (l : list A) : list A := fold_right (insert_by leb) [] l.
Fixpoint bytes_leb (a b : bytes) : bool :=      (* Python's ordering of bytes objects *)
  match a, b with
  | [], _ => true
  | _ :: _, [] => false
  | x :: a', y :: b' => (x <? y) || ((x =? y) && bytes_leb a' b')
  end.
Definition pair_leb (a b : Z * Z) : bool :=
  (fst a <? fst b) || ((fst a =? fst b) && (snd a <=? snd b)).

Definition enc_state (tr : tree) : list Z :=
  enc_list enc_tok (elements tr)
  ++ enc_list enc_bytes (sort_by bytes_leb (get_missing tr))
  ++ (if c_waiting c then
        enc_list (fun p : Z * Z => [fst p; snd p])
                 (sort_by pair_leb (map (fun t => (tok_index t, content_index (t_content t))) (unchained tr)))
      else []).

Definition nth_tok (i : nat) : token := nth i (c_pool c) (mkToken [] [] [] None).

Definition step (tr : tree) (o : op) : tree * list Z :=
  match o with
  | OGather i co =>
      let p := nth_tok i in
      let t := from_db H (t_prev p) (t_sig p) (t_chash p)
                       (match co with Some j => Some (nth j (c_contents c) []) | None => None end) in
      match gather_top H V PK tr t with
      | Raise e => (tr, [exn_code e])
      | Ok (tr', None) => (tr', [0])
      | Ok (tr', Some r) => (tr', 1 :: enc_tok r)
      end
  | OUnser s =>
      let '(tr', r) := unserialize_public H V (c_hl c) (c_sl c) PK tr s in
      (tr', match r with Ok b => 2 :: enc_bool b | Raise e => [exn_code e] end)
  end.

Fixpoint run_ops (tr : tree) (ops : list op) : tree * list Z :=
  match ops with
  | [] => (tr, [])
  | o :: tl =>
      let '(tr1, o1) := step tr o in
      let '(tr2, o2) := run_ops tr1 tl in
      (tr2, o1 ++ (if c_trace c then enc_state tr1 else []) ++ o2)
  end.

(* final probes: for every pool token and depth: verify, get_root_path;
   serialize_public(); serialize_public(up_to) per pool token; reload of the dump into a fresh tree *)
Definition final_obs (tr : tree) : list Z :=
  flat_map (fun p => flat_map (fun d =>
        enc_bool (tree_verify H V PK tr p d) ++ enc_list enc_tok (get_root_path H V PK tr p d))
        (c_depths c)) (c_pool c)
  ++ enc_bytes (serialize_public tr)
  ++ flat_map (fun p => match serialize_up_to H tr p with
                        | Ok b => 1 :: enc_bytes b | Raise e => [exn_code e] end) (c_pool c)
  ++ (let '(tr2, r) := unserialize_public H V (c_hl c) (c_sl c) PK (empty_tree (cap tr))
                                          (serialize_public tr) in
      (match r with Ok b => 2 :: enc_bool b | Raise e => [exn_code e] end) ++ enc_state tr2).

Definition run_case_ : list Z :=
  let '(tr, o) := run_ops (empty_tree (c_cap c)) (c_ops c) in o ++ enc_state tr ++ final_obs tr.
End Run.

Definition run_case (c : case) : list Z := run_case_ c.
