(* Routing tables of a tunnel node under control traffic: TunnelCommunity.on_create / join_circuit,
   on_created (relay side), on_extend, on_destroy, remove_circuit / remove_relay / remove_exit_socket
   (destroy now, pop after remove_tunnel_delay), CreatedRequestCache expiry, and the data plane of
   M04_onion for every other cell.  Follows the code after the `fix:` commits "a create for a circuit id that
   is still in use replaces the existing exit socket" and "a stale created rewrites the forward route of an
   already extended circuit".  The key agreement, payload parsing and candidate
   selection are oracles carried by the operations (C08 / C02 / C03).  No proofs here. *)
From Coq Require Import ZArith List Bool Lia.
From IPV8V Require Import lib.PyErr lib.Bytes lib.BE model.M02_wire model.M03_recv model.M04_onion.
Import ListNotations.
Open Scope Z_scope.

Record peer := mkPeer { pr_pk : Z; pr_addr : addr }.

(* CreatedRequestCache(circuit_id): who created the exit socket, which next hops it may extend to *)
Record created_cache := mkCreated { cc_peer : peer; cc_candidates : list (Z * peer) }.
(* CreateRequestCache(number): an extend in progress *)
Record create_cache := mkCreate { cr_ident : Z; cr_to : Z; cr_from : Z; cr_peer : peer; cr_to_peer : peer }.

Inductive pending := PRelay (cid : Z) | PExit (cid : Z) | PCircuit (cid : Z).

(* what a node emits for control traffic: a cell (destination, circuit id, message id, plaintext flag) or a
   signed destroy message *)
Inductive cact :=
| CCell (dst : addr) (cid mid : Z) (plain : bool)
| CDestroy (dst : addr) (cid reason : Z)
| CData (a : action).                         (* an action of the data plane *)

Section Control.
Variables key nonce : Type.
Variable enc : key -> dir -> nonce -> bytes -> bytes.
Variable dec : key -> dir -> bytes -> option bytes.

Record cnode := mkCN {
  cn_tab : node key;
  cn_created : list (Z * created_cache);
  cn_create : list (Z * create_cache);
  cn_pending : list pending;
  cn_max_joined : Z }.

Definition set_tab (c : cnode) (t : node key) : cnode :=
  mkCN t (cn_created c) (cn_create c) (cn_pending c) (cn_max_joined c).
Definition add_pending (c : cnode) (p : list pending) : cnode :=
  mkCN (cn_tab c) (cn_created c) (cn_create c) (cn_pending c ++ p) (cn_max_joined c).

Definition in_use (t : node key) (cid : Z) : bool :=
  has cid (n_circuits t) || has cid (n_relays t) || has cid (n_exits t).

Inductive cop :=
(* a cell / datagram handled by the data plane only *)
| OCell (src : addr) (pkt : bytes) (rnd : bytes) (ns : nat -> nonce)
(* create(cid, ident, node_public_key, dh) from src; npk = the key parsed from the payload (None: unusable),
   k = the session keys the key agreement yields (None: it raised) *)
| OCreate (src : addr) (cid ident : Z) (npk : option Z) (k : option key) (cands : list (Z * peer))
(* created(cid, ident) from src *)
| OCreated (src : addr) (cid ident : Z)
(* extend(cid, ident, node_public_key, node_addr); known = verified peer of that key if any; number / tocid =
   the random cache number and circuit id drawn *)
| OExtend (src : addr) (cid ident : Z) (npk : Z) (naddr : addr) (known : option peer) (number tocid : Z)
(* destroy(cid, reason) whose signature verified for key pk (lazy_wrapper); sig_ok = false: it did not *)
| ODestroy (sig_ok : bool) (pk : Z) (paddr : addr) (cid reason : Z)
(* local decisions to drop an entry (do_remove, unload, linking): remove_X(cid, destroy=reason) *)
| ORemoveRelay (cid reason : Z)
| ORemoveExit (cid reason : Z)
| ORemoveCircuit (cid reason : Z)
(* remove_tunnel_delay elapsed: every scheduled removal pops its id *)
| OTimer
(* CreatedRequestCache(cid) timed out *)
| OCreatedExpired (cid : Z)
(* the originator's own business: a new circuit under a fresh id / progress of one of its circuits *)
| ONewCircuit (cid : Z) (c : circuit key)
| OCircuitUpdate (cid : Z) (c : circuit key).

Definition hop_peer (h : hop key) : peer := mkPeer (h_pk h) (h_addr h).
Definition peer_eqb (a b : peer) : bool := pr_pk a =? pr_pk b.     (* Peer.__eq__: public keys *)

(* remove_relay(cid, destroy=reason): forwards the destroy to relays[cid]'s far side, pops cid later *)
Definition remove_relay (c : cnode) (cid reason : Z) : cnode * list cact :=
  let acts := if reason =? 0 then [] else
                match assoc cid (n_relays (cn_tab c)) with
                | Some r => [CDestroy (h_addr (rr_hop r)) (rr_cid r) reason]
                | None => []
                end in
  (add_pending c [PRelay cid], acts).

Definition remove_exit (c : cnode) (cid reason : Z) : cnode * list cact :=
  let acts := if reason =? 0 then [] else
                match assoc cid (n_exits (cn_tab c)) with
                | Some es => [CDestroy (h_addr (es_hop es)) (es_cid es) reason]
                | None => []
                end in
  (add_pending c [PExit cid], acts).

(* remove_circuit: unknown id -> nothing at all; else destroy to the first hop, mark closing, pop later *)
Definition remove_circuit (c : cnode) (cid reason : Z) : res (cnode * list cact) :=
  match assoc cid (n_circuits (cn_tab c)) with
  | None => Ok (c, [])
  | Some ci =>
      do acts <- (if reason =? 0 then Ok [] else do h0 <- circuit_hop ci; Ok [CDestroy (h_addr h0) cid reason]);
      let ci' := mkCircuit (c_goal ci) (c_ctype ci) (c_hops ci) (c_unverified ci) (c_hs ci) true (c_early ci) in
      let t := cn_tab c in
      Ok (add_pending (set_tab c (set_circuits t (upd cid ci' (n_circuits t)))) [PCircuit cid], acts)
  end.

Definition pop_pending (t : node key) (p : pending) : node key :=
  match p with
  | PRelay cid => set_relays t (del cid (n_relays t))
  | PExit cid => set_exits t (del cid (n_exits t))
  | PCircuit cid => set_circuits t (del cid (n_circuits t))
  end.

(* on_create + should_join_circuit + join_circuit *)
Definition on_create (c : cnode) (src : addr) (cid ident : Z) (npk : option Z) (k : option key)
           (cands : list (Z * peer)) : cnode * list cact :=
  let t := cn_tab c in
  match n_flags t with
  | [] => (c, [])
  | _ =>
    if has cid (cn_created c) then (c, [])
    else if in_use t cid then (c, [])
    else if cn_max_joined c <=? Z.of_nat (length (n_relays t)) + Z.of_nat (length (n_exits t)) then (c, [])
    else
      match k, npk with
      | Some k, Some pk =>
          let p := mkPeer pk src in
          let t' := set_exits t (upd cid (mkES cid (mkHop pk src (Some k)) false) (n_exits t)) in
          (mkCN t' (upd cid (mkCreated p cands) (cn_created c)) (cn_create c) (cn_pending c) (cn_max_joined c),
           [CCell src cid 3 true])
      | _, _ => (c, [])
      end
  end.

(* on_created, relay side (a CreateRequestCache with that identifier exists) *)
Definition on_created (c : cnode) (src : addr) (cid ident : Z) : cnode * list cact :=
  match assoc ident (cn_create c) with
  | None => (c, [])                               (* the originator's own created: not a table change of this model *)
  | Some rq =>
      let c1 := mkCN (cn_tab c) (cn_created c) (del ident (cn_create c)) (cn_pending c) (cn_max_joined c) in
      let t := cn_tab c in
      match assoc (cr_from rq) (n_exits t) with
      | None => (c1, [])
      | Some es =>
          if has (cr_from rq) (n_relays t) then (c1, [])      (* already extended: a late answer is refused *)
          else
          let keys := h_keys (es_hop es) in
          let bw := mkRR (cr_from rq) (mkHop (pr_pk (cr_peer rq)) (pr_addr (cr_peer rq)) keys) BACKWARD false 1 in
          let fw := mkRR (cr_to rq) (mkHop (pr_pk (cr_to_peer rq)) (pr_addr (cr_to_peer rq)) keys) FORWARD false 1 in
          let t' := set_relays t (upd (cr_from rq) fw (upd (cr_to rq) bw (n_relays t))) in
          (add_pending (set_tab c1 t') [PExit (cr_from rq)],
           [CCell (pr_addr (cr_peer rq)) (cr_from rq) 5 false])
      end
  end.

Fixpoint assoc_peer (pk : Z) (l : list (Z * peer)) : option peer :=
  match l with [] => None | (k, v) :: tl => if pk =? k then Some v else assoc_peer pk tl end.

(* on_extend *)
Definition on_extend (c : cnode) (src : addr) (cid ident npk : Z) (naddr : addr) (known : option peer)
           (number tocid : Z) : cnode * list cact :=
  let t := cn_tab c in
  if negb (existsb (Z.eqb 1) (n_flags t)) then (c, [])
  else
    match assoc cid (cn_created c) with
    | None => (c, [])
    | Some rq =>
        let inc := assoc_peer npk (cc_candidates rq) in
        match inc, is_null naddr with
        | None, true => (c, [])
        | _, _ =>
            let target := match inc with
                          | Some p => p
                          | None => match known with Some p => p | None => mkPeer npk naddr end
                          end in
            let cand :=
              match assoc cid (n_circuits t) with
              | Some ci => match circuit_hop ci with Ok h => Some (hop_peer h) | Raise _ => None end
              | None => match assoc cid (n_exits t) with
                        | Some es => Some (hop_peer (es_hop es))
                        | None => match assoc cid (n_relays t) with
                                  | Some r => Some (hop_peer (rr_hop r))
                                  | None => None
                                  end
                        end
              end in
            match cand with
            | None => (c, [])
            | Some cd =>
                (mkCN t (cn_created c) (upd number (mkCreate ident tocid cid cd target) (cn_create c))
                      (cn_pending c) (cn_max_joined c),
                 [CCell (pr_addr target) tocid 2 true])
            end
        end
    end.

(* on_destroy(peer, payload) *)
Definition on_destroy (c : cnode) (pk : Z) (cid reason : Z) : res (cnode * list cact) :=
  let t := cn_tab c in
  let sender := mkPeer pk null_addr in
  let nxt := assoc cid (n_relays t) in
  let prv := match nxt with Some r => assoc (rr_cid r) (n_relays t) | None => None end in
  match nxt, prv with
  | Some r, Some pr =>
      if peer_eqb sender (hop_peer (rr_hop pr)) then
        let '(c1, a1) := remove_relay c cid reason in
        let '(c2, a2) := remove_relay c1 (rr_cid r) 0 in
        Ok (c2, a1 ++ a2)
      else
        match assoc cid (n_exits t) with
        | Some es => if peer_eqb sender (hop_peer (es_hop es)) then Ok (remove_exit c cid 0)
                     else match assoc cid (n_circuits t) with
                          | Some ci => do h0 <- circuit_hop ci;
                                       if peer_eqb sender (hop_peer h0) then remove_circuit c cid 0 else Ok (c, [])
                          | None => Ok (c, [])
                          end
        | None => match assoc cid (n_circuits t) with
                  | Some ci => do h0 <- circuit_hop ci;
                               if peer_eqb sender (hop_peer h0) then remove_circuit c cid 0 else Ok (c, [])
                  | None => Ok (c, [])
                  end
        end
  | _, _ =>
      match assoc cid (n_exits t) with
      | Some es => if peer_eqb sender (hop_peer (es_hop es)) then Ok (remove_exit c cid 0)
                   else match assoc cid (n_circuits t) with
                        | Some ci => do h0 <- circuit_hop ci;
                                     if peer_eqb sender (hop_peer h0) then remove_circuit c cid 0 else Ok (c, [])
                        | None => Ok (c, [])
                        end
      | None => match assoc cid (n_circuits t) with
                | Some ci => do h0 <- circuit_hop ci;
                             if peer_eqb sender (hop_peer h0) then remove_circuit c cid 0 else Ok (c, [])
                | None => Ok (c, [])
                end
      end
  end.

Definition cstep (c : cnode) (o : cop) : res (cnode * list cact) :=
  match o with
  | OCell src pkt rnd ns =>
      do (t', acts) <- on_packet enc dec (cn_tab c) src pkt (fun _ => rnd) ns;
      Ok (set_tab c t', map CData acts)
  | OCreate src cid ident npk k cands => Ok (on_create c src cid ident npk k cands)
  | OCreated src cid ident => Ok (on_created c src cid ident)
  | OExtend src cid ident npk naddr known number tocid => Ok (on_extend c src cid ident npk naddr known number tocid)
  | ODestroy sig_ok pk paddr cid reason =>
      (* lazy_wrapper drops unsigned / badly signed messages; the handler body runs in try/except *)
      if sig_ok then try_catch (on_destroy c pk cid reason) (fun _ => Ok (c, [])) else Ok (c, [])
  | ORemoveRelay cid reason => Ok (remove_relay c cid reason)
  | ORemoveExit cid reason => Ok (remove_exit c cid reason)
  | ORemoveCircuit cid reason => remove_circuit c cid reason
  | OTimer =>
      Ok (mkCN (fold_left pop_pending (cn_pending c) (cn_tab c)) (cn_created c) (cn_create c) [] (cn_max_joined c), [])
  | OCreatedExpired cid =>
      Ok (mkCN (cn_tab c) (del cid (cn_created c)) (cn_create c) (cn_pending c) (cn_max_joined c), [])
  | ONewCircuit cid ci =>
      (* _generate_circuit_id avoids the ids of our own circuits *)
      if has cid (n_circuits (cn_tab c)) then Ok (c, [])
      else Ok (set_tab c (set_circuits (cn_tab c) (upd cid ci (n_circuits (cn_tab c)))), [])
  | OCircuitUpdate cid ci =>
      if has cid (n_circuits (cn_tab c))
      then Ok (set_tab c (set_circuits (cn_tab c) (upd cid ci (n_circuits (cn_tab c)))), [])
      else Ok (c, [])
  end.

Fixpoint crun (c : cnode) (ops : list cop) : res (cnode * list cact) :=
  match ops with
  | [] => Ok (c, [])
  | o :: tl => do (c1, a1) <- cstep c o; do (c2, a2) <- crun c1 tl; Ok (c2, a1 ++ a2)
  end.

End Control.

Arguments mkCN {key}. Arguments cn_tab {key}. Arguments cn_created {key}. Arguments cn_create {key}.
Arguments cn_pending {key}. Arguments cn_max_joined {key}. Arguments set_tab {key}. Arguments add_pending {key}.
Arguments in_use {key}. Arguments OCell {key nonce}. Arguments OCreate {key nonce}. Arguments OCreated {key nonce}.
Arguments OExtend {key nonce}. Arguments ODestroy {key nonce}. Arguments ORemoveRelay {key nonce}.
Arguments ORemoveExit {key nonce}. Arguments ORemoveCircuit {key nonce}. Arguments OTimer {key nonce}.
Arguments OCreatedExpired {key nonce}. Arguments ONewCircuit {key nonce}. Arguments OCircuitUpdate {key nonce}.
Arguments hop_peer {key}. Arguments remove_relay {key}. Arguments remove_exit {key}. Arguments remove_circuit {key}.
Arguments pop_pending {key}. Arguments on_create {key}. Arguments on_created {key}. Arguments on_extend {key}.
Arguments on_destroy {key}. Arguments cstep {key nonce}. Arguments crun {key nonce}.
