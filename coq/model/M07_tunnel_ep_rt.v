(* Run-time library of the TRANSLATED TunnelEndpoint (gen/G07_tunnel_ep.v, written on every run by
   tools/tr/tr_tunnel_ep.py from the bodies of TunnelEndpoint.__init__ / set_tunnel_community / set_anonymity /
   send / notify_listeners and of TunnelCommunity.find_circuits).

   The generated definitions are shallow Gallina in a state + output + error monad: the mutable object state of
   the endpoint is the record `ep`, the tunnel community the endpoint talks to is the `world` (its circuits dict),
   Python's partial operations (indexing an empty list, popleft on an empty deque, an attribute of None) raise in
   lib/PyErr's `res`, loops run on explicit fuel.  Calls that leave the translated set are the fields of the
   record `runtime` (what create_circuit does to the circuits dict) or fixed recorders (the wrapped endpoint's
   send, send_data, create_circuit and _deliver_later are RECORDED as outputs - exactly what the harness spies
   on).  Nothing here depends on the generated file.  No proofs here. *)
From Coq Require Import ZArith List Bool.
From IPV8V Require Import lib.PyErr lib.Bytes gen.G07_consts model.M07_tunnel_ep.
Import ListNotations.
Open Scope Z_scope.

(* the TunnelCommunity object an endpoint refers to (the model has one) *)
Inductive tcref := TheCommunity.

(* TunnelEndpoint's own attributes; the deque carries its maxlen *)
Record ep := mkEp {
  e_hops : Z;
  e_tc : option tcref;
  e_settings : list (bytes * bool);
  e_queue : list (addr * bytes);
  e_qmax : option Z
}.

(* the part of the TunnelCommunity the endpoint reads and (through create_circuit) changes *)
Record world := mkW { w_circuits : list circ; w_next : Z }.

(* outside the translated set: the effect of TunnelCommunity.create_circuit(goal_hops, ctype, exit_flags) on the
   circuits dict (peer selection, CREATE cell: C08).  send_data does not touch the state read here. *)
Record runtime := mkRT {
  r_create_circuit : world -> Z -> Z -> option (list Z) -> world
}.

Record gs := mkGS { g_ep : ep; g_w : world; g_outs : list out; g_delivered : list Z }.

Definition M (A : Type) : Type := gs -> res (A * gs).
Definition mret {A} (a : A) : M A := fun s => Ok (a, s).
Definition mbind {A B} (m : M A) (f : A -> M B) : M B :=
  fun s => match m s with Ok (a, s1) => f a s1 | Raise e => Raise e end.
Definition mraise {A} (e : exn) : M A := fun _ => Raise e.
Definition mseq {A} (m : M unit) (k : M A) : M A := mbind m (fun _ => k).

Declare Scope m_scope.
Delimit Scope m_scope with m.
Notation "'mdo' x <- m ; f" := (mbind m (fun x => f))
  (at level 200, x pattern, m at level 100, f at level 200) : m_scope.
Notation "m ;;; k" := (mseq m k) (at level 100, right associativity) : m_scope.
Open Scope m_scope.

(* AttributeError on None is reported as TypeError (lib/PyErr has no AttributeError); the theorems show that it is
   never reached *)
Definition NONE_ATTR : exn := TypeError.

Definition upd_ep (f : ep -> ep) : M unit :=
  fun s => Ok (tt, mkGS (f (g_ep s)) (g_w s) (g_outs s) (g_delivered s)).
Definition emit (o : out) : M unit :=
  fun s => Ok (tt, mkGS (g_ep s) (g_w s) (g_outs s ++ [o]) (g_delivered s)).

(* ---- attributes of self ---- *)
Definition get_hops : M Z := fun s => Ok (e_hops (g_ep s), s).
Definition set_hops (v : Z) : M unit :=
  upd_ep (fun e => mkEp v (e_tc e) (e_settings e) (e_queue e) (e_qmax e)).
Definition get_tc : M (option tcref) := fun s => Ok (e_tc (g_ep s), s).
Definition set_tc (v : option tcref) : M unit :=
  upd_ep (fun e => mkEp (e_hops e) v (e_settings e) (e_queue e) (e_qmax e)).
(* self.settings = {} *)
Definition set_settings_empty : M unit :=
  upd_ep (fun e => mkEp (e_hops e) (e_tc e) [] (e_queue e) (e_qmax e)).
(* self.send_queue = deque(maxlen=n) / deque() *)
Definition set_queue_new (maxlen : option Z) : M unit :=
  upd_ep (fun e => mkEp (e_hops e) (e_tc e) (e_settings e) [] maxlen).

(* self.settings.get(k, default) ; self.settings[k] = v *)
Definition settings_get (k : bytes) (default : bool) : M bool :=
  fun s => Ok (match dict_get (e_settings (g_ep s)) k with Some b => b | None => default end, s).
Definition settings_set (k : bytes) (v : bool) : M unit :=
  upd_ep (fun e => mkEp (e_hops e) (e_tc e) (dict_set (e_settings e) k v) (e_queue e) (e_qmax e)).

(* ---- self.send_queue : collections.deque ---- *)
Definition deque_append (maxlen : option Z) (q : list (addr * bytes)) (x : addr * bytes) : list (addr * bytes) :=
  match maxlen with
  | None => q ++ [x]
  | Some n => if Z.of_nat (length q) <? n then q ++ [x]
              else if n <=? 0 then q                      (* deque(maxlen=0) stays empty *)
              else tl q ++ [x]
  end.
Definition queue_append (x : addr * bytes) : M unit :=
  upd_ep (fun e => mkEp (e_hops e) (e_tc e) (e_settings e) (deque_append (e_qmax e) (e_queue e) x) (e_qmax e)).
Definition queue_nonempty : M bool :=
  fun s => Ok (match e_queue (g_ep s) with [] => false | _ => true end, s).
Definition queue_popleft : M (addr * bytes) :=
  fun s => match e_queue (g_ep s) with
           | [] => Raise IndexError
           | x :: tl => Ok (x, mkGS (mkEp (e_hops (g_ep s)) (e_tc (g_ep s)) (e_settings (g_ep s)) tl (e_qmax (g_ep s)))
                                    (g_w s) (g_outs s) (g_delivered s))
           end.

(* ---- recorded calls ---- *)
(* self.endpoint.send(address, packet) *)
Definition inner_send (a : addr) (p : bytes) : M unit := emit (Raw a p).
(* <tunnel community>.send_data(target, circuit_id, dest, origin, data) *)
Definition call_send_data (tc : option tcref) (t : addr) (cid : Z) (d o : addr) (p : bytes) : M unit :=
  match tc with Some _ => emit (Tunnel t cid d o p) | None => mraise NONE_ATTR end.
(* <tunnel community>.create_circuit(goal_hops, ctype=.., exit_flags=..) *)
Definition flags_arg (f : option (list Z)) : list Z := match f with Some l => l | None => [-1] end.
Definition call_create_circuit (R : runtime) (tc : option tcref) (goal ctype : Z) (fl : option (list Z)) : M unit :=
  match tc with
  | None => mraise NONE_ATTR
  | Some _ => fun s => Ok (tt, mkGS (g_ep s) (r_create_circuit R (g_w s) goal ctype fl)
                                    (g_outs s ++ [CreateCircuit goal (flags_arg fl)]) (g_delivered s))
  end.
(* self.circuits.values() of the community *)
Definition world_circuits (tc : option tcref) : M (list circ) :=
  match tc with Some _ => fun s => Ok (w_circuits (g_w s), s) | None => mraise NONE_ATTR end.
(* self.endpoint._deliver_later(listener, packet) *)
Definition deliver (l : listener) : M unit :=
  fun s => Ok (tt, mkGS (g_ep s) (g_w s) (g_outs s) (g_delivered s ++ [fst l])).

(* ---- values ---- *)
Definition cstate_eqb (a b : cstate) : bool :=
  match a, b with READY, READY | EXTENDING, EXTENDING | CLOSING, CLOSING => true | _, _ => false end.
Definition is_some {A} (o : option A) : bool := match o with Some _ => true | None => false end.
Definition nonempty {A} (l : list A) : bool := match l with [] => false | _ => true end.
(* l[i], i a literal >= 0 *)
Definition list_idx {A} (l : list A) (i : nat) : M A :=
  match nth_error l i with Some x => mret x | None => mraise IndexError end.
(* attribute of an object that may be None *)
Definition attr {A B} (o : option A) (f : A -> B) : M B :=
  match o with Some x => mret (f x) | None => mraise NONE_ATTR end.
(* set(a) <= set(b) *)
Definition zsubset (a b : list Z) : bool := forallb (fun x => zmem x b) a.
(* packet[:n] *)
Definition bytes_prefix (n : Z) (p : bytes) : bytes := slice p None (Some n).

(* short-circuit `or` / `and` over computations that may raise *)
Definition m_or (a b : M bool) : M bool := mdo x <- a; if x then mret true else b.
Definition m_and (a b : M bool) : M bool := mdo x <- a; if x then b else mret false.

(* while cond: body   (fuel; running out of it is OutOfFuel) *)
Fixpoint mwhile (fuel : nat) (cond : M bool) (body : M unit) : M unit :=
  match fuel with
  | O => mraise OutOfFuel
  | S f => mdo c <- cond; if c then (body ;;; mwhile f cond body) else mret tt
  end.

(* for x in l: body x    (`continue` ends one body) *)
Fixpoint mfor {A} (l : list A) (body : A -> M unit) : M unit :=
  match l with
  | [] => mret tt
  | x :: tl => body x ;;; mfor tl body
  end.

Definition run_m {A} (m : M A) (e : ep) (w : world) : res (A * gs) := m (mkGS e w [] []).
