(* Runtime of the TRANSLATED handshake functions (coq/gen/G08_handshake.v, written by tools/tr/tr_handshake.py):
   a state-and-exception monad over the node state of M08_handshake (state changes made before a raise stay,
   as in Python), the dictionary / cache / circuit-object primitives the translated statements are mapped
   to, and Python's list helpers.  What leaves the translated set is a field of [rt]: fresh randomness
   (the [oracle] of the hand model), the candidate table and random.choice.  No proofs here. *)
From Coq Require Import ZArith List Bool Lia.
From IPV8V Require Import lib.PyErr model.M08_handshake.
Import ListNotations.
Open Scope Z_scope.

Section RT.
Variable C : crypto.

Record rt := mkRt {
  rt_o : oracle;                         (* fresh secret index, packet identifier, circuit id, cache number, known peer *)
  rt_cands : list Z -> list peer;        (* self.get_candidates(flags...) *)
  rt_flags : peer -> list Z;             (* self.candidates.get(peer, []) *)
  rt_choice : list peer -> peer }.       (* random.choice on a non-empty list *)

(* decoded payloads, as the handlers receive them *)
Record answer := mkAns { a_cid : Z; a_ident : Z; a_key : PK C; a_auth : TAG C; a_ce : CENC C }.
Record pcreate := mkPCreate { pc_cid : Z; pc_ident : Z; pc_npk : Z; pc_key : PK C }.
Record pextend := mkPExtend { pe_cid : Z; pe_ident : Z; pe_npk : Z; pe_key : PK C; pe_addr : Z }.

Definition gs := (@node C * list (@action C))%type.
Definition M (A : Type) := gs -> res A * gs.

Definition mret {A} (a : A) : M A := fun s => (Ok a, s).
Definition mraise {A} (e : exn) : M A := fun s => (Raise e, s).
Definition mbind {A B} (m : M A) (f : A -> M B) : M B :=
  fun s => match m s with (Ok a, s') => f a s' | (Raise e, s') => (Raise e, s') end.
Definition mlift {A} (r : res A) : M A := fun s => (r, s).
(* try: m except <classes accepted by h>: h e *)
Definition mtry {A} (m : M A) (h : exn -> option (M A)) : M A :=
  fun s => match m s with
           | (Ok a, s') => (Ok a, s')
           | (Raise e, s') => match h e with Some k => k s' | None => (Raise e, s') end
           end.
(* try: m except ..: h   followed by k (which is not protected) *)
Definition mtry_bind {A B} (m : M A) (h : exn -> option (M B)) (k : A -> M B) : M B :=
  fun s => match m s with
           | (Ok a, s') => k a s'
           | (Raise e, s') => match h e with Some hk => hk s' | None => (Raise e, s') end
           end.
Definition rd {A} (f : @node C -> A) : M A := fun s => (Ok (f (fst s)), s).
Definition wr (f : @node C -> @node C) : M unit := fun s => (Ok tt, (f (fst s), snd s)).
Definition emit (a : @action C) : M unit := fun s => (Ok tt, (fst s, snd s ++ [a])).

(* what the handler wrapper of the harness observes: final state, cells sent, exception *)
Definition run_m {A} (m : M A) (n : @node C) : @out C :=
  match m (n, []) with
  | (Ok _, (n', a)) => (n', a, None)
  | (Raise e, (n', a)) => (n', a, Some e)
  end.

Definition need {A} (e : exn) (o : option A) : M A := match o with Some a => mret a | None => mraise e end.
Definition need_res {A} (e : exn) (o : option A) : res A := match o with Some a => Ok a | None => Raise e end.

(* ---- request cache ---------------------------------------------------------------------------------- *)
Definition rc_has_retry (cid : Z) : M bool := rd (fun n => ahas cid (n_retry n)).
Definition rc_get_retry (cid : Z) : M (option retry) := rd (fun n => aget cid (n_retry n)).
Definition rc_pop_retry (cid : Z) : M retry :=
  mbind (rc_get_retry cid) (fun o =>
  mbind (need KeyError o) (fun r =>
  mbind (wr (fun n => set_retry n (adel cid (n_retry n)))) (fun _ => mret r))).
Definition rc_add_retry (cid : Z) (r : retry) : M unit := wr (fun n => set_retry n (aset cid r (n_retry n))).

Definition rc_has_creq (num : Z) : M bool := rd (fun n => ahas num (n_creq n)).
Definition rc_pop_creq (num : Z) : M creq :=
  mbind (rd (fun n => aget num (n_creq n))) (fun o =>
  mbind (need KeyError o) (fun q =>
  mbind (wr (fun n => set_creq n (adel num (n_creq n)))) (fun _ => mret q))).
Definition rc_add_creq (num : Z) (q : creq) : M unit := wr (fun n => set_creq n (aset num q (n_creq n))).

Definition rc_has_dreq (cid : Z) : M bool := rd (fun n => ahas cid (n_dreq n)).
Definition rc_get_dreq (cid : Z) : M (option dreq) := rd (fun n => aget cid (n_dreq n)).
Definition rc_add_dreq (cid : Z) (d : dreq) : M unit := wr (fun n => set_dreq n (aset cid d (n_dreq n))).

(* ---- routing tables --------------------------------------------------------------------------------- *)
Definition circ_has (cid : Z) : M bool := rd (fun n => ahas cid (n_circ n)).
Definition circ_get (cid : Z) : M (option (@circuit C)) := rd (fun n => aget cid (n_circ n)).
Definition circ_index (cid : Z) : M (@circuit C) := mbind (circ_get cid) (need KeyError).
Definition circ_put (cid : Z) (c : @circuit C) : M unit := wr (fun n => set_circ n (aset cid c (n_circ n))).
Definition exit_has (cid : Z) : M bool := rd (fun n => ahas cid (n_exit n)).
Definition exit_index (cid : Z) : M (@hop C) := mbind (rd (fun n => aget cid (n_exit n))) (need KeyError).
Definition exit_put (cid : Z) (h : @hop C) : M unit := wr (fun n => set_exit n (aset cid h (n_exit n))).
Definition relay_has (cid : Z) : M bool := rd (fun n => ahas cid (n_relay n)).
Definition relay_index (cid : Z) : M (@rroute C) := mbind (rd (fun n => aget cid (n_relay n))) (need KeyError).
Definition relay_put (cid : Z) (r : @rroute C) : M unit := wr (fun n => set_relay n (aset cid r (n_relay n))).
Definition sched_rm (cid : Z) : M unit := wr (fun n => schedule_rm n cid).

(* ---- objects ------------------------------------------------------------------------------------------ *)
Definition with_unv (c : @circuit C) (u : option (@hop C)) : @circuit C := with_hops_unv c (c_hops c) u.
Definition add_hop (c : @circuit C) (h : @hop C) : @circuit C := with_hops_unv c (c_hops c ++ [h]) (c_unv c).
Definition with_keys (h : @hop C) (k : option (KEYS C)) : @hop C := mkHop (h_peer h) k (h_dh h).
Definition with_dh (h : @hop C) (x : option (SK C)) : @hop C := mkHop (h_peer h) (h_keys h) x.
(* Circuit.hop: the first hop, or the unverified hop while there is none *)
Definition c_first (c : @circuit C) : option (@hop C) := match c_hops c with h :: _ => Some h | [] => c_unv c end.
(* Hop.dh_first_part is the public half of Hop.dh_secret (they are only ever assigned together) *)
Definition h_first (h : @hop C) : option (PK C) := match h_dh h with Some x => Some (pub C x) | None => None end.
Definition is_closing (c : @circuit C) : bool := match cstate c with Closing => true | _ => false end.
Definition is_extending (c : @circuit C) : bool := match cstate c with Extending => true | _ => false end.
Definition is_ready (c : @circuit C) : bool := match cstate c with Ready => true | _ => false end.

(* ---- primitives of ipv8_rust_tunnels / keyvault, symbolic ----------------------------------------------- *)
Definition dh_res (x : SK C) (p : PK C) : res (SEC C) := need_res ValueError (dh C x p).
(* key_from_public_bin: the key object (here: the same id) or ValueError *)
Definition key_obj (k : Z) : res Z := if valid_key C k then Ok k else Raise ValueError.
Definition key_truthy (k : Z) : res bool := if valid_key C k then Ok true else Raise ValueError.
(* session_keys.decrypt_str(blob, FORWARD) followed by serializer.unpack("varlenH-list", ..) *)
Definition cdec_res (k : KEYS C) (ce : CENC C) : res (list Z) := cdec C k ce.

(* ---- Python list helpers ---------------------------------------------------------------------------------- *)
Definition py_idx {A} (l : list A) (i : Z) : res A :=
  let j := if i <? 0 then i + zlen l else i in
  if (j <? 0) || (zlen l <=? j) then Raise IndexError
  else match nth_error l (Z.to_nat j) with Some a => Ok a | None => Raise IndexError end.
Definition py_clamp (len i : Z) : Z :=
  let j := if i <? 0 then i + len else i in if j <? 0 then 0 else if len <? j then len else j.
Definition py_slice {A} (l : list A) (lo hi : option Z) : list A :=
  let n := zlen l in
  let a := match lo with None => 0 | Some i => py_clamp n i end in
  let b := match hi with None => n | Some i => py_clamp n i end in
  firstn (Z.to_nat (b - a)) (skipn (Z.to_nat a) l).
Definition nonempty {A} (l : list A) : bool := match l with [] => false | _ => true end.
Definition py_or_list {A} (a b : list A) : list A := match a with [] => b | _ => a end.
Fixpoint filter_res {A} (f : A -> res bool) (l : list A) : res (list A) :=
  match l with
  | [] => Ok []
  | a :: tl => match f a with
               | Raise e => Raise e
               | Ok b => match filter_res f tl with
                         | Raise e => Raise e
                         | Ok r => Ok (if b then a :: r else r)
                         end
               end
  end.

(* for i in range(cnt): body, with `break`; S is the tuple of variables the body assigns *)
Inductive lres (S : Type) := LCont (s : S) | LBreak (s : S).
Arguments LCont {S} s.
Arguments LBreak {S} s.
Fixpoint for_range_from {S} (k : nat) (i : Z) (body : Z -> S -> res (lres S)) (s : S) : res S :=
  match k with
  | O => Ok s
  | S k' => match body i s with
            | Raise e => Raise e
            | Ok (LBreak s') => Ok s'
            | Ok (LCont s') => for_range_from k' (i + 1) body s'
            end
  end.
Definition py_for_range {S} (cnt : Z) (body : Z -> S -> res (lres S)) (s : S) : res S :=
  for_range_from (Z.to_nat cnt) 0 body s.

Definition peer_neqb (a b : peer) : bool := negb (peer_eqb a b).
Definition opeer_neqb (a : peer) (b : option peer) : bool := match b with Some p => negb (peer_eqb a p) | None => true end.

End RT.

Arguments LCont {S} s.
Arguments LBreak {S} s.
Arguments mret {C A}.
Arguments mraise {C A}.
Arguments mbind {C A B}.
Arguments mlift {C A}.
Arguments mtry {C A}.
Arguments mtry_bind {C A B}.
Arguments rd {C A}.
Arguments wr {C}.
Arguments emit {C}.
Arguments run_m {C A}.
Arguments need {C A}.
Arguments need_res {A}.
Arguments rc_has_retry {C}.
Arguments rc_get_retry {C}.
Arguments rc_pop_retry {C}.
Arguments rc_add_retry {C}.
Arguments rc_has_creq {C}.
Arguments rc_pop_creq {C}.
Arguments rc_add_creq {C}.
Arguments rc_has_dreq {C}.
Arguments rc_get_dreq {C}.
Arguments rc_add_dreq {C}.
Arguments circ_has {C}.
Arguments circ_get {C}.
Arguments circ_index {C}.
Arguments circ_put {C}.
Arguments exit_has {C}.
Arguments exit_index {C}.
Arguments exit_put {C}.
Arguments relay_has {C}.
Arguments relay_index {C}.
Arguments relay_put {C}.
Arguments sched_rm {C}.
Arguments with_unv {C}.
Arguments add_hop {C}.
Arguments with_keys {C}.
Arguments with_dh {C}.
Arguments c_first {C}.
Arguments h_first {C}.
Arguments is_closing {C}.
Arguments is_extending {C}.
Arguments is_ready {C}.
Arguments mkAns {C}.
Arguments a_cid {C}.
Arguments a_ident {C}.
Arguments a_key {C}.
Arguments a_auth {C}.
Arguments a_ce {C}.
Arguments mkPCreate {C}.
Arguments pc_cid {C}.
Arguments pc_ident {C}.
Arguments pc_npk {C}.
Arguments pc_key {C}.
Arguments mkPExtend {C}.
Arguments pe_cid {C}.
Arguments pe_ident {C}.
Arguments pe_npk {C}.
Arguments pe_key {C}.
Arguments pe_addr {C}.

Declare Scope m_scope.
Delimit Scope m_scope with m.
Notation "'mdo' x <- m ; f" := (mbind m (fun x => f))
  (at level 200, x pattern, m at level 100, f at level 200) : m_scope.
Notation "m ;;; f" := (mbind m (fun _ => f)) (at level 199, right associativity) : m_scope.
