(* C18 - the Peng-Bao range proof (pengbaorange/attestation.py create_attest_pair, boudot.py EL / SQR,
   structs.py PengBaoCommitmentPrivate.generate_response, PengBaoPublicData.check) over the abstract group
   of M18_hom.  Every random draw is an explicit input (`range_rand`: the draw each loop finally accepted),
   so the model is a function; the hash of two group elements (sha256 over their compressed, normalised
   coordinates) is the Section variable Hsh.  A concrete instance - exponent vectors Z x Z, i.e. the free
   abelian group on g and h, with a table for Hsh - makes the model executable for the correspondence.
   No proofs. *)
From Coq Require Import ZArith List Bool.
From IPV8V Require Import lib.PyErr model.M18_hom.
Import ListNotations.
Open Scope Z_scope.

Record el : Type := MkEL { el_c : Z; el_D : Z; el_D1 : Z; el_D2 : Z }.
Record rprivate : Type := MkPriv { p_m1 : Z; p_m2 : Z; p_m3 : Z; p_r1 : Z; p_r2 : Z; p_r3 : Z }.

Record range_rand : Type := MkRR {
  d_r : Z; d_ra : Z; d_raa : Z; d_w : Z;          (* r, ra, raa (before squaring), w *)
  d_m4 : Z; d_m1 : Z; d_r1 : Z; d_r2 : Z;         (* the accepted draw of each `while not x:` loop *)
  d_el : Z * Z * Z;                               (* EL.create: w, n1, n2 *)
  d_sq1 : Z * Z * Z * Z;                          (* SQR.create: r2, then EL.create's w, n1, n2 *)
  d_sq2 : Z * Z * Z * Z }.

(* PengBaoCommitmentPrivate.generate_response(s, t) *)
Definition generate_response (p : rprivate) (s t : Z) : Z * Z * Z * Z :=
  (s * p_m1 p + p_m2 p + p_m3 p, p_m1 p + t * p_m2 p + p_m3 p,
   s * p_r1 p + p_r2 p + p_r3 p, p_r1 p + t * p_r2 p + p_r3 p).

Section Range.
  Variable G : Type.
  Variable gmul : G -> G -> G.
  Variable gone : G.
  Variable ginv : G -> G.
  Variable geqb : G -> G -> bool.
  Variable g h : G.
  Variable Hsh : G -> G -> Z.

  Let pw := gpow G gmul gone ginv.
  Let mul := gmul.
  Let div (x y : G) := gmul x (ginv y).

  Record sqr : Type := MkSQR { sq_F : G; sq_el : el }.
  Record commitment : Type := MkCom {
    k_c : G; k_c1 : G; k_c2 : G; k_ca : G; k_ca1 : G; k_ca2 : G; k_ca3 : G; k_caa : G }.
  Record rpublic : Type := MkPub { pub_com : commitment; pub_el : el; pub_sqr1 : sqr; pub_sqr2 : sqr }.

  (* EL.create(x, r1, r2, g1, h1, g2, h2, ...) with the three secure_randint draws w, n1, n2 *)
  Definition el_create (x r1 r2 : Z) (g1 h1 g2 h2 : G) (rnd : Z * Z * Z) : el :=
    let '(w, n1, n2) := rnd in
    let W1 := mul (pw g1 w) (pw h1 n1) in
    let W2 := mul (pw g2 w) (pw h2 n2) in
    let c := Hsh W1 W2 in
    MkEL c (w + c * x) (n1 + c * r1) (n2 + c * r2).

  (* EL.check(g1, h1, g2, h2, y1, y2) *)
  Definition el_check (e : el) (g1 h1 g2 h2 y1 y2 : G) : bool :=
    let cW1 := mul (mul (pw g1 (el_D e)) (pw h1 (el_D1 e))) (pw y1 (- el_c e)) in
    let cW2 := mul (mul (pw g2 (el_D e)) (pw h2 (el_D2 e))) (pw y2 (- el_c e)) in
    el_c e =? Hsh cW1 cW2.

  (* SQR.create(x, r1, g, h, ...) : draws r2, then EL.create *)
  Definition sqr_create (x r1 : Z) (gg hh : G) (rnd : Z * Z * Z * Z) : sqr :=
    let '(r2, w, n1, n2) := rnd in
    let F := mul (pw gg x) (pw hh r2) in
    let r3 := r1 - r2 * x in
    MkSQR F (el_create x r2 r3 gg hh F hh (w, n1, n2)).

  Definition sqr_check (s : sqr) (gg hh y : G) : bool :=
    el_check (sq_el s) gg hh (sq_F s) hh (sq_F s) y.

  (* the part of create_attest_pair after the random numbers are fixed: commitments, the three Boudot
     proofs and the private values, from the accepted m4, m1, r1, r2 *)
  Definition build_pair (v a b : Z) (rd : range_rand) (m4 m1 r1 r2 : Z) : rpublic * rprivate :=
    let r := d_r rd in
    let ra := d_ra rd in
    let raa := d_raa rd * d_raa rd in
    let w := d_w rd in
    let w2 := w * w in
    let c := mul (pw g v) (pw h r) in
    let c1 := div c (pw g (a - 1)) in
    let c2 := div (pw g (b + 1)) c in
    let ca := mul (pw c1 (b - v + 1)) (pw h ra) in
    let caa := mul (pw ca w2) (pw h raa) in
    let mst := w2 * (v - a + 1) * (b - v + 1) in
    let m3 := m4 * m4 in
    let m2 := mst - m1 - m3 in
    let rst := w2 * ((b - v + 1) * r + ra) + raa in
    let r3 := rst - r1 - r2 in
    let ca1 := mul (pw g m1) (pw h r1) in
    let ca2 := mul (pw g m2) (pw h r2) in
    let ca3 := div caa (mul ca1 ca2) in
    let e := el_create (b - v + 1) (- r) ra g h c1 h (d_el rd) in
    let sqr1 := sqr_create w raa ca h (d_sq1 rd) in
    let sqr2 := sqr_create m4 r3 g h (d_sq2 rd) in
    (MkPub (MkCom c c1 c2 ca ca1 ca2 ca3 caa) e sqr1 sqr2, MkPriv m1 m2 m3 r1 r2 r3).

  (* create_attest_pair(PK, value, a, b, bitspace): the draws, with the conditions of the loops *)
  Definition create_attest_pair (v a b : Z) (rd : range_rand) : res (rpublic * rprivate) :=
    let r := d_r rd in
    let ra := d_ra rd in
    let raa := d_raa rd * d_raa rd in
    let w := d_w rd in
    let w2 := w * w in
    let mst := w2 * (v - a + 1) * (b - v + 1) in
    if mst <? 0 then Raise ValueError                    (* math.sqrt of a negative number *)
    else
    let k4 := Z.sqrt mst - 1 in
    if k4 =? 0 then Raise ZeroDivisionError else
    let m4 := d_m4 rd mod k4 in
    if m4 =? 0 then Raise OutOfFuel                      (* `while not m4` draws again *)
    else
    let k1 := mst - m4 in
    if k1 =? 0 then Raise ZeroDivisionError else
    let m1 := d_m1 rd mod k1 in
    if m1 =? 0 then Raise OutOfFuel else
    let rst := w2 * ((b - v + 1) * r + ra) + raa in
    let kr := rst / 2 - 1 in
    if kr =? 0 then Raise ZeroDivisionError else
    let r1 := d_r1 rd mod kr in
    if r1 =? 0 then Raise OutOfFuel else
    let r2 := d_r2 rd mod kr in
    if r2 =? 0 then Raise OutOfFuel else
    Ok (build_pair v a b rd m4 m1 r1 r2).

  (* PengBaoPublicData.check(a, b, s, t, x, y, u, v) *)
  Definition range_check (pd : rpublic) (a b s t : Z) (resp : Z * Z * Z * Z) : bool :=
    let '(x, y, u, v) := resp in
    let k := pub_com pd in
    el_check (pub_el pd) g h (k_c1 k) h (k_c2 k) (k_ca k)
    && sqr_check (pub_sqr1 pd) (k_ca k) h (k_caa k)
    && sqr_check (pub_sqr2 pd) g h (k_ca3 k)
    && geqb (k_c1 k) (div (k_c k) (pw g (a - 1)))
    && geqb (k_c2 k) (div (pw g (b + 1)) (k_c k))
    && geqb (k_caa k) (mul (mul (k_ca1 k) (k_ca2 k)) (k_ca3 k))
    && geqb (mul (pw g x) (pw h u)) (mul (mul (pw (k_ca1 k) s) (k_ca2 k)) (k_ca3 k))
    && geqb (mul (pw g y) (pw h v)) (mul (mul (k_ca1 k) (pw (k_ca2 k) t)) (k_ca3 k))
    && (x >? 0) && (y >? 0).

  (* the whole exchange: prover builds the proof for v, verifier checks it against [a', b'] *)
  Definition prove_and_check (v a b a' b' s t : Z) (rd : range_rand) : res bool :=
    bind (create_attest_pair v a b rd) (fun pp =>
      Ok (range_check (fst pp) a' b' s t (generate_response (snd pp) s t))).
End Range.

(* ---- executable instance: exponent vectors (m, r) standing for g^m h^r -------------------------- *)
Definition ev : Type := (Z * Z)%type.
Definition ev_mul (x y : ev) : ev := (fst x + fst y, snd x + snd y).
Definition ev_one : ev := (0, 0).
Definition ev_inv (x : ev) : ev := (- fst x, - snd x).
Definition ev_eqb (x y : ev) : bool := (fst x =? fst y) && (snd x =? snd y).
Definition ev_g : ev := (1, 0).
Definition ev_h : ev := (0, 1).

(* hash oracle as a finite table of the values the implementation produced *)
Fixpoint ev_hash (tbl : list (ev * ev * Z)) (x y : ev) : Z :=
  match tbl with
  | [] => 0
  | (x', y', c) :: tl => if ev_eqb x x' && ev_eqb y y' then c else ev_hash tl x y
  end.

(* what the harness compares: private values, EL/SQR responses, the answer to (s, t), the verdict *)
Definition run_range (c : (Z * Z * Z * Z * Z * Z * Z) * range_rand * list (ev * ev * Z)) : res (list Z) :=
  let '((v, a, b, a', b', s, t), rd, tbl) := c in
  bind (create_attest_pair ev ev_mul ev_one ev_inv ev_g ev_h (ev_hash tbl) v a b rd) (fun pp =>
    let pd := fst pp in let pr := snd pp in
    let '(x, y, u, w) := generate_response pr s t in
    let e := pub_el ev pd in let e1 := sq_el ev (pub_sqr1 ev pd) in let e2 := sq_el ev (pub_sqr2 ev pd) in
    Ok ([p_m1 pr; p_m2 pr; p_m3 pr; p_r1 pr; p_r2 pr; p_r3 pr;
         el_c e; el_D e; el_D1 e; el_D2 e; el_c e1; el_D e1; el_D1 e1; el_D2 e1; el_c e2; el_D e2; el_D1 e2; el_D2 e2;
         x; y; u; w;
         if range_check ev ev_mul ev_one ev_inv ev_eqb ev_g ev_h (ev_hash tbl) pd a' b' s t (x, y, u, w) then 1 else 0])).

