(* C09 - plumbing for the correspondence harness: replay of observed node histories, one quiescent
   instant at a time, always restarting from the state the implementation was actually in. *)
From Coq Require Import ZArith List Bool.
From IPV8V Require Import gen.G09_rules model.M09_reclaim.
Import ListNotations.
Open Scope Z_scope.

(* one observed event: time, event (with its oracle outcomes), what the node put on the wire / did *)
Definition obs := (Z * ev * list out)%type.

(* result codes: 0 = agreement; 1000+k = outputs differ in instant k; 2000+k = state differs after
   instant k; 3000+k = the event loop was late in instant k (timing assumption of the theorems) *)
Fixpoint run_events (st : settings) (s : node) (evs : list obs) : nat * node :=
  match evs with
  | [] => (0%nat, s)
  | (t, e, o) :: tl =>
      if negb (on_time st s t) then (3%nat, s)
      else let '(s1, o1) := step st s (t, e) in
           if list_eqb out_eqb o1 o then run_events st s1 tl else (1%nat, s1)
  end.

Fixpoint check_instants (st : settings) (s : node) (ins : list (list obs * node)) (k : nat) : nat :=
  match ins with
  | [] => 0%nat
  | ([], expect) :: tl => check_instants st expect tl (S k)   (* resynchronisation after a skipped idle stretch *)
  | (evs, expect) :: tl =>
      match run_events st s evs with
      | (O, s1) => if node_eqb s1 expect then check_instants st expect tl (S k) else (2000 + k)%nat
      | (c, _) => (c * 1000 + k)%nat
      end
  end.

Definition run_case (c : settings * node * list (list obs * node)) : nat :=
  let '(st, s0, ins) := c in check_instants st s0 ins 1.

Definition np : pick := mkPick None false 0.
Definition sp (n : Z) (alts : bool) (ident : Z) : pick := mkPick (Some n) alts ident.
