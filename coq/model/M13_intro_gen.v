(* C13 (translated handlers) - the interpreter that gives the generated terms of gen/G13_introduction.v their
   meaning, and the receive / walk entry points built from them.  No proofs.

   Translated (meaning = the big-step evaluation below, statement by statement): the Community / EndpointListener
   methods listed in tools/tr/tr_introduction.py.  Everything they touch outside that set is the fixed vocabulary
   of this file:
     self.network.*           add_verified_peer / discover_address / get_verified_by_address / is_new_style /
                              get_peers_for_service / get_walkable_addresses / discover_services
                              = M13_nat.add_verified / discover / find has_addr / is_new_style / n_peers / walkable / no-op
     Peer objects             address (the UDPv4Address slot), address := UDPv4LANAddress(..) (the LAN slot),
                              addresses.get(cls, default), new_style_intro, equality by key
     self.endpoint.*          send (collected), is_open () = True, get_address () = the host's LAN address,
                              no `interfaces` attribute (plain endpoint, IPv4 only)
     self.claim_global_time, self._ez_pack (payload object -> M13_nat.msg, by field NAME), payload constructors
                              (parameters bound by the generated signature table), self.address_in_lan_subnets
                              (= in_lan_subnets over the translated table G13_lan), get_lan_addresses () = [own ip],
                              random.choice = the n_sel oracle, self.max_peers = 30, isinstance on address classes,
                              lazy_wrapper / lazy_wrapper_unsigned (the Peer object of a signed message, M13_nat.touch)
   An executed construct outside this vocabulary evaluates to Raise. *)
From Coq Require Import ZArith List Bool String.
From IPV8V Require Import lib.PyErr gen.G13_lan model.M13_nat model.M13_py gen.G13_introduction.
Import ListNotations.
Open Scope string_scope.
Open Scope Z_scope.

Inductive acls := AV4 | ALan | APlain.        (* UDPv4Address / UDPv4LANAddress / plain tuple *)

Inductive val :=
| VNone | VBool (b : bool) | VInt (z : Z) | VStr (s : string) | VIp (z : Z)
| VAddr (c : acls) (a : addr)
| VTuple (l : list val) | VList (l : list val)
| VDict (l : list (string * Z))
| VTmpPeer                          (* the Peer object the decorator handed to the handler *)
| VPeer (p : peer)                  (* a stored Peer *)
| VAddrs (p : peer)                 (* <peer>.addresses *)
| VPayload (cls : string) (f : list (string * val))
| VPacket (m : msg)
| VCls (name : string)
| VBuiltin (name : string)
| VKey (k : Z)
| VSelf | VNetwork | VEndpoint | VMyPeer | VPubKey.

(* s_cache: self._my_estimated_lan (the cached LAN estimate); unset at the start of every activation, so the
   getter recomputes it - from the same host address - on first use *)
Record st := mkSt { s_node : node; s_tmp : peer; s_known : bool; s_out : list (addr * msg); s_cache : option addr }.
Definition set_node_st (s : st) (n : node) : st := mkSt n (s_tmp s) (s_known s) (s_out s) (s_cache s).
Definition set_tmp_st (s : st) (p : peer) : st := mkSt (s_node s) p (s_known s) (s_out s) (s_cache s).

Definition MAX_PEERS : Z := 30.

Definition env := list (string * val).
Fixpoint lookup {A} (x : string) (l : list (string * A)) : option A :=
  match l with [] => None | (k, v) :: tl => if String.eqb k x then Some v else lookup x tl end.
Fixpoint update (x : string) (v : val) (l : env) : env :=
  match l with
  | [] => [(x, v)]
  | (k, w) :: tl => if String.eqb k x then (x, v) :: tl else (k, w) :: update x v tl
  end.

(* ------------------------------------------------------------------------------------------ the evaluation monad *)
(* A computation is a finite decision tree: whenever the evaluation must inspect a boolean that was computed
   from data (the truth value of a condition, whether a lookup found something), it asks (TAsk b yes no)
   instead of inspecting b; `run` resolves the questions with the actual values.  Evaluating the tree itself
   therefore never gets stuck on symbolic data, which is what lets proofs/P13_introduction_gen.v compute the
   handlers for an arbitrary node state.  The branches are thunks so that running a tree explores one path. *)
Inductive T (A : Type) : Type :=
| TRet (a : A)
| TRaise (e : exn)
| TAsk (b : bool) (yes no : unit -> T A).
Arguments TRet {A} a.
Arguments TRaise {A} e.
Arguments TAsk {A} b yes no.

Fixpoint tbind {A B} (m : T A) (f : A -> T B) : T B :=
  match m with
  | TRet a => f a
  | TRaise e => TRaise e
  | TAsk b y n => TAsk b (fun u => tbind (y u) f) (fun u => tbind (n u) f)
  end.
Fixpoint run {A} (m : T A) : res A :=
  match m with
  | TRet a => Ok a
  | TRaise e => Raise e
  | TAsk b y n => if b then run (y tt) else run (n tt)
  end.
Definition lift {A} (r : res A) : T A := match r with Ok a => TRet a | Raise e => TRaise e end.
Notation "'dt' x <- m ; f" := (tbind m (fun x => f)) (at level 200, x pattern, m at level 100, f at level 200).

Definition truthy (v : val) : bool :=
  match v with
  | VNone => false | VBool b => b | VInt z => match z with 0 => false | _ => true end
  | VStr s => negb (String.eqb s "")
  | VTuple l | VList l => match l with [] => false | _ => true end
  | VDict l => match l with [] => false | _ => true end
  | _ => true
  end.
(* the truth value of a Python object, as a question when it is a computed bool *)
Definition decide (v : val) : T bool :=
  match v with
  | VBool b => TAsk b (fun _ => TRet true) (fun _ => TRet false)
  | _ => TRet (truthy v)
  end.
(* an optional result, as a question; in the `yes` branch the payload is projected out of the option *)
Definition is_some {A} (o : option A) : bool := match o with Some _ => true | None => false end.
Definition opt_get {A} (o : option A) (d : A) : A := match o with Some a => a | None => d end.
Definition ask_opt {A B} (o : option A) (d : A) (some : A -> B) (none : B) : T B :=
  TAsk (is_some o) (fun _ => TRet (some (opt_get o d))) (fun _ => TRet none).
Definition DUMMY_PEER : peer := mkPeer (-1) zero_addr None false.

Definition as_addr (v : val) : option addr :=
  match v with
  | VAddr _ a => Some a
  | VTuple [VIp i; VInt p] => Some (i, p)
  | _ => None
  end.
Definition peer_key (s : st) (v : val) : option Z :=
  match v with VTmpPeer => Some (p_key (s_tmp s)) | VPeer p => Some (p_key p) | _ => None end.

Definition py_eq (s : st) (a b : val) : res bool :=
  match as_addr a, as_addr b with
  | Some x, Some y => Ok (addr_eqb x y)
  | _, _ =>
      match a, b with
      | VNone, VNone => Ok true
      | VBool x, VBool y => Ok (Bool.eqb x y)
      | VInt x, VInt y | VIp x, VIp y | VKey x, VKey y => Ok (x =? y)
      | VStr x, VStr y | VCls x, VCls y => Ok (String.eqb x y)
      | VNone, _ | _, VNone => Ok false
      | _, _ => match peer_key s a, peer_key s b with
                | Some x, Some y => Ok (x =? y)
                | _, _ => Raise TypeError
                end
      end
  end.

Definition cls_of (c : acls) : string :=
  match c with AV4 => "UDPv4Address" | ALan => "UDPv4LANAddress" | APlain => "tuple" end.

(* (private list functions: the generic ones are kept folded by the symbolic evaluation of the proofs) *)
Fixpoint pc_find (name : string) (l : list pclass) : option pclass :=
  match l with
  | [] => None
  | pc :: tl => if String.eqb (pc_name pc) name then Some pc else pc_find name tl
  end.
Definition find_pc (name : string) : option pclass := pc_find name (p_payloads gx_program).
Fixpoint kw_remove (x : string) (kw : list (string * val)) : list (string * val) :=
  match kw with
  | [] => []
  | kv :: tl => if String.eqb (fst kv) x then kw_remove x tl else kv :: kw_remove x tl
  end.
Fixpoint dict_vals (d : list (string * Z)) : list (string * val) :=
  match d with [] => [] | kv :: tl => (fst kv, VInt (snd kv)) :: dict_vals tl end.
(* comparison / conversion of the concrete integers of the program text (message numbers, tuple indices) *)
Definition zeq (a b : Z) : bool :=
  match a, b with
  | Z0, Z0 => true
  | Zpos p, Zpos q | Zneg p, Zneg q => Pos.eqb p q
  | _, _ => false
  end.
Definition zidx (z : Z) : nat := match z with Zpos p => Pos.to_nat p | _ => O end.
Fixpoint has_name (x : string) (l : list string) : bool :=
  match l with [] => false | y :: tl => if String.eqb x y then true else has_name x tl end.

(* global names *)
Definition global (x : string) : res val :=
  if has_name x ["UDPv4Address"; "UDPv4LANAddress"; "UDPv6Address"; "BinMemberAuthenticationPayload";
                             "GlobalTimeDistributionPayload"; "FAST_ADDR_TO_INTERFACE"; "INTERFACES"; "IPv4Address";
                             "IPv6Address"] then Ok (VCls x)
  else if has_name x ["isinstance"; "getattr"; "len"; "cast"; "choice"; "get_lan_addresses"; "ip_address"]
  then Ok (VBuiltin x)
  else match find_pc x with
       | Some _ => Ok (VCls x)
       | None => match lookup x (p_consts gx_program) with Some d => Ok (VDict d) | None => Raise KeyError end
       end.

(* _ez_pack: a payload object (by field name) as the abstract datagram of M13_nat *)
Definition fld (f : list (string * val)) (k : string) : res val :=
  match lookup k f with Some v => Ok v | None => Raise KeyError end.
Definition fld_addr f k : res addr :=
  do v <- fld f k; match as_addr v with Some a => Ok a | None => Raise TypeError end.
Definition fld_int f k : res Z := do v <- fld f k; match v with VInt z => Ok z | _ => Raise TypeError end.
Definition fld_bool f k : res bool := do v <- fld f k; Ok (truthy v).

Definition to_msg (key : option Z) (cls : string) (f : list (string * val)) : res msg :=
  let need_key := match key with Some k => Ok k | None => Raise CryptoError end in
  if String.eqb cls "IntroductionRequestPayload" then
    do k <- need_key; do d <- fld_addr f "destination_address"; do l <- fld_addr f "source_lan_address";
    do w <- fld_addr f "source_wan_address"; do s <- fld_bool f "supports_new_style"; do i <- fld_int f "identifier";
    Ok (IntroReq false k d l w s (i mod 65536))
  else if String.eqb cls "NewIntroductionRequestPayload" then
    do k <- need_key; do d <- fld_addr f "destination_address"; do l <- fld_addr f "source_lan_address";
    do w <- fld_addr f "source_wan_address"; do s <- fld_bool f "supports_new_style"; do i <- fld_int f "identifier";
    Ok (IntroReq true k d l w s i)
  else if String.eqb cls "IntroductionResponsePayload" then
    do k <- need_key; do d <- fld_addr f "destination_address"; do l <- fld_addr f "source_lan_address";
    do w <- fld_addr f "source_wan_address"; do il <- fld_addr f "lan_introduction_address";
    do iw <- fld_addr f "wan_introduction_address"; do s <- fld_bool f "supports_new_style";
    do n <- fld_bool f "intro_supports_new_style"; do i <- fld_int f "identifier";
    Ok (IntroResp false k d l w il iw s n (i mod 65536))
  else if String.eqb cls "NewIntroductionResponsePayload" then
    do k <- need_key; do d <- fld_addr f "destination_address"; do l <- fld_addr f "source_lan_address";
    do w <- fld_addr f "source_wan_address"; do il <- fld_addr f "lan_introduction_address";
    do iw <- fld_addr f "wan_introduction_address";
    do n <- fld_bool f "intro_supports_new_style"; do i <- fld_int f "identifier";
    Ok (IntroResp true k d l w il iw true n i)
  else if String.eqb cls "PunctureRequestPayload" then
    do l <- fld_addr f "lan_walker_address"; do w <- fld_addr f "wan_walker_address"; do i <- fld_int f "identifier";
    Ok (PunctReq false l w (i mod 65536))
  else if String.eqb cls "NewPunctureRequestPayload" then
    do l <- fld_addr f "lan_walker_address"; do w <- fld_addr f "wan_walker_address"; do i <- fld_int f "identifier";
    Ok (PunctReq true l w i)
  else if String.eqb cls "PuncturePayload" then
    do k <- need_key; do l <- fld_addr f "source_lan_address"; do w <- fld_addr f "source_wan_address";
    do i <- fld_int f "identifier"; Ok (Punct false k l w (i mod 65536))
  else if String.eqb cls "NewPuncturePayload" then
    do k <- need_key; do l <- fld_addr f "source_lan_address"; do w <- fld_addr f "source_wan_address";
    do i <- fld_int f "identifier"; Ok (Punct true k l w i)
  else Raise TypeError.

(* self._ez_pack(prefix, msg_id, [auth?, dist, payload], sig) *)
Definition ez_pack (msg_id : val) (payloads : val) : res val :=
  match payloads with
  | VList l =>
      let key := match l with
                 | VPayload "BinMemberAuthenticationPayload" [(_, VKey k)] :: _ => Some k
                 | _ => None
                 end in
      match last l VNone with
      | VPayload cls f =>
          match find_pc cls, msg_id with
          | Some pc, VInt z => if zeq z (pc_msg_id pc) then do m <- to_msg key cls f; Ok (VPacket m) else Raise ValueError
          | _, _ => Raise TypeError
          end
      | _ => Raise TypeError
      end
  | _ => Raise TypeError
  end.

(* attribute reads that need no evaluation of translated code *)
Definition get_attr (s : st) (o : val) (a : string) : res val :=
  match o with
  | VSelf =>
      if String.eqb a "my_estimated_wan" then Ok (VAddr APlain (n_wan (s_node s)))
      else if String.eqb a "_my_estimated_lan" then
        Ok (match s_cache s with Some a0 => VAddr APlain a0 | None => VNone end)
      else if String.eqb a "network" then Ok VNetwork
      else if String.eqb a "endpoint" then Ok VEndpoint
      else if String.eqb a "my_peer" then Ok VMyPeer
      else if String.eqb a "max_peers" then Ok (VInt MAX_PEERS)
      else if String.eqb a "community_id" then Ok (VStr "community_id")
      else if String.eqb a "_prefix" then Ok (VStr "prefix")
      else if String.eqb a "is_ipv6_listener" then Ok (VBool false)
      else Raise KeyError
  | VMyPeer => if String.eqb a "public_key" then Ok VPubKey else Raise KeyError
  | VTmpPeer =>
      if String.eqb a "address" then Ok (VAddr AV4 (p_v4 (s_tmp s)))
      else if String.eqb a "new_style_intro" then Ok (VBool (p_new (s_tmp s)))
      else if String.eqb a "addresses" then Ok (VAddrs (s_tmp s))
      else Raise KeyError
  | VPeer p =>
      if String.eqb a "address" then Ok (VAddr AV4 (p_v4 p))
      else if String.eqb a "new_style_intro" then Ok (VBool (p_new p))
      else if String.eqb a "addresses" then Ok (VAddrs p)
      else Raise KeyError
  | VPayload cls f =>
      if String.eqb a "msg_id" then
        match find_pc cls with Some pc => Ok (VInt (pc_msg_id pc)) | None => Raise KeyError end
      else fld f a
  | VAddr c _ => if String.eqb a "__class__" then Ok (VCls (cls_of c)) else Raise KeyError
  | _ => Raise KeyError
  end.

Definition set_attr (s : st) (o : val) (a : string) (v : val) : res st :=
  match o with
  | VSelf =>
      if String.eqb a "my_estimated_wan" then
        match as_addr v with Some w => Ok (set_node_st s (set_wan (s_node s) w)) | None => Raise TypeError end
      else if String.eqb a "_my_estimated_lan" then
        match as_addr v with
        | Some x => Ok (mkSt (s_node s) (s_tmp s) (s_known s) (s_out s) (Some x))
        | None => Raise TypeError
        end
      else Raise KeyError
  | VMyPeer => if String.eqb a "address" then Ok s else Raise KeyError   (* my_peer.address: only read through endpoint.interfaces *)
  | VTmpPeer =>
      let p := s_tmp s in
      if String.eqb a "new_style_intro" then
        match v with VBool b => Ok (set_tmp_st s (mkPeer (p_key p) (p_v4 p) (p_lan p) b)) | _ => Raise TypeError end
      else if String.eqb a "address" then
        match v with
        | VAddr ALan x => Ok (set_tmp_st s (mkPeer (p_key p) (p_v4 p) (Some x) (p_new p)))
        | VAddr AV4 x => Ok (set_tmp_st s (mkPeer (p_key p) x (p_lan p) (p_new p)))
        | _ => Raise TypeError
        end
      else Raise KeyError
  | _ => Raise KeyError
  end.

Definition isinstance (v c : val) : res bool :=
  match v, c with
  | VAddr k _, VCls name => Ok (String.eqb (cls_of k) name)
  | VTuple _, VCls _ => Ok false
  | _, _ => Raise TypeError
  end.

(* calls whose meaning needs no translated code: (receiver, method name, positional, keywords) *)
Definition prim_call (s : st) (o : val) (m : string) (pos : list val) (kw : list (string * val))
  : T (st * val) :=
  let n := s_node s in
  match o with
  | VSelf =>
      if String.eqb m "claim_global_time" then
        TRet (set_node_st s (set_gt n (n_gt n + 1)), VInt (n_gt n + 1))
      else if String.eqb m "_ez_pack" then
        match pos with
        | [_; mid; pls] | [_; mid; pls; _] => dt v <- lift (ez_pack mid pls); TRet (s, v)
        | _ => TRaise TypeError
        end
      else if String.eqb m "address_in_lan_subnets" then
        match pos with [VIp i] => TRet (s, VBool (in_lan_subnets i)) | _ => TRaise TypeError end
      else if String.eqb m "_is_ipv6_address" then TRet (s, VBool false)
      else if String.eqb m "get_peer_for_introduction" then
        (* the random choice among the verified peers other than `exclude`: the n_sel oracle (new_style only
           filters out non-IPv4 peers, of which there are none) *)
        match pos, lookup "exclude" kw with
        | [], Some (VPeer o) =>
            dt v <- ask_opt (pick_sel (n_sel n) (filter (fun q => negb (p_key q =? p_key o)) (n_peers n))) DUMMY_PEER VPeer VNone;
            TRet (s, v)
        | [], Some VNone => dt v <- ask_opt (pick_sel (n_sel n) (n_peers n)) DUMMY_PEER VPeer VNone; TRet (s, v)
        | _, _ => TRaise TypeError
        end
      else TRaise KeyError
  | VNetwork =>
      if String.eqb m "add_verified_peer" then
        match pos with
        | [VTmpPeer] => TRet (set_node_st s (add_verified n (s_tmp s) (s_known s)), VNone)
        | [VPeer _] => TRet (s, VNone)
        | _ => TRaise TypeError
        end
      else if String.eqb m "discover_services" then TRet (s, VNone)
      else if String.eqb m "discover_address" then
        match pos with
        | [p; a; _; VBool b] =>
            match peer_key s p, as_addr a with
            | Some k, Some x => TRet (set_node_st s (discover n k x b), VNone)
            | _, _ => TRaise TypeError
            end
        | _ => TRaise TypeError
        end
      else if String.eqb m "get_verified_by_address" then
        match pos with
        | [a] => match as_addr a with
                 | Some x => dt v <- ask_opt (find (has_addr x) (n_peers n)) DUMMY_PEER VPeer VNone; TRet (s, v)
                 | None => TRaise TypeError
                 end
        | _ => TRaise TypeError
        end
      else if String.eqb m "is_new_style" then
        match pos with
        | [a] => match as_addr a with Some x => TRet (s, VBool (is_new_style n x)) | None => TRaise TypeError end
        | _ => TRaise TypeError
        end
      else if String.eqb m "get_peers_for_service" then TRet (s, VList (map VPeer (n_peers n)))
      else if String.eqb m "get_walkable_addresses" then TRet (s, VList (map (VAddr APlain) (walkable n)))
      else TRaise KeyError
  | VEndpoint =>
      if String.eqb m "send" then
        match pos with
        | [a; VPacket pk] => match as_addr a with
                             | Some x => TRet (mkSt n (s_tmp s) (s_known s) ((s_out s ++ [(x, pk)])%list) (s_cache s), VNone)
                             | None => TRaise TypeError
                             end
        | _ => TRaise TypeError
        end
      else if String.eqb m "is_open" then TRet (s, VBool true)
      else if String.eqb m "get_address" then TRet (s, VAddr APlain (n_lan n))
      else TRaise KeyError
  | VPubKey => if String.eqb m "key_to_bin" then TRet (s, VKey (n_key n)) else TRaise KeyError
  | VAddrs p =>
      if String.eqb m "get" then
        match pos with
        | [VCls c; d] =>
            if String.eqb c "UDPv4LANAddress" then dt v <- ask_opt (p_lan p) zero_addr (VAddr ALan) d; TRet (s, v)
            else if String.eqb c "UDPv4Address" then TRet (s, VAddr AV4 (p_v4 p))
            else TRet (s, d)
        | _ => TRaise TypeError
        end
      else TRaise KeyError
  | VBuiltin b =>
      if String.eqb b "isinstance" then
        match pos with [v; c] => dt r <- lift (isinstance v c); TRet (s, VBool r) | _ => TRaise TypeError end
      else if String.eqb b "getattr" then
        match pos with [VEndpoint; VStr "interfaces"; d] => TRet (s, d) | _ => TRaise KeyError end
      else if String.eqb b "len" then
        match pos with [VList l] => TRet (s, VInt (Z.of_nat (List.length l))) | _ => TRaise TypeError end
      else if String.eqb b "cast" then
        match pos with [_; v] => TRet (s, v) | _ => TRaise TypeError end
      else if String.eqb b "choice" then
        match pos with
        | [VList (x :: l)] =>
            match nth_error (x :: l) (Z.to_nat (n_sel n mod Z.of_nat (List.length (x :: l)))) with
            | Some v => TRet (s, v) | None => TRaise IndexError end
        | _ => TRaise IndexError
        end
      else if String.eqb b "get_lan_addresses" then TRet (s, VList [VIp (fst (n_lan n))])
      else TRaise KeyError
  | VCls c =>
      if String.eqb c "UDPv4Address" then
        match pos with [VIp i; VInt p] => TRet (s, VAddr AV4 (i, p)) | _ => TRaise TypeError end
      else if String.eqb c "UDPv4LANAddress" then
        match pos with [VIp i; VInt p] => TRet (s, VAddr ALan (i, p)) | _ => TRaise TypeError end
      else if String.eqb c "BinMemberAuthenticationPayload" then
        match pos with [k] => TRet (s, VPayload c [("public_key_bin", k)]) | _ => TRaise TypeError end
      else if String.eqb c "GlobalTimeDistributionPayload" then
        match pos with [t] => TRet (s, VPayload c [("global_time", t)]) | _ => TRaise TypeError end
      else TRaise KeyError
  | _ => TRaise TypeError
  end.

Definition splat (v : val) : res (list val) :=
  match v with
  | VAddr _ (i, p) => Ok [VIp i; VInt p]
  | VTuple l | VList l => Ok l
  | _ => Raise TypeError
  end.

Definition is_logger_call (f : expr) : bool :=
  match f with EAttr (EAttr (EName "self") "logger") _ => true | _ => false end.

(* result of running a block: state, environment, Some v = a return was executed *)
Definition blk := (st * env * option val)%type.

Fixpoint eval (fuel : nat) (s : st) (en : env) (e : expr) {struct fuel} : T (st * val) :=
  match fuel with
  | O => TRaise OutOfFuel
  | S f =>
      let eval_list :=
        fix go (s : st) (l : list expr) : T (st * list val) :=
          match l with
          | [] => TRet (s, [])
          | x :: tl => dt r <- eval f s en x; dt r2 <- go (fst r) tl; TRet (fst r2, snd r :: snd r2)
          end in
      match e with
      | EName x => match lookup x en with Some v => TRet (s, v) | None => dt v <- lift (global x); TRet (s, v) end
      | EStr x => TRet (s, VStr x)
      | EIp z => TRet (s, VIp z)
      | EInt z => TRet (s, VInt z)
      | EBool b => TRet (s, VBool b)
      | ENone => TRet (s, VNone)
      | ETuple l => dt r <- eval_list s l; TRet (fst r, VTuple (snd r))
      | EList l => dt r <- eval_list s l; TRet (fst r, VList (snd r))
      | EAttr o a =>
          dt r <- eval f s en o;
          match snd r, lookup a (p_funs gx_program) with
          | VSelf, Some fd =>
              if String.eqb a "my_estimated_lan" then       (* the property getter *)
                dt b <- call f (fst r) fd [VSelf] []; TRet b
              else TRaise TypeError                           (* bound methods are only called, never read *)
          | v, _ => dt x <- lift (get_attr (fst r) v a); TRet (fst r, x)
          end
      | ESub o i =>
          dt r <- eval f s en o; dt r2 <- eval f (fst r) en i;
          match snd r2 with
          | VInt z =>
              match as_addr (snd r) with
              | Some a => match z with 0 => TRet (fst r2, VIp (fst a)) | 1 => TRet (fst r2, VInt (snd a)) | _ => TRaise IndexError end
              | None => match snd r, z with
                        | _, Zneg _ => TRaise IndexError
                        | VTuple l, _ | VList l, _ => match nth_error l (zidx z) with
                                                      | Some v => TRet (fst r2, v)
                                                      | None => TRaise IndexError end
                        | _, _ => TRaise TypeError
                        end
              end
          | _ => TRaise TypeError
          end
      | ECmp op a b =>
          dt r <- eval f s en a; dt r2 <- eval f (fst r) en b;
          let s2 := fst r2 in
          match op with
          | CEq => dt x <- lift (py_eq s2 (snd r) (snd r2)); TRet (s2, VBool x)
          | CNe => dt x <- lift (py_eq s2 (snd r) (snd r2)); TRet (s2, VBool (negb x))
          | CIs => match snd r2 with VNone => TRet (s2, VBool (match snd r with VNone => true | _ => false end))
                                    | _ => TRaise TypeError end
          | CIsNot => match snd r2 with VNone => TRet (s2, VBool (match snd r with VNone => false | _ => true end))
                                       | _ => TRaise TypeError end
          | CIn | CNotIn =>
              match snd r2 with
              | VList l | VTuple l =>
                  dt x <- lift (fold_left (fun acc v => do a0 <- acc; do y <- py_eq s2 (snd r) v; Ok (a0 || y)) l (Ok false));
                  TRet (s2, VBool (match op with CIn => x | _ => negb x end))
              | _ => TRaise TypeError
              end
          | CLt | CLe | CGt | CGe =>
              match snd r, snd r2 with
              | VInt x, VInt y => TRet (s2, VBool (match op with CLt => x <? y | CLe => x <=? y | CGt => y <? x | _ => y <=? x end))
              | _, _ => TRaise TypeError
              end
          end
      | EAnd l =>
          (fix go (s : st) (l : list expr) : T (st * val) :=
             match l with
             | [] => TRet (s, VBool true)
             | [x] => eval f s en x
             | x :: tl => dt r <- eval f s en x; dt b <- decide (snd r); if b then go (fst r) tl else TRet r
             end) s l
      | EOr l =>
          (fix go (s : st) (l : list expr) : T (st * val) :=
             match l with
             | [] => TRet (s, VBool false)
             | [x] => eval f s en x
             | x :: tl => dt r <- eval f s en x; dt b <- decide (snd r); if b then TRet r else go (fst r) tl
             end) s l
      | ENot a => dt r <- eval f s en a; TRet (fst r, VBool (negb (truthy (snd r))))
      | EBin op a b =>
          dt r <- eval f s en a; dt r2 <- eval f (fst r) en b;
          match snd r, snd r2 with
          | VInt x, VInt y => TRet (fst r2, VInt (match op with BMod => x mod y | BAdd => x + y | BSub => x - y end))
          | _, _ => TRaise TypeError
          end
      | EIf c a b => dt r <- eval f s en c; dt b0 <- decide (snd r); if b0 then eval f (fst r) en a else eval f (fst r) en b
      | EComp elt x it conds =>
          dt r <- eval f s en it;
          match snd r with
          | VList l | VTuple l =>
              (fix go (s : st) (l : list val) : T (st * val) :=
                 match l with
                 | [] => TRet (s, VList [])
                 | v :: tl =>
                     let en' := update x v en in
                     dt c <- (fix conj (s : st) (cs : list expr) : T (st * bool) :=
                                match cs with
                                | [] => TRet (s, true)
                                | c0 :: ct => dt rc <- eval f s en' c0;
                                              dt b <- decide (snd rc); if b then conj (fst rc) ct else TRet (fst rc, false)
                                end) s conds;
                     if snd c then
                       dt re <- eval f (fst c) en' elt; dt rt <- go (fst re) tl;
                       match snd rt with VList out => TRet (fst rt, VList (snd re :: out)) | _ => TRaise TypeError end
                     else go (fst c) tl
                 end) (fst r) l
          | _ => TRaise TypeError
          end
      | ECall fn args =>
          if is_logger_call fn then TRet (s, VNone) else
          (* receiver and method, or a plain callee *)
          dt callee <- match fn with
                       | EAttr o m => dt r <- eval f s en o; TRet (fst r, snd r, Some m)
                       | _ => dt r <- eval f s en fn; TRet (fst r, snd r, None)
                       end;
          let '(s1, o, meth) := callee in
          (* arguments, left to right *)
          dt ra <- (fix go (s : st) (l : list arg) : T (st * (list val * list (string * val))) :=
                      match l with
                      | [] => TRet (s, ([], []))
                      | a :: tl =>
                          match a with
                          | APos x => dt r <- eval f s en x; dt r2 <- go (fst r) tl;
                                      TRet (fst r2, (snd r :: fst (snd r2), snd (snd r2)))
                          | AStar x => dt r <- eval f s en x; dt vs <- lift (splat (snd r)); dt r2 <- go (fst r) tl;
                                       TRet (fst r2, ((vs ++ fst (snd r2))%list, snd (snd r2)))
                          | AKw k x => dt r <- eval f s en x; dt r2 <- go (fst r) tl;
                                       TRet (fst r2, (fst (snd r2), (k, snd r) :: snd (snd r2)))
                          | ADStar x => dt r <- eval f s en x;
                                        match snd r with
                                        | VDict d => dt r2 <- go (fst r) tl;
                                                     TRet (fst r2, (fst (snd r2), (dict_vals d ++ snd (snd r2))%list))
                                        | _ => TRaise TypeError
                                        end
                          end
                      end) s1 args;
          let '(s2, (pos, kw)) := ra in
          match o, meth with
          | VSelf, Some m =>
              match lookup m (p_funs gx_program) with
              | Some fd => call f s2 fd (VSelf :: pos) kw
              | None => prim_call s2 VSelf m pos kw
              end
          | _, Some m => prim_call s2 o m pos kw
          | VCls c, None =>
              match find_pc c with
              | Some pc =>
                  dt b <- bind f s2 (pc_fields pc) pos kw;
                  TRet (fst b, VPayload c (snd b))
              | None => prim_call s2 o "" pos kw
              end
          | VBuiltin _, None => prim_call s2 o "" pos kw
          | _, None => TRaise TypeError
          end
      end
  end

(* bind parameters: positional first, then keywords, then defaults (evaluated at call time in the global
   environment: they are constants); anything left over or missing is a TypeError *)
with bind (fuel : nat) (s : st) (ps : list (string * option expr)) (pos : list val)
          (kw : list (string * val)) {struct fuel} : T (st * env) :=
  match fuel with
  | O => TRaise OutOfFuel
  | S f =>
      (fix go (s : st) (ps : list (string * option expr)) (pos : list val) (kw : list (string * val)) : T (st * env) :=
         match ps with
         | [] => match pos, kw with [], [] => TRet (s, []) | _, _ => TRaise TypeError end
         | (x, d) :: pt =>
             match pos with
             | v :: vt => dt r <- go s pt vt kw; TRet (fst r, (x, v) :: snd r)
             | [] =>
                 match lookup x kw with
                 | Some v => dt r <- go s pt [] (kw_remove x kw); TRet (fst r, (x, v) :: snd r)
                 | None =>
                     match d with
                     | Some e => dt rv <- eval f s [] e; dt r <- go (fst rv) pt [] kw; TRet (fst r, (x, snd rv) :: snd r)
                     | None => TRaise TypeError
                     end
                 end
             end
         end) s ps pos kw
  end

with call (fuel : nat) (s : st) (fd : fdef) (pos : list val) (kw : list (string * val))
          {struct fuel} : T (st * val) :=
  match fuel with
  | O => TRaise OutOfFuel
  | S f =>
      dt b <- bind f s (f_params fd) pos kw;
      dt r <- exec f (fst b) (snd b) (f_body fd);
      let '(s', _, ret) := r in
      TRet (s', match ret with Some v => v | None => VNone end)
  end

with exec (fuel : nat) (s : st) (en : env) (l : list stmt) {struct fuel} : T blk :=
  match fuel with
  | O => TRaise OutOfFuel
  | S f =>
      match l with
      | [] => TRet (s, en, None)
      | c :: tl =>
          dt r <- match c with
                  | SAssign (EName x) e => dt v <- eval f s en e; TRet (fst v, update x (snd v) en, None)
                  | SAssign (EAttr o a) e =>
                      dt v <- eval f s en e; dt ro <- eval f (fst v) en o;
                      dt s' <- lift (set_attr (fst ro) (snd ro) a (snd v)); TRet (s', en, None)
                  | SAssign _ _ => TRaise TypeError
                  | SExpr (ECall (EAttr (EName x) "append") [APos e]) =>      (* <local list>.append(e) *)
                      dt v <- eval f s en e;
                      match lookup x en with
                      | Some (VList l0) => TRet (fst v, update x (VList (l0 ++ [snd v])%list) en, None)
                      | _ => TRaise TypeError
                      end
                  | SExpr e => dt v <- eval f s en e; TRet (fst v, en, None)
                  | SIf c0 a b => dt v <- eval f s en c0; dt b0 <- decide (snd v); if b0 then exec f (fst v) en a else exec f (fst v) en b
                  | SFor x it body =>
                      dt v <- eval f s en it;
                      match snd v with
                      | VList vs | VTuple vs =>
                          (fix go (s : st) (en : env) (vs : list val) : T blk :=
                             match vs with
                             | [] => TRet (s, en, None)
                             | w :: wt => dt rb <- exec f s (update x w en) body;
                                          let '(s', en', ret) := rb in
                                          match ret with Some _ => TRet rb | None => go s' en' wt end
                             end) (fst v) en vs
                      | _ => TRaise TypeError
                      end
                  | SReturn None => TRet (s, en, Some VNone)
                  | SReturn (Some e) => dt v <- eval f s en e; TRet (fst v, en, Some (snd v))
                  end;
          let '(s', en', ret) := r in
          match ret with Some _ => TRet r | None => exec f s' en' tl end
      end
  end.

Definition FUEL : nat := 400.

(* ------------------------------------------------------------------------------------------ entry points *)
(* what the serializer hands to a handler: the payload object of a datagram *)
Definition payload_of (m : msg) : string * list (string * val) :=
  match m with
  | IntroReq new key dest slan swan sup ident =>
      (if new then "NewIntroductionRequestPayload" else "IntroductionRequestPayload",
       [("destination_address", VAddr AV4 dest); ("source_lan_address", VAddr AV4 slan);
        ("source_wan_address", VAddr AV4 swan); ("supports_new_style", VBool sup); ("identifier", VInt ident)])
  | IntroResp new key dest slan swan ilan iwan sup inew ident =>
      (if new then "NewIntroductionResponsePayload" else "IntroductionResponsePayload",
       [("destination_address", VAddr AV4 dest); ("source_lan_address", VAddr AV4 slan);
        ("source_wan_address", VAddr AV4 swan); ("lan_introduction_address", VAddr AV4 ilan);
        ("wan_introduction_address", VAddr AV4 iwan); ("supports_new_style", VBool sup);
        ("intro_supports_new_style", VBool inew); ("identifier", VInt ident)])
  | PunctReq new lanw wanw ident =>
      (if new then "NewPunctureRequestPayload" else "PunctureRequestPayload",
       [("lan_walker_address", VAddr AV4 lanw); ("wan_walker_address", VAddr AV4 wanw); ("identifier", VInt ident)])
  | Punct new key slan swan ident =>
      (if new then "NewPuncturePayload" else "PuncturePayload",
       [("source_lan_address", VAddr AV4 slan); ("source_wan_address", VAddr AV4 swan); ("identifier", VInt ident)])
  end.
Definition sender_of (m : msg) : option Z :=
  match m with
  | IntroReq _ k _ _ _ _ _ | IntroResp _ k _ _ _ _ _ _ _ _ | Punct _ k _ _ _ => Some k
  | PunctReq _ _ _ _ => None
  end.

(* Community.on_packet -> decode_map[msg_id] -> lazy_wrapper[_unsigned] -> the registered handler *)
Definition handle_g (n : node) (src : addr) (m : msg) : res (node * list (addr * msg)) :=
  let '(cls, fields) := payload_of m in
  match lookup cls (p_handlers gx_program) with
  | None => Raise KeyError
  | Some (hname, signed) =>
      match lookup hname (p_funs gx_program) with
      | None => Raise KeyError
      | Some fd =>
          let dist := VPayload "GlobalTimeDistributionPayload" [] in
          match signed, sender_of m with
          | true, Some key =>
              let '(p0, known) := touch n key src in
              (* lazy_wrapper: a known peer's object gets the source address at once; the handler of a
                 puncture does nothing else with it *)
              let n0 := match m with
                        | Punct _ _ _ _ _ => if known then set_peers n (put_peer p0 (n_peers n)) else n
                        | _ => n
                        end in
              do r <- run (call FUEL (mkSt n0 p0 known [] None) fd [VSelf; VTmpPeer; dist; VPayload cls fields] []);
              Ok (s_node (fst r), s_out (fst r))
          | false, None =>
              let dummy := mkPeer (-1) zero_addr None false in
              do r <- run (call FUEL (mkSt n dummy false [] None) fd [VSelf; VAddr AV4 src; dist; VPayload cls fields] []);
              Ok (s_node (fst r), s_out (fst r))
          | _, _ => Raise CryptoError
          end
      end
  end.

(* the three ways a node emits an introduction request *)
Definition run_method (n : node) (name : string) (pos : list val) (kw : list (string * val))
  : res (node * list (addr * msg) * val) :=
  match lookup name (p_funs gx_program) with
  | None => Raise KeyError
  | Some fd =>
      let dummy := mkPeer (-1) zero_addr None false in
      do r <- run (call FUEL (mkSt n dummy false [] None) fd (VSelf :: pos) kw);
      Ok (s_node (fst r), s_out (fst r), snd r)
  end.
Definition walk_to_g (n : node) (dst : addr) : res (node * list (addr * msg)) :=
  do r <- run_method n "walk_to" [VAddr APlain dst] []; Ok (fst r).
Definition send_introduction_request_g (n : node) (p : peer) : res (node * list (addr * msg)) :=
  do r <- run_method n "send_introduction_request" [VPeer p] []; Ok (fst r).
Definition create_introduction_request_g (n : node) (dst : addr) (new : bool) : res (node * msg) :=
  do r <- run_method n "create_introduction_request" [VAddr APlain dst] [("new_style", VBool new)];
  match snd r with VPacket m => Ok (fst (fst r), m) | _ => Raise TypeError end.
Definition walkable_g (n : node) : res (list addr) :=
  do r <- run_method n "get_walkable_addresses" [] [];
  match snd r with
  | VList l => Ok (flat_map (fun v => match as_addr v with Some a => [a] | None => [] end) l)
  | _ => Raise TypeError
  end.
Definition peers_g (n : node) : res (list Z) :=
  do r <- run_method n "get_peers" [] [];
  match snd r with
  | VList l => Ok (flat_map (fun v => match v with VPeer p => [p_key p] | _ => [] end) l)
  | _ => Raise TypeError
  end.

(* ------------------------------------------------------------------------------------------ worlds over the translated handlers *)
(* M13_nat's world functions with the node steps replaced by the translated ones (a raising step leaves a
   marker in the log: the correspondence then differs) *)
Definition ERR_EVENT : event := Ev (-1) zero_addr (PunctReq false zero_addr zero_addr (-1)) (Drop NoSender).

Definition deliver_one_g (w : world) : world :=
  match w_queue w with
  | [] => w
  | (hid, src, m) :: tl =>
      let w1 := mkWorld (w_net w) (w_nodes w) tl (w_log w) in
      match find_node w1 hid with
      | None => w1
      | Some n => match handle_g n src m with
                  | Ok (n', outs) => send_all (set_node w1 n') hid outs
                  | Raise _ => mkWorld (w_net w1) (w_nodes w1) (w_queue w1) (ERR_EVENT :: w_log w1)
                  end
      end
  end.
Fixpoint pump_g (fuel : nat) (w : world) : world :=
  match fuel with
  | O => w
  | S f => match w_queue w with [] => w | _ => pump_g f (deliver_one_g w) end
  end.
Definition emit_g (w : world) (h : Z) (r : res (node * list (addr * msg))) : world :=
  match r with
  | Ok (n', outs) => send_all (set_node w n') h outs
  | Raise _ => mkWorld (w_net w) (w_nodes w) (w_queue w) (ERR_EVENT :: w_log w)
  end.
Definition step_op_g (w : world) (o : op) : world :=
  match o with
  | OpWalk h dst style =>
      match find_node w h with
      | None => w
      | Some n =>
          match style with
          | None => emit_g w h (walk_to_g n dst)
          | Some b => emit_g w h (do r <- create_introduction_request_g n dst b; Ok (fst r, [(dst, snd r)]))
          end
      end
  | OpAsk h key =>
      match find_node w h with
      | None => w
      | Some n => match find_peer key (n_peers n) with
                  | None => w
                  | Some p => emit_g w h (send_introduction_request_g n p)
                  end
      end
  | OpWalkAll h =>
      match find_node w h with
      | None => w
      | Some n =>
          match walkable_g n with
          | Ok l => fold_left (fun acc a => match find_node acc h with
                                            | Some n' => emit_g acc h (walk_to_g n' a)
                                            | None => acc end) l w
          | Raise _ => mkWorld (w_net w) (w_nodes w) (w_queue w) (ERR_EVENT :: w_log w)
          end
      end
  | OpRebind h => mkWorld (rebind (w_net w) h) (w_nodes w) (w_queue w) (w_log w)
  | OpPump => pump_g PUMP_FUEL w
  end.
Definition run_ops_g (w : world) (ops : list op) : world := fold_left step_op_g ops w.
