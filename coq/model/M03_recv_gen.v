(* Receive path restated on top of the definitions GENERATED from the source (gen/G03_recv.v, written by
   tools/tr/tr_recv.py on every run): Endpoint.notify_listeners / _deliver_later, TunnelEndpoint.notify_listeners,
   Community.on_packet, StatisticsEndpoint.on_packet, PythonCryptoEndpoint.on_packet / process_cell / relay_cell /
   incoming_crypto / decrypt_cell / encrypt_cell, CellPayload.from_bin / to_bin / unwrap, TunnelCommunity.on_cell /
   on_packet_from_circuit, the lazy_wrapper family.  This file only adds: how a delivery is started and observed,
   the well-formedness conditions the theorems need, the property predicate on events, and the executable
   instantiation of the oracles used by the correspondence.  No proofs here. *)
From Coq Require Import ZArith List Bool Lia.
From IPV8V Require Import lib.PyErr lib.Bytes lib.BE gen.G03_recv.
Import ListNotations.
Open Scope Z_scope.

(* ---- starting and observing one delivery ---- *)
Definition dummy_cell : cell_rec := mkCell 0 [] false false.
Definition init_st (w : world) : st := mkSt w (fun _ => dummy_cell) 0 [].
Definition trace (s : st) : list ev := rev (s_evs s).        (* events in the order they happened *)

Section Run.
Variable o_handler : nat -> Z -> addr -> bytes -> option Z -> world -> world * res hres.
Variable o_decrypt : Z -> bytes -> Z -> res bytes.
Variable o_encrypt : Z -> bytes -> Z -> res bytes.
Variable o_peer : nat -> addr -> world -> option Z.

(* what the transport does with a datagram: Endpoint.notify_listeners((source, data)) *)
Definition notify (cfg : config) (w : world) (src : addr) (data : bytes) : st * res unit :=
  Endpoint_notify_listeners o_handler o_decrypt o_encrypt o_peer cfg 0%nat (src, data) (init_st w).
(* the same through a TunnelEndpoint wrapper *)
Definition tunnel_notify (cfg : config) (w : world) (src : addr) (data : bytes) (from_tunnel : bool) : st * res unit :=
  TunnelEndpoint_notify_listeners o_handler o_decrypt o_encrypt o_peer cfg 0%nat (src, data) from_tunnel (init_st w).
Definition on_packet (cfg : config) (l : nat) (w : world) (src : addr) (data : bytes) : st * res unit :=
  dispatch_on_packet o_handler o_decrypt o_encrypt o_peer cfg l (src, data) (init_st w).
End Run.

(* the listeners Endpoint.notify_listeners iterates over *)
Definition selected (cfg : config) (w : world) (data : bytes) : list nat :=
  match dict_get bytes_eqb (slice data None (Some (cfg_prefixlen cfg))) (w_prefix_map w) with
  | Some ls => ls
  | None => w_listeners w
  end.

(* ---- well-formedness ---- *)
Definition no_oncell (m : list (option href)) : Prop := forall i, nth_error m i <> Some (Some HOnCell).
(* structure of a node, as the constructors of the classes build it *)
Record cfg_wf (cfg : config) : Prop := {
  (* Community.__init__: decode_map = [None] * 256 *)
  wf_map_len : forall l, Z.of_nat (length (cm_decode_map (cfg_comm cfg l))) = DECODE_MAP_LEN;
  (* on_cell is registered only under CellPayload.msg_id (= 0) *)
  wf_oncell_at_0 : forall l i, nth_error (cm_decode_map (cfg_comm cfg l)) i = Some (Some HOnCell) -> i = 0%nat;
  (* a community that is itself a listener is not a tunnel community (setup_tunnels replaces it by its crypto endpoint) *)
  wf_direct : forall l, cfg_kind cfg l = KCommunity -> no_oncell (cm_decode_map (cfg_comm cfg l));
  (* PythonCryptoEndpoint.setup_tunnels: prefix = tunnel_community.get_prefix(), 22 bytes *)
  wf_ce_prefix : forall l t, ce_tunnel_community (cfg_crypto cfg l) = Some t ->
                 ce_prefix (cfg_crypto cfg l) = cm_prefix (cfg_comm cfg t);
  wf_ce_len : forall l, length (ce_prefix (cfg_crypto cfg l)) = 22%nat
}.

(* the part of it that the totality theorem needs *)
Definition cfg_basic (cfg : config) : Prop :=
  (forall l, Z.of_nat (length (cm_decode_map (cfg_comm cfg l))) = DECODE_MAP_LEN) /\
  (forall l, length (ce_prefix (cfg_crypto cfg l)) = 22%nat).

(* routing tables: circuit ids are 32-bit (they are decoded from / packed into `I` fields); a circuit with
   hidden-service session keys has a first hop *)
Definition relay_ok (r : relay_rec) : Prop := 0 <= rr_circuit_id r < 2 ^ 32.
Definition circuit_ok (c : circuit_rec) : Prop := ci_hs_session_keys c <> None -> ci_hop c <> None.
Definition world_wf (w : world) : Prop :=
  (forall l k r, dict_get Z.eqb k (w_relays w l) = Some r -> relay_ok r) /\
  (forall l k c, dict_get Z.eqb k (w_circuits w l) = Some c -> circuit_ok c).

(* handlers do not change the listener registration of the endpoint that is delivering *)
Definition ep_same (w w' : world) : Prop :=
  w_open w' = w_open w /\ w_listeners w' = w_listeners w /\ w_prefix_map w' = w_prefix_map w.
(* what is assumed of SessionKeys: decrypt_str fails with ValueError or RuntimeError, encrypt_str with ValueError *)
Definition crypto_ok (o_decrypt o_encrypt : Z -> bytes -> Z -> res bytes) : Prop :=
  (forall k m d e, o_decrypt k m d = Raise e -> e = ValueError \/ e = RuntimeError) /\
  (forall k m d e, o_encrypt k m d = Raise e -> e = ValueError).

(* the datagram does not carry prefix p, or is too short to carry a message id *)
Definition mismatch (p d : bytes) : Prop := slice d None (Some 22) <> p \/ blen d < 23.
(* ... for listener l: neither its own prefix nor (crypto endpoint) the prefix of the community behind it *)
Definition foreign (cfg : config) (l : nat) (d : bytes) : Prop :=
  match cfg_kind cfg l with
  | KCommunity => mismatch (cm_prefix (cfg_comm cfg l)) d
  | KCrypto => mismatch (ce_prefix (cfg_crypto cfg l)) d /\
               forall t, ce_tunnel_community (cfg_crypto cfg l) = Some t -> mismatch (cm_prefix (cfg_comm cfg t)) d
  | KStatistics => True
  end.

(* ---- the property on events ---- *)
Definition handler_at (cfg : config) (l : nat) (d : bytes) : option href :=
  match idx d 22 with
  | Ok mid => match list_idx (cm_decode_map (cfg_comm cfg l)) mid with Ok (Some h) => Some h | _ => None end
  | Raise _ => None
  end.
Definition private_handler_at (cfg : config) (l : nat) (d : bytes) : option href :=
  match idx d 22 with
  | Ok mid => dict_get Z.eqb mid (cm_decode_map_private (cfg_comm cfg l))
  | Raise _ => None
  end.
(* an event is acceptable: a handler is entered only with bytes that carry its overlay's prefix, at least 23 of
   them, and it is the handler registered for byte 22; no read past the end of a buffer; no task failure escapes.
   `bad_reads = true` tolerates contained out-of-range reads (they are exceptions caught by Community.on_packet). *)
Definition ev_ok (cfg : config) (bad_reads : bool) (e : ev) : Prop :=
  match e with
  | EvEntered l h d None =>
      slice d None (Some 22) = cm_prefix (cfg_comm cfg l) /\ 23 <= blen d /\ handler_at cfg l d = Some (HOracle h)
  | EvEntered l h d (Some _) =>
      slice d None (Some 22) = cm_prefix (cfg_comm cfg l) /\ 23 <= blen d /\ private_handler_at cfg l d = Some (HOracle h)
  | EvBadRead => bad_reads = true
  | EvTaskEscape _ _ => False
  | EvDelivered _ | EvSent _ _ | EvUser _ _ => True
  end.

Definition is_entered (e : ev) : bool := match e with EvEntered _ _ _ _ => true | _ => false end.
Definition entered_of (l : nat) (e : ev) : bool := match e with EvEntered l' _ _ _ => Nat.eqb l l' | _ => false end.
Definition delivered (evs : list ev) : list nat :=
  flat_map (fun e => match e with EvDelivered l => [l] | _ => [] end) evs.

(* ---- executable oracles for the correspondence (also: the hypotheses on the oracles are satisfiable) ---- *)
(* what a stubbed / observed handler did, per (overlay, handler id): 0 returns None, 1 raises, 2 returns a coroutine
   that fails, 3 returns a coroutine that succeeds *)
Definition toy_handler (beh : list ((nat * Z) * Z)) (l : nat) (h : Z) (_ : addr) (_ : bytes) (_ : option Z) (w : world)
  : world * res hres :=
  (w, match dict_get (fun a b => Nat.eqb (fst a) (fst b) && (snd a =? snd b)) (l, h) beh with
      | Some 1 => Raise ValueError
      | Some 2 => Ok (HCoro (Raise RuntimeError))
      | Some 3 => Ok (HCoro (Ok tt))
      | _ => Ok HNone
      end).
(* recorded outcomes of the session-key operations of one delivery: ((key id, direction, input), output or failure) *)
Definition crypto_log := list ((Z * Z * bytes) * option bytes).
Fixpoint crypto_lookup (log : crypto_log) (k d : Z) (m : bytes) : option (option bytes) :=
  match log with
  | [] => None
  | ((k', d', m'), r) :: tl => if (k =? k') && (d =? d') && bytes_eqb m m' then Some r else crypto_lookup tl k d m
  end.
(* decrypt_str fails with RuntimeError (authentication) ; an operation the implementation did not perform is a failure *)
Definition toy_decrypt (log : crypto_log) (k : Z) (m : bytes) (d : Z) : res bytes :=
  match crypto_lookup log k d m with Some (Some r) => Ok r | _ => Raise RuntimeError end.
Definition toy_encrypt (log : crypto_log) (k : Z) (m : bytes) (d : Z) : res bytes :=
  match crypto_lookup log k (d + 2) m with Some (Some r) => Ok r | _ => Raise ValueError end.
Definition toy_peer (known : list addr) (_ : nat) (a : addr) (_ : world) : option Z :=
  if existsb (Z.eqb a) known then Some a else None.

(* one correspondence case: configuration and tables of the receiving node, oracle outcomes, the datagram *)
Record rcase := mkCase {
  rc_cfg : config; rc_world : world; rc_beh : list ((nat * Z) * Z); rc_crypto : crypto_log;
  rc_tunnel : option bool;          (* None: Endpoint.notify_listeners; Some ft: TunnelEndpoint.notify_listeners(from_tunnel=ft) *)
  rc_src : addr; rc_data : bytes }.
Definition run_case (c : rcase) : list ev * res unit :=
  let r := match rc_tunnel c with
           | None => notify (toy_handler (rc_beh c)) (toy_decrypt (rc_crypto c)) (toy_encrypt (rc_crypto c)) (toy_peer [])
                            (rc_cfg c) (rc_world c) (rc_src c) (rc_data c)
           | Some ft => tunnel_notify (toy_handler (rc_beh c)) (toy_decrypt (rc_crypto c)) (toy_encrypt (rc_crypto c)) (toy_peer [])
                            (rc_cfg c) (rc_world c) (rc_src c) (rc_data c) ft
           end in
  (trace (fst r), snd r).

Definition ev_eqb (a b : ev) : bool :=
  match a, b with
  | EvDelivered i, EvDelivered j => Nat.eqb i j
  | EvEntered i h d c, EvEntered j g e c' =>
      Nat.eqb i j && (h =? g) && bytes_eqb d e &&
      match c, c' with None, None => true | Some x, Some y => x =? y | _, _ => false end
  | EvBadRead, EvBadRead => true
  | EvSent a d, EvSent b e => (a =? b) && bytes_eqb d e
  | EvTaskEscape i e, EvTaskEscape j f => Nat.eqb i j && exn_eqb e f
  | EvUser i p, EvUser j q => Nat.eqb i j && (p =? q)
  | _, _ => false
  end.
Fixpoint evs_eqb (a b : list ev) : bool :=
  match a, b with
  | [], [] => true
  | x :: a', y :: b' => ev_eqb x y && evs_eqb a' b'
  | _, _ => false
  end.
Definition obs_eqb (a b : list ev * res unit) : bool :=
  evs_eqb (fst a) (fst b) && res_eqb (fun _ _ => true) (snd a) (snd b).

(* ---- the handler decorators (lazy_wrapper, lazy_wrapper_wd, lazy_wrapper_unsigned, unpack_cell) ---- *)
(* recorded outcomes of the steps of one call: header decode, signature check, payload decode; None = the step raised *)
Record wcase := mkWCase {
  wc_which : Z;                               (* 0 lazy_wrapper, 1 lazy_wrapper_wd, 2 lazy_wrapper_unsigned, 3 unpack_cell *)
  wc_header : option (option Z);              (* not called / raised PackError-like / auth id *)
  wc_verify : option (option (bool * bytes)); (* not called / raised / (valid, remainder) *)
  wc_list : option (option Z);                (* not called / raised / payload id *)
  wc_user_raises : bool;
  wc_data : bytes }.
Definition toy_unpack (c : wcase) (kind : Z) (_ : bytes) (_ : Z) : res (Z * Z) :=
  match (if kind =? 0 then wc_header c else wc_list c) with Some (Some a) => Ok (a, 0) | _ => Raise PackError end.
Definition toy_unpack_list (c : wcase) (_ : bytes) (_ : Z) : res Z :=
  match wc_list c with Some (Some p) => Ok p | _ => Raise PackError end.
Definition toy_verify (c : wcase) (_ : Z) (_ : bytes) : res (bool * bytes) :=
  match wc_verify c with Some (Some r) => Ok r | _ => Raise ValueError end.
Definition toy_user (c : wcase) (_ : nat) (_ : Z) (w : world) : world * res hres :=
  (w, if wc_user_raises c then Raise ValueError else Ok HNone).
Definition empty_world : world := mkWorld true [] [] (fun _ => []) (fun _ => []) (fun _ => []) (fun _ => []).
Definition empty_cfg : config :=
  mkCfg 22 (fun _ => KCommunity) (fun _ => false) (fun _ => mkComm [] [] []) (fun _ => mkCrypto [] None None).
Definition run_wcase (c : wcase) : list ev * res unit :=
  let w := wc_which c in
  let m := if w =? 0 then W_lazy_wrapper (toy_unpack c) (toy_unpack_list c) (toy_verify c) (fun _ _ _ => None) (toy_user c) empty_cfg 0%nat 4 (wc_data c)
           else if w =? 1 then W_lazy_wrapper_wd (toy_unpack c) (toy_unpack_list c) (toy_verify c) (fun _ _ _ => None) (toy_user c) empty_cfg 0%nat 4 (wc_data c)
           else if w =? 2 then W_lazy_wrapper_unsigned (toy_unpack_list c) (toy_user c) empty_cfg 0%nat 4 (wc_data c)
           else W_unpack_cell (toy_unpack c) (toy_user c) empty_cfg 0%nat 4 (wc_data c) (Some 7) in
  let r := m (init_st empty_world) in
  (trace (fst r), match snd r with Ok _ => Ok tt | Raise e => Raise e end).
