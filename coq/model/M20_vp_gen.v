(* Vocabulary of gen/G20_vp.v (written by tools/tr/tr_vp.py from lazy_payload.py and payload_dataclass.py).
   Nothing here is translated; this file fixes what the primitives the translated bodies call MEAN:
   Python lists indexed by integers (negative indices wrap, out of range raises), `for` over range / over a list,
   comprehensions, dict operations on keyword dictionaries, instance attributes, and the object model of a payload
   CLASS: its definition (names, format list, which fix_ hooks exist and what they compute), the function objects its
   method slots hold, code objects produced by the three generators, exec / compile / inspect.signature /
   types.MethodType / dataclasses.fields / get_type_hints as the oracles named in DESIGN 9.5 (C20).  No proofs here. *)
From Coq Require Import ZArith List Bool Lia String.
From IPV8V Require Import lib.PyErr model.M20_vp.
Import ListNotations.
Open Scope Z_scope.

(* ------------------------------------------------------------------ Python lists and loops *)
Definition len {A} (l : list A) : Z := Z.of_nat (List.length l).

Definition py_idx {A} (l : list A) (i : Z) : res A :=
  let j := if i <? 0 then i + len l else i in
  if j <? 0 then Raise IndexError
  else match nth_error l (Z.to_nat j) with Some x => Ok x | None => Raise IndexError end.

Fixpoint set_nth {A} (l : list A) (k : nat) (x : A) : option (list A) :=
  match l, k with
  | [], _ => None
  | _ :: tl, O => Some (x :: tl)
  | y :: tl, S k' => match set_nth tl k' x with Some r => Some (y :: r) | None => None end
  end.
Definition py_setitem {A} (l : list A) (i : Z) (x : A) : res (list A) :=
  let j := if i <? 0 then i + len l else i in
  if j <? 0 then Raise IndexError
  else match set_nth l (Z.to_nat j) x with Some r => Ok r | None => Raise IndexError end.

(* for i in range(n): body  -- the state is the tuple of variables the body assigns *)
Fixpoint for_nat {S} (k : nat) (i : Z) (body : Z -> S -> res S) (s : S) : res S :=
  match k with O => Ok s | S k' => do s' <- body i s; for_nat k' (i + 1) body s' end.
Definition for_range {S} (n : Z) (body : Z -> S -> res S) (s : S) : res S := for_nat (Z.to_nat n) 0 body s.
(* for x in l: body *)
Fixpoint for_each {A S} (l : list A) (body : A -> S -> res S) (s : S) : res S :=
  match l with [] => Ok s | x :: tl => do s' <- body x s; for_each tl body s' end.
(* [f(x) for x in l if c(x)] *)
Fixpoint list_comp_if {A B} (l : list A) (c : A -> res bool) (f : A -> res B) : res (list B) :=
  match l with
  | [] => Ok []
  | x :: tl => do b <- c x;
               if b then (do y <- f x; do ys <- list_comp_if tl c f; Ok (y :: ys)) else list_comp_if tl c f
  end.
Definition list_comp {A B} (l : list A) (f : A -> res B) : res (list B) := list_comp_if l (fun _ => Ok true) f.

(* ------------------------------------------------------------------ dictionaries keyed by names *)
Section Dict.
Context {X : Type}.
Definition kw_mem (n : nat) (d : list (nat * X)) : bool := match assoc_nat n d with Some _ => true | None => false end.
Fixpoint kw_del (k : nat) (l : list (nat * X)) : list (nat * X) :=
  match l with [] => [] | (k', v) :: tl => if Nat.eqb k k' then tl else (k', v) :: kw_del k tl end.
Definition kw_pop (d : list (nat * X)) (n : nat) : res (X * list (nat * X)) :=
  match assoc_nat n d with Some v => Ok (v, kw_del n d) | None => Raise KeyError end.
Definition kw_get (d : list (nat * X)) (n : nat) : res X :=
  match assoc_nat n d with Some v => Ok v | None => Raise KeyError end.
(* d[k] = v : replaces in place, or appends (insertion order) *)
Fixpoint kw_set (d : list (nat * X)) (k : nat) (v : X) : list (nat * X) :=
  match d with
  | [] => [(k, v)]
  | (k', v') :: tl => if Nat.eqb k k' then (k, v) :: tl else (k', v') :: kw_set tl k v
  end.
Definition kw_of_list (l : list (nat * X)) : list (nat * X) := fold_left (fun d kv => kw_set d (fst kv) (snd kv)) l [].
Definition kw_truthy (d : list (nat * X)) : bool := match d with [] => false | _ => true end.
End Dict.

(* string-keyed scopes (local_scope, globals()) *)
Fixpoint sassoc {A} (k : string) (l : list (string * A)) : option A :=
  match l with [] => None | (k', v) :: tl => if String.eqb k k' then Some v else sassoc k tl end.
Fixpoint sset {A} (l : list (string * A)) (k : string) (v : A) : list (string * A) :=
  match l with
  | [] => [(k, v)]
  | (k', v') :: tl => if String.eqb k k' then (k, v) :: tl else (k', v') :: sset tl k v
  end.

(* ------------------------------------------------------------------ formats *)
(* what a pack-list entry carries as its format: a string ("payload", "payload-list" or the format string itself);
   a format object that is not a string would be carried as it is - GJunk (the Serializer then refuses it) *)
Inductive gpname := GP (p : pname) | GJunk (f : fkind).
Definition gp_of_fk (f : fkind) : gpname := match f with KStr t _ => GP (PStr t) | _ => GJunk f end.
Definition fk_is_bits (f : fkind) : bool := match f with KStr _ true => true | _ => false end.   (* fmt == "bits" *)
Definition fk_is_str (f : fkind) : bool := match f with KStr _ _ => true | _ => false end.       (* isinstance(fmt, str) *)
Definition fk_is_list (f : fkind) : bool := match f with KPayloadList _ => true | _ => false end. (* isinstance(fmt, list) *)

(* the string a tfmt stands for, as a format-list entry.  Tags of M20_vp.KStr are abstract numbers; strings produced by
   type_map get tags through this numbering; `bits_name` is the number of the TypeVar name "bits" *)
Definition bits_name : nat := 0%nat.
Fixpoint tag_of_tfmt (f : tfmt) : nat :=
  (match f with
   | TFq => 0 | TFbool => 1 | TFd => 2 | TFvarlenH => 3 | TFvarlenHutf8 => 4
   | TFname n => 5 + 2 * n
   | TFarray e => 6 + 2 * tag_of_tfmt e
   | TFpayload _ | TFpayloadlist _ => 0
   end)%nat.
Definition fk_of_tfmt (f : tfmt) : fkind :=
  match f with
  | TFpayload c => KPayload c
  | TFpayloadlist c => KPayloadList c
  | TFname n => KStr (tag_of_tfmt f) (Nat.eqb n bits_name)
  | _ => KStr (tag_of_tfmt f) false
  end.

(* ------------------------------------------------------------------ annotations (typing objects) *)
Definition ty_is (t u : ty) : bool :=           (* `t is bool` etc.: identity with one of the five builtin classes *)
  match t, u with
  | TBool, TBool | TInt, TInt | TFloat, TFloat | TBytes, TBytes | TStr, TStr => true
  | _, _ => false
  end.
Definition ty_is_typevar (t : ty) : bool := match t with TVar _ => true | _ => false end.
Definition ty_name (t : ty) : res nat :=        (* t.__name__ ; modelled for TypeVars only *)
  match t with TVar f => Ok f | _ => Raise OutOfFuel end.
Definition ty_origin_is_seq (t : ty) : bool :=  (* getattr(t, "__origin__", None) in (tuple, list, set) *)
  match t with TSeq _ => true | _ => false end.
Definition ty_args (t : ty) : list ty := match t with TSeq e => [e] | _ => [] end.   (* typing.get_args *)
Definition ty_issubclass_serializable (t : ty) : res bool :=   (* issubclass(t, Serializable): TypeError for a non-class *)
  match t with
  | TClass _ => Ok true
  | TSeq _ | TVar _ => Raise TypeError
  | _ => Ok false
  end.
Definition ty_isinstance_seq (t : ty) : bool := false.         (* isinstance(t, (tuple, list, set)): no descriptor is *)
Definition ty_serializable_in_mro (t : ty) : bool := match t with TClass _ => true | _ => false end.
Definition tf_list_of (t : ty) : res tfmt :=    (* [t] as a format *)
  match t with TClass c => Ok (TFpayloadlist c) | _ => Raise OutOfFuel end.
Definition tf_class_of (t : ty) : res tfmt :=   (* cast(type[Serializable], t) as a format *)
  match t with TClass c => Ok (TFpayload c) | _ => Raise OutOfFuel end.
Definition typevar_new (f : nat) : ty := TVar f.                (* TypeVar.__new__(TypeVar, f) *)
Definition typevar_init (t : ty) (f : nat) : res unit := Ok tt. (* TypeVar.__init__(t, f): nothing observable *)
Fixpoint ty_depth (t : ty) : nat := match t with TSeq e => S (ty_depth e) | _ => O end.

(* ------------------------------------------------------------------ objects *)
Section Obj.
Variable V : Type.

(* what the environment knows about values: None, the inspect.Parameter.empty sentinel *)
Record rtp := mkRtp {
  is_none : V -> bool;
  is_empty : V -> bool;        (* v is inspect.Parameter.empty *)
  empty_v : V;
  self_name : nat; args_name : nat; kwargs_name : nat;    (* the names "self", "args", "kwargs" *)
  run_default : V -> res V     (* what a constructor written by @dataclass assigns for an omitted parameter whose signature
                                  default is v: v itself, or - when v is dataclasses' factory marker - a fresh result of the
                                  field's default_factory *)
}.

(* instance attributes in assignment order; setattr replaces an existing attribute in place *)
Definition py_setattr (o : fields V) (n : nat) (v : V) : fields V := kw_set o n v.
Definition py_getattr (o : fields V) (n : nat) : res V := getattr V o n.
Definition object_new : fields V := [].

(* code objects: what compile() returns for the three generated sources, as structure.  The translator accepts a source
   template only if it parses to one of these shapes (anything else aborts). *)
Inductive code :=
| CInit (name : string) (params : list (nat * option nat)) (setters : list (nat * nat))
    (* def <name>(self, p, q=_defaults['q'], ...): Payload.__init__(self); self.a = p; ... *)
| CUnpack (name : string) (params : list nat) (args : list (nat * bool))
    (* def <name>(cls, p, ...): return cls(p, None if q is None else cls.fix_unpack_q(q), ...) *)
| CPack (name : string) (items : list (gpname * list (nat * bool))).
    (* def <name>(self): return [("fmt", self.a, self.fix_pack_b(self.b)), ...] *)

(* function objects *)
Inductive funobj :=
| FInherited                                  (* the method VariablePayload defines *)
| FUser (sig : list (nat * V))                (* a constructor written by hand or by @dataclass; only inspect.signature of it
                                                 is modelled: (parameter, default or the empty sentinel), self included *)
| FInit (params : list (nat * option V)) (setters : list (nat * nat)) (payload_visible : bool)
| FUnpack (params : list nat) (args : list (nat * bool))
| FPack (items : list (gpname * list (nat * bool))).
Inductive method := MInherited | MBound (f : funobj) (cls_id : nat).    (* types.MethodType(f, <class cls_id>) *)

Inductive gval := GOther | GDefaults (d : list (nat * V)).
Definition genv := list (string * gval).
Definition scope := list (string * funobj).
Definition py_locals : scope := [].           (* locals() of vp_compile: no function in it yet *)
Definition genv_with (g : genv) (k : string) (d : list (nat * V)) : genv := sset g k (GDefaults d).

Fixpoint nodup_nat (l : list nat) : bool :=
  match l with [] => true | x :: tl => negb (existsb (Nat.eqb x) tl) && nodup_nat tl end.
(* compile(src, src, "exec"): duplicate parameter names are a SyntaxError *)
Definition py_compile (c : code) : res code :=
  match c with
  | CInit _ ps _ => if nodup_nat (map fst ps) then Ok c else Raise ValueError
  | CUnpack _ ps _ => if nodup_nat ps then Ok c else Raise ValueError
  | CPack _ _ => Ok c
  end.

Fixpoint mapM' {A B} (f : A -> res B) (l : list A) : res (list B) :=
  match l with [] => Ok [] | x :: tl => do y <- f x; do ys <- mapM' f tl; Ok (y :: ys) end.

(* exec(code, globals, scope): runs the def statement: default expressions `_defaults[k]` are evaluated NOW, in the
   globals handed to exec; the function object lands in `scope` under the name of the def *)
Definition eval_default (g : genv) (k : nat) : res V :=
  match sassoc "_defaults"%string g with
  | Some (GDefaults d) => kw_get d k
  | Some GOther => Raise TypeError
  | None => Raise RuntimeError          (* NameError *)
  end.
Definition genv_has (g : genv) (k : string) : bool := match sassoc k g with Some _ => true | None => false end.
Definition py_exec (c : code) (g : genv) (sc : scope) : res scope :=
  match c with
  | CInit nm ps st =>
      do ps' <- mapM' (fun p => match snd p with
                                | None => Ok (fst p, None)
                                | Some k => do v <- eval_default g k; Ok (fst p, Some v)
                                end) ps;
      Ok (sset sc nm (FInit ps' st (genv_has g "Payload"%string)))
  | CUnpack nm ps a => Ok (sset sc nm (FUnpack ps a))
  | CPack nm it => Ok (sset sc nm (FPack it))
  end.
Definition scope_get (sc : scope) (k : string) : res funobj :=
  match sassoc k sc with Some f => Ok f | None => Raise KeyError end.

(* ---- the class object *)
Record cls := mkCls {
  c_id : nat; c_module : nat; c_name : nat;           (* identity, __module__, __name__ *)
  c_names : list nat; c_fmts : list fkind;            (* names, format_list *)
  c_fixpack : list nat; c_fixunpack : list nat;       (* names n with a fix_pack_n / fix_unpack_n attribute *)
  c_hook_pack : nat -> V -> V; c_hook_unpack : nat -> V -> V;
  c_msg_id : option Z;
  c_init : funobj; c_from_unpack : method; c_to_pack : funobj;
  c_match_args : option (list nat);
  c_dc_fields : list (nat * V);                       (* dataclasses.fields(cls): name, default (or the empty sentinel) *)
  c_hints : list (nat * ty)                           (* typing.get_type_hints(cls) *)
}.
Definition defn_of (K : cls) : defn := mkDefn (c_fmts K) (c_names K) (c_fixpack K) (c_fixunpack K).
Definition has_fix_pack (K : cls) (n : nat) : bool := mem n (c_fixpack K).
Definition has_fix_unpack (K : cls) (n : nat) : bool := mem n (c_fixunpack K).

Definition cls_set_init (K : cls) (f : funobj) : cls :=
  mkCls (c_id K) (c_module K) (c_name K) (c_names K) (c_fmts K) (c_fixpack K) (c_fixunpack K) (c_hook_pack K) (c_hook_unpack K)
        (c_msg_id K) f (c_from_unpack K) (c_to_pack K) (c_match_args K) (c_dc_fields K) (c_hints K).
Definition cls_set_from_unpack (K : cls) (m : method) : cls :=
  mkCls (c_id K) (c_module K) (c_name K) (c_names K) (c_fmts K) (c_fixpack K) (c_fixunpack K) (c_hook_pack K) (c_hook_unpack K)
        (c_msg_id K) (c_init K) m (c_to_pack K) (c_match_args K) (c_dc_fields K) (c_hints K).
Definition cls_set_to_pack (K : cls) (f : funobj) : cls :=
  mkCls (c_id K) (c_module K) (c_name K) (c_names K) (c_fmts K) (c_fixpack K) (c_fixunpack K) (c_hook_pack K) (c_hook_unpack K)
        (c_msg_id K) (c_init K) (c_from_unpack K) f (c_match_args K) (c_dc_fields K) (c_hints K).
Definition cls_set_match_args (K : cls) (l : list nat) : cls :=
  mkCls (c_id K) (c_module K) (c_name K) (c_names K) (c_fmts K) (c_fixpack K) (c_fixunpack K) (c_hook_pack K) (c_hook_unpack K)
        (c_msg_id K) (c_init K) (c_from_unpack K) (c_to_pack K) (Some l) (c_dc_fields K) (c_hints K).
Definition cls_set_names (K : cls) (l : list nat) : cls :=
  mkCls (c_id K) (c_module K) (c_name K) l (c_fmts K) (c_fixpack K) (c_fixunpack K) (c_hook_pack K) (c_hook_unpack K)
        (c_msg_id K) (c_init K) (c_from_unpack K) (c_to_pack K) (c_match_args K) (c_dc_fields K) (c_hints K).
Definition cls_set_fmts (K : cls) (l : list fkind) : cls :=
  mkCls (c_id K) (c_module K) (c_name K) (c_names K) l (c_fixpack K) (c_fixunpack K) (c_hook_pack K) (c_hook_unpack K)
        (c_msg_id K) (c_init K) (c_from_unpack K) (c_to_pack K) (c_match_args K) (c_dc_fields K) (c_hints K).
Definition cls_set_msg_id (K : cls) (m : option Z) : cls :=
  mkCls (c_id K) (c_module K) (c_name K) (c_names K) (c_fmts K) (c_fixpack K) (c_fixunpack K) (c_hook_pack K) (c_hook_unpack K)
        m (c_init K) (c_from_unpack K) (c_to_pack K) (c_match_args K) (c_dc_fields K) (c_hints K).
Definition cls_get_msg_id (K : cls) : res (option Z) :=       (* cls.msg_id : AttributeError when the class has none *)
  match c_msg_id K with Some z => Ok (Some z) | None => Raise TypeError end.
Definition method_type (f : funobj) (K : cls) : method := MBound f (c_id K).
Definition fmts_of_tfmts (l : list tfmt) : list fkind := map fk_of_tfmt l.
Definition hints_get (h : list (nat * ty)) (n : nat) : res ty :=
  match assoc_nat n h with Some t => Ok t | None => Raise KeyError end.

(* inspect.signature(f).parameters.items(): (name, default) in signature order, default = the empty sentinel if none *)
Variable P : rtp.
Definition sig_items (f : funobj) : res (list (nat * V)) :=
  match f with
  | FInherited => Ok [(self_name P, empty_v P); (args_name P, empty_v P); (kwargs_name P, empty_v P)]   (* (self, *args, **kwargs) *)
  | FUser sig => Ok sig
  | FInit ps _ _ => Ok ((self_name P, empty_v P) :: map (fun p => (fst p, match snd p with Some v => v | None => empty_v P end)) ps)
  | FUnpack ps _ => Ok (map (fun n => (n, empty_v P)) (self_name P :: ps))
  | FPack _ => Ok [(self_name P, empty_v P)]
  end.
Definition param_default (v : V) : V := v.                   (* Parameter.default *)
Definition is_param_empty (v : V) : bool := is_empty P v.    (* v is inspect.Parameter.empty *)

(* sys.modules[m].<n> = K *)
Definition world := list ((nat * nat) * cls).
Definition world_set (W : world) (m n : nat) (K : cls) : world := W ++ [((m, n), K)].

(* ---- calling what a class's slots hold (CPython's attribute lookup and call, hand-written) *)
Definition ident_setters (ps : list nat) (st : list (nat * nat)) : bool :=
  leqb (fun a b => Nat.eqb (fst a) (fst b) && Nat.eqb (snd a) (snd b)) st (map (fun n => (n, n)) ps).
Fixpoint strip_gp (it : list (gpname * list (nat * bool))) : option pack_ast :=
  match it with
  | [] => Some []
  | (GP p, l) :: tl => match strip_gp tl with Some r => Some ((p, l) :: r) | None => None end
  | (GJunk _, _) :: _ => None
  end.
Definition lift_gp (p : pack_ast) : list (gpname * list (nat * bool)) := map (fun e => (GP (fst e), snd e)) p.

(* K(args, kwargs) for a class whose __new__ is object.__new__ *)
Definition call_init (K : cls) (args : list V) (kwargs : list (nat * V)) : res (fields V) :=
  match c_init K with
  | FInherited => interp_init V (defn_of K) args kwargs
  | FInit ps st pv =>
      if pv && ident_setters (map fst ps) st then eval_init V V (fun v => Ok v) ps args kwargs
      else Raise OutOfFuel                       (* not of the modelled shape *)
  | FUser (_ :: ps) =>                           (* the constructor @dataclass writes (dataclasses is trusted): each parameter
                                                    is assigned to the field of its name, omitted ones get run_default *)
      eval_init V V (run_default P) (map (fun kv => (fst kv, if is_empty P (snd kv) then None else Some (snd kv))) ps) args kwargs
  | _ => Raise OutOfFuel
  end.
Definition call_to_pack (K : cls) (o : fields V) : res (list (pname * list V)) :=
  match c_to_pack K with
  | FInherited => interp_to_pack V (c_hook_pack K) (defn_of K) o
  | FPack it => match strip_gp it with
                | Some p => eval_to_pack V (c_hook_pack K) p o
                | None => Raise OutOfFuel
                end
  | _ => Raise OutOfFuel
  end.
Definition call_from_unpack (K : cls) (args : list V) : res (fields V) :=
  match c_from_unpack K with
  | MInherited => do a' <- interp_fix_unpack V (c_hook_unpack K) (defn_of K) (c_names K) args; call_init K a' []
  | MBound (FUnpack ps u) id =>
      if Nat.eqb id (c_id K) && leqb Nat.eqb ps (map fst u)
      then (do a' <- eval_unpack_args V (is_none P) (c_hook_unpack K) u args; call_init K a' [])
      else Raise OutOfFuel
  | _ => Raise OutOfFuel
  end.

(* the definition's own defaults: the parameters of its constructor that carry a default, with that default *)
Definition own_defaults (K : cls) : list (nat * V) :=
  match sig_items (c_init K) with
  | Ok s => filter (fun kv => negb (is_empty P (snd kv))) s
  | Raise _ => []
  end.

(* what vp_compile is expected to leave in the class (the theorem says it does): the three generated functions, each
   carrying exactly the definition's names / hooks / own defaults *)
Definition compiled_class (K : cls) : cls :=
  let d := defn_of K in
  cls_set_to_pack
    (cls_set_from_unpack
       (cls_set_match_args
          (cls_set_init K (FInit (gen_init (c_names K) (own_defaults K)) (map (fun n => (n, n)) (c_names K)) true))
          (c_names K))
       (MBound (FUnpack (c_names K) (gen_unpack d)) (c_id K)))
    (FPack (lift_gp (gen_pack d))).

(* a class vp_compile is meant for: names match the formats and are distinct; parameter names of the constructor distinct *)
Definition wf_cls (K : cls) : bool :=
  wf_defn (defn_of K) &&
  match sig_items (c_init K) with Ok s => nodup_nat (map fst s) | Raise _ => false end.

(* the plain definition a dataclass stands for: field names in order, formats through type_map, msg_id *)
Definition dc_definition (K : cls) (mid : option Z) (tfs : list tfmt) : cls :=
  cls_set_fmts (cls_set_names (match mid with Some _ => cls_set_msg_id K mid | None => K end) (map fst (c_dc_fields K)))
               (fmts_of_tfmts tfs).
(* @dataclass wrote the constructor: (self, field1[=default1], ...) *)
Definition dc_wf (K : cls) : Prop :=
  c_init K = FUser ((self_name P, empty_v P) :: c_dc_fields K).
(* what convert_to_payload leaves: the compiled form of that definition, with the constructor @dataclass wrote put back *)
Definition converted_class (K : cls) (mid : option Z) (tfs : list tfmt) : cls :=
  cls_set_init (compiled_class (dc_definition K mid tfs)) (c_init K).

End Obj.

Arguments GOther {V}.
Arguments FInherited {V}.
Arguments MInherited {V}.

(* ------------------------------------------------------------------ executable instance for the correspondence check *)
Inductive hval := HNone | HEmpty | HFactory | HI (z : Z).
Definition hval_eqb (a b : hval) : bool :=
  match a, b with HNone, HNone | HEmpty, HEmpty | HFactory, HFactory => true | HI x, HI y => Z.eqb x y | _, _ => false end.
Definition hP : rtp hval :=
  mkRtp hval (fun v => match v with HNone => true | _ => false end) (fun v => match v with HEmpty => true | _ => false end)
        HEmpty 1000 1001 1002 (fun v => match v with HFactory => Ok (HI 41) | _ => Ok v end).   (* every default_factory returns 41 *)
(* the harness's hooks: fix_pack_x(v) = v - 1, fix_unpack_x(v) = v + 1 *)
Definition h_hook_pack (_ : nat) (v : hval) : hval := match v with HI z => HI (z - 1) | _ => v end.
Definition h_hook_unpack (_ : nat) (v : hval) : hval := match v with HI z => HI (z + 1) | _ => v end.
Definition hK (id : nat) (fmts : list fkind) (names fp fu : list nat) (init : funobj hval) (mid : option Z)
              (flds : list (nat * hval)) (hints : list (nat * ty)) : cls hval :=
  mkCls hval id 2 3 names fmts fp fu h_hook_pack h_hook_unpack mid init MInherited FInherited None flds hints.

Definition fkind_eqb (a b : fkind) : bool :=
  match a, b with
  | KStr t x, KStr u y => Nat.eqb t u && Bool.eqb x y
  | KPayload c, KPayload d | KPayloadList c, KPayloadList d => Nat.eqb c d
  | _, _ => false
  end.
Definition gpname_eqb (a b : gpname) : bool :=
  match a, b with GP p, GP q => pname_eqb p q | GJunk f, GJunk g => fkind_eqb f g | _, _ => false end.
Definition opt_eqb {A} (eqb : A -> A -> bool) (a b : option A) : bool :=
  match a, b with Some x, Some y => eqb x y | None, None => true | _, _ => false end.
Definition pair_eqb {A B} (ea : A -> A -> bool) (eb : B -> B -> bool) (a b : A * B) : bool := ea (fst a) (fst b) && eb (snd a) (snd b).
Definition hfields_eqb : list (nat * hval) -> list (nat * hval) -> bool := leqb (pair_eqb Nat.eqb hval_eqb).
Definition items_eqb : list (gpname * list (nat * bool)) -> list (gpname * list (nat * bool)) -> bool :=
  leqb (pair_eqb gpname_eqb (leqb (pair_eqb Nat.eqb Bool.eqb))).
Definition code_eqb (a b : code) : bool :=
  match a, b with
  | CInit n p s, CInit n' p' s' => String.eqb n n' && leqb (pair_eqb Nat.eqb (opt_eqb Nat.eqb)) p p' && leqb (pair_eqb Nat.eqb Nat.eqb) s s'
  | CUnpack n p a, CUnpack n' p' a' => String.eqb n n' && leqb Nat.eqb p p' && leqb (pair_eqb Nat.eqb Bool.eqb) a a'
  | CPack n i, CPack n' i' => String.eqb n n' && items_eqb i i'
  | _, _ => false
  end.
Definition funobj_eqb (a b : funobj hval) : bool :=
  match a, b with
  | FInherited, FInherited => true
  | FUser _ s, FUser _ s' => hfields_eqb s s'
  | FInit _ p s v, FInit _ p' s' v' => leqb (pair_eqb Nat.eqb (opt_eqb hval_eqb)) p p' && leqb (pair_eqb Nat.eqb Nat.eqb) s s' && Bool.eqb v v'
  | FUnpack _ p a, FUnpack _ p' a' => leqb Nat.eqb p p' && leqb (pair_eqb Nat.eqb Bool.eqb) a a'
  | FPack _ i, FPack _ i' => items_eqb i i'
  | _, _ => false
  end.
Definition method_eqb (a b : method hval) : bool :=
  match a, b with
  | MInherited, MInherited => true
  | MBound _ f i, MBound _ g j => funobj_eqb f g && Nat.eqb i j
  | _, _ => false
  end.
(* what the harness observes of a class *)
Definition cls_obs := (list nat * list fkind * option Z * funobj hval * method hval * funobj hval * option (list nat))%type.
Definition observe_cls (K : cls hval) : cls_obs :=
  (c_names hval K, c_fmts hval K, c_msg_id hval K, c_init hval K, c_from_unpack hval K, c_to_pack hval K, c_match_args hval K).
Definition cls_obs_eqb (a b : cls_obs) : bool :=
  let '(n, f, m, i, u, p, ma) := a in let '(n', f', m', i', u', p', ma') := b in
  leqb Nat.eqb n n' && leqb fkind_eqb f f' && opt_eqb Z.eqb m m' && funobj_eqb i i' && method_eqb u u' && funobj_eqb p p'
  && opt_eqb (leqb Nat.eqb) ma ma'.
Definition packlist_eqb : list (gpname * list hval) -> list (gpname * list hval) -> bool :=
  leqb (pair_eqb gpname_eqb (leqb hval_eqb)).
