(* C01 on the TRANSLATED decorators.  gen/G01_auth.v holds the bodies of lazy_wrapper, lazy_wrapper_wd,
   lazy_wrapper_unsigned(_wd), _verify_signature, _ez_unpack_auth, _ez_unpack_noauth, _ez_pack, ezr_pack as Gallina over an
   abstract `runtime`.  This file gives that runtime its meaning (serializer = the wire model M02, key vault = the
   signature oracle of M01_auth, Network = verified peers keyed by public key with an address list each, handler = an
   arbitrary behaviour that touches the Network only through the Peer it is handed), states the model of a receiver
   processing a sequence of datagrams, and the executable interface for the correspondence check.  No proofs here. *)
From Coq Require Import ZArith List Bool Lia.
From IPV8V Require Import lib.PyErr lib.Bytes lib.BE model.M02_wire model.M01_auth gen.G01_auth.
Import ListNotations.
Open Scope Z_scope.

(* ---- the receiver's Network: verified_by_public_key_bin : key -> Peer object ---- *)
Record peerst := mkPeer { p_key : bytes; p_addrs : list paddr; p_frozen : bool }.
(* Peer._addresses is a dict keyed by the address class: one entry per class tag, kept sorted by tag *)
Definition atag (a : paddr) : Z := fst (fst a).
Fixpoint set_addr (l : list paddr) (a : paddr) : list paddr :=
  match l with
  | [] => [a]
  | b :: tl => if atag a =? atag b then a :: tl else if atag a <? atag b then a :: b :: tl else b :: set_addr tl a
  end.
(* Peer.add_address *)
Definition add_addr (p : peerst) (a : paddr) : peerst :=
  if p_frozen p then p else mkPeer (p_key p) (set_addr (p_addrs p) a) (p_frozen p).

Definition netst := list (bytes * peerst).
Fixpoint net_find (n : netst) (k : bytes) : option peerst :=
  match n with [] => None | (k', p) :: tl => if bytes_eqb k' k then Some p else net_find tl k end.
Fixpoint net_update (n : netst) (k : bytes) (f : peerst -> peerst) : netst :=
  match n with
  | [] => []
  | (k', p) :: tl => if bytes_eqb k' k then (k', f p) :: tl else (k', p) :: net_update tl k f
  end.
Definition net_keys (n : netst) : list bytes := map fst n.
Definition net_addrs (n : netst) (k : bytes) : option (list paddr) :=
  match net_find n k with Some p => Some (p_addrs p) | None => None end.

(* a reference to a Peer object: the one filed in the Network under k, or an object that is not (yet) in the Network *)
Inductive pref := PKnown (k : bytes) | PFresh (p : peerst).

(* what a handler was entered with *)
Inductive cfirst := CPeer (key : bytes) (addrs : list paddr) (in_network : bool) | CAddr (a : paddr).
Record state := mkState { net : netst; calls : list (cfirst * list arg) }.
Definition with_net (s : state) (n : netst) : state := mkState n (calls s).

Section Sig.
Variable key_ok : bytes -> bool.
Variable verify : bytes -> bytes -> bytes -> bool.      (* public key, message, signature *)
Variable siglen : bytes -> res nat.                     (* key_from_public_bin + get_signature_length *)
Variable sign : bytes -> bytes -> bytes.                (* secret key, message *)
Variable my_prefix my_sk my_pk : bytes.

(* ---- self.serializer ---- *)
Definition rtm_unpack_auth (data : bytes) (off : Z) : res (authp * Z) :=
  if off <? 0 then Raise StructError else
  do (v, o) <- unpack key_ok auth_fmt data (Z.to_nat off);
  match v with VBytes pk => Ok (mkAuth pk, Z.of_nat o) | _ => Raise TypeError end.

Fixpoint unpack_objs (cs : list cls) (data : bytes) (off : nat) : res (list pobj * nat) :=
  match cs with
  | [] => Ok ([], off)
  | c :: tl =>
      do (vs, o1) <- unpack_msg key_ok (msg_of_list c) data off;
      do (r, o2) <- unpack_objs tl data o1;
      Ok (vs :: r, o2)
  end.
(* unpack_serializable_list(classes, data, offset) with consume_all *)
Definition rtm_unpack_list (cs : list cls) (data : bytes) (off : Z) : res (list pobj) :=
  if off <? 0 then Raise StructError else
  do (objs, o) <- unpack_objs cs data (Z.to_nat off);
  if (o <? length data)%nat then Raise PackError else Ok objs.

Definition rtm_pack_list (l : list pinst) : res bytes :=
  concat_res (map (fun i : pinst => pack_msg key_ok (msg_of_list (fst i)) (snd i)) l).

(* ---- default_eccrypto: a key object is the key material together with its signature length ---- *)
Definition rtm_key_from_public_bin (pk : bytes) : res (bytes * nat) := do n <- siglen pk; Ok (pk, n).

(* ---- Network / Peer ---- *)
Definition rtm_verified_get (s : state) (k : bytes) : option pref :=
  match net_find (net s) k with Some _ => Some (PKnown k) | None => None end.
Definition rtm_peer_add_address (p : pref) (a : paddr) : M state pref :=
  fun s => match p with
           | PKnown k => (with_net s (net_update (net s) k (fun q => add_addr q a)), Ok (PKnown k))
           | PFresh q => (s, Ok (PFresh (add_addr q a)))
           end.
(* Peer(key_bin, address): parses the key (raises like key_from_public_bin), one address *)
Definition rtm_new_peer (pk : bytes) (a : paddr) : res pref :=
  do _ <- siglen pk; Ok (PFresh (mkPeer pk [a] false)).

Definition RT : runtime :=
  {| St := state; PubKey := (bytes * nat)%type; SecKey := bytes; PeerRef := pref; RetV := unit;
     rt_unpack_auth := rtm_unpack_auth; rt_unpack_list := rtm_unpack_list; rt_pack_list := rtm_pack_list;
     rt_key_from_public_bin := rtm_key_from_public_bin;
     rt_get_signature_length := fun k => Z.of_nat (snd k);
     rt_is_valid_signature := fun k msg sg => verify (fst k) msg sg;
     rt_create_signature := sign;
     rt_prefix := my_prefix; rt_my_key := my_sk; rt_my_public_key_bin := my_pk;
     rt_verified_get := rtm_verified_get;
     rt_peer_add_address := rtm_peer_add_address;
     rt_new_peer := rtm_new_peer |}.

(* ---- the decorated handler: it is entered (recorded), then does what it likes with the Peer it was handed.
   Handler bodies are not modelled; the assumption made of them is exactly this shape: the only Network operations a
   handler performs concern the Peer object of its first argument (peer.address = ..., network.add_verified_peer(peer));
   a handler that is handed an Address has no Peer to act on. ---- *)
Inductive hop := HAddVerified | HSetAddress (a : paddr).
Definition behaviour := list hop.

(* Network.add_verified_peer(peer) without blacklists *)
Definition add_verified (p : pref) (s : state) : state * pref :=
  match p with
  | PKnown k => (s, p)                   (* known is peer itself: known.addresses.update(peer.addresses) changes nothing *)
  | PFresh q =>
      match net_find (net s) (p_key q) with
      | Some _ => (with_net s (net_update (net s) (p_key q)
                     (fun o => mkPeer (p_key o) (fold_left set_addr (p_addrs q) (p_addrs o)) (p_frozen o))), p)
      | None => (with_net s (net s ++ [(p_key q, q)]), PKnown (p_key q))   (* the object itself is filed *)
      end
  end.
Fixpoint run_hops (ops : behaviour) (p : pref) (s : state) : state :=
  match ops with
  | [] => s
  | HAddVerified :: tl => let '(s1, p1) := add_verified p s in run_hops tl p1 s1
  | HSetAddress a :: tl => match rtm_peer_add_address p a s with (s1, Ok p1) => run_hops tl p1 s1 | (s1, Raise _) => s1 end
  end.
Definition snapshot (s : state) (f : first RT) : cfirst :=
  match f with
  | HAddr a => CAddr a
  | HPeer (PKnown k) => match net_find (net s) k with Some q => CPeer (p_key q) (p_addrs q) true | None => CPeer k [] true end
  | HPeer (PFresh q) => CPeer (p_key q) (p_addrs q) false
  end.
Definition handler (beh : behaviour) : callee RT :=
  fun f args s =>
    let s1 := mkState (net s) (calls s ++ [(snapshot s f, args)]) in
    match f with
    | HPeer p => (run_hops beh p s1, Ok tt)
    | HAddr _ => (s1, Ok tt)
    end.

(* ---- a receiver processing datagrams: Community.on_packet dispatches to the decorated handler and swallows what it
   raises; the state persists ---- *)
Inductive dkind := KSigned | KSignedWd | KUnsigned | KUnsignedWd.
Record delivery := mkD { d_kind : dkind; d_payloads : list cls; d_beh : behaviour; d_src : paddr; d_data : bytes }.
Definition wrapper_of (k : dkind) : list cls -> callee RT -> paddr -> bytes -> M state unit :=
  match k with
  | KSigned => lazy_wrapper__wrapper RT
  | KSignedWd => lazy_wrapper_wd__wrapper RT
  | KUnsigned => lazy_wrapper_unsigned__wrapper RT
  | KUnsignedWd => lazy_wrapper_unsigned_wd__wrapper RT
  end.
Definition deliver_res (s : state) (d : delivery) : state * res unit :=
  wrapper_of (d_kind d) (d_payloads d) (handler (d_beh d)) (d_src d) (d_data d) s.
Definition deliver (s : state) (d : delivery) : state := fst (deliver_res s d).
Definition run_deliveries (ds : list delivery) (s : state) : state := fold_left deliver ds s.

(* ---- the property's vocabulary, stated without reference to the decorators ---- *)
(* the key field: the varlenH at offset 23 *)
Definition key_field (data : bytes) : option bytes :=
  match unpack key_ok auth_fmt data 23 with Ok (VBytes pk, _) => Some pk | _ => None end.
(* data = signed part ++ signature, of the length the carried key prescribes, valid under the carried key *)
Definition signed_by (data pk : bytes) : Prop :=
  key_field data = Some pk /\
  exists n, siglen pk = Ok n
    /\ verify pk (slice data None (Some (- Z.of_nat n))) (slice data (Some (- Z.of_nat n)) None) = true
    /\ slice data None (Some (- Z.of_nat n)) ++ slice data (Some (- Z.of_nat n)) None = data.
(* the datagram is accepted for key pk with payload objects objs: it is signed by pk, and the bytes between the key field
   and the signature decode, completely (consume-all), as the payload classes *)
Definition accepts (payloads : list cls) (data pk : bytes) (objs : list pobj) : Prop :=
  signed_by data pk /\
  exists n, siglen pk = Ok n /\
    rtm_unpack_list payloads (slice data (Some (2 + blen pk)) (Some (- Z.of_nat n))) 23 = Ok objs.
Definition signed_kind (k : dkind) : bool := match k with KSigned | KSignedWd => true | _ => false end.
(* a delivery that is an authentic datagram of key pk / that is moreover accepted by the signed decorator it goes through *)
Definition authentic (d : delivery) (pk : bytes) : Prop := signed_kind (d_kind d) = true /\ signed_by (d_data d) pk.
Definition accepted (d : delivery) (pk : bytes) : Prop :=
  signed_kind (d_kind d) = true /\ exists objs, accepts (d_payloads d) (d_data d) pk objs.

(* every peer is filed under its own key (C12 proves this of the Network; here it is an invariant of run_deliveries) *)
Definition net_wf (n : netst) : Prop := forall k p, In (k, p) n -> p_key p = k.
Definition pref_key (s : state) (p : pref) : bytes :=
  match p with PKnown k => match net_find (net s) k with Some q => p_key q | None => k end | PFresh q => p_key q end.

(* which Peer a signed decorator hands over for key pk from source address src, and the state it leaves *)
Definition peer_handed (s : state) (pk : bytes) (src : paddr) : state * pref :=
  match net_find (net s) pk with
  | Some _ => (with_net s (net_update (net s) pk (fun q => add_addr q src)), PKnown pk)
  | None => (s, PFresh (mkPeer pk [src] false))
  end.

(* sender: what ezr_pack hands to the endpoint *)
Definition ezr_pack_gen (msg_num : Z) (payloads : list pinst) (sig : bool) (s : state) : res bytes :=
  snd (EZ_ezr_pack RT msg_num payloads sig s).

End Sig.

(* ---- executable interface for the correspondence check: oracles as tables (as in M01_auth) ---- *)
(* validity table: (key, n, datagram) says that the split of the datagram into its last n bytes (signature) and
   everything before is valid under the key; any other question is answered false *)
Definition valid_split (t : list (bytes * nat * bytes)) (pk msg sg : bytes) : bool :=
  existsb (fun e => let '(k, n, d) := e in bytes_eqb k pk && (length sg =? n)%nat && bytes_eqb (msg ++ sg) d) t.

Definition auth_gen_case :=
  (list (bytes * nat) * list (bytes * nat * bytes) * list bytes      (* siglen table, validity table, node keys *)
   * (Z * list cls) * netst * paddr * bytes)%type.                      (* decorator kind 0..3, classes, Network, source, data *)
Definition kind_of (z : Z) : dkind :=
  if z =? 0 then KSigned else if z =? 1 then KSignedWd else if z =? 2 then KUnsigned else KUnsignedWd.
(* result: Network afterwards, and either the recorded handler entries or the exception class *)
Definition run_auth_gen (c : auth_gen_case) : netst * res (list (cfirst * list arg)) :=
  let '(lens, valid, keys, (k, cs), n0, src, data) := c in
  let s0 := mkState n0 [] in
  let ko := keyset keys in let vf := valid_split valid in let sl := lookup_len lens in let sg := fun _ _ : bytes => @nil Z in
  let '(s1, r) := wrapper_of ko vf sl sg [] [] [] (kind_of k) cs (handler ko vf sl sg [] [] [] []) src data s0 in
  (net s1, match r with Ok _ => Ok (calls s1) | Raise e => Raise e end).

(* the same datagram (and oracle tables) delivered in several situations (Network before, source address) *)
Definition auth_gen_fan :=
  (list (bytes * nat) * list (bytes * nat * bytes) * list bytes * (Z * list cls) * bytes * list (netst * paddr))%type.
Definition run_auth_gen_fan (c : auth_gen_fan) : list (netst * res (list (cfirst * list arg))) :=
  let '(lens, valid, keys, kc, data, sits) := c in
  map (fun ns : netst * paddr => run_auth_gen (lens, valid, keys, kc, fst ns, snd ns, data)) sits.

Definition paddr_eqb (a b : paddr) : bool :=
  (fst (fst a) =? fst (fst b)) && bytes_eqb (snd (fst a)) (snd (fst b)) && (snd a =? snd b).
Fixpoint list_eqb {A} (eqb : A -> A -> bool) (a b : list A) : bool :=
  match a, b with [] , [] => true | x :: a', y :: b' => eqb x y && list_eqb eqb a' b' | _, _ => false end.
Definition peerst_eqb (a b : peerst) : bool :=
  bytes_eqb (p_key a) (p_key b) && list_eqb paddr_eqb (p_addrs a) (p_addrs b) && Bool.eqb (p_frozen a) (p_frozen b).
Definition netst_eqb (a b : netst) : bool :=
  list_eqb (fun x y => bytes_eqb (fst x) (fst y) && peerst_eqb (snd x) (snd y)) a b.
Definition arg_eqb (a b : arg) : bool :=
  match a, b with
  | APayload x, APayload y => vlist_eqb x y
  | AData x, AData y => bytes_eqb x y
  | AKw n x, AKw m y => String.eqb n m && bytes_eqb x y
  | _, _ => false
  end.
Definition cfirst_eqb (a b : cfirst) : bool :=
  match a, b with
  | CPeer k l i, CPeer k' l' i' => bytes_eqb k k' && list_eqb paddr_eqb l l' && Bool.eqb i i'
  | CAddr x, CAddr y => paddr_eqb x y
  | _, _ => false
  end.
Definition call_eqb (a b : cfirst * list arg) : bool := cfirst_eqb (fst a) (fst b) && list_eqb arg_eqb (snd a) (snd b).
(* exception classes of the serializer are not part of the property (res_eqb_loose) *)
Definition auth_gen_eqb (a b : netst * res (list (cfirst * list arg))) : bool :=
  netst_eqb (fst a) (fst b) && res_eqb_loose (list_eqb call_eqb) (snd a) (snd b).

(* the hand-parsed path: _ez_unpack_auth(payload_class, data) -> key field, global time object, payload object *)
Definition ez_gen_case := (list (bytes * nat) * list (bytes * nat * bytes) * list bytes * cls * bytes)%type.
Definition run_ez_gen (c : ez_gen_case) : res (bytes * list pobj) :=
  let '(lens, valid, keys, pc, data) := c in
  match snd (EZ_ez_unpack_auth (RT (keyset keys) (valid_split valid) (lookup_len lens) (fun _ _ => []) [] [] []) pc data
               (mkState [] [])) with
  | Ok (a, g, p) => Ok (public_key_bin a, [g; p])
  | Raise e => Raise e
  end.
Definition ez_gen_eqb (a b : bytes * list pobj) : bool := bytes_eqb (fst a) (fst b) && list_eqb vlist_eqb (snd a) (snd b).

(* the sender: ezr_pack(msg_num, *payloads, sig) of an overlay with the given prefix and key pair; the table gives
   the signature the real key produced for the packet *)
Definition pack_gen_case := (list bytes * (bytes * bytes) * list (bytes * bytes) * Z * list pinst * bool)%type.
Definition sign_in (t : list (bytes * bytes)) (sk msg : bytes) : bytes :=
  match find (fun e => bytes_eqb (fst e) msg) t with Some e => snd e | None => [] end.
Definition run_pack_gen (c : pack_gen_case) : res bytes :=
  let '(keys, (prefix, pk), sigs, msg_num, insts, sg) := c in
  ezr_pack_gen (keyset keys) (fun _ _ _ => false) (fun _ => Raise ValueError) (sign_in sigs) prefix [] pk msg_num insts sg
    (mkState [] []).
