(* C15 extension - the DHT node assembled from the GENERATED definitions of gen/G15_handlers.v (compiled from
   the Python AST on every run by tools/tr/tr_dht_handlers.py), plus the per-peer rate limit of incoming requests.
   This file only gives the effects of the handlers their meaning and threads the state; every decision (gates,
   limits, lifetime, ordering in the storage, version comparison, expiry, signature check, per-signer maximum,
   token hash and window, blocked rule) is taken by generated code.  No proofs here.

   Admission (DHTCommunity.get_requesting_node): a find / store request first looks its sender up in the routing
   table.  Whether the table already holds the sender (`known`) and whether it keeps it after add (`kept`) is the
   routing table's business (C14) and enters as input; the query history of a held node (Node.last_queries, a
   deque bounded by NODE_LIMIT_QUERIES) is state of this model. *)
From Coq Require Import ZArith List Bool Arith.
From IPV8V Require Import lib.PyErr lib.Bytes lib.BE gen.G15_consts model.M15_dht_store model.M15_py gen.G15_handlers.
Import ListNotations.
Open Scope Z_scope.

Record gstate := mkG {
  g_base : state;                         (* secrets, value storage, store-peer table: as in M15_dht_store *)
  g_queries : list (bytes * list Z)       (* node id -> last_queries of the routing table's Node object *)
}.

Inductive gop :=
| GFind (rq : requester) (nid : bytes) (now : Z) (known kept : bool) (target : bytes) (offset : Z) (force_nodes : bool)
| GStore (rq : requester) (nid : bytes) (now : Z) (known kept : bool) (token target : bytes) (values : list bytes)
         (num_closer : Z)
| GStorePeer (rq : requester) (token target : bytes)
| GRotate (secret : bytes)
| GClean (now : Z)
| GPut (now : Z) (key data : bytes) (id : option bytes) (max_age version : Z)
| GGet (key : bytes) (start : Z) (limit : option Z)
| GPost (values : list bytes)
| GUnser (value : bytes)
| GSnap.

Inductive gout :=
| GO (o : out)                            (* what the hand model reports *)
| GNoAnswer (raised : option exn)         (* a find request that got no response: blocked sender, or an exception *)
| GFailed (e : exn).                      (* a maintenance / direct call that raised *)

Definition qget (qs : list (bytes * list Z)) (nid : bytes) : list Z := py_dget bytes_eqb [] qs nid.
Definition qset (qs : list (bytes * list Z)) (nid : bytes) (l : list Z) := py_dset bytes_eqb qs nid l.

Definition bad_effect {A} : res A := Raise AssertionError.   (* an effect the handler is not expected to have *)

(* ---- get_requesting_node ---- *)
Fixpoint exec_grn (effs : list eff) (now : Z) (lq : list Z) : res (list Z * bool) :=
  match effs with
  | [EReturnNode b] => Ok (lq, b)
  | ERtAdd :: tl => exec_grn tl now lq                 (* the node object is the table's own if it held one *)
  | EStampQuery :: tl => exec_grn tl now (py_deque_append g_last_queries_maxlen lq now)
  | _ => bad_effect
  end.

(* the result: new query table and whether a node was returned (false = the sender is blocked) *)
Definition requesting_node (g : gstate) (nid : bytes) (now : Z) (known kept : bool) : res (gstate * bool) :=
  let lq := if known then qget (g_queries g) nid else [] in
  do effs <- gx_get_requesting_node now known lq;
  do (lq', some) <- exec_grn effs now lq;
  if some then Ok (mkG (g_base g) (qset (g_queries g) nid (if kept then lq' else [])), true)
  else Ok (g, false).

Section Prims.
Variable hash : bytes -> bytes.
Variable enc : bytes -> bytes.
Variable verify : bytes -> bytes -> bytes -> bool.
Variable siglen : bytes -> res nat.

(* for value in payload.values: self.add_value(...) - an exception leaves what was stored so far *)
Fixpoint gen_add_values (s : storage) (now : Z) (key : bytes) (vals : list bytes) (max_age : Z)
  : storage * option exn :=
  match vals with
  | [] => (s, None)
  | v :: tl =>
      match g_add_value hash verify siglen now s key v max_age with
      | Ok s' => gen_add_values s' now key tl max_age
      | Raise e => (s, Some e)
      end
  end.

Fixpoint exec_store (effs : list eff) (s : storage) (now : Z) (target : bytes) (values : list bytes) (resp : bool)
  : storage * out :=
  match effs with
  | [] => (s, RStore resp None)
  | EAddValues ma :: tl =>
      match gen_add_values s now target values ma with
      | (s', None) => exec_store tl s' now target values resp
      | (s', Some e) => (s', RStore resp (Some e))
      end
  | ESendStoreResponse :: tl => exec_store tl s now target values true
  | _ => (s, RStore resp (Some AssertionError))
  end.

Definition with_store (st : state) (s : storage) : state := mkSt (secrets st) s (peers st).

Definition g_on_store (g : gstate) (rq : requester) (nid : bytes) (now : Z) (known kept : bool)
           (token target : bytes) (values : list bytes) (nc : Z) : gstate * gout :=
  match requesting_node g nid now known kept with
  | Raise e => (g, GO (RStore false (Some e)))
  | Ok (g1, false) => (g1, GO (RStore false None))
  | Ok (g1, true) =>
      let st := g_base g1 in
      match gx_on_store_request hash (ident hash enc rq) (secrets st) token values nc with
      | Raise e => (g1, GO (RStore false (Some e)))
      | Ok effs =>
          let '(s', r) := exec_store effs (store st) now target values false in
          (mkG (with_store st s') (g_queries g1), GO r)
      end
  end.

Fixpoint exec_find (effs : list eff) : gout :=
  match effs with
  | [] => GNoAnswer None
  | EPuncture :: tl => exec_find tl
  | ESendFindResponse tok values :: _ =>
      match tok with Ok t => GO (RFind t values) | Raise e => GNoAnswer (Some e) end
  | _ => GNoAnswer (Some AssertionError)
  end.

Definition g_on_find (g : gstate) (rq : requester) (nid : bytes) (now : Z) (known kept : bool)
           (target : bytes) (offset : Z) (force : bool) : gstate * gout :=
  match requesting_node g nid now known kept with
  | Raise e => (g, GNoAnswer (Some e))
  | Ok (g1, false) => (g1, GNoAnswer None)
  | Ok (g1, true) =>
      let st := g_base g1 in
      match gx_on_find_request hash (ident hash enc rq) (secrets st) (store st) target offset force with
      | Raise e => (g1, GNoAnswer (Some e))
      | Ok effs => (g1, exec_find effs)
      end
  end.

Fixpoint exec_store_peer (effs : list eff) (p : list (bytes * list bytes)) (target pk : bytes) (resp : bool)
  : res (list (bytes * list bytes) * bool) :=
  match effs with
  | [] => Ok (p, resp)
  | EStampFreshNode :: tl => exec_store_peer tl p target pk resp
  | EStorePeerAppend :: tl => exec_store_peer tl (pset p target (pget p target ++ [pk])) target pk resp
  | ESendStorePeerResponse :: tl => exec_store_peer tl p target pk true
  | _ => bad_effect
  end.

Definition g_on_store_peer (g : gstate) (rq : requester) (token target : bytes) : gstate * gout :=
  let st := g_base g in
  match gx_on_store_peer_request hash (ident hash enc rq) (secrets st) token target (hash (r_pk rq)) (r_pk rq)
                                 (pget (peers st) target) with
  | Raise e => (g, GFailed e)
  | Ok effs =>
      match exec_store_peer effs (peers st) target (r_pk rq) false with
      | Raise e => (g, GFailed e)
      | Ok (p', resp) => (mkG (mkSt (secrets st) (store st) p') (g_queries g), GO (RStorePeer resp))
      end
  end.

Fixpoint exec_rotate (effs : list eff) (secs : list bytes) (fresh : bytes) : res (list bytes) :=
  match effs with
  | [] => Ok secs
  | ESecretAppend :: tl => exec_rotate tl (py_deque_append TOKEN_SECRETS_MAXLEN secs fresh) fresh
  | EClientTokenCleanup :: tl => exec_rotate tl secs fresh
  | _ => bad_effect
  end.

Definition gstep (g : gstate) (o : gop) : gstate * gout :=
  let st := g_base g in
  match o with
  | GFind rq nid now known kept target offset force => g_on_find g rq nid now known kept target offset force
  | GStore rq nid now known kept token target values nc => g_on_store g rq nid now known kept token target values nc
  | GStorePeer rq token target => g_on_store_peer g rq token target
  | GRotate s =>
      match (do effs <- gx_token_maintenance; exec_rotate effs (secrets st) s) with
      | Ok secs => (mkG (mkSt secs (store st) (peers st)) (g_queries g), GO RNone)
      | Raise e => (g, GFailed e)
      end
  | GClean now =>
      match g_clean now (store st) with
      | Ok s' => (mkG (with_store st s') (g_queries g), GO RNone)
      | Raise e => (g, GFailed e)
      end
  | GPut now key data id ma ver =>
      match g_put hash now (store st) key data id ma ver with
      | Ok s' => (mkG (with_store st s') (g_queries g), GO RNone)
      | Raise e => (g, GFailed e)
      end
  | GGet key start limit =>
      match g_get (store st) key start limit with
      | Ok l => (g, GO (RGet l))
      | Raise e => (g, GFailed e)
      end
  | GPost vals => (g, GO (RPost (g_post_process_values verify siglen vals)))
  | GUnser v => (g, GO (RUnser (g_unserialize_value verify siglen v)))
  | GSnap => (g, GO (RSnap st))
  end.

Fixpoint grun (g : gstate) (ops : list gop) : gstate * list gout :=
  match ops with
  | [] => (g, [])
  | o :: tl =>
      let '(g1, r) := gstep g o in
      let '(g2, rs) := grun g1 tl in
      (g2, r :: rs)
  end.

End Prims.

Definition ginit (secret : bytes) : gstate := mkG (init_state secret) [].

(* the hand model's view of an operation (admission inputs dropped) *)
Definition base_op (o : gop) : op :=
  match o with
  | GFind rq _ _ _ _ target offset force => OFind rq target (Z.to_nat offset) force
  | GStore rq _ now _ _ token target values nc => OStore rq now token target values nc
  | GStorePeer rq token target => OStorePeer rq token target
  | GRotate s => ORotate s
  | GClean now => OClean now
  | GPut now key data id ma ver => OPut now key data id ma ver
  | GGet key start limit => OGet key (Z.to_nat start) limit
  | GPost vals => OPost vals
  | GUnser v => OUnser v
  | GSnap => OSnap
  end.

(* ---- executable interface for the correspondence (tools/checks/c15.py) ---- *)
Inductive giop :=
| GIFind (r : nat) (nid : bytes) (now : Z) (known kept : bool) (target : bytes) (offset : Z) (force_nodes : bool)
| GIStore (r : nat) (nid : bytes) (now : Z) (known kept : bool) (token target : bytes) (values : list nat) (num_closer : Z)
| GIBase (o : iop).

Definition gresolve (c : case) (o : giop) : gop :=
  match o with
  | GIFind r nid now known kept t off f => GFind (case_rq c r) nid now known kept t off f
  | GIStore r nid now known kept tok t vs nc =>
      GStore (case_rq c r) nid now known kept tok t (map (nthb (c_pool c)) vs) nc
  | GIBase o' =>
      match resolve c o' with
      | OFind rq t off f => GFind rq [] 0 false false t (Z.of_nat off) f
      | OStore rq now tok t vs nc => GStore rq [] now false false tok t vs nc
      | OStorePeer rq tok t => GStorePeer rq tok t
      | ORotate s => GRotate s
      | OClean now => GClean now
      | OPut now k d id ma ver => GPut now k d id ma ver
      | OGet k s l => GGet k (Z.of_nat s) l
      | OPost vs => GPost vs
      | OUnser v => GUnser v
      | OSnap => GSnap
      end
  end.

Definition flat_gout (c : case) (g : gstate) (r : gout) : list Z :=
  match r with
  | GO o => flat_out c o
  | GNoAnswer None => [8; 0]
  | GNoAnswer (Some e) => [8; exn_code e]
  | GFailed e => [9; exn_code e]
  end.

Fixpoint flat_gouts (c : case) (rs : list gout) : list Z :=
  match rs with [] => [] | r :: tl => flat_gout c (ginit []) r ++ flat_gouts c tl end.

Definition flat_queries (qs : list (bytes * list Z)) : list Z :=
  fl (fun e => fb (fst e) ++ fl (fun t => [t]) (snd e)) qs.

(* an empty operation list stands for the operations of the case itself (no admission inputs: bare Storage) *)
Definition grun_case (c : case) (ops : list giop) : list Z :=
  let ops' := match ops with [] => map GIBase (c_ops c) | _ => ops end in
  let '(g, outs) := grun (case_hash c) b64 (case_verify c) (case_siglen c) (ginit (c_secret0 c))
                         (map (gresolve c) ops') in
  flat_gouts c outs ++ flat_queries (g_queries g).

(* hand model and generated model on one case: their flat observations, separated by -7777 *)
Definition run_both (p : case * list giop) : list Z :=
  run_case (fst p) ++ (-7777) :: grun_case (fst p) (snd p).
