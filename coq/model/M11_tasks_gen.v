(* Interpreter of the effect lists regenerated from ipv8/taskmanager.py and the listener table of
   ipv8/messaging/interfaces/endpoint.py (gen/G11_taskmanager.v, by tools/tr/tr_taskmanager.py).
   The generated functions say WHICH effects happen in WHICH order under WHICH conditions; this file says
   what the condition atoms and the effects mean on the state of M11_tasks.v / M11_listeners.v.
   asyncio itself (Task creation and first step, cancel(), add_done_callback on a done future, the ready
   queue) is the runtime of M11_tasks.v: do_cancel, finish, HStart/HCb handles.  No proofs here. *)
From Coq Require Import ZArith List Bool Arith.
From IPV8V Require Import lib.PyErr lib.Bytes model.M11_listeners model.M11_tasks gen.G11_taskmanager.
Import ListNotations.
Open Scope Z_scope.

(* ------------------------------------------------------------------ task manager *)
Record ctx := mkCtx {
  c_s : tm;
  c_cur : option nat;          (* the local `pending_task` *)
  c_new : option nat;          (* the task object `user_task` once it exists *)
  c_ret : option tret;
  c_exn : option exn }.

Definition ctx0 (s : tm) : ctx := mkCtx s None None None None.
Definition with_s (c : ctx) (s : tm) : ctx := mkCtx s (c_cur c) (c_new c) (c_ret c) (c_exn c).

(* condition atoms of the TaskManager methods *)
Definition atom_found (s : tm) (n : name) : bool :=
  match nlookup n (pending s) with Some _ => true | None => false end.
Definition atom_done (s : tm) (n : name) : bool :=
  match nlookup n (pending s) with Some tid => st_done s tid | None => false end.

(* effects that need nothing but the asyncio runtime *)
Definition exec1 (n : name) (c : ctx) (e : teff) : ctx :=
  match c_ret c, c_exn c with
  | None, None =>
      let s := c_s c in
      match e with
      | ELookupPending => mkCtx s (nlookup n (pending s)) (c_new c) None None
      | ECancelTask => match c_cur c with Some tid => with_s c (do_cancel s tid) | None => c end
      | EPopName => with_s c (set_pending s (ndel n (pending s)))
      | ESpawn _ =>
          let tid := length (tasks s) in
          mkCtx (mkTM (tasks s ++ [mkTask n KCoro SNew false []]) (pending s) (shut s) (counter s) (ready s ++ [HStart tid]))
                (c_cur c) (Some tid) None None
      | EStoreName =>
          match c_new c with
          | Some tid => with_s c (set_pending s (nset n tid (pending s)))
          | None =>     (* user_task is the Future that was passed in: it becomes a task of this manager now *)
              let tid := length (tasks s) in
              mkCtx (mkTM (tasks s ++ [mkTask n KFut SRun false []]) (nset n tid (pending s)) (shut s) (counter s) (ready s))
                    (c_cur c) (Some tid) None None
          end
      | EAddDoneCb =>
          match c_new c with
          | Some tid => with_s c (upd_task s tid (fun t => with_cbs (t_cbs t ++ [DoneCb n]) t))
          | None => c
          end
      | EIncCounter => with_s c (mkTM (tasks s) (pending s) (shut s) (counter s + 1) (ready s))
      | ESetShutdown => with_s c (mkTM (tasks s) (pending s) true (counter s) (ready s))
      | EInitPending => with_s c (mkTM [] [] (shut s) (counter s) [])
      | EInitShutdown => with_s c (mkTM (tasks s) (pending s) false (counter s) (ready s))
      | EInitCounter => with_s c (mkTM (tasks s) (pending s) (shut s) 0 (ready s))
      | EReturn r => mkCtx s (c_cur c) (c_new c) (Some r) None
      | ERaise x => mkCtx s (c_cur c) (c_new c) None (Some x)
      | _ => c      (* no effect on the manager's state: locals, metadata, awaits *)
      end
  | _, _ => c
  end.

Definition run1 (n : name) (s : tm) (effs : list teff) : ctx := fold_left (exec1 n) effs (ctx0 s).

(* is_pending_task_active *)
Definition gen_is_active (s : tm) (n : name) : bool :=
  match c_ret (run1 n s (gx_is_pending_task_active (atom_found s n) (atom_done s n))) with
  | Some (RBool b) => b
  | _ => false
  end.

(* cancel_pending_task *)
Definition gen_cancel_pending (s : tm) (n : name) : tm * option nat :=
  let c := run1 n s (gx_cancel_pending_task (atom_found s n) (atom_done s n)) in
  (c_s c, match c_ret c with Some RPending => c_cur c | _ => None end).

(* register_task(name, user_task, interval=.., delay=..): k says what user_task is (a callable / a Future);
   iv, dl: interval / delay given; hsn: the task object already has set_name *)
Definition gen_register (s : tm) (n : name) (k : kind) (iv dl hsn : bool) : tm * regres :=
  let callable := match k with KCoro => true | KFut => false end in
  let c := run1 n s (gx_register_task false callable (negb callable) iv dl true true (shut s) false (gen_is_active s n) hsn) in
  (c_s c,
   match c_exn c, c_ret c, c_new c with
   | Some _, _, _ => RRaise
   | None, Some RTask, Some tid => RNew tid
   | None, _, _ => RRefused
   end).

(* the done callback installed by register_task, for task `owner` registered under n *)
Definition gen_done_cb (s : tm) (owner : nat) (n : name) : tm :=
  let same := match nlookup n (pending s) with Some cur => Nat.eqb cur owner | None => false end in
  c_s (run1 n s (gx_done_cb same)).

(* effects that call other TaskManager methods *)
Definition gen_cancel_names (s : tm) (ns : list name) : tm :=
  fold_left (fun acc n => fst (gen_cancel_pending acc n)) ns s.

Record ctx2 := mkCtx2 { d_s : tm; d_old : option (option nat); d_ret : option tret; d_out : list out }.

Definition exec2 (n : name) (owner : option nat) (c : ctx2) (e : teff) : ctx2 :=
  match d_ret c with
  | Some _ => c
  | None =>
      let s := d_s c in
      match e with
      | ECancelPendingCall => let '(s', old) := gen_cancel_pending s n in mkCtx2 s' (Some old) None (d_out c)
      | EAddCancelCb =>        (* Future.add_done_callback: call_soon when already done, else queued on the future *)
          match d_old c with
          | Some None => mkCtx2 (add_ready s [HCb None (ReplCb n)]) (d_old c) None (d_out c)
          | Some (Some tid) =>
              if st_done s tid then mkCtx2 (add_ready s [HCb (Some tid) (ReplCb n)]) (d_old c) None (d_out c)
              else mkCtx2 (upd_task s tid (fun t => with_cbs (t_cbs t ++ [ReplCb n]) t)) (d_old c) None (d_out c)
          | None => c
          end
      | ETryRegisterIntoNew =>
          let '(s', r) := gen_register s n KCoro false false false in
          mkCtx2 s' (d_old c) None
                 (d_out c ++ [ORepl owner (match owner with Some tid => st_done s tid | None => true end) r])
      | ESetShutdown => mkCtx2 (mkTM (tasks s) (pending s) true (counter s) (ready s)) (d_old c) None (d_out c)
      | ECancelAllCall => mkCtx2 (gen_cancel_names s (map fst (pending s))) (d_old c) None (d_out c)
      | ECancelEachListed =>   (* cancel() on every task get_tasks() lists (all but the checker), names stay registered *)
          mkCtx2 (fold_left (fun acc en => if name_eqb (fst en) (Named 0) then acc else do_cancel acc (snd en)) (pending s) s)
                 (d_old c) None (d_out c)
      | EIncCounter => mkCtx2 (mkTM (tasks s) (pending s) (shut s) (counter s + 1) (ready s)) (d_old c) None (d_out c)
      | EInitPending => mkCtx2 (mkTM [] [] (shut s) (counter s) []) (d_old c) None (d_out c)
      | EInitShutdown => mkCtx2 (mkTM (tasks s) (pending s) false (counter s) (ready s)) (d_old c) None (d_out c)
      | EInitCounter => mkCtx2 (mkTM (tasks s) (pending s) (shut s) 0 (ready s)) (d_old c) None (d_out c)
      | ERegisterChecker => mkCtx2 (fst (gen_register s (Named 0) KCoro true true false)) (d_old c) None (d_out c)
      | EReturn r => mkCtx2 s (d_old c) (Some r) (d_out c)
      | _ => c
      end
  end.

Definition run2 (n : name) (owner : option nat) (s : tm) (effs : list teff) : ctx2 :=
  fold_left (exec2 n owner) effs (mkCtx2 s None None []).

Definition gen_replace (s : tm) (n : name) : tm := d_s (run2 n None s gx_replace_task).
Definition gen_cancel_cb (s : tm) (owner : option nat) (n : name) : tm * list out :=
  let c := run2 n owner s gx_cancel_cb in (d_s c, d_out c).
Definition gen_shutdown (s : tm) : tm :=
  d_s (run2 (Named 0) None s (gx_shutdown_task_manager (shut s) (match pending s with [] => false | _ => true end))).
Definition gen_register_anon (s : tm) (b : Z) (k : kind) : tm * regres :=
  let c := run2 (Named 0) None s gx_register_anonymous_task in
  match d_ret c with
  | Some RRegisterAnonName => gen_register (d_s c) (Anon b (counter (d_s c))) k false false false
  | _ => (d_s c, RRefused)
  end.
(* TaskManager.__init__ on a blank object *)
Definition gen_init : tm := d_s (run2 (Named 0) None (mkTM [] [] true 7 []) gx_init).

Definition gen_run_cb (s : tm) (owner : option nat) (c : cb) : tm * list out :=
  match c with
  | DoneCb n => match owner with Some tid => (gen_done_cb s tid n, []) | None => (s, []) end
  | ReplCb n => gen_cancel_cb s owner n
  end.

Definition gen_process (s : tm) (h : handle) : tm * list out :=
  match h with
  | HCb owner c => gen_run_cb s owner c
  | _ => process s h           (* Task.__step / wake-up: asyncio *)
  end.
Fixpoint gen_process_all (s : tm) (hs : list handle) : tm * list out :=
  match hs with
  | [] => (s, [])
  | h :: r => let '(s1, o1) := gen_process s h in let '(s2, o2) := gen_process_all s1 r in (s2, o1 ++ o2)
  end.

(* one operation of M11_tasks.top, through the generated functions *)
Definition gen_tstep (s : tm) (o : top) : tm * list out :=
  match o with
  | Register n k => let '(s', r) := gen_register s n k false false false in (s', [OReg r])
  | RegisterAnon b k => let '(s', r) := gen_register_anon s b k in (s', [OReg r])
  | Cancel n => (fst (gen_cancel_pending s n), [])
  | Replace n => (gen_replace s n, [])
  | Shutdown => (gen_shutdown s, [])
  | Tick => gen_process_all (set_ready s []) (ready s)
  | _ => tstep s o               (* Complete / ExtCancel: the environment and asyncio *)
  end.
Fixpoint gen_trun (s : tm) (ops : list top) : tm * list out :=
  match ops with
  | [] => (s, [])
  | o :: r => let '(s1, o1) := gen_tstep s o in let '(s2, o2) := gen_trun s1 r in (s2, o1 ++ o2)
  end.

(* the remaining generated functions are about values handed to the caller, not about the manager's state *)
Definition gen_get_tasks_excludes_checker : bool :=
  match gx_get_tasks with [EReturn RTasksExceptChecker] => true | _ => false end.
Definition gen_task_decorator_registers : bool :=
  match gx_task_decorator true, gx_task_wrapper with
  | [EDefWrapper; EReturn RWrapper], [EReturn RRegisterAnonEnsured] => true
  | _, _ => false
  end.
Definition gen_wait_for_tasks_shape : bool :=
  match gx_wait_for_tasks true, gx_wait_for_tasks false with
  | [EGetTasksCall; EGatherAll], [EGetTasksCall] => true
  | _, _ => false
  end.

(* ------------------------------------------------------------------ listener table *)
Record lctx := mkL { l_t : table; l_new : pmap_t; l_called : bool; l_exn : option exn }.

Definition part_val (t : table) (l : lid) (p : bytes) (x : lpart) : list lid :=
  match x with
  | PExisting => match plookup p (pmap t) with Some v => v | None => [] end
  | PListener => [l]
  | PGlobals => glob t
  end.

(* body of the loop of remove_listener for one entry (q, ls) *)
Definition exec_entry (l : lid) (q : bytes) (ls : list lid) (acc : pmap_t * list lid) (e : leff) : pmap_t * list lid :=
  match e with
  | LFilterEntry => (fst acc, without l ls)
  | LKeepEntry => (fst acc ++ [(q, snd acc)], snd acc)
  | _ => acc
  end.

Definition execL (l : lid) (p : bytes) (c : lctx) (e : leff) : lctx :=
  match l_exn c with
  | Some _ => c
  | None =>
      let t := l_t c in
      match e with
      | LAppendGlobal => mkL (mkT (glob t ++ [l]) (pmap t) (opened t)) (l_new c) (l_called c) None
      | LForPrefixAppend => mkL (mkT (glob t) (map (fun en => (fst en, snd en ++ [l])) (pmap t)) (opened t)) (l_new c) (l_called c) None
      | LSetPrefixEntry parts =>
          mkL (mkT (glob t) (pset p (flat_map (part_val t l p) parts) (pmap t)) (opened t)) (l_new c) (l_called c) None
      | LFilterGlobal => mkL (mkT (without l (glob t)) (pmap t) (opened t)) (l_new c) (l_called c) None
      | LNewMap => mkL t [] (l_called c) None
      | LForPrefix body =>
          mkL t (fold_left (fun acc en =>
                              let differs := negb (set_eqb (without l (snd en)) (glob t)) in
                              fst (fold_left (exec_entry l (fst en) (snd en)) (body differs) (acc, [])))
                           (pmap t) (l_new c))
              (l_called c) None
      | LAssignMap => mkL (mkT (glob t) (l_new c) (opened t)) (l_new c) (l_called c) None
      | LCallOnPacket => mkL t (l_new c) true None
      | LRaise x => mkL t (l_new c) (l_called c) (Some x)
      | _ => c
      end
  end.

Definition runL (l : lid) (p : bytes) (t : table) (effs : list leff) : lctx :=
  fold_left (execL l p) effs (mkL t [] false None).

Definition gen_t_add (t : table) (l : lid) : table := l_t (runL l [] t (gx_add_listener true)).
Definition gen_t_addp (t : table) (l : lid) (p : bytes) : res table :=
  let c := runL l p t (gx_add_prefix_listener true (Nat.eqb (length p) PREFIXLEN)) in
  match l_exn c with Some x => Raise x | None => Ok (l_t c) end.
Definition gen_t_rem (t : table) (l : lid) : table := l_t (runL l [] t gx_remove_listener).
Definition gen_deliver_ok (t : table) (prefix : bytes) (l : lid) : bool :=
  l_called (runL l prefix t (gx_deliver_later (opened t)
                               (match plookup prefix (pmap t) with Some _ => true | None => false end) (memz l (glob t)))).
Definition gen_t_notify (t : table) (data : bytes) : list lid :=
  match gx_notify_listeners with
  | [LPrefixSlice; LLookupDefaultGlobals; LForDeliverLater] =>
      filter (gen_deliver_ok t (prefix_of data)) (t_targets t data)
  | _ => []
  end.

(* one operation of M11_listeners.lop through the generated table functions *)
Definition gen_lstep (e : ep) (o : lop) : ep * res (list lid) :=
  match o with
  | AddL l => if f_add (wapi (wrap e)) then (set_inner e (gen_t_add (inner e) l), Ok [])
              else (set_own e (gen_t_add (own e) l), Ok [])
  | AddP l p =>
      if f_addp (wapi (wrap e))
      then match gen_t_addp (inner e) l p with Ok t => (set_inner e t, Ok []) | Raise x => (e, Raise x) end
      else match gen_t_addp (own e) l p with Ok t => (set_own e t, Ok []) | Raise x => (e, Raise x) end
  | RemL l => if f_rem (wapi (wrap e)) then (set_inner e (gen_t_rem (inner e) l), Ok [])
              else (set_own e (gen_t_rem (own e) l), Ok [])
  | Socket d => (e, Ok (gen_t_notify (inner e) d))
  | _ => step e o
  end.
Fixpoint gen_lrun (e : ep) (ops : list lop) : ep :=
  match ops with [] => e | o :: r => gen_lrun (fst (gen_lstep e o)) r end.

(* ---- correspondence plumbing: the observation functions of M11_tasks / M11_listeners over the generated steps *)
Fixpoint gen_ttrace (s : tm) (ops : list top) : list tobs :=
  match ops with
  | [] => []
  | o :: r => let '(s1, o1) := gen_tstep s o in (o1, observe s1) :: gen_ttrace s1 r
  end.
Definition gen_run_tcase (ops : list top) : list tobs := gen_ttrace init_tm ops.

Fixpoint gen_ltrace (e : ep) (ops : list lop) : list (res (list lid)) * ep :=
  match ops with
  | [] => ([], e)
  | o :: r => let '(e', x) := gen_lstep e o in let '(xs, ef) := gen_ltrace e' r in (x :: xs, ef)
  end.
Definition gen_run_case (c : wrapper * list lop) : lobs :=
  let '(xs, ef) := gen_ltrace (init_ep (fst c)) (snd c) in (xs, (glob (inner ef), pmap (inner ef))).
