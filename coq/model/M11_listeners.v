(* Executable model of the endpoint listener table (ipv8/messaging/interfaces/endpoint.py:
   Endpoint._listeners, _prefix_map, add_listener, add_prefix_listener, remove_listener,
   _deliver_later, notify_listeners) and of the wrappers that stand between an overlay and that table:
   TunnelEndpoint (ipv8/messaging/anonymization/endpoint.py) and StatisticsEndpoint
   (ipv8/messaging/interfaces/statistics_endpoint.py), as forwarding layers with exactly the
   methods they define (gen/G11_api.v is regenerated from the source and says which ones).
   No proofs here.

   Listeners are object identities (Python compares them with != / in, i.e. by identity: neither
   EndpointListener nor Overlay defines __eq__); they are numbered by the harness. *)
From Coq Require Import ZArith List Bool.
From IPV8V Require Import lib.PyErr lib.Bytes.
Import ListNotations.
Open Scope Z_scope.

Definition lid := Z.
Definition PREFIXLEN : nat := 22.

Fixpoint memz (x : Z) (l : list Z) : bool :=
  match l with [] => false | y :: r => (y =? x) || memz x r end.
Definition subsetb (a b : list Z) : bool := forallb (fun x => memz x b) a.
Definition set_eqb (a b : list Z) : bool := subsetb a b && subsetb b a.      (* set(a) == set(b) *)
Definition without (l : lid) (ls : list lid) : list lid := filter (fun x => negb (x =? l)) ls.

(* the dict _prefix_map, in insertion order *)
Definition pmap_t := list (bytes * list lid).
Fixpoint plookup (p : bytes) (m : pmap_t) : option (list lid) :=
  match m with
  | [] => None
  | (q, ls) :: r => if bytes_eqb q p then Some ls else plookup p r
  end.
Fixpoint pset (p : bytes) (v : list lid) (m : pmap_t) : pmap_t :=
  match m with
  | [] => [(p, v)]
  | (q, ls) :: r => if bytes_eqb q p then (q, v) :: r else (q, ls) :: pset p v r
  end.

Record table := mkT { glob : list lid; pmap : pmap_t; opened : bool }.
Definition empty_table : table := mkT [] [] true.

(* Endpoint.add_listener *)
Definition t_add (t : table) (l : lid) : table :=
  mkT (glob t ++ [l]) (map (fun e => (fst e, snd e ++ [l])) (pmap t)) (opened t).

(* Endpoint.add_prefix_listener: RuntimeError unless len(prefix) == prefixlen *)
Definition t_addp (t : table) (l : lid) (p : bytes) : res table :=
  if Nat.eqb (length p) PREFIXLEN
  then Ok (mkT (glob t)
               (pset p ((match plookup p (pmap t) with Some x => x | None => [] end) ++ [l] ++ glob t) (pmap t))
               (opened t))
  else Raise RuntimeError.

(* Endpoint.remove_listener, with its "drop the entries that equal the global list" rule *)
Fixpoint prune (l : lid) (g' : list lid) (m : pmap_t) : pmap_t :=
  match m with
  | [] => []
  | (q, ls) :: r =>
      let f := without l ls in
      if set_eqb f g' then prune l g' r else (q, f) :: prune l g' r
  end.
Definition t_rem (t : table) (l : lid) : table :=
  let g' := without l (glob t) in mkT g' (prune l g' (pmap t)) (opened t).

(* Endpoint._deliver_later's guard *)
Definition deliver_ok (t : table) (prefix : bytes) (l : lid) : bool :=
  opened t && (match plookup prefix (pmap t) with Some _ => true | None => false end || memz l (glob t)).

Definition prefix_of (data : bytes) : bytes := firstn PREFIXLEN data.

(* Endpoint.notify_listeners: the listeners whose on_packet is called, in order *)
Definition t_targets (t : table) (data : bytes) : list lid :=
  match plookup (prefix_of data) (pmap t) with Some ls => ls | None => glob t end.
Definition t_notify (t : table) (data : bytes) : list lid :=
  filter (deliver_ok t (prefix_of data)) (t_targets t data).

(* ------------------------------------------------------------------ wrappers *)
(* which of the listener-table methods a wrapper class defines itself (forwarding to the wrapped
   endpoint); a method it does not define is the inherited Endpoint method on the wrapper's OWN table *)
Record api := mkApi { f_add : bool; f_addp : bool; f_rem : bool; f_notify_prefix : bool }.
Definition forwards_all (a : api) : bool := f_add a && f_addp a && f_rem a && f_notify_prefix a.

Inductive wrapper := WPlain | WTunnel (a : api) | WStats (a : api).

Record ep := mkEp {
  wrap : wrapper;
  own : table;          (* the wrapper's own Endpoint.__init__ table (only reached by non-forwarded methods) *)
  inner : table;        (* the wrapped endpoint's table: the one the socket notifies *)
  anon : list lid }.    (* listeners whose `anonymize` attribute is true *)

Definition wapi (w : wrapper) : api :=
  match w with WPlain => mkApi true true true true | WTunnel a => a | WStats a => a end.

Definition set_inner e t := mkEp (wrap e) (own e) t (anon e).
Definition set_own e t := mkEp (wrap e) t (inner e) (anon e).

(* operations through the endpoint object an overlay holds (settings.endpoint) *)
Inductive lop :=
| AddL (l : lid)
| AddP (l : lid) (p : bytes)
| RemL (l : lid)
| SetOpen (b : bool)
| SetAnonL (l : lid) (b : bool)                 (* listener attribute `anonymize` *)
| Socket (data : bytes)                         (* a datagram arrives at the UDP socket of the wrapped endpoint *)
| Tunnel (data : bytes) (from_tunnel : bool).   (* TunnelEndpoint.notify_listeners(packet, from_tunnel) *)

(* TunnelEndpoint.notify_listeners *)
Definition tunnel_notify (e : ep) (data : bytes) (from_tunnel : bool) : list lid :=
  let t := inner e in
  let cands := if f_notify_prefix (wapi (wrap e)) then t_targets t data else glob t in
  filter (fun l => Bool.eqb (memz l (anon e)) from_tunnel && deliver_ok t (prefix_of data) l) cands.

(* result of one operation: the listeners whose on_packet ran, or the exception raised *)
Definition step (e : ep) (o : lop) : ep * res (list lid) :=
  match o with
  | AddL l => if f_add (wapi (wrap e)) then (set_inner e (t_add (inner e) l), Ok [])
              else (set_own e (t_add (own e) l), Ok [])
  | AddP l p =>
      if f_addp (wapi (wrap e))
      then match t_addp (inner e) l p with Ok t => (set_inner e t, Ok []) | Raise x => (e, Raise x) end
      else match t_addp (own e) l p with Ok t => (set_own e t, Ok []) | Raise x => (e, Raise x) end
  | RemL l => if f_rem (wapi (wrap e)) then (set_inner e (t_rem (inner e) l), Ok [])
              else (set_own e (t_rem (own e) l), Ok [])
  | SetOpen b => (set_inner e (mkT (glob (inner e)) (pmap (inner e)) b), Ok [])
  | SetAnonL l b => (mkEp (wrap e) (own e) (inner e) (if b then l :: without l (anon e) else without l (anon e)), Ok [])
  | Socket d => (e, Ok (t_notify (inner e) d))
  | Tunnel d ft =>
      match wrap e with
      | WTunnel _ => (e, Ok (tunnel_notify e d ft))
      | _ => (e, Ok (t_notify (inner e) d))      (* plain Endpoint.notify_listeners ignores the flag *)
      end
  end.

Fixpoint run (e : ep) (ops : list lop) : ep :=
  match ops with [] => e | o :: r => run (fst (step e o)) r end.

Definition called (e : ep) (o : lop) : list lid :=
  match snd (step e o) with Ok ls => ls | Raise _ => [] end.

Definition init_ep (w : wrapper) : ep := mkEp w empty_table empty_table [].

(* ------------------------------------------------------------------ correspondence plumbing *)
(* a case: wrapper, operation list; expected: per operation the called listeners (or exception),
   followed by the final tables of the wrapped endpoint *)
Fixpoint trace (e : ep) (ops : list lop) : list (res (list lid)) * ep :=
  match ops with
  | [] => ([], e)
  | o :: r => let '(e', x) := step e o in let '(xs, ef) := trace e' r in (x :: xs, ef)
  end.

Definition lobs := (list (res (list lid)) * (list lid * pmap_t))%type.
Definition run_case (c : wrapper * list lop) : lobs :=
  let '(xs, ef) := trace (init_ep (fst c)) (snd c) in (xs, (glob (inner ef), pmap (inner ef))).

Fixpoint zlist_eqb (a b : list Z) : bool :=
  match a, b with
  | [], [] => true
  | x :: a', y :: b' => (x =? y) && zlist_eqb a' b'
  | _, _ => false
  end.
Fixpoint list_eqb {A} (eqb : A -> A -> bool) (a b : list A) : bool :=
  match a, b with
  | [], [] => true
  | x :: a', y :: b' => eqb x y && list_eqb eqb a' b'
  | _, _ => false
  end.
Definition lobs_eqb (x y : lobs) : bool :=
  list_eqb (res_eqb zlist_eqb) (fst x) (fst y)
  && zlist_eqb (fst (snd x)) (fst (snd y))
  && list_eqb (fun a b => bytes_eqb (fst a) (fst b) && zlist_eqb (snd a) (snd b)) (snd (snd x)) (snd (snd y)).
