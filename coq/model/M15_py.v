(* C15 extension - the fixed vocabulary the translator tools/tr/tr_dht_handlers.py compiles Python into.
   Each definition is the meaning of ONE Python construct (list / dict / deque method, loop form, builtin); the
   generated file gen/G15_handlers.v is nothing but applications of these to each other, in the shape of the
   source.  No proofs here. *)
From Coq Require Import ZArith List Bool Arith Lia.
From IPV8V Require Import lib.PyErr lib.Bytes lib.BE.
Import ListNotations.
Open Scope Z_scope.

(* ---- truthiness ---- *)
Definition py_truthy_list {A} (l : list A) : bool := match l with [] => false | _ => true end.
Definition py_truthy_opt {A} (t : A -> bool) (o : option A) : bool := match o with Some a => t a | None => false end.
Definition py_truthy_Z (z : Z) : bool := negb (z =? 0).
Definition py_always {A} (_ : A) : bool := true.          (* a non-empty tuple / an object without __bool__, __len__ *)
(* `a or b` where a : bytes | None *)
Definition py_or_bytes (a : option bytes) (b : bytes) : bytes := match a with Some (x :: r) => x :: r | _ => b end.
Definition py_is_none {A} (o : option A) : bool := match o with None => true | Some _ => false end.

(* ---- sequences ---- *)
Definition py_len {A} (l : list A) : Z := Z.of_nat (length l).

(* l[i] : IndexError when out of range, negative indices count from the end *)
Definition py_nth {A} (l : list A) (i : Z) : res A :=
  let n := py_len l in
  let j := if i <? 0 then i + n else i in
  if (j <? 0) || (n <=? j) then Raise IndexError
  else match nth_error l (Z.to_nat j) with Some x => Ok x | None => Raise IndexError end.

(* l[lo:hi] with Python's clamping *)
Definition py_lslice {A} (l : list A) (lo hi : option Z) : list A :=
  let n := py_len l in
  let a := match lo with None => 0 | Some i => clamp n i end in
  let b := match hi with None => n | Some i => clamp n i end in
  firstn (Z.to_nat (b - a)) (skipn (Z.to_nat a) l).

(* l.index(x): first position whose element == x (element.__eq__(x)); ValueError when there is none *)
Fixpoint py_index_from {A} (eq : A -> A -> bool) (l : list A) (x : A) (i : Z) : res Z :=
  match l with
  | [] => Raise ValueError
  | y :: tl => if eq y x then Ok i else py_index_from eq tl x (i + 1)
  end.
Definition py_index {A} (eq : A -> A -> bool) (l : list A) (x : A) : res Z := py_index_from eq l x 0.

Fixpoint drop_nth {A} (n : nat) (l : list A) : list A :=
  match l, n with
  | [], _ => []
  | _ :: tl, O => tl
  | x :: tl, S n' => x :: drop_nth n' tl
  end.
(* l.pop(i) for its effect on l: IndexError when out of range *)
Definition py_pop_at {A} (l : list A) (i : Z) : res (list A) :=
  let n := py_len l in
  let j := if i <? 0 then i + n else i in
  if (j <? 0) || (n <=? j) then Raise IndexError else Ok (drop_nth (Z.to_nat j) l).
(* l.pop() *)
Definition py_pop_last {A} (l : list A) : res (list A) :=
  match l with [] => Raise IndexError | _ => Ok (removelast l) end.
(* l.insert(i, x), i >= 0 clamps at the end *)
Definition py_insert {A} (l : list A) (i : Z) (x : A) : list A :=
  let j := Z.to_nat (clamp (py_len l) i) in firstn j l ++ x :: skipn j l.
Definition py_append {A} (l : list A) (x : A) : list A := l ++ [x].

(* l.sort(key=f): stable, ascending on integer keys (insertion sort from the right: an element goes in front of the
   later elements with an equal key) *)
Fixpoint py_sort_insert {A} (key : A -> Z) (x : A) (l : list A) : list A :=
  match l with
  | [] => [x]
  | y :: tl => if key x <=? key y then x :: l else y :: py_sort_insert key x tl
  end.
Definition py_sort_by {A} (key : A -> Z) (l : list A) : list A := fold_right (py_sort_insert key) [] l.

(* max(l, key=f) / min(l, key=f): the FIRST extremal element; ValueError on an empty sequence *)
Fixpoint py_max_from {A K} (lt : K -> K -> bool) (key : A -> K) (best : A) (l : list A) : A :=
  match l with
  | [] => best
  | x :: tl => if lt (key best) (key x) then py_max_from lt key x tl else py_max_from lt key best tl
  end.
Definition py_max_by {A K} (lt : K -> K -> bool) (key : A -> K) (l : list A) : res A :=
  match l with [] => Raise ValueError | x :: tl => Ok (py_max_from lt key x tl) end.
Definition py_min_by {A K} (lt : K -> K -> bool) (key : A -> K) (l : list A) : res A :=
  py_max_by (fun a b => lt b a) key l.

(* bytes < bytes *)
Fixpoint bytes_ltb (a b : bytes) : bool :=
  match a, b with
  | _, [] => false
  | [], _ :: _ => true
  | x :: a', y :: b' => (x <? y) || ((x =? y) && bytes_ltb a' b')
  end.

(* enumerate(l) *)
Fixpoint py_enumerate_from {A} (i : Z) (l : list A) : list (Z * A) :=
  match l with [] => [] | x :: tl => (i, x) :: py_enumerate_from (i + 1) tl end.
Definition py_enumerate {A} (l : list A) : list (Z * A) := py_enumerate_from 0 l.

(* ---- loops ---- *)
(* for x in l: body      (body returns the new values of the variables it assigns and whether it hit `break`) *)
Fixpoint py_for {S A} (body : S -> A -> res (S * bool)) (l : list A) (s : S) : res S :=
  match l with
  | [] => Ok s
  | x :: tl => do (s', brk) <- body s x; if brk then Ok s' else py_for body tl s'
  end.

(* while l and c(l[-1]): l.pop() *)
Fixpoint py_drop_while {A} (c : A -> bool) (l : list A) : list A :=
  match l with [] => [] | x :: tl => if c x then py_drop_while c tl else l end.
Definition py_pop_while_last {A} (c : A -> bool) (l : list A) : list A := rev (py_drop_while c (rev l)).

(* ---- dict (insertion ordered) / defaultdict(list) ---- *)
Section Dict.
Context {K V : Type}.
Variable eqb : K -> K -> bool.
Fixpoint py_dhas (d : list (K * V)) (k : K) : bool :=
  match d with [] => false | (k', _) :: tl => if eqb k' k then true else py_dhas tl k end.
(* d[k] of a defaultdict: the default when missing (the insertion of the default is not observable through the
   operations translated here, which read the key back only via d[k]) *)
Fixpoint py_dget (dflt : V) (d : list (K * V)) (k : K) : V :=
  match d with [] => dflt | (k', v) :: tl => if eqb k' k then v else py_dget dflt tl k end.
Fixpoint py_dset (d : list (K * V)) (k : K) (v : V) : list (K * V) :=
  match d with
  | [] => [(k, v)]
  | (k', v') :: tl => if eqb k' k then (k', v) :: tl else (k', v') :: py_dset tl k v
  end.
End Dict.
Definition py_dkeys {K V} (d : list (K * V)) : list K := map fst d.
Definition py_dvalues {K V} (d : list (K * V)) : list V := map snd d.

Definition okey_eq (a b : option bytes) : bool :=
  match a, b with
  | None, None => true
  | Some x, Some y => bytes_eqb x y
  | _, _ => false
  end.

(* ---- deque(maxlen=n).append(x) ---- *)
Definition py_deque_append {A} (maxlen : Z) (l : list A) (x : A) : list A :=
  let l' := l ++ [x] in skipn (length l' - Z.to_nat maxlen) l'.

(* ---- field decoders of the stored-value payloads (varlenH_at, u32_at are in M15_dht_store.v) ---- *)
(* "raw": the rest of the buffer *)
Definition raw_at (data : bytes) (off : nat) : res (bytes * nat) := Ok (skipn off data, length data).
