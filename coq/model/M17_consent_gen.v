(* C17x - vocabulary of the translation tools/tr/tr_consent.py (hand-written, fixed text).
   coq/gen/G17_consent.v contains only the translated bodies of the Python functions; what the recognised
   Python operations MEAN is fixed here.  No proofs here.

   State.  The objects IdentityCommunity / IdentityManager / PseudonymManager / IdentityDatabase share one
   record `state` (model/M17_consent.v): known_attestation_hashes -> known, identity_manager.pseudonyms ->
   pseus (a PseudonymManager is named by its public key, its tree is pseus[key]), tables Metadata /
   Attestations -> dmd / datt, token_chain / metadata_chain / permissions -> chain / mdchain / perms.
   Translated methods are computations in the monad M: they read and write the state, append to the list of
   datagrams sent, and return a value or raise (the state reached before an exception is kept).

   Runtime parameters (outside the translated set; assumptions listed in the check's evidence):
     hash, sigverify, mysign, parse : SHA3-256, signature check, the node's signing operation, json.loads
     me, rhl, rsl                   : the node's public key, wire widths
     now                            : time.time() during the call
     json_out, jlen                 : json.dumps(<extended metadata>).encode() of this call and its length
     token tree (C16 / C16x)        : elements, gather_token, add_by_hash, unserialize_public, verify /
                                      get_root_path (inside disclose_credentials)
     wire (C02 / C03)               : payload fields arrive decoded: token chunks, metadata entries,
                                      (authority, attestation) pairs, each with a "truncated" marker that makes
                                      the decoding loop raise struct.error after the items that decode *)
From Coq Require Import ZArith List Bool Arith.
From IPV8V Require Import lib.PyErr lib.Bytes model.M16_tokentree model.M16_tokentree_gen model.M17_consent.
Import ListNotations.
Open Scope Z_scope.

(* ---------------------------------------------------------------- the monad *)
Definition M (A : Type) : Type := state -> list output -> state * list output * res A.
Definition mret {A} (a : A) : M A := fun s o => (s, o, Ok a).
Definition mraise {A} (e : exn) : M A := fun s o => (s, o, Raise e).
Definition mlift {A} (r : res A) : M A := fun s o => (s, o, r).
Definition mbind {A B} (m : M A) (f : A -> M B) : M B :=
  fun s o => match m s o with
             | (s1, o1, Ok a) => f a s1 o1
             | (s1, o1, Raise e) => (s1, o1, Raise e)
             end.
Definition mget {A} (f : state -> A) : M A := fun s o => (s, o, Ok (f s)).
Definition mmod (f : state -> state) : M unit := fun s o => (f s, o, Ok tt).
Definition msend (x : output) : M unit := fun s o => (s, o ++ [x], Ok tt).

(* loops: the body returns what to do next; L = the locals carried round the loop *)
Inductive ctl (L R : Type) : Type :=
| CNext (l : L) | CBreak (l : L) | CRet (r : R).
Arguments CNext {L R} l.
Arguments CBreak {L R} l.
Arguments CRet {L R} r.
Fixpoint mfor {A L R} (xs : list A) (body : A -> L -> M (ctl L R)) (l : L) : M (L + R) :=
  match xs with
  | [] => mret (inl l)
  | x :: tl => mbind (body x l) (fun c => match c with
                                          | CNext l' => mfor tl body l'
                                          | CBreak l' => mret (inl l')
                                          | CRet r => mret (inr r)
                                          end)
  end.
(* comprehensions / any(..) whose element expression or condition reads the state or can raise *)
Fixpoint mfilter {A} (f : A -> M bool) (l : list A) : M (list A) :=
  match l with
  | [] => mret []
  | x :: tl => mbind (f x) (fun b => mbind (mfilter f tl) (fun r => mret (if b then x :: r else r)))
  end.
Fixpoint mmap {A B} (f : A -> M B) (l : list A) : M (list B) :=
  match l with
  | [] => mret []
  | x :: tl => mbind (f x) (fun y => mbind (mmap f tl) (fun r => mret (y :: r)))
  end.
Fixpoint many {A} (f : A -> M bool) (l : list A) : M bool :=
  match l with
  | [] => mret false
  | x :: tl => mbind (f x) (fun b => if b then mret true else many f tl)
  end.
Fixpoint enumerate_from {A} (i : nat) (l : list A) : list (nat * A) :=
  match l with [] => [] | x :: tl => (i, x) :: enumerate_from (S i) tl end.

(* ---------------------------------------------------------------- dicts, lists, options *)
Definition k_has {V} (k : bytes) (d : list (bytes * V)) : bool :=
  match alookup k d with Some _ => true | None => false end.
Definition k_get {V} (k : bytes) (d : list (bytes * V)) : res V :=
  match alookup k d with Some v => Ok v | None => Raise KeyError end.
Definition k_get_default {V} (k : bytes) (dflt : V) (d : list (bytes * V)) : V :=
  match alookup k d with Some v => v | None => dflt end.
Definition nonempty {A} (l : list A) : bool := match l with [] => false | _ => true end.
Definition list_last {A} (l : list A) : res A :=
  match last_opt l with Some x => Ok x | None => Raise IndexError end.
Definition opt_is_none {A} (o : option A) : bool := match o with None => true | Some _ => false end.
Definition opt_or {A} (o : option A) (d : A) : A := match o with Some x => x | None => d end.
(* truthiness of `dict | None` *)
Definition optdict_truthy {K V} (o : option (list (K * V))) : bool :=
  match o with Some (_ :: _) => true | _ => false end.
(* <dict> != <dict | None> *)
Definition dict_ne_opt (a : list (bytes * bytes)) (o : option (list (bytes * bytes))) : bool :=
  match o with Some b => negb (dict_eqb a b) | None => true end.
Definition dict_ne (a b : list (bytes * bytes)) : bool := negb (dict_eqb a b).

(* ---------------------------------------------------------------- JSON documents *)
Definition json_loads (parse : bytes -> jdoc) (x : bytes) : res jdoc :=
  match parse x with JBad => Raise ValueError | d => Ok d end.
Definition j_keys (d : jdoc) : res (list bytes) :=
  match d with JDict kv => Ok (map fst kv) | _ => Raise TypeError end.
Definition j_items (d : jdoc) : res (list (bytes * bytes)) :=
  match d with JDict kv => Ok kv | _ => Raise TypeError end.
Definition j_get (k : bytes) (d : jdoc) : res bytes :=
  match d with
  | JDict kv => match alookup k kv with Some v => Ok v | None => Raise KeyError end
  | _ => Raise TypeError
  end.

(* ---------------------------------------------------------------- signed objects *)
(* Metadata(token_pointer, json, signature=sig) / Metadata(token_pointer, json, private_key) *)
Definition new_md (tptr json sg : bytes) : metadata := mkMd tptr json sg.
Definition new_md_signed (mysign : bytes -> bytes) (tptr json : bytes) : metadata :=
  mkMd tptr json (mysign (tptr ++ json)).
Definition new_att (mptr sg : bytes) : attestation := mkAtt mptr sg.
Definition new_att_signed (mysign : bytes -> bytes) (mptr : bytes) : attestation := mkAtt mptr (mysign mptr).

(* ---------------------------------------------------------------- SQL (tables are lists of rows, row id order) *)
(* INSERT OR IGNORE: `conflict new old` = equal on the columns of the table's PRIMARY KEY *)
Definition sql_insert_ignore {R} (conflict : R -> R -> bool) (r : R) (l : list R) : list R :=
  if existsb (conflict r) l then l else l ++ [r].
(* next(<columns of the first row of the result>): StopIteration on an empty result *)
Definition sql_first {A} (l : list A) : res A :=
  match l with x :: _ => Ok x | [] => Raise RuntimeError end.

(* ---------------------------------------------------------------- token tree (runtime parameter: C16 model) *)
(* a call that mutates the tree object of pseudonym pk in place; the tree reached before an exception stays *)
Definition with_tree {A} (pk : bytes) (f : tree -> tree * res A) : M A :=
  fun s o => let '(tr', r) := f (get_tree pk (pseus s)) in (set_pseus s (aset pk tr' (pseus s)), o, r).
Definition tree_elements (pk : bytes) (s : state) : list token := elements (get_tree pk (pseus s)).
Definition rt_gather_token (hash : bytes -> bytes) (sigverify : bytes -> bytes -> bytes -> bool) (pk : bytes)
           (tok : token) (tr : tree) : tree * res (option token) :=
  match gather_top hash sigverify pk tr tok with
  | Ok (tr', r) => (tr', Ok r)
  | Raise e => (tr, Raise e)
  end.
(* TokenTree.add_by_hash(content_hash, after): a token signed with the tree's private key, stored by _append *)
Definition rt_add_by_hash (hash : bytes -> bytes) (mysign : bytes -> bytes) (pk : bytes)
           (ah : bytes) (after : option token) (tr : tree) : tree * res token :=
  let prev := match after with Some tk => thash hash tk | None => genesis hash pk end in
  let tok := mkToken prev ah (mysign (prev ++ ah)) None in
  (append_elem hash tr tok, Ok tok).
(* tree.unserialize_public(<token area of the payload>) *)
Definition w_tokens : Type := (list token * bool)%type.
Definition w_mds : Type := (list metadata * bool)%type.
Definition w_auths : Type := (list (bytes * attestation) * bool)%type.
Definition w_atts : Type := unit.
Definition w_none {A} : list A * bool := ([], false).
Definition rt_unserialize_public (hash : bytes -> bytes) (sigverify : bytes -> bytes -> bytes -> bool) (pk : bytes)
           (w : w_tokens) (tr : tree) : tree * res bool :=
  match gather_list hash sigverify pk tr (fst w) true with
  | Raise e => (tr, Raise e)
  | Ok (tr', c) => (tr', if snd w then Raise StructError else Ok c)
  end.
(* DisclosePayload as handed to on_disclosure *)
Definition p_disclose : Type := (w_mds * w_tokens * w_atts * w_auths)%type.
Definition pd_mds (p : p_disclose) : w_mds := fst (fst (fst p)).
Definition pd_toks (p : p_disclose) : w_tokens := snd (fst (fst p)).
Definition pd_atts (p : p_disclose) : w_atts := snd (fst p).
Definition pd_auths (p : p_disclose) : w_auths := snd p.
(* PseudonymManager(database, public_key=..) for a key without stored tokens *)
Definition rt_new_pseudonym (pk : bytes) : tree := empty_tree 100.
(* the decoding loop of a payload area reached its truncated tail *)
Definition wire_end {A} (w : list A * bool) : M unit := if snd w then mraise StructError else mret tt.
(* Attestation.unserialize(payload.attestation, key): struct.error when too short *)
Definition rt_att_unserialize (w : option attestation) : res attestation :=
  match w with Some a => Ok a | None => Raise StructError end.
(* pseudonym_manager.disclose_credentials([credential], set()): the metadata entry and the root path of its
   token (create_disclosure raises RuntimeError when the tree does not verify the token) *)
Definition rt_disclose (hash : bytes -> bytes) (sigverify : bytes -> bytes -> bytes -> bool) (pk : bytes)
           (creds : list metadata) : M (metadata * list token) :=
  fun s o =>
    match creds with
    | [m] =>
        let tr := get_tree pk (pseus s) in
        match find_key hash (m_tptr m) (elements tr) with
        | None => (s, o, Raise KeyError)
        | Some tk =>
            if tree_verify hash sigverify pk tr tk 1000
            then (s, o, Ok (m, get_root_path hash sigverify pk tr tk 1000))
            else (s, o, Raise RuntimeError)
        end
    | _ => (s, o, Raise ValueError)
    end.
(* self.ez_send(peer, DisclosePayload( * self._fit_disclosure(disclosure) )) *)
Definition rt_send_disclosure (rhl rsl jlen : nat) (peer : bytes) (d : metadata * list token) : M unit :=
  msend (ODisclose peer (fst d) (snd d) (fit rhl rsl jlen (length (snd d)))).
(* len() of a concatenation of serialized tokens *)
Definition wtoks_len (rhl rsl : nat) (l : list token) : Z := Z.of_nat (length l) * tokw rhl rsl.

(* running a handler on a state: the step format of the hand model *)
Definition run_m {A} (m : M A) (s : state) : state * list output * option exn :=
  match m s [] with
  | (s1, o, Ok _) => (s1, o, None)
  | (s1, o, Raise e) => (s1, o, Some e)
  end.
