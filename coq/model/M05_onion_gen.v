(* One step of a tunnel node under control traffic (M05_isolation.cstep) with the TRANSLATED functions plugged in
   (gen/G04_onion.v, written by tools/tr/tr_onion.py from the source on every run).  The oracle arguments that an
   operation of M05_isolation carries (the key a create names, the session keys of the key agreement, the candidate
   list, os.urandom) become the oracle record of the generated code.  on_extend, the expiry of a CreatedRequestCache
   and the originator's own circuit bookkeeping are not translated: those operations stay the hand model's.
   No proofs here. *)
From Coq Require Import ZArith List Bool Lia.
From IPV8V Require Import lib.PyErr lib.Bytes lib.BE model.M02_wire model.M03_recv model.M04_onion model.M05_isolation
  model.M04_gen_rt gen.G04_onion model.M04_harness model.M04_onion_gen model.M05_harness.
Import ListNotations.
Open Scope Z_scope.

Section GC.
Variables key nonce : Type.
Variable enc : key -> dir -> nonce -> bytes -> bytes.
Variable dec : key -> dir -> bytes -> option bytes.
Variable ns0 : nat -> nonce.        (* control messages are sent as (destination, id, message id, plaintext flag): no nonce is drawn *)

Definition opt_res {A} (o : option A) : res A := match o with Some a => Ok a | None => Raise ValueError end.
(* PingRequestCache lookups succeed (GotPong = on_pong ran for an expected pong), remove_tunnel_delay = 5 *)
Definition mkOr (rnd : bytes) (npk : option Z) (k : option key) (cands : list (Z * peer)) : oracles key nonce unit :=
  mkO enc (fun _ => rnd) (fun _ => Ok (tt, [], [])) (fun _ => opt_res k) (fun _ => opt_res npk) cands
      (fun _ _ => true) (fun _ => false) (fun _ c => c) 5.
Definition defO : oracles key nonce unit := mkOr [] None None [].

Definition pop_later (c : cnode key) (p : pending) : cnode key :=
  match p with
  | PRelay cid => g_c (fst (g_TunnelCommunity_remove_relay_later defO cid tt false 0 (start c ns0)))
  | PExit cid => g_c (fst (g_TunnelCommunity_remove_exit_socket_later defO cid tt false 0 (start c ns0)))
  | PCircuit cid => g_c (fst (g_TunnelCommunity_remove_circuit_later defO cid tt false 0 (start c ns0)))
  end.

Definition g_cstep (c : cnode key) (o : cop key nonce) : res (cnode key * list cact) :=
  match o with
  | OCell src pkt rnd ns =>
      do (t', acts) <- g_on_packet (mkOr rnd None None []) dec (cn_tab c) src pkt ns;
      Ok (set_tab c t', map CData acts)
  | OCreate src cid ident npk k cands =>
      Ok (final (g_TunnelCommunity_on_create (mkOr [] npk k cands) src (cid, ident, [], []) None (start c ns0)))
  | OCreated src cid ident =>
      Ok (final (g_TunnelCommunity_on_created defO src (cid, ident, [], [], []) None (start c ns0)))
  | ODestroy sig_ok pk paddr cid reason =>
      if sig_ok then Ok (final (g_TunnelCommunity_on_destroy defO (mkPeer pk paddr) (cid, reason) (start c ns0)))
      else Ok (c, [])
  | ORemoveRelay cid reason => Ok (final (g_TunnelCommunity_remove_relay defO cid tt false reason (start c ns0)))
  | ORemoveExit cid reason => Ok (final (g_TunnelCommunity_remove_exit_socket defO cid tt false reason (start c ns0)))
  | ORemoveCircuit cid reason => obs (g_TunnelCommunity_remove_circuit defO cid tt false reason (start c ns0))
  | OTimer =>
      Ok (fold_left pop_later (cn_pending c)
                    (mkCN (cn_tab c) (cn_created c) (cn_create c) [] (cn_max_joined c)), [])
  | _ => cstep enc dec c o
  end.

Fixpoint g_crun (c : cnode key) (ops : list (cop key nonce)) : res (cnode key * list cact) :=
  match ops with
  | [] => Ok (c, [])
  | o :: tl => do (c1, a1) <- g_cstep c o; do (c2, a2) <- g_crun c1 tl; Ok (c2, a1 ++ a2)
  end.

End GC.

Arguments mkOr {key nonce}. Arguments defO {key nonce}. Arguments pop_later {key nonce}.
Arguments g_cstep {key nonce}. Arguments g_crun {key nonce}.

Definition g_run_ccase (c : ccase) : coutcome := g_cstep tenc tdec (stream []) (fst c) (snd c).
Definition g_run_hcase (c : hcase) : coutcome := g_crun tenc tdec (stream []) (fst c) (snd c).
