(* C13 - the scenario: layout of hosts and sites from a configuration, the scripted operations, and the
   decidable reading `holds` of the property on one observed history.  No proofs. *)
From Coq Require Import ZArith List Bool.
From IPV8V Require Import lib.PyErr gen.G13_lan model.M13_nat.
Import ListNotations.
Open Scope Z_scope.

(* roles: tracker T (public), introducer B (public), requester A, candidates C_0 .. C_{k-1} *)
Definition ID_T : Z := 0.
Definition ID_B : Z := 1.
Definition ID_A : Z := 2.
Definition cand_id (j : nat) : Z := 3 + Z.of_nat j.

Record cand := mkCand {
  c_type : nat_type;       (* NAT type of its own site (ignored when c_same) *)
  c_same : bool;           (* lives at the requester's site (same NAT box / same public machine) *)
  c_resp : bool;           (* how B got to know it: false = it walked to B (B has its LAN address from the
                              request); true = the tracker introduced it to B and B walked to it (B knows it
                              from its response) *)
  c_new : bool;            (* style of its first introduction request *)
  c_alias : bool;          (* its LAN address is numerically the requester's LAN address (the same private
                              address behind another NAT box); only for a NATted candidate at its own site
                              and a NATted requester *)
  c_rebound : bool         (* after its first exchange its NAT mapping was lost; it walked again (from a new
                              external address) before the requester turned up *)
}.
(* where the introducer B lives *)
Inductive bplace :=
| BPublic                  (* a public host everybody walks to directly (the base space) *)
| BOwn (t : nat_type)      (* at a site of its own of type t; known to the others only through the rendezvous
                              tracker R, reachable because it punctured towards them when R asked it to *)
| BWithA                   (* at the requester's site *)
| BWithC (j : nat).        (* at candidate j's site *)

Record cfg := mkCfg {
  g_tA : nat_type;         (* NAT type of the requester's site *)
  g_cands : list cand;
  g_styleA : bool;         (* style of the requester's introduction request to B *)
  g_warm : bool;           (* the requester has talked to the tracker before (knows its WAN address, may have
                              been introduced to somebody by the tracker) *)
  g_sels : list Z;         (* random.choice oracle per host id (T, B, A, C_0, ...); missing = 0 *)
  g_bplace : bplace
}.

Definition SITE_PUB : Z := 0.
Definition SITE_A : Z := 1.
Definition cand_site (j : nat) (c : cand) : Z := if c_same c then SITE_A else 10 + Z.of_nat j.

Definition SITE_B : Z := 2.
Definition ID_R : Z := 8.                      (* rendezvous tracker (public), only when B is not BPublic *)

Definition ADDR_T : addr := (ip4 1 0 0 1, 8000).
Definition ADDR_B : addr := (ip4 1 0 0 2, 8001).
Definition ADDR_R : addr := (ip4 1 0 0 3, 8008).
Definition lan_of (open : bool) (pub_ip : Z) (id : Z) : addr :=
  if open then (pub_ip, 8000 + id) else (ip4 192 168 1 (10 + id), 8000 + id).
Definition ADDR_A (g : cfg) : addr := lan_of (is_open (g_tA g)) (ip4 2 0 0 2) ID_A.
Definition cand_lan (g : cfg) (j : nat) (c : cand) : addr :=
  if c_same c then lan_of (is_open (g_tA g)) (ip4 2 0 0 2) (cand_id j)
  else if c_alias c && negb (is_open (c_type c)) && negb (is_open (g_tA g)) then ADDR_A g
  else lan_of (is_open (c_type c)) (ip4 2 0 0 (cand_id j)) (cand_id j).

Definition via_rendezvous (g : cfg) : bool := match g_bplace g with BPublic => false | _ => true end.
Definition b_site (g : cfg) : Z :=
  match g_bplace g with
  | BPublic => SITE_PUB
  | BOwn _ => SITE_B
  | BWithA => SITE_A
  | BWithC j => match nth_error (g_cands g) j with Some c => cand_site j c | None => SITE_B end
  end.
(* (is the site open, the machine's public ip if it is) *)
Definition b_site_kind (g : cfg) : bool * Z :=
  match g_bplace g with
  | BPublic => (true, ip4 1 0 0 2)
  | BOwn t => (is_open t, ip4 2 0 0 1)
  | BWithA => (is_open (g_tA g), ip4 2 0 0 2)
  | BWithC j => match nth_error (g_cands g) j with
                | Some c => if c_same c then (is_open (g_tA g), ip4 2 0 0 2)
                            else (is_open (c_type c), ip4 2 0 0 (cand_id j))
                | None => (true, ip4 2 0 0 1)
                end
  end.
Definition ADDR_Bg (g : cfg) : addr :=
  match g_bplace g with
  | BPublic => ADDR_B
  | _ => lan_of (fst (b_site_kind g)) (snd (b_site_kind g)) ID_B
  end.

Fixpoint indexed {A} (i : nat) (l : list A) : list (nat * A) :=
  match l with [] => [] | x :: tl => (i, x) :: indexed (S i) tl end.

Definition mk_site (id : Z) (t : nat_type) : site := mkSite id t (ip4 5 0 0 id) [] (20000 + 100 * id) [].

Definition mk_net (g : cfg) : net :=
  mkNet ([mkHost ID_T ADDR_T SITE_PUB; mkHost ID_B (ADDR_Bg g) (b_site g); mkHost ID_A (ADDR_A g) SITE_A]
           ++ map (fun jc => mkHost (cand_id (fst jc)) (cand_lan g (fst jc) (snd jc)) (cand_site (fst jc) (snd jc)))
                  (indexed 0 (g_cands g))
           ++ (if via_rendezvous g then [mkHost ID_R ADDR_R SITE_PUB] else []))
        ([mk_site SITE_PUB Open; mk_site SITE_A (g_tA g)]
           ++ (match g_bplace g with BOwn t => [mk_site SITE_B t] | _ => [] end)
           ++ concat (map (fun jc => if c_same (snd jc) then []
                                     else [mk_site (cand_site (fst jc) (snd jc)) (c_type (snd jc))])
                          (indexed 0 (g_cands g)))).

Definition host_site_raw (g : cfg) (id : Z) : Z :=
  match find (fun h => h_id h =? id) (hosts (mk_net g)) with Some h => h_site h | None => -1 end.
Definition sel_of (g : cfg) (id : Z) : Z := nth (Z.to_nat id) (g_sels g) 0.
Definition mk_node (g : cfg) (h : host) : node :=
  mkNode (h_id h) (h_lan h) (h_lan h) 0 (sel_of g (h_id h)) [] [].
Definition mk_world (g : cfg) : world :=
  let n := mk_net g in mkWorld n (map (mk_node g) (hosts n)) [] [].

(* the scripted history: every candidate becomes known to B (either way), then the requester asks B for
   an introduction and walks to whatever it was told *)
Definition setup_ops (jc : nat * cand) : list op :=
  let id := cand_id (fst jc) in
  let first := if c_resp (snd jc) then ADDR_T else ADDR_B in
  [OpWalk id first (Some (c_new (snd jc))); OpPump]
    ++ (if c_rebound (snd jc) then [OpRebind id; OpWalk id first None; OpPump] else [])
    ++ (if c_resp (snd jc) then [OpWalk ID_B ADDR_T None; OpPump; OpWalkAll ID_B; OpPump] else []).
Definition main_ops (g : cfg) : list op :=
  [OpWalk ID_A ADDR_B (Some (g_styleA g)); OpPump; OpWalkAll ID_A; OpPump].
Definition warm_ops (g : cfg) : list op :=
  if g_warm g then [OpWalk ID_A ADDR_T (Some false); OpPump] else [].
(* B not public: B registers at the rendezvous tracker R (style g_styleA, which R passes on, so that is the
   style of the requests B later receives); a by-request candidate asks R, is introduced to B (B punctures
   towards it) and walks to what R handed out; a by-response candidate is introduced to B by T as before;
   the requester asks R, walks to what R handed out (B answers: the response under test), then walks to what
   B handed out *)
Definition setup_ops_x (jc : nat * cand) : list op :=
  let id := cand_id (fst jc) in
  if c_resp (snd jc) then
    [OpWalk id ADDR_T (Some (c_new (snd jc))); OpPump; OpWalk ID_B ADDR_T None; OpPump; OpWalkAll ID_B; OpPump]
  else [OpWalk id ADDR_R (Some (c_new (snd jc))); OpPump; OpWalkAll id; OpPump].
Definition scenario_ops (g : cfg) : list op :=
  if via_rendezvous g then
    [OpWalk ID_B ADDR_R (Some (g_styleA g)); OpPump]
      ++ concat (map setup_ops_x (indexed 0 (g_cands g)))
      ++ [OpWalk ID_A ADDR_R (Some false); OpPump; OpWalkAll ID_A; OpPump; OpWalkAll ID_A; OpPump]
  else concat (map setup_ops (indexed 0 (g_cands g))) ++ warm_ops g ++ main_ops g.

Definition run_scenario (g : cfg) : world := run_ops (mk_world g) (scenario_ops g).
Definition run_scn (g : cfg) : obs := observe (run_scenario g).
Definition run_case (c : cfg * list op) : obs := observe (run_ops (mk_world (fst c)) (snd c)).

(* ---------------------------------------------------------------------------------------- holds *)
Definition host_lan (g : cfg) (id : Z) : addr :=
  match find_host (mk_net g) id with Some h => h_lan h | None => zero_addr end.
Definition host_site (g : cfg) (id : Z) : Z :=
  match find_host (mk_net g) id with Some h => h_site h | None => -1 end.

(* split the history at B's (last) introduction response that reached the requester:
   (events before it, newest first; the response; events after it, oldest first) *)
Fixpoint split_at_intro (before : list event) (l : list event) (found : option (list event * event * list event))
  : option (list event * event * list event) :=
  match l with
  | [] => found
  | e :: tl =>
      let found' :=
        match e with
        | Ev s _ (IntroResp _ _ _ _ _ _ _ _ _ _) (Deliver h _) =>
            if (s =? ID_B) && (h =? ID_A) then Some (before, e, tl) else found
        | _ => found
        end in
      split_at_intro (e :: before) tl found'
  end.

Record verdict := mkVerdict {
  v_quiet : bool;            (* the exchange terminated (queue drained) *)
  v_introduced : bool;       (* B's response to the requester introduces somebody *)
  v_puncture_req : bool;     (* ... and in the same step B sent a puncture-request, delivered to the introduced
                                peer X, naming the requester's address pair and the request's identifier *)
  v_puncture : bool;         (* X punctured towards the requester (its LAN address when they share a site,
                                else its external address, which it has learned as my_estimated_wan) *)
  v_request : bool;          (* a later introduction request of the requester reached X, sent to one of the
                                two addresses B handed out *)
  v_response : bool;         (* X's response reached the requester *)
  v_mutual : bool;           (* each is among the other's verified peers *)
  v_lan : bool               (* if they share a site: the contact went LAN address to LAN address and no
                                request of the requester went to the other handed-out address *)
}.

Definition verdict_of (g : cfg) (o : obs) : verdict :=
  let bad := mkVerdict (o_quiet o) false false false false false false false in
  match split_at_intro [] (o_events o) None with
  | None => bad
  | Some (before, Ev _ _ resp _, after) =>
      match resp with
      | IntroResp _ _ dest _ _ ilan iwan _ _ ident =>
          if addr_eqb iwan zero_addr then bad
          else
            match before with
            | Ev s pdst (PunctReq _ lanw wanw pid) (Deliver x _) :: _ =>
                let same := host_site g x =? host_site g ID_A in
                let a_lan := host_lan g ID_A in
                let x_lan := host_lan g x in
                let preq := (s =? ID_B) && negb (x =? ID_A) && addr_eqb wanw dest && addr_eqb lanw a_lan
                            && (pid =? ident) in
                let a_wan := match find (fun p => fst p =? ID_A) (o_wans o) with
                             | Some p => snd p | None => zero_addr end in
                let toward := if same then a_lan else a_wan in
                let punct := existsb (fun e => match e with
                                               | Ev s' d (Punct _ _ _ _ pid') _ =>
                                                   (s' =? x) && addr_eqb d toward && (pid' =? ident)
                                               | _ => false end) after in
                let reqs := filter (fun e => match e with
                                             | Ev s' _ (IntroReq _ _ _ _ _ _ _) _ => s' =? ID_A
                                             | _ => false end) after in
                let reached := existsb (fun e => match e with
                                                 | Ev _ d _ (Deliver h _) =>
                                                     (h =? x) && (addr_eqb d ilan || addr_eqb d iwan)
                                                 | _ => false end) reqs in
                let answered := existsb (fun e => match e with
                                                  | Ev s' _ (IntroResp _ _ _ _ _ _ _ _ _ _) (Deliver h _) =>
                                                      (s' =? x) && (h =? ID_A)
                                                  | _ => false end) after in
                let peers_of id := match find (fun p => fst p =? id) (o_peers o) with
                                   | Some p => snd p | None => [] end in
                let mutual := existsb (Z.eqb x) (peers_of ID_A) && existsb (Z.eqb ID_A) (peers_of x) in
                let lan_ok :=
                  if same then
                    existsb (fun e => match e with
                                      | Ev _ d _ oc => addr_eqb d x_lan && outcome_eqb oc (Deliver x a_lan)
                                      end) reqs
                    && forallb (fun e => match e with
                                         | Ev _ d _ _ => addr_eqb d x_lan || negb (addr_eqb d ilan || addr_eqb d iwan)
                                         end) reqs
                    && existsb (fun e => match e with
                                         | Ev s' d (IntroResp _ _ _ _ _ _ _ _ _ _) (Deliver h _) =>
                                             (s' =? x) && (h =? ID_A) && addr_eqb d a_lan
                                         | _ => false end) after
                  else true in
                mkVerdict (o_quiet o) true preq punct reached answered mutual lan_ok
            | _ => mkVerdict (o_quiet o) true false false false false false false
            end
      | _ => bad
      end
  end.

Definition verdict_ok (v : verdict) : bool :=
  v_quiet v && v_introduced v && v_puncture_req v && v_puncture v && v_request v && v_response v
  && v_mutual v && v_lan v.
Definition holds (g : cfg) (o : obs) : bool := verdict_ok (verdict_of g o).

(* readable projections of an observation, used in the theorem statements *)
Definition peers_of (o : obs) (id : Z) : list Z :=
  match find (fun p => fst p =? id) (o_peers o) with Some p => snd p | None => [] end.

(* the host that received the puncture-request B emitted with its introduction response to the requester *)
Definition introduced_peer (o : obs) : option Z :=
  match split_at_intro [] (o_events o) None with
  | Some (Ev _ _ (PunctReq _ _ _ _) (Deliver x _) :: _, _, _) => Some x
  | _ => None
  end.

(* the requester's contact attempts at the addresses B handed out (after B's response), with their fate *)
Definition contacts (o : obs) : list (addr * outcome) :=
  match split_at_intro [] (o_events o) None with
  | Some (_, Ev _ _ (IntroResp _ _ _ _ _ ilan iwan _ _ _) _, after) =>
      flat_map (fun e => match e with
                         | Ev s d (IntroReq _ _ _ _ _ _ _) oc =>
                             if (s =? ID_A) && (addr_eqb d ilan || addr_eqb d iwan) then [(d, oc)] else []
                         | _ => [] end) after
  | _ => []
  end.

Definition all_true : verdict := mkVerdict true true true true true true true true.

(* ---------------------------------------------------------------------------------------- enumeration *)
Definition all_types : list nat_type := [Open; FullCone; AddrRestricted; PortRestricted].
Definition bools : list bool := [false; true].

Definition rot (t : nat_type) (j : nat) : nat_type :=
  nth ((match t with Open => 0 | FullCone => 1 | AddrRestricted => 2 | PortRestricted => 3 end + j) mod 4)%nat
      all_types Open.

(* k candidates: the one at position `pos` is the configured one, the others are derived bystanders
   (types rotate, placement and acquisition alternate) *)
Definition cands_for (k pos : nat) (c : cand) : list cand :=
  map (fun j => if Nat.eqb j pos then c
                else mkCand (rot (c_type c) (S j)) (Nat.odd j) (Nat.even j && c_resp c) (Nat.odd j) false false)
      (seq 0 k).

(* B's candidate list (keys ascending) is [T (only if B met the tracker)] ++ candidates; pick position *)
Definition selB_for (cs : list cand) (pos : nat) : Z :=
  Z.of_nat pos + (if existsb c_resp cs then 1 else 0).

Definition cfg_for (tA : nat_type) (c : cand) (styleA warm : bool) (k pos : nat) : cfg :=
  let cs := cands_for k pos c in
  mkCfg tA cs styleA warm [-1; selB_for cs pos] BPublic.

(* the enlarged space: the introducer placed by `bp` (BWithC refers to the introduced candidate) *)
Definition cfg_forx (bp : bplace) (tA : nat_type) (c : cand) (styleA : bool) (k pos : nat) : cfg :=
  let cs := cands_for k pos c in
  mkCfg tA cs styleA false [-1; selB_for cs pos] bp.

Definition bplaces (pos : nat) : list bplace :=
  [BOwn Open; BOwn FullCone; BOwn AddrRestricted; BOwn PortRestricted; BWithA; BWithC pos].

(* where the property cannot hold: the introducer shares a NAT box with exactly one of requester and
   introduced peer, so it has seen that party only under its LAN address and cannot name (resp. hand out) its
   external address to the other *)
Definition b_blind (g : cfg) (x : Z) : bool :=
  let sb := b_site g in
  let sa := SITE_A in
  let sx := host_site_raw g x in
  negb (fst (b_site_kind g))
  && (((sb =? sx) && negb (sb =? sa)) || ((sb =? sa) && negb (sx =? sa))).

Definition flat_map' {A B} (l : list A) (f : A -> list B) : list B := flat_map f l.

(* the swept space: every (tA, tC, same, resp, newC, styleA) with k = 1..5 and every position, plain;
   and again with each non-empty combination of the alias / warm / rebound variations for k in {1, 3} *)
Definition variations : list (bool * bool * bool * list nat) :=
  (false, false, false, seq 1 5)
    :: map (fun v => (v, [1; 3]%nat))
           [(false, false, true); (false, true, false); (false, true, true);
            (true, false, false); (true, false, true); (true, true, false); (true, true, true)].

Definition v_alias (v : bool * bool * bool * list nat) : bool := fst (fst (fst v)).
Definition v_warm (v : bool * bool * bool * list nat) : bool := snd (fst (fst v)).
Definition v_rebound (v : bool * bool * bool * list nat) : bool := snd (fst v).

Definition all_cfgs : list cfg :=
  flat_map' variations (fun v =>
  flat_map' all_types (fun tA =>
  flat_map' all_types (fun tC =>
  flat_map' bools (fun same =>
  flat_map' bools (fun resp =>
  flat_map' bools (fun newC =>
  flat_map' bools (fun styleA =>
  flat_map' (snd v) (fun k =>
  map (fun pos => cfg_for tA (mkCand tC same resp newC (v_alias v) (v_rebound v)) styleA (v_warm v) k pos)
      (seq 0 k))))))))).

(* the introduced peer of a configuration built by cfg_for *)
Definition chosen_id (pos : nat) : Z := cand_id pos.
