(* C12y - runtime of the TRANSLATED network.py / peer.py (gen/G12_network.v, written on every run by
   tools/tr/tr_network.py).  Fixed text: the control combinators the translator targets and the
   vocabulary of primitive operations on Python values (dict / OrderedDict / set / list operations,
   Peer attributes).  No proofs here.

   A translated function body is a `stmt`: a function from (object state, locals) to (object state,
   locals) and a control outcome - fell through, returned a value, break, continue, or raised.  State
   and locals survive a raise (as in Python), `try` resumes from the state at the raise.  Loops over
   finite collections are structural; `while` loops take fuel and raise OutOfFuel when it runs out. *)
From Coq Require Import ZArith List Bool Lia.
From IPV8V Require Import lib.PyErr lib.Bytes lib.BE model.M02_wire model.M12_network.
Import ListNotations.
Open Scope Z_scope.

(* ------------------------------------------------------------------ control *)
Section Stmt.
  Context {Sg L R : Type}.

  Inductive ctl : Type := CNorm | CRet (r : R) | CBrk | CCont | CExc (e : exn).
  Definition st : Type := (Sg * L)%type.
  Definition stmt : Type := st -> st * ctl.

  Definition sskip : stmt := fun x => (x, CNorm).
  Definition sseq (a b : stmt) : stmt :=
    fun x => let '(x1, c) := a x in match c with CNorm => b x1 | _ => (x1, c) end.
  (* if <test>: a else: b ; a test that raises leaves the state as it is *)
  Definition sif (c : st -> res bool) (a b : stmt) : stmt :=
    fun x => match c x with Ok true => a x | Ok false => b x | Raise e => (x, CExc e) end.
  (* assignment / in-place update: the new (state, locals), or an exception with nothing changed *)
  Definition sset (f : st -> res st) : stmt :=
    fun x => match f x with Ok x1 => (x1, CNorm) | Raise e => (x, CExc e) end.
  Definition sret (f : st -> res R) : stmt :=
    fun x => match f x with Ok r => (x, CRet r) | Raise e => (x, CExc e) end.
  Definition sbreak : stmt := fun x => (x, CBrk).
  Definition scont : stmt := fun x => (x, CCont).
  Definition sraise (e : exn) : stmt := fun x => (x, CExc e).

  Fixpoint sfor_list {X} (l : list X) (body : X -> stmt) : stmt :=
    fun x => match l with
             | [] => (x, CNorm)
             | y :: tl => let '(x1, c) := body y x in
                          match c with
                          | CNorm | CCont => sfor_list tl body x1
                          | CBrk => (x1, CNorm)
                          | _ => (x1, c)
                          end
             end.
  (* for y in <iterable>: the iterable is evaluated once, on entry *)
  Definition sfor {X} (it : st -> res (list X)) (body : X -> stmt) : stmt :=
    fun x => match it x with Ok l => sfor_list l body x | Raise e => (x, CExc e) end.

  Fixpoint swhile (fuel : nat) (c : st -> res bool) (body : stmt) : stmt :=
    fun x => match fuel with
             | O => (x, CExc OutOfFuel)
             | S f => match c x with
                      | Raise e => (x, CExc e)
                      | Ok false => (x, CNorm)
                      | Ok true => let '(x1, k) := body x in
                                   match k with
                                   | CNorm | CCont => swhile f c body x1
                                   | CBrk => (x1, CNorm)
                                   | _ => (x1, k)
                                   end
                      end
             end.

  (* try: body / except Exception: handler *)
  Definition stry (body handler : stmt) : stmt :=
    fun x => let '(x1, c) := body x in match c with CExc _ => handler x1 | _ => (x1, c) end.

  (* a call of another translated function of the same object: runs on the object state, the result
     is stored by `k` *)
  Definition scall {T} (f : st -> Sg -> Sg * res T) (k : T -> st -> st) : stmt :=
    fun x => let '(s1, r) := f x (fst x) in
             match r with Ok v => (k v (s1, snd x), CNorm) | Raise e => ((s1, snd x), CExc e) end.

  (* a call of a translated method of a sub-object (self._addresses[...] = ... is DirtyDict.__setitem__) *)
  Definition scall_sub {Sub T} (get : Sg -> Sub) (put : Sub -> Sg -> Sg) (f : st -> Sub -> Sub * res T) : stmt :=
    fun x => let '(d1, r) := f x (get (fst x)) in
             match r with Ok _ => ((put d1 (fst x), snd x), CNorm) | Raise e => ((put d1 (fst x), snd x), CExc e) end.
End Stmt.
Arguments ctl : clear implicits.
Arguments stmt : clear implicits.

(* a whole function: run the body from the initial locals; falling off the end returns `dflt` (None) *)
Definition run_fn {Sg L R} (body : stmt Sg L R) (l0 : L) (dflt : R) : Sg -> Sg * res R :=
  fun s => let '(x1, c) := body (s, l0) in
           (fst x1, match c with
                    | CNorm => Ok dflt
                    | CRet r => Ok r
                    | CExc e => Raise e
                    | CBrk | CCont => Raise RuntimeError
                    end).

(* ------------------------------------------------------------------ Python values: vocabulary *)
(* d[k] *)
Definition d_sub {K V} (eqb : K -> K -> bool) (k : K) (d : list (K * V)) : res V :=
  match d_get eqb k d with Some v => Ok v | None => Raise KeyError end.
Definition d_get_or {K V} (eqb : K -> K -> bool) (k : K) (d : list (K * V)) (dflt : V) : V :=
  match d_get eqb k d with Some v => v | None => dflt end.
Definition is_some {A} (o : option A) : bool := match o with Some _ => true | None => false end.
Definition oget {A} (o : option A) : res A := match o with Some a => Ok a | None => Raise TypeError end.

(* peer.public_key.key_to_bin() / peer.mid (identified with it) / peer.addresses.values() / peer.addresses *)
Definition pk (s : net) (p : nat) : key := hkey (heap s) p.
Definition pvalues (s : net) (p : nat) : list addr := am_values (haddrs (heap s) p).
(* known.addresses.update(peer.addresses) : DirtyDict.update on the Peer object `j` (the translated
   DirtyDict.update / Peer.address are related to this by gen_peer_address_is_preferred) *)
Definition addresses_update (s : net) (j i : nat) : net :=
  set_heap s (hset (heap s) j (hkey (heap s) j, am_update (haddrs (heap s) j) (haddrs (heap s) i))).
(* peer.address *)
Definition paddress (s : net) (p : nat) : addr := am_preferred (haddrs (heap s) p).

(* `x in self.verified_by_public_key_bin` for x = WalkableAddress.introduced_by (b"" is in no index) *)
Definition okey_in {V} (o : option key) (d : list (key * V)) : bool :=
  match o with Some k => d_mem Z.eqb k d | None => false end.
(* `peer in <collection of Peer>` : hash / equality by public key *)
Definition peer_in (s : net) (p : nat) (l : list nat) : bool := in_ver (heap s) l (pk s p).
Definition opeer_eqb (a b : option nat) : bool :=
  match a, b with Some x, Some y => Nat.eqb x y | None, None => true | _, _ => false end.
Definition omem_z (o : option Z) (l : list Z) : bool := match o with Some x => mem_z x l | None => false end.
(* d.get(x, default) for x = WalkableAddress.introduced_by: b"" is the key of nothing *)
Definition d_get_or_o {V} (eqb : key -> key -> bool) (o : option key) (d : list (key * V)) (dflt : V) : V :=
  match o with Some k => d_get_or eqb k d dflt | None => dflt end.
(* <optional> or <default> *)
Definition o_or {A} (o : option A) (d : A) : A := match o with Some a => a | None => d end.
(* list.remove(x): first equal element; ValueError if there is none *)
Fixpoint remove_first_addr (a : addr) (l : list addr) : res (list addr) :=
  match l with
  | [] => Raise ValueError
  | x :: tl => if addr_eqb x a then Ok tl else do r <- remove_first_addr a tl; Ok (x :: r)
  end.
(* list.remove(peer) on a list of Peer: first element with that public key *)
Definition remove_first_key_res (s : net) (k : key) (l : list nat) : res (list nat) :=
  if in_ver (heap s) l k then Ok (remove_first_key (heap s) k l) else Raise ValueError.
(* set.remove(peer): KeyError if absent *)
Definition set_remove_key (s : net) (k : key) (l : list nat) : res (list nat) :=
  if in_ver (heap s) l k then Ok (filter (fun i => negb (hkey (heap s) i =? k)) l) else Raise KeyError.
(* for v in d.values(): <mutate v in place> *)
Fixpoint map_values_res {K V} (f : V -> res V) (d : list (K * V)) : res (list (K * V)) :=
  match d with
  | [] => Ok []
  | (k, v) :: tl => do v1 <- f v; do r <- map_values_res f tl; Ok ((k, v1) :: r)
  end.
(* set.add(peer) *)
Definition set_add_peer (s : net) (p : nat) (l : list nat) : list nat := if peer_in s p l then l else l ++ [p].
(* a - b on sets of Peer *)
Definition set_diff_peers (s : net) (a b : list nat) : list nat :=
  filter (fun i => negb (in_ver (heap s) b (hkey (heap s) i))) a.
(* list(set(keys) - set(taken)) *)
Definition addrs_minus (keys taken : list addr) : list addr := filter (fun a => negb (mem_addr a taken)) keys.
(* OrderedDict.popitem(False) *)
Definition popitem_first {A} (c : list A) : res (list A) :=
  match c with [] => Raise KeyError | _ :: tl => Ok tl end.
(* iterating a set: the order is not determined by the program; `hint` names the element that comes
   first (if it is a member), the others follow in representation order *)
Definition set_iter (hint : option nat) (l : list nat) : list nat :=
  match hint with
  | Some h => if existsb (Nat.eqb h) l then h :: filter (fun i => negb (Nat.eqb i h)) l else l
  | None => l
  end.
(* dict.values() with in-place mutation of the (list) values by the loop body *)
Definition dict_map_values {K V} (f : V -> V) (d : list (K * V)) : list (K * V) :=
  map (fun e => (fst e, f (snd e))) d.

Definition len_gt {A} (c : list A) (cap : Z) : bool := Z.of_nat (length c) >? cap.

(* ------------------------------------------------------------------ one Peer object, as peer.py sees it *)
Inductive acls : Type := CV6 | CV4 | CTuple | CDom.     (* UDPv6Address, UDPv4Address, tuple, DomainAddress *)
Definition acls_eqb (a b : acls) : bool :=
  match a, b with CV6, CV6 | CV4, CV4 | CTuple, CTuple | CDom, CDom => true | _, _ => false end.
Definition cls_of (a : addr) : acls := match a with A4 _ _ => CV4 | A6 _ _ => CV6 | ADom _ _ => CDom end.
(* the DirtyDict behind Peer.addresses: the dict proper (one slot per class; plain tuples are not modelled)
   and its `dirty` attribute *)
Record ddict : Type := mkDD { dd_map : addrmap; dd_dirty : bool }.
Definition am_get (m : addrmap) (c : acls) : option addr :=
  match c with CV4 => am4 m | CV6 => am6 m | CDom => amd m | CTuple => None end.
Definition am_put (m : addrmap) (a : addr) : addrmap :=
  match a with
  | A4 _ _ => mkAm (Some a) (am6 m) (amd m)
  | A6 _ _ => mkAm (am4 m) (Some a) (amd m)
  | ADom _ _ => mkAm (am4 m) (am6 m) (Some a)
  end.
Record pobj : Type := mkPobj { p_addresses : ddict; p_address : option addr; p_frozen : bool }.

Definition am_empty : addrmap := mkAm None None None.
Definition am_size (m : addrmap) : nat := length (am_values m).
(* dict.__setitem__(cls, address) *)
Definition am_set (m : addrmap) (c : acls) (a : addr) : addrmap :=
  match c with
  | CV4 => mkAm (Some a) (am6 m) (amd m)
  | CV6 => mkAm (am4 m) (Some a) (amd m)
  | CDom => mkAm (am4 m) (am6 m) (Some a)
  | CTuple => m                               (* plain tuples as addresses are not modelled *)
  end.
(* dict[cls] *)
Definition am_sub (m : addrmap) (c : acls) : res addr :=
  match am_get m c with Some a => Ok a | None => Raise KeyError end.
