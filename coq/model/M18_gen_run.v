(* C18 (extension) - harness runners that evaluate the TRANSLATED functions (gen/G18_proofs.v) on the cases the
   check generates, for comparison with what the real code did.  No proofs. *)
From Coq Require Import ZArith List Bool.
From IPV8V Require Import lib.PyErr lib.Bytes model.M18_hom model.M18_range model.M18_bitpairs model.M18_gen_rt model.M18_driver
  gen.G18_proofs.
Import ListNotations.
Open Scope Z_scope.

(* the range proof over exponent vectors: same observation as M18_range.run_range, but the builder reads the full
   queues of draws (rejected ones included) and the stream of secure_randint values *)
Definition run_range_gen (c : (Z * Z * Z * Z * Z * Z * Z * Z) * list (list Z) * list Z * list (ev * ev * Z)) : res (list Z) :=
  let '((v, a, b, a', b', s, t, bitspace), rq, sec, tbl) := c in
  bind (g_create_attest_pair ev ev_mul ev_one ev_inv ev_g ev_h (ev_hash tbl) (fun _ => 0) v a b bitspace rq sec) (fun r =>
    let '((pd, pr), _) := r in
    bind (g_generate_response pr s t) (fun resp =>
    let '(x, y, u, w) := resp in
    bind (g_range_check ev ev_mul ev_one ev_inv ev_eqb ev_g ev_h (ev_hash tbl) pd a' b' s t x y u w) (fun ok =>
    let e := pub_el ev pd in let e1 := sq_el ev (pub_sqr1 ev pd) in let e2 := sq_el ev (pub_sqr2 ev pd) in
    Ok ([p_m1 pr; p_m2 pr; p_m3 pr; p_r1 pr; p_r2 pr; p_r3 pr;
         el_c e; el_D e; el_D1 e; el_D2 e; el_c e1; el_D e1; el_D1 e1; el_D2 e1; el_c e2; el_D e2; el_D1 e2; el_D2 e2;
         x; y; u; w; if ok then 1 else 0])))).

(* one call of on_challenge_response for the bit-pair algorithm: aggregate = relativity map, a response is one byte *)
Fixpoint sha_table (tbl : list (bytes * Z)) (c : bytes) : Z :=
  match tbl with [] => 0 | (k, h) :: tl => if bytes_eqb k c then h else sha_table tl c end.
Definition bp_proc (a : relmap) (c : option bytes) (r : bytes) : res relmap :=
  match r with [k] => rm_incr a k | _ => Raise StructError end.
Definition bp_hon (v : Z) (r : bytes) : res bool :=
  match r with [k] => Ok (v =? k) | _ => Raise StructError end.

Definition flat_bytes (c : bytes) : list Z := blen c :: c.
Definition flat_state (st : vstate relmap) : list Z :=
  (if vs_active st then 1 else 0) :: Z.of_nat (length (vs_pending st)) :: flat_map (fun p => [fst p; snd p]) (vs_pending st)
  ++ Z.of_nat (length (vs_hashed st)) :: vs_hashed st
  ++ Z.of_nat (length (vs_chals st)) :: flat_map flat_bytes (vs_chals st) ++ rm_list (vs_agg st).
Definition flat_eff (e : veff relmap) : list Z :=
  match e with VCallback a => 0 :: rm_list a | VSend m c => m :: flat_bytes c end.

Definition run_driver_gen (c : (list (Z * Z) * bool * list Z * list bytes * list Z) * (Z * bytes * bool * Z * list bytes)
                               * list (bytes * Z) * bool) : res (list Z) :=
  let '((pending, active, hashed, chals, agg), (hh, resp, d, b, q), tbl, alg_honesty) := c in
  bind (g_on_challenge_response relmap bytes (sha_table tbl) bp_proc bp_hon rm_empty alg_honesty
          (MkVS pending active hashed chals (rm_of agg)) hh resp d b q) (fun r =>
    Ok (flat_state (fst r) ++ Z.of_nat (length (snd r)) :: flat_map flat_eff (snd r))).

(* the translated scoring and aggregation (bonehexact/attestation.py) on the cases of the bit-pair stage *)
From Coq Require Import QArith.
Open Scope Z_scope.
Definition check_scores_gen (c : list Z * list Z) (exact : bool) (fm fc : Q) : bool :=
  let e := rm_of (fst c) in let o := rm_of (snd c) in
  match g_binary_relativity_match e o, g_binary_relativity_certainty e o with
  | Ok m, Ok ce => q_close exact m fm && q_close exact ce fc
  | _, _ => false
  end.
Definition run_tally_gen (cs : list Z) : res (list Z) :=
  bind (fold_left (fun acc k => bind acc (fun m => g_process_challenge_response m k)) cs g_create_empty_relativity_map)
       (fun m => Ok (rm_list m)).
