(* C09 - one tunnel node with time: the three routing tables with creation / activity stamps and
   byte counters, the request caches that drive circuit building, the delayed removal tasks, and
   every event that creates, refreshes or deletes an entry.

   Follows ipv8/messaging/anonymization/{community,caches,crypto,tunnel,exit_socket}.py after the
   `fix:` commits (on_create refuses an id that is in use).  Granularity: one event = one atomic
   (non-awaiting) stretch of the real code: a datagram's synchronous processing, the body of an
   async handler, the part of remove_* before its sleep, the part after it, a cache time-out, one
   do_circuits / do_ping run, an API call.  Work that the real code defers to a later loop
   iteration (tasks created by ensure_future) sits in the `starts` queue until its ERun event.
   Cryptography, randomness and candidate selection are oracles carried by the events.
   The pure decision rules and constants come from the generated file gen/G09_rules.v.
   No proofs here. *)
From Coq Require Import ZArith List Bool.
From IPV8V Require Import gen.G09_rules.
Import ListNotations.
Open Scope Z_scope.

(* ---------------------------------------------------------------- Python dicts as association lists *)
Fixpoint aget {A} (k : Z) (l : list (Z * A)) : option A :=
  match l with [] => None | (k', v) :: tl => if k =? k' then Some v else aget k tl end.
Fixpoint aset {A} (k : Z) (v : A) (l : list (Z * A)) : list (Z * A) :=
  match l with
  | [] => [(k, v)]
  | (k', v') :: tl => if k =? k' then (k, v) :: tl else (k', v') :: aset k v tl
  end.
Fixpoint adel {A} (k : Z) (l : list (Z * A)) : list (Z * A) :=
  match l with [] => [] | (k', v') :: tl => if k =? k' then adel k tl else (k', v') :: adel k tl end.
Definition ahas {A} (k : Z) (l : list (Z * A)) : bool :=
  match aget k l with Some _ => true | None => false end.
Definition zlen {A} (l : list A) : Z := Z.of_nat (length l).

Fixpoint remove_nth {A} (i : nat) (l : list A) : list A :=
  match i, l with
  | _, [] => []
  | O, _ :: tl => tl
  | S j, x :: tl => x :: remove_nth j tl
  end.

(* ---------------------------------------------------------------- settings (any time unit) *)
Record settings := mkSettings {
  s_max_joined : Z;
  s_max_time : Z;
  s_max_inactive : Z;
  s_max_traffic : Z;
  s_circuit_timeout : Z;
  s_unstable_timeout : Z;
  s_next_hop_timeout : Z;
  s_remove_delay : Z;
  s_max_early : Z;
  s_sweep : Z;            (* interval of the do_circuits task *)
  s_cache_timeout : Z;    (* NumberCache.timeout_delay *)
  s_any_flag : bool;      (* settings.peer_flags is not empty *)
  s_relay_flag : bool     (* PEER_FLAG_RELAY in settings.peer_flags *)
}.

(* the shipped defaults, `unit` ticks per second *)
Definition default_settings (unit : Z) : settings :=
  mkSettings MAX_JOINED_CIRCUITS (MAX_TIME * unit) (MAX_TIME_INACTIVE * unit) MAX_TRAFFIC
             (CIRCUIT_TIMEOUT * unit) (UNSTABLE_TIMEOUT * unit) (NEXT_HOP_TIMEOUT * unit)
             (REMOVE_TUNNEL_DELAY * unit) MAX_RELAY_EARLY (SWEEP_INTERVAL * unit) (CACHE_TIMEOUT * unit)
             true true.

(* ---------------------------------------------------------------- table entries *)
Record ro := mkRo { creation : Z; la : Z; up : Z; down : Z }.          (* RoutingObject *)
Definition ro_new (now : Z) : ro := mkRo now now 0 0.
Definition ro_beat (now : Z) (r : ro) : ro := mkRo (creation r) now (up r) (down r).
Definition ro_up (n : Z) (r : ro) : ro := mkRo (creation r) (la r) (up r + n) (down r).
Definition ro_down (n : Z) (r : ro) : ro := mkRo (creation r) (la r) (up r) (down r + n).

Record circuit := mkCirc {
  c_ro : ro;
  c_goal : Z;
  c_hops : Z;              (* number of verified hops *)
  c_closing : bool;
  c_unver : option Z;      (* peer of the unverified hop (it always carries a dh_secret) *)
  c_first : Z;             (* circuit.hop.peer: first verified hop, else the unverified hop *)
  c_early : Z
}.
Record relay := mkRelay {
  r_ro : ro;
  r_next : Z;              (* RelayRoute.circuit_id: the id on the other side *)
  r_peer : Z;              (* hop.peer (and its address) *)
  r_fwd : bool;            (* direction == FORWARD *)
  r_early : Z
}.
Record exitsock := mkExit {
  e_ro : ro;
  e_peer : Z;
  e_enabled : bool;
  e_open : bool;           (* transports exist *)
  e_queue : list Z         (* lengths of the datagrams waiting for the transports *)
}.

Definition c_with_ro (f : ro -> ro) (c : circuit) : circuit :=
  mkCirc (f (c_ro c)) (c_goal c) (c_hops c) (c_closing c) (c_unver c) (c_first c) (c_early c).
Definition r_with_ro (f : ro -> ro) (r : relay) : relay :=
  mkRelay (f (r_ro r)) (r_next r) (r_peer r) (r_fwd r) (r_early r).
Definition e_with_ro (f : ro -> ro) (e : exitsock) : exitsock :=
  mkExit (f (e_ro e)) (e_peer e) (e_enabled e) (e_open e) (e_queue e).

Definition c_state (c : circuit) : Z := circuit_state (c_closing c) (c_hops c) (c_goal c).

(* ---------------------------------------------------------------- request caches *)
Record retry := mkRetry {
  rt_ident : Z;            (* packet_identifier *)
  rt_tries : Z;            (* max_tries *)
  rt_cands : bool;         (* candidates not empty *)
  rt_initial : bool;       (* retry_func is send_initial_create (else send_extend) *)
  rt_due : Z
}.
Record createc := mkCreateC {  (* CreateRequestCache, keyed by its random number *)
  cc_ident : Z;            (* extend_identifier *)
  cc_to : Z;
  cc_from : Z;
  cc_peer : Z;             (* previous node *)
  cc_to_peer : Z;          (* node asked to join *)
  cc_due : Z
}.

(* ---------------------------------------------------------------- deferred work *)
Inductive rkind := KCirc | KRelay | KExit.
Definition rkind_eqb (a b : rkind) : bool :=
  match a, b with KCirc, KCirc | KRelay, KRelay | KExit, KExit => true | _, _ => false end.

Inductive deferred :=
| DRemove (k : rkind) (cid : Z) (destroy : Z) (remove_now : bool)   (* a remove_* task not yet started *)
| DCreate (src : Z) (cid : Z) (ident : Z)                           (* body of on_create *)
| DExtend (src : Z) (cid : Z) (ident : Z)                           (* body of on_extend *)
| DRetry (cid : Z) (tries : Z) (initial : bool)                     (* retry_later of a timed-out retry cache *)
| DOpen (cid : Z).                                                  (* create_transports of an exit socket *)

Record node := mkNode {
  now : Z;                         (* time of the last event *)
  last_sweep : Z;
  circuits : list (Z * circuit);
  relays : list (Z * relay);
  exits : list (Z * exitsock);
  retries : list (Z * retry);      (* keyed by circuit id *)
  createds : list (Z * Z);         (* CreatedRequestCache: circuit id -> due *)
  creates : list (Z * createc);    (* keyed by number *)
  starts : list deferred;          (* FIFO of created-but-not-yet-run tasks *)
  sleeping : list (Z * rkind * Z)  (* (due, kind, id) of remove_* tasks in their sleep *)
}.

Definition init_node (t : Z) : node := mkNode t t [] [] [] [] [] [] [] [].

Definition set_now (t : Z) (s : node) : node :=
  mkNode t (last_sweep s) (circuits s) (relays s) (exits s) (retries s) (createds s) (creates s)
         (starts s) (sleeping s).
Definition set_last_sweep (t : Z) (s : node) : node :=
  mkNode (now s) t (circuits s) (relays s) (exits s) (retries s) (createds s) (creates s)
         (starts s) (sleeping s).
Definition set_circuits (x : list (Z * circuit)) (s : node) : node :=
  mkNode (now s) (last_sweep s) x (relays s) (exits s) (retries s) (createds s) (creates s)
         (starts s) (sleeping s).
Definition set_relays (x : list (Z * relay)) (s : node) : node :=
  mkNode (now s) (last_sweep s) (circuits s) x (exits s) (retries s) (createds s) (creates s)
         (starts s) (sleeping s).
Definition set_exits (x : list (Z * exitsock)) (s : node) : node :=
  mkNode (now s) (last_sweep s) (circuits s) (relays s) x (retries s) (createds s) (creates s)
         (starts s) (sleeping s).
Definition set_retries (x : list (Z * retry)) (s : node) : node :=
  mkNode (now s) (last_sweep s) (circuits s) (relays s) (exits s) x (createds s) (creates s)
         (starts s) (sleeping s).
Definition set_createds (x : list (Z * Z)) (s : node) : node :=
  mkNode (now s) (last_sweep s) (circuits s) (relays s) (exits s) (retries s) x (creates s)
         (starts s) (sleeping s).
Definition set_creates (x : list (Z * createc)) (s : node) : node :=
  mkNode (now s) (last_sweep s) (circuits s) (relays s) (exits s) (retries s) (createds s) x
         (starts s) (sleeping s).
Definition set_starts (x : list deferred) (s : node) : node :=
  mkNode (now s) (last_sweep s) (circuits s) (relays s) (exits s) (retries s) (createds s) (creates s)
         x (sleeping s).
Definition set_sleeping (x : list (Z * rkind * Z)) (s : node) : node :=
  mkNode (now s) (last_sweep s) (circuits s) (relays s) (exits s) (retries s) (createds s) (creates s)
         (starts s) x.
Definition defer (d : deferred) (s : node) : node := set_starts (starts s ++ [d]) s.

(* ---------------------------------------------------------------- what a node does *)
Inductive out :=
| OCell (dst cid : Z) (early : bool) (mid : Z)   (* a cell put on the wire; mid = 0 for a relayed cell *)
| ODestroy (dst cid reason : Z)
| OSendto (cid len : Z)                         (* exit socket hands a datagram to its transport *)
| OOpen (cid : Z)                               (* exit socket opens its two transports *)
| OClose (cid : Z).                             (* exit socket closes its transports *)

(* ---------------------------------------------------------------- events *)
Inductive vres := VOk | VValueError | VRaise.          (* verify_and_generate_shared_secret *)

(* choice made by send_initial_create / send_extend: the next hop (None: no candidate left - or, in
   _ours_on_created_extended, the candidate list of the new hop could not be read: both end in
   remove_circuit without a destroy), whether alternatives remain, and the fresh packet_identifier *)
Record pick := mkPick { p_next : option Z; p_alts : bool; p_ident : Z }.

Inductive cellmsg :=
| MCreate (ident : Z)
| MCreated (ident : Z) (v : vres) (p : pick)
| MExtend (ident : Z)
| MExtended (ident : Z) (v : vres) (p : pick)
| MData (origin_set dest_null allowed : bool) (len : Z)
| MPing
| MPong
| MOther (mid : Z).

Definition msg_id (m : cellmsg) : Z :=
  match m with
  | MCreate _ => MSG_CREATE | MCreated _ _ _ => MSG_CREATED | MExtend _ => MSG_EXTEND
  | MExtended _ _ _ => MSG_EXTENDED | MData _ _ _ _ => MSG_DATA | MPing => MSG_PING | MPong => MSG_PONG
  | MOther mid => mid
  end.

Inductive crypt :=
| CFail                                 (* incoming_crypto / relay crypto raised CryptoException *)
| CEmpty                                (* decrypted to an empty message *)
| COk (m : cellmsg).

Inductive ev :=
| ERecvCell (src cid : Z) (plain early : bool) (len : Z) (cr : crypt) (outlens : list Z)
| ERecvDestroy (src cid reason : Z)     (* authenticated destroy *)
| ESweep                                (* do_circuits (with nothing to build) = do_remove *)
| EPing (outlens : list Z)              (* do_ping *)
| ERun (i : nat) (extend_ok : bool) (target to_cid number : Z) (p : pick) (outlens : list Z)
    (* the i-th deferred task runs; the oracles are used by the kinds that need them *)
| EWake (i : nat)                       (* the i-th sleeping remove_* task resumes *)
| ERetryTimeout (cid : Z)
| ECreatedTimeout (cid : Z)
| ECreateTimeout (number : Z)
| ECreateCircuit (cid goal : Z) (p : pick) (outlens : list Z)      (* create_circuit succeeded in starting *)
| ECallRemove (k : rkind) (cid destroy : Z) (remove_now : bool)    (* somebody calls remove_* *)
| ESendData (dst cid : Z) (outlens : list Z)                        (* send_data on a circuit id *)
| EOutside (cid len : Z) (allowed : bool) (outlens : list Z).       (* datagram from outside at an exit socket *)

Section Step.
Variable st : settings.

(* next length of a datagram put on the wire by this event (observed) *)
Definition take (ls : list Z) : Z * list Z := match ls with [] => (0, []) | x :: tl => (x, tl) end.

(* PythonCryptoEndpoint.send_cell: relay_early marking for own circuits, bytes_up for circuit / relay *)
Definition send_cell (s : node) (dst cid mid : Z) (ls : list Z) : node * list out * list Z :=
  let '(n, ls') := take ls in
  match aget cid (circuits s) with
  | Some c =>
      let early := origin_marks_early mid (c_early c) (s_max_early st) in
      let c1 := mkCirc (ro_up n (c_ro c)) (c_goal c) (c_hops c) (c_closing c) (c_unver c) (c_first c)
                       (if early then c_early c + 1 else c_early c) in
      (set_circuits (aset cid c1 (circuits s)) s, [OCell dst cid early mid], ls')
  | None =>
      match aget cid (relays s) with
      | Some r => (set_relays (aset cid (r_with_ro (ro_up n) r) (relays s)) s, [OCell dst cid false mid], ls')
      | None => (s, [OCell dst cid false mid], ls')
      end
  end.

(* send_initial_create (first hop) / send_extend (further hops): the common tail *)
Definition start_hop (s : node) (cid : Z) (c : circuit) (tries : Z) (initial : bool) (p : pick) (ls : list Z)
  : node * list out * list Z :=
  match p_next p with
  | None =>
      (* send_extend without any candidate: remove_circuit(..., "no candidates to extend") *)
      (defer (DRemove KCirc cid 0 false) s, [], ls)
  | Some nxt =>
      let c1 := mkCirc (c_ro c) (c_goal c) (c_hops c) (c_closing c) (Some nxt)
                       (if c_hops c =? 0 then nxt else c_first c) (c_early c) in
      let s1 := set_circuits (aset cid c1 (circuits s)) s in
      let s2 := set_retries (aset cid (mkRetry (p_ident p) (next_tries tries) (p_alts p) initial
                                               (now s + s_next_hop_timeout st)) (adel cid (retries s1))) s1 in
      send_cell s2 (c_first c1) cid (if initial then MSG_CREATE else MSG_EXTEND) ls
  end.

(* _ours_on_created_extended, entered with the retry cache of the circuit present *)
Definition ours (s : node) (cid : Z) (v : vres) (p : pick) (ls : list Z) : node * list out * list Z :=
  match aget cid (circuits s) with
  | None => (s, [], ls)                                        (* KeyError, caught by the dispatcher *)
  | Some c =>
      match c_unver c with
      | None => (s, [], ls)
      | Some h =>
          match v with
          | VRaise => (s, [], ls)
          | VValueError => (defer (DRemove KCirc cid 0 false) s, [], ls)
          | VOk =>
              let c1 := mkCirc (c_ro c) (c_goal c) (c_hops c + 1) (c_closing c) None
                               (if c_hops c =? 0 then h else c_first c) (c_early c) in
              let s1 := set_circuits (aset cid c1 (circuits s)) s in
              if c_state c1 =? CIRCUIT_STATE_EXTENDING then
                match aget cid (retries s1) with
                | None => (s1, [], ls)                          (* pop raises KeyError *)
                | Some rt => start_hop (set_retries (adel cid (retries s1)) s1) cid c1 (rt_tries rt) false p ls
                end
              else if c_state c1 =? CIRCUIT_STATE_READY then
                (set_retries (adel cid (retries s1)) s1, [], ls)
              else (s1, [], ls)
          end
      end
  end.

(* TunnelExitSocket.sendto for a permitted datagram to a literal address *)
Definition exit_sendto (cid : Z) (e : exitsock) (len : Z) (tnow : Z) : exitsock * list out :=
  if e_open e then
    (mkExit (ro_beat tnow (ro_up len (e_ro e))) (e_peer e) (e_enabled e) (e_open e) (e_queue e), [OSendto cid len])
  else
    let q := e_queue e ++ [len] in
    (mkExit (e_ro e) (e_peer e) (e_enabled e) (e_open e)
            (if EXIT_QUEUE_MAX <? zlen q then tl q else q), []).

Fixpoint drain (cid : Z) (e : exitsock) (q : list Z) (tnow : Z) : exitsock * list out :=
  match q with
  | [] => (e, [])
  | len :: tl =>
      let '(e1, o1) := exit_sendto cid e len tnow in
      let '(e2, o2) := drain cid e1 tl tnow in (e2, o1 ++ o2)
  end.

(* the handler reached through on_packet_from_circuit (exceptions are caught there) *)
Definition handle (s : node) (src cid : Z) (m : cellmsg) (ls : list Z) : node * list out * list Z :=
  match m with
  | MCreate ident => (defer (DCreate src cid ident) s, [], ls)
  | MExtend ident => (defer (DExtend src cid ident) s, [], ls)
  | MCreated ident v p =>
      match aget ident (creates s) with
      | Some cc =>
          let s1 := set_creates (adel ident (creates s)) s in
          (* a created for an id that already has a relay route (the stale answer of a node the originator
             replaced, arriving while the old exit socket awaits its delayed removal) is refused *)
          if ahas (cc_from cc) (relays s1) then (s1, [], ls)
          else
          match aget (cc_from cc) (exits s1) with
          | None => (s1, [], ls)
          | Some _ =>
              let s2 := defer (DRemove KExit (cc_from cc) 0 true) s1 in
              let bw := mkRelay (ro_new (now s)) (cc_from cc) (cc_peer cc) false RELAY_EARLY_INIT in
              let fw := mkRelay (ro_new (now s)) (cc_to cc) (cc_to_peer cc) true RELAY_EARLY_INIT in
              let s3 := set_relays (aset (cc_from cc) fw (aset (cc_to cc) bw (relays s2))) s2 in
              send_cell s3 (cc_peer cc) (cc_from cc) MSG_EXTENDED ls
          end
      | None =>
          match aget cid (retries s) with
          | Some rt => if rt_ident rt =? ident then ours s cid v p ls else (s, [], ls)
          | None => (s, [], ls)
          end
      end
  | MExtended ident v p =>
      match aget cid (retries s) with
      | Some rt => if rt_ident rt =? ident then ours s cid v p ls else (s, [], ls)
      | None => (s, [], ls)
      end
  | MData _ _ _ _ => (s, [], ls)                                (* dispatched to handle_data *)
  | MPing =>
      if ahas cid (circuits s) || ahas cid (exits s) || ahas cid (relays s) then
        let s1 := match aget cid (exits s) with
                  | Some e => set_exits (aset cid (e_with_ro (ro_beat (now s)) e) (exits s)) s
                  | None => s
                  end in
        send_cell s1 src cid MSG_PONG ls
      else (s, [], ls)
  | MPong => (s, [], ls)
  | MOther _ => (s, [], ls)
  end.

(* on_data: own circuit (origin set, from the first hop) or the exit branch *)
Definition handle_data (s : node) (src cid : Z) (origin_set dest_null allowed : bool) (len : Z)
  : node * list out :=
  let own := match aget cid (circuits s) with
             | Some c => origin_set && (src =? c_first c)
             | None => false
             end in
  if own then
    match aget cid (circuits s) with
    | Some c => (set_circuits (aset cid (c_with_ro (ro_beat (now s)) c) (circuits s)) s, [])
    | None => (s, [])
    end
  else if dest_null then (s, [])
  else
    match aget cid (exits s) with
    | None => (s, [])
    | Some e =>
        (* exit_data: enable on first use, provided the sender is the previous hop *)
        if negb (e_enabled e) && negb (src =? e_peer e) then (s, [])
        else
          let fresh := negb (e_enabled e) in
          let e1 := mkExit (e_ro e) (e_peer e) true (e_open e) (e_queue e) in
          let '(e2, o) := if allowed then exit_sendto cid e1 len (now s) else (e1, []) in
          let s1 := set_exits (aset cid e2 (exits s)) s in
          (if fresh then defer (DOpen cid) s1 else s1, o)
    end.

(* PythonCryptoEndpoint.process_cell *)
Definition recv_cell (s : node) (src cid : Z) (plain early : bool) (len : Z) (cr : crypt) (ls : list Z)
  : node * list out :=
  match aget cid (relays s) with
  | Some nxt =>
      (* relay: the entry of the other direction is refreshed, then relay_cell *)
      let s1 := match aget (r_next nxt) (relays s) with
                | Some this => set_relays (aset (r_next nxt)
                                 (r_with_ro (fun r => ro_down len (ro_beat (now s) r)) this) (relays s)) s
                | None => s
                end in
      if plain then (s1, [])
      else
        match aget cid (relays s1) with
        | None => (s1, [])
        | Some nxt1 =>
            if relay_drops_early early (r_early nxt1) (s_max_early st) then (s1, [])
            else match cr with
                 | COk _ =>
                     let '(n, _) := take ls in
                     let nxt2 := mkRelay (ro_up n (r_ro nxt1)) (r_next nxt1) (r_peer nxt1) (r_fwd nxt1)
                                         (r_early nxt1 + 1) in
                     (set_relays (aset cid nxt2 (relays s1)) s1, [OCell (r_peer nxt1) (r_next nxt1) early 0])
                 | _ => (s1, [])
                 end
        end
  | None =>
      if negb (ahas cid (circuits s)) && negb (ahas cid (exits s)) && negb plain then (s, [])
      else
        match cr with
        | CFail | CEmpty => (s, [])
        | COk m =>
            if recv_drops_early early (msg_id m) (s_max_early st) then (s, [])
            else if plain && negb (existsb (Z.eqb (msg_id m)) NO_CRYPTO_PACKETS) then (s, [])
            else
              let '(s1, o) := match m with
                              | MData a b c l => handle_data s src cid a b c l
                              | _ => let '(s', o', _) := handle s src cid m ls in (s', o')
                              end in
              (* back in process_cell: the circuit (if any) is refreshed *)
              match aget cid (circuits s1) with
              | Some c => (set_circuits (aset cid (c_with_ro (fun r => ro_down len (ro_beat (now s) r)) c)
                                              (circuits s1)) s1, o)
              | None => (s1, o)
              end
        end
  end.

(* on_destroy *)
Definition recv_destroy (s : node) (src cid reason : Z) : node :=
  let relay_case :=
    match aget cid (relays s) with
    | Some nxt => match aget (r_next nxt) (relays s) with
                  | Some prev => if src =? r_peer prev then Some nxt else None
                  | None => None
                  end
    | None => None
    end in
  match relay_case with
  | Some nxt => defer (DRemove KRelay (r_next nxt) 0 false) (defer (DRemove KRelay cid reason false) s)
  | None =>
      match aget cid (exits s) with
      | Some e => if src =? e_peer e then defer (DRemove KExit cid 0 false) s
                  else match aget cid (circuits s) with
                       | Some c => if src =? c_first c then defer (DRemove KCirc cid 0 false) s else s
                       | None => s
                       end
      | None => match aget cid (circuits s) with
                | Some c => if src =? c_first c then defer (DRemove KCirc cid 0 false) s else s
                | None => s
                end
      end
  end.

(* do_remove *)
Definition rule_to_start (k : rkind) (cid : Z) (r : option bool) : list deferred :=
  match r with
  | Some d => [DRemove k cid (if d then 1 else 0) false]
  | None => []
  end.
Definition circ_rule (tnow : Z) (c : circuit) : option bool :=
  sweep_circuit_rule (c_state c) (creation (c_ro c)) (la (c_ro c)) (up (c_ro c)) (down (c_ro c)) tnow
                     (s_max_inactive st) (s_max_time st) (s_max_traffic st).
Definition relay_rule (tnow : Z) (r : relay) : option bool :=
  sweep_relay_rule (creation (r_ro r)) (la (r_ro r)) (up (r_ro r)) (down (r_ro r)) tnow
                   (s_max_inactive st) (s_max_time st) (s_max_traffic st).
Definition exit_rule (tnow : Z) (e : exitsock) : option bool :=
  sweep_exit_rule (creation (e_ro e)) (la (e_ro e)) (up (e_ro e)) (down (e_ro e)) tnow
                  (s_max_inactive st) (s_max_time st) (s_max_traffic st).
Definition sweep_starts (s : node) : list deferred :=
  flat_map (fun kc => rule_to_start KCirc (fst kc) (circ_rule (now s) (snd kc))) (circuits s)
  ++ flat_map (fun kr => rule_to_start KRelay (fst kr) (relay_rule (now s) (snd kr))) (relays s)
  ++ flat_map (fun ke => rule_to_start KExit (fst ke) (exit_rule (now s) (snd ke))) (exits s).
Definition sweep (s : node) : node :=
  set_last_sweep (now s) (set_starts (starts s ++ sweep_starts s) s).

(* do_ping *)
Fixpoint ping_all (s : node) (cs : list (Z * circuit)) (ls : list Z) : node * list out :=
  match cs with
  | [] => (s, [])
  | (cid, _) :: tl =>
      match aget cid (circuits s) with
      | Some c =>
          if negb (c_closing c) && (0 <? c_hops c) then
            let '(s1, o1, ls1) := send_cell s (c_first c) cid MSG_PING ls in
            let '(s2, o2) := ping_all s1 tl ls1 in (s2, o1 ++ o2)
          else ping_all s tl ls
      | None => ping_all s tl ls
      end
  end.

(* the end of a remove_* task: the entry leaves its table *)
Definition finish_remove (s : node) (k : rkind) (cid : Z) : node * list out :=
  match k with
  | KCirc => (set_circuits (adel cid (circuits s)) s, [])
  | KRelay => (set_relays (adel cid (relays s)) s, [])
  | KExit =>
      match aget cid (exits s) with
      | None => (s, [])
      | Some e =>
          let s1 := set_exits (adel cid (exits s)) s in
          (* shutdown_task_manager cancels a create_transports task that did not run yet *)
          let s2 := set_starts (filter (fun d => match d with DOpen c => negb (c =? cid) | _ => true end)
                                       (starts s1)) s1 in
          (s2, if e_enabled e && e_open e then [OClose cid] else [])
      end
  end.

(* a remove_* task up to its sleep *)
Definition start_remove (s : node) (k : rkind) (cid destroy : Z) (remove_now : bool) : node * list out :=
  let '(s1, o, gone) :=
    match k with
    | KCirc =>
        let s0 := set_retries (adel cid (retries s)) s in
        match aget cid (circuits s0) with
        | None => (s0, [], true)
        | Some c =>
            let c1 := mkCirc (c_ro c) (c_goal c) (c_hops c) true (c_unver c) (c_first c) (c_early c) in
            (set_circuits (aset cid c1 (circuits s0)) s0,
             if destroy =? 0 then [] else [ODestroy (c_first c) cid destroy], false)
        end
    | KRelay =>
        (s, match aget cid (relays s) with
            | Some r => if destroy =? 0 then [] else [ODestroy (r_peer r) (r_next r) destroy]
            | None => []
            end, false)
    | KExit =>
        (s, match aget cid (exits s) with
            | Some e => if destroy =? 0 then [] else [ODestroy (e_peer e) cid destroy]
            | None => []
            end, false)
    end in
  if gone then (s1, o)
  else if negb remove_now || (0 <? s_remove_delay st)
       then (set_sleeping (sleeping s1 ++ [(now s1 + s_remove_delay st, k, cid)]) s1, o)
       else let '(s2, o2) := finish_remove s1 k cid in (s2, o ++ o2).

(* bodies of the deferred tasks *)
Definition run_deferred (s : node) (d : deferred) (extend_ok : bool) (target to_cid number : Z) (p : pick)
           (ls : list Z) : node * list out :=
  match d with
  | DRemove k cid destroy remove_now => start_remove s k cid destroy remove_now
  | DCreate src cid ident =>
      if negb (s_any_flag st) then (s, [])
      else if ahas cid (createds s) then (s, [])
      else if ahas cid (circuits s) || ahas cid (relays s) || ahas cid (exits s) then (s, [])
      else if negb (should_join (s_max_joined st) (zlen (relays s)) (zlen (exits s))) then (s, [])
      else
        (* join_circuit *)
        let s1 := set_createds (aset cid (now s + s_unstable_timeout st) (createds s)) s in
        let s2 := set_exits (aset cid (mkExit (ro_new (now s)) src false false []) (exits s1)) s1 in
        let '(s3, o, _) := send_cell s2 src cid MSG_CREATED ls in (s3, o)
  | DExtend src cid ident =>
      if negb (s_relay_flag st) then (s, [])
      else if negb (ahas cid (createds s)) then (s, [])
      else if negb extend_ok then (s, [])
      else
        let cand := match aget cid (circuits s) with
                    | Some c => Some (c_first c)
                    | None => match aget cid (exits s) with
                              | Some e => Some (e_peer e)
                              | None => match aget cid (relays s) with
                                        | Some r => Some (r_peer r)
                                        | None => None
                                        end
                              end
                    end in
        match cand with
        | None => (s, [])
        | Some prev =>
            let s1 := set_creates (aset number (mkCreateC ident to_cid cid prev target
                                                          (now s + s_cache_timeout st)) (creates s)) s in
            let '(s2, o, _) := send_cell s1 target to_cid MSG_CREATE ls in (s2, o)
        end
  | DRetry cid tries initial =>
      match aget cid (circuits s) with
      | None => (s, [])
      | Some c => let '(s1, o, _) := start_hop s cid c tries initial p ls in (s1, o)
      end
  | DOpen cid =>
      match aget cid (exits s) with
      | None => (s, [])
      | Some e =>
          if e_enabled e && negb (e_open e) then
            let e1 := mkExit (e_ro e) (e_peer e) true true [] in
            let '(e2, o) := drain cid e1 (e_queue e) (now s) in
            (set_exits (aset cid e2 (exits s)) s, OOpen cid :: o)
          else (s, [])
      end
  end.

Definition step_at (s : node) (e : ev) : node * list out :=
  match e with
  | ERecvCell src cid plain early len cr ls => recv_cell s src cid plain early len cr ls
  | ERecvDestroy src cid reason => (recv_destroy s src cid reason, [])
  | ESweep => (sweep s, [])
  | EPing ls => ping_all s (circuits s) ls
  | ERun i extend_ok target to_cid number p ls =>
      match nth_error (starts s) i with
      | None => (s, [])
      | Some d => run_deferred (set_starts (remove_nth i (starts s)) s) d extend_ok target to_cid number p ls
      end
  | EWake i =>
      match nth_error (sleeping s) i with
      | None => (s, [])
      | Some (_, k, cid) => finish_remove (set_sleeping (remove_nth i (sleeping s)) s) k cid
      end
  | ERetryTimeout cid =>
      match aget cid (retries s) with
      | None => (s, [])
      | Some rt =>
          let s1 := set_retries (adel cid (retries s)) s in
          match aget cid (circuits s1) with
          | None => (s1, [])                     (* the circuit object was closed and popped *)
          | Some c =>
              if c_closing c then (s1, [])
              else if retry_gives_up (rt_cands rt) (rt_tries rt)
                   then (defer (DRemove KCirc cid 0 false) s1, [])
                   else (defer (DRetry cid (rt_tries rt) (rt_initial rt)) s1, [])
          end
      end
  | ECreatedTimeout cid => (set_createds (adel cid (createds s)) s, [])
  | ECreateTimeout number => (set_creates (adel number (creates s)) s, [])
  | ECreateCircuit cid goal p ls =>
      match p_next p with
      | None => (s, [])       (* create_circuit returns before creating anything when it has no first hop *)
      | Some _ =>
          let c := mkCirc (ro_new (now s)) goal 0 false None 0 CIRCUIT_EARLY_INIT in
          let s1 := set_circuits (aset cid c (circuits s)) s in
          let '(s2, o, _) := start_hop s1 cid c (initial_tries (s_circuit_timeout st) (s_next_hop_timeout st))
                                       true p ls in (s2, o)
      end
  | ECallRemove k cid destroy remove_now => (defer (DRemove k cid destroy remove_now) s, [])
  | ESendData dst cid ls => let '(s1, o, _) := send_cell s dst cid MSG_DATA ls in (s1, o)
  | EOutside cid len allowed ls =>
      match aget cid (exits s) with
      | None => (s, [])
      | Some e =>
          let s1 := set_exits (aset cid (e_with_ro (ro_down len) e) (exits s)) s in
          if allowed then let '(s2, o, _) := send_cell s1 (e_peer e) cid MSG_DATA ls in (s2, o)
          else (s1, [])
      end
  end.

(* an event happens at a time *)
Definition step (s : node) (te : Z * ev) : node * list out := step_at (set_now (fst te) s) (snd te).

Fixpoint run (s : node) (tr : list (Z * ev)) : node * list out :=
  match tr with
  | [] => (s, [])
  | te :: tl => let '(s1, o1) := step s te in let '(s2, o2) := run s1 tl in (s2, o1 ++ o2)
  end.

(* ------------------------------------------------- the timing the event loop is assumed to provide *)
(* checked before an event at time t is applied to s *)
Definition on_time (s : node) (t : Z) : bool :=
  (now s <=? t)
  && (t - last_sweep s <=? s_sweep st)                                 (* the sweep task is not late *)
  && forallb (fun x => t <=? fst (fst x)) (sleeping s)                 (* no wake-up is overdue *)
  && forallb (fun kr => t <=? rt_due (snd kr)) (retries s)             (* no retry time-out is overdue *)
  && ((now s =? t) || match starts s with [] => true | _ => false end). (* created tasks run before time moves *)

Fixpoint timely (s : node) (tr : list (Z * ev)) : bool :=
  match tr with
  | [] => true
  | te :: tl => on_time s (fst te) && timely (fst (step s te)) tl
  end.

End Step.

(* ------------------------------------------------- comparison of states (correspondence harness) *)
Definition ro_eqb (a b : ro) : bool :=
  (creation a =? creation b) && (la a =? la b) && (up a =? up b) && (down a =? down b).
Definition optz_eqb (a b : option Z) : bool :=
  match a, b with Some x, Some y => x =? y | None, None => true | _, _ => false end.
Definition circuit_eqb (a b : circuit) : bool :=
  ro_eqb (c_ro a) (c_ro b) && (c_goal a =? c_goal b) && (c_hops a =? c_hops b)
  && Bool.eqb (c_closing a) (c_closing b) && optz_eqb (c_unver a) (c_unver b)
  && (c_first a =? c_first b) && (c_early a =? c_early b).
Definition relay_eqb (a b : relay) : bool :=
  ro_eqb (r_ro a) (r_ro b) && (r_next a =? r_next b) && (r_peer a =? r_peer b)
  && Bool.eqb (r_fwd a) (r_fwd b) && (r_early a =? r_early b).
Fixpoint zlist_eqb (a b : list Z) : bool :=
  match a, b with
  | [], [] => true
  | x :: a', y :: b' => (x =? y) && zlist_eqb a' b'
  | _, _ => false
  end.
Definition exit_eqb (a b : exitsock) : bool :=
  ro_eqb (e_ro a) (e_ro b) && (e_peer a =? e_peer b) && Bool.eqb (e_enabled a) (e_enabled b)
  && Bool.eqb (e_open a) (e_open b) && zlist_eqb (e_queue a) (e_queue b).
Definition retry_eqb (a b : retry) : bool :=
  (rt_ident a =? rt_ident b) && (rt_tries a =? rt_tries b) && Bool.eqb (rt_cands a) (rt_cands b)
  && Bool.eqb (rt_initial a) (rt_initial b) && (rt_due a =? rt_due b).
Definition createc_eqb (a b : createc) : bool :=
  (cc_ident a =? cc_ident b) && (cc_to a =? cc_to b) && (cc_from a =? cc_from b)
  && (cc_peer a =? cc_peer b) && (cc_to_peer a =? cc_to_peer b) && (cc_due a =? cc_due b).
Fixpoint alist_eqb {A} (eqb : A -> A -> bool) (a b : list (Z * A)) : bool :=
  match a, b with
  | [], [] => true
  | (k, v) :: a', (k', v') :: b' => (k =? k') && eqb v v' && alist_eqb eqb a' b'
  | _, _ => false
  end.
Definition deferred_eqb (a b : deferred) : bool :=
  match a, b with
  | DRemove k c d n, DRemove k' c' d' n' => rkind_eqb k k' && (c =? c') && (d =? d') && Bool.eqb n n'
  | DCreate s c i, DCreate s' c' i' => (s =? s') && (c =? c') && (i =? i')
  | DExtend s c i, DExtend s' c' i' => (s =? s') && (c =? c') && (i =? i')
  | DRetry c t i, DRetry c' t' i' => (c =? c') && (t =? t') && Bool.eqb i i'
  | DOpen c, DOpen c' => c =? c'
  | _, _ => false
  end.
Fixpoint list_eqb {A} (eqb : A -> A -> bool) (a b : list A) : bool :=
  match a, b with
  | [], [] => true
  | x :: a', y :: b' => eqb x y && list_eqb eqb a' b'
  | _, _ => false
  end.
Definition sleep_eqb (a b : Z * rkind * Z) : bool :=
  (fst (fst a) =? fst (fst b)) && rkind_eqb (snd (fst a)) (snd (fst b)) && (snd a =? snd b).
Definition node_eqb (a b : node) : bool :=
  (now a =? now b) && (last_sweep a =? last_sweep b)
  && alist_eqb circuit_eqb (circuits a) (circuits b) && alist_eqb relay_eqb (relays a) (relays b)
  && alist_eqb exit_eqb (exits a) (exits b) && alist_eqb retry_eqb (retries a) (retries b)
  && alist_eqb Z.eqb (createds a) (createds b) && alist_eqb createc_eqb (creates a) (creates b)
  && list_eqb deferred_eqb (starts a) (starts b) && list_eqb sleep_eqb (sleeping a) (sleeping b).
Definition out_eqb (a b : out) : bool :=
  match a, b with
  | OCell d c e m, OCell d' c' e' m' => (d =? d') && (c =? c') && Bool.eqb e e' && (m =? m')
  | ODestroy d c r, ODestroy d' c' r' => (d =? d') && (c =? c') && (r =? r')
  | OSendto c l, OSendto c' l' => (c =? c') && (l =? l')
  | OOpen c, OOpen c' => c =? c'
  | OClose c, OClose c' => c =? c'
  | _, _ => false
  end.
