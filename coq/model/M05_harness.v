(* Executable instance of the control-plane model (toy AEAD of M04_harness), decidable equality on states
   and actions, and the case runner of the C05 lockstep correspondence.  No proofs here. *)
From Coq Require Import ZArith List Bool Lia.
From IPV8V Require Import lib.PyErr lib.Bytes lib.BE model.M02_wire model.M03_recv model.M04_onion model.M04_harness
  model.M05_isolation.
Import ListNotations.
Open Scope Z_scope.

Notation tcnode := (cnode Z).
Notation tcop := (cop Z Z).

Definition peer_eqb_full (a b : peer) : bool := (pr_pk a =? pr_pk b) && addr_eqb (pr_addr a) (pr_addr b).
Definition created_eqb (a b : created_cache) : bool :=
  peer_eqb_full (cc_peer a) (cc_peer b)
  && list_eqb (fun x y => (fst x =? fst y) && peer_eqb_full (snd x) (snd y)) (cc_candidates a) (cc_candidates b).
Definition create_eqb (a b : create_cache) : bool :=
  (cr_ident a =? cr_ident b) && (cr_to a =? cr_to b) && (cr_from a =? cr_from b)
  && peer_eqb_full (cr_peer a) (cr_peer b) && peer_eqb_full (cr_to_peer a) (cr_to_peer b).
Definition pending_key (p : pending) : Z * Z :=
  match p with PRelay c => (0, c) | PExit c => (1, c) | PCircuit c => (2, c) end.
Definition pending_eqb (a b : pending) : bool :=
  (fst (pending_key a) =? fst (pending_key b)) && (snd (pending_key a) =? snd (pending_key b)).

(* pending removals are compared as multisets (sorted by kind and id) *)
Fixpoint insert_p (x : pending) (l : list pending) : list pending :=
  match l with
  | [] => [x]
  | y :: tl =>
      let '(a1, a2) := pending_key x in let '(b1, b2) := pending_key y in
      if (a1 <? b1) || ((a1 =? b1) && (a2 <=? b2)) then x :: l else y :: insert_p x tl
  end.
Definition sort_p (l : list pending) : list pending := fold_right insert_p [] l.

Definition cnode_eqb (a b : tcnode) : bool :=
  node_eqb (cn_tab a) (cn_tab b)
  && tab_eqb created_eqb (sort_tab (cn_created a)) (sort_tab (cn_created b))
  && tab_eqb create_eqb (sort_tab (cn_create a)) (sort_tab (cn_create b))
  && list_eqb pending_eqb (sort_p (cn_pending a)) (sort_p (cn_pending b))
  && (cn_max_joined a =? cn_max_joined b).

Definition cact_eqb (a b : cact) : bool :=
  match a, b with
  | CCell d c m p, CCell d' c' m' p' => addr_eqb d d' && (c =? c') && (m =? m') && Bool.eqb p p'
  | CDestroy d c r, CDestroy d' c' r' => addr_eqb d d' && (c =? c') && (r =? r')
  | CData x, CData y => action_eqb x y
  | _, _ => false
  end.

Definition coutcome := res (tcnode * list cact).
Definition coutcome_eqb : coutcome -> coutcome -> bool :=
  res_eqb (fun a b => cnode_eqb (fst a) (fst b) && list_eqb cact_eqb (snd a) (snd b)).

Definition ccase := (tcnode * tcop)%type.
Definition run_ccase (c : ccase) : coutcome := cstep tenc tdec (fst c) (snd c).

(* a whole history: final state and everything emitted *)
Definition hcase := (tcnode * list tcop)%type.
Definition run_hcase (c : hcase) : coutcome := crun tenc tdec (fst c) (snd c).
