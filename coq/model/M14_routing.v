(* C14 - executable model of ipv8/dht/trie.py and ipv8/dht/routing.py (Bucket, RoutingTable).
   No proofs here.  Identifiers are bit lists, most significant bit first (the code's
   id_to_binary_string); the width W and the bucket capacity cap are parameters (the code: 160, 8).

   Python                                   model
   ------                                   -----
   trie.Node(value, children)               TNode v c0 c1   (absent child = Empty)
   Trie._find / __getitem__ / __setitem__   tfind / tget / tset
   Trie.__delitem__                         tdel (tdel_aux prunes value-less leaf chains)
   Trie.longest_prefix_item                 lpi   (never looks at the root's own value, as the code)
   Trie.suffixes / values                   tkeys (tfind t key) / tvalues
   Bucket(prefix_id, nodes dict)            bucket (nodes in dict insertion order)
   Bucket.owns / add / split / generate_id  owns / badd / bsplit / gen_id
   RoutingTable.get_bucket / add /          find_bucket / rt_add / rt_remove_bad / rt_get / closest
     remove_bad_nodes / get / closest_nodes
   distance                                 dist  (XOR of the two integers)
   node.rtt / node.failed set by the        rt_touch
     community on a node of the table                                                          *)
From Coq Require Import ZArith List Bool Arith.
From IPV8V Require Import lib.PyErr.
Import ListNotations.
Open Scope Z_scope.

(* ------------------------------------------------------------------ identifiers *)
Definition bits := list bool.

Fixpoint bits_eqb (a b : bits) : bool :=
  match a, b with
  | [], [] => true
  | x :: a', y :: b' => Bool.eqb x y && bits_eqb a' b'
  | _, _ => false
  end.

(* str.startswith *)
Fixpoint starts_with (p l : bits) : bool :=
  match p, l with
  | [], _ => true
  | x :: p', y :: l' => Bool.eqb x y && starts_with p' l'
  | _ :: _, [] => false
  end.

(* int(binary_string, 2) *)
Fixpoint bitsZ_acc (l : bits) (acc : Z) : Z :=
  match l with [] => acc | b :: t => bitsZ_acc t (2 * acc + Z.b2z b) end.
Definition bitsZ (l : bits) : Z := bitsZ_acc l 0.

(* format(z, "0<w>b") for 0 <= z < 2^w *)
Fixpoint Z_to_bits_acc (w : nat) (z : Z) (acc : bits) : bits :=
  match w with O => acc | S w' => Z_to_bits_acc w' (Z.div2 z) (Z.odd z :: acc) end.
Definition Z_to_bits (w : nat) (z : Z) : bits := Z_to_bits_acc w z [].

(* routing.distance: int(a) ^ int(b) *)
Definition dist (a b : bits) : Z := Z.lxor (bitsZ a) (bitsZ b).

(* ------------------------------------------------------------------ trie.py *)
Inductive trie (A : Type) : Type :=
| Empty                                                  (* no such child *)
| TNode (v : option A) (c0 c1 : trie A).
Arguments Empty {A}.
Arguments TNode {A} v c0 c1.

Section Trie.
Context {A : Type}.

Definition child (x : bool) (t : trie A) : trie A :=
  match t with Empty => Empty | TNode _ c0 c1 => if x then c1 else c0 end.

Definition empty_root : trie A := TNode None Empty Empty.     (* Trie("01") *)

Fixpoint tfind (t : trie A) (key : bits) : trie A :=          (* _find; Empty = None *)
  match key with [] => t | x :: k => tfind (child x t) k end.

Definition tget (t : trie A) (key : bits) : res A :=          (* __getitem__ *)
  match tfind t key with TNode (Some v) _ _ => Ok v | _ => Raise KeyError end.

Fixpoint tset (t : trie A) (key : bits) (v : A) : trie A :=   (* __setitem__ *)
  match key with
  | [] => match t with Empty => TNode (Some v) Empty Empty | TNode _ c0 c1 => TNode (Some v) c0 c1 end
  | x :: k =>
      match t with
      | Empty => if x then TNode None Empty (tset Empty k v) else TNode None (tset Empty k v) Empty
      | TNode w c0 c1 => if x then TNode w c0 (tset c1 k v) else TNode w (tset c0 k v) c1
      end
  end.

Definition is_empty (t : trie A) : bool := match t with Empty => true | _ => false end.

(* __delitem__ below the root: None = KeyError; Some Empty = this node was pruned from its parent
   (it had no value and no children left). *)
Fixpoint tdel_aux (t : trie A) (key : bits) : option (trie A) :=
  match key with
  | [] =>
      match t with
      | TNode (Some _) c0 c1 => if is_empty c0 && is_empty c1 then Some Empty else Some (TNode None c0 c1)
      | _ => None
      end
  | x :: k =>
      match t with
      | Empty => None
      | TNode w c0 c1 =>
          match tdel_aux (if x then c1 else c0) k with
          | None => None
          | Some c' =>
              let c0' := if x then c0 else c' in
              let c1' := if x then c' else c1 in
              match w with
              | None => if is_empty c0' && is_empty c1' then Some Empty else Some (TNode w c0' c1')
              | Some _ => Some (TNode w c0' c1')
              end
          end
      end
  end.

(* the root object itself is never removed *)
Definition tdel (t : trie A) (key : bits) : res (trie A) :=
  match tdel_aux t key with
  | None => Raise KeyError
  | Some Empty => Ok empty_root
  | Some t' => Ok t'
  end.

(* the pinned tree's __delitem__ pushed a sentinel ("", root) and popped children[""] from the root
   when the whole trie became empty: KeyError although the key was present (see C14 findings) *)
Definition tdel_pinned (t : trie A) (key : bits) : res (trie A) :=
  match tdel_aux t key with
  | None => Raise KeyError
  | Some Empty => Raise KeyError
  | Some t' => Ok t'
  end.

Fixpoint tvalues (t : trie A) : list A :=                     (* values(), '0' child first *)
  match t with
  | Empty => []
  | TNode v c0 c1 => (match v with Some a => [a] | None => [] end) ++ tvalues c0 ++ tvalues c1
  end.

Fixpoint tkeys (t : trie A) : list bits :=                    (* keys below t, relative to t *)
  match t with
  | Empty => []
  | TNode v c0 c1 =>
      (match v with Some _ => [[]] | None => [] end)
        ++ map (cons false) (tkeys c0) ++ map (cons true) (tkeys c1)
  end.

Definition suffixes (t : trie A) (key : bits) : list bits := tkeys (tfind t key).

(* deepest value on the path of key, counting the value of t itself *)
Fixpoint lpi_from (t : trie A) (key : bits) : option (bits * A) :=
  match t with
  | Empty => None
  | TNode v c0 c1 =>
      let deeper :=
        match key with
        | [] => None
        | x :: k => match lpi_from (if x then c1 else c0) k with
                    | Some (p, a) => Some (x :: p, a) | None => None end
        end in
      match deeper with
      | Some r => Some r
      | None => match v with Some a => Some ([], a) | None => None end
      end
  end.

(* longest_prefix_item: the loop starts at the root's children, the root's value is never used *)
Definition lpi (t : trie A) (key : bits) : option (bits * A) :=
  match t, key with
  | TNode _ c0 c1, x :: k =>
      match lpi_from (if x then c1 else c0) k with Some (p, a) => Some (x :: p, a) | None => None end
  | _, _ => None
  end.

Fixpoint tmap (f : A -> A) (t : trie A) : trie A :=
  match t with
  | Empty => Empty
  | TNode v c0 c1 => TNode (option_map f v) (tmap f c0) (tmap f c1)
  end.

Fixpoint mapM {B C} (f : B -> res C) (l : list B) : res (list C) :=
  match l with
  | [] => Ok []
  | x :: tl => do y <- f x; do ys <- mapM f tl; Ok (y :: ys)
  end.

(* [self.trie[key + suffix] for suffix in self.trie.suffixes(key)] *)
Definition under (t : trie A) (key : bits) : res (list A) :=
  mapM (fun s => tget t (key ++ s)) (suffixes t key).

End Trie.

(* ------------------------------------------------------------------ routing.py *)
Record node := mkNode {
  nid : bits;
  ntag : Z;          (* identity of the Python Node object (harness serial); never read by the code *)
  naddr : Z;         (* address; replaced when a known id is added again *)
  nrtt : Z;
  nfailed : Z
}.

Definition is_bad (n : node) : bool := 2 <=? nfailed n.        (* status == NODE_STATUS_BAD *)

Record bucket := mkBucket { bprefix : bits; bnodes : list node }.

Definition owns (b : bucket) (i : bits) : bool := starts_with (bprefix b) i.

Fixpoint find_node (i : bits) (ns : list node) : option node :=
  match ns with
  | [] => None
  | n :: tl => if bits_eqb (nid n) i then Some n else find_node i tl
  end.

Definition has_id (i : bits) (ns : list node) : bool :=
  match find_node i ns with Some _ => true | None => false end.

Fixpoint remove_first (f : node -> bool) (ns : list node) : list node :=
  match ns with
  | [] => []
  | n :: tl => if f n then tl else n :: remove_first f tl
  end.

(* node.rtt and n.rtt / node.rtt >= 2.0   (integer rtts) *)
Definition slow (new old : node) : bool :=
  negb (nrtt new =? 0) &&
  (if 0 <? nrtt new then 2 * nrtt new <=? nrtt old else nrtt old <=? 2 * nrtt new).

Definition set_addr (i : bits) (a : Z) (ns : list node) : list node :=
  map (fun m => if bits_eqb (nid m) i then mkNode (nid m) (ntag m) a (nrtt m) (nfailed m) else m) ns.

Definition set_status (i : bits) (rtt failed : Z) (ns : list node) : list node :=
  map (fun m => if bits_eqb (nid m) i then mkNode (nid m) (ntag m) (naddr m) rtt failed else m) ns.

Section Routing.
Variable W : nat.        (* identifier width *)
Variable cap : nat.      (* Bucket.max_size *)

(* Bucket.add *)
Definition badd (b : bucket) (n : node) : bucket * bool :=
  if negb (owns b (nid n)) then (b, false)
  else if has_id (nid n) (bnodes b)
  then (mkBucket (bprefix b) (set_addr (nid n) (naddr n) (bnodes b)), true)
  else
    let ns := if (cap <=? length (bnodes b))%nat
              then remove_first (slow n) (remove_first is_bad (bnodes b))
              else bnodes b in
    if (length ns <? cap)%nat then (mkBucket (bprefix b) (ns ++ [n]), true)
    else (mkBucket (bprefix b) ns, false).

(* Bucket.split *)
Definition split_step (bb : bucket * bucket) (n : node) : bucket * bucket :=
  let (b0, b1) := bb in
  if owns b0 (nid n) then (fst (badd b0 n), b1)
  else if owns b1 (nid n) then (b0, fst (badd b1 n))
  else (b0, b1).

Definition bsplit (b : bucket) : option (bucket * bucket) :=
  if (length (bnodes b) <? cap)%nat then None
  else Some (fold_left split_step (bnodes b)
                       (mkBucket (bprefix b ++ [false]) [], mkBucket (bprefix b ++ [true]) [])).

(* Bucket.generate_id with the random draw r = random.randint(0, 2 ** (W - len(prefix)) - 1) *)
Definition gen_id (b : bucket) (r : Z) : bits :=
  bprefix b ++ Z_to_bits (W - length (bprefix b)) r.

(* the pinned tree: format(random.randint(0, 2 ** (W - len(prefix))), "0<W>b"), prefix ignored *)
Definition gen_id_pinned (b : bucket) (r : Z) : bits := Z_to_bits W r.

Record rtable := mkRT { own : bits; tr : trie bucket }.

Definition rt_init (o : bits) : rtable := mkRT o (tset empty_root [] (mkBucket [] [])).

(* get_bucket: longest_prefix_value(id, default=None) or self.trie[""]; also yields the key under
   which the bucket object is stored (the object is mutated in place by Bucket.add) *)
Definition find_bucket (t : trie bucket) (i : bits) : res (bits * bucket) :=
  match lpi t i with
  | Some kb => Ok kb
  | None => do b <- tget t []; Ok ([], b)
  end.

Fixpoint rt_add_fuel (fuel : nat) (rt : rtable) (n : node) : res (rtable * option node) :=
  match fuel with
  | O => Raise OutOfFuel
  | S f =>
      do kb <- find_bucket (tr rt) (nid n);
      let (key, b) := kb in
      let (b', ok) := badd b n in
      let t1 := tset (tr rt) key b' in
      if ok then Ok (mkRT (own rt) t1, find_node (nid n) (bnodes b'))
      else if owns b' (own rt) then
        match bsplit b' with
        | None => Ok (mkRT (own rt) t1, None)
        | Some (b0, b1) =>
            let t2 := tset t1 (bprefix b' ++ [false]) b0 in
            let t3 := tset t2 (bprefix b' ++ [true]) b1 in
            do t4 <- tdel t3 (bprefix b');
            rt_add_fuel f (mkRT (own rt) t4) n
        end
      else Ok (mkRT (own rt) t1, None)
  end.

(* RoutingTable.add: the code recurses once per split; W + 1 levels always suffice (proved) *)
Definition rt_add (rt : rtable) (n : node) : res (rtable * option node) := rt_add_fuel (S W) rt n.

Definition drop_bad (b : bucket) : bucket :=
  mkBucket (bprefix b) (filter (fun n => negb (is_bad n)) (bnodes b)).

(* remove_bad_nodes: new table and the removed nodes *)
Definition rt_remove_bad (rt : rtable) : rtable * list node :=
  (mkRT (own rt) (tmap drop_bad (tr rt)),
   flat_map (fun b => filter is_bad (bnodes b)) (tvalues (tr rt))).

(* RoutingTable.get *)
Definition rt_get (rt : rtable) (i : bits) : res (option node) :=
  do kb <- find_bucket (tr rt) i; Ok (find_node i (bnodes (snd kb))).

(* the community sets rtt / failed on the Node object it got from RoutingTable.get *)
Definition rt_touch (rt : rtable) (i : bits) (rtt failed : Z) : res rtable :=
  do kb <- find_bucket (tr rt) i;
  let (key, b) := kb in
  Ok (mkRT (own rt) (tset (tr rt) key (mkBucket (bprefix b) (set_status i rtt failed (bnodes b))))).

(* ---- closest_nodes *)
Definition live (excl : option bits) (n : node) : bool :=
  negb (is_bad n) && match excl with None => true | Some e => negb (bits_eqb (nid n) e) end.

(* nodes |= {...}: a set; one entry per node object, i.e. per id *)
Definition union (acc new : list node) : list node :=
  fold_left (fun a n => if has_id (nid n) a then a else a ++ [n]) new acc.

Fixpoint walk (t : trie bucket) (prefix : bits) (excl : option bits) (k : nat)
         (i : nat) (acc : list node) : res (list node) :=
  do bs <- under t (firstn i prefix);
  let acc' := union acc (filter (live excl) (flat_map bnodes bs)) in
  if (k <? length acc')%nat then Ok acc'
  else match i with
       | O => Ok acc'
       | S j => walk t prefix excl k j acc'
       end.

(* sorted(nodes, key=distance): the key is computed once per node, then a stable insertion sort *)
Fixpoint insert_key (x : Z * node) (l : list (Z * node)) : list (Z * node) :=
  match l with
  | [] => [x]
  | h :: tl => if fst x <=? fst h then x :: h :: tl else h :: insert_key x tl
  end.
Definition sort_by_dist (target : bits) (l : list node) : list node :=
  map snd (fold_right insert_key [] (map (fun n => (dist (nid n) target, n)) l)).

Definition closest (rt : rtable) (target : bits) (k : nat) (excl : option bits) : res (list node) :=
  let prefix := match lpi (tr rt) target with Some (p, _) => p | None => [] end in
  do ns <- walk (tr rt) prefix excl k (length prefix) [];
  Ok (firstn k (sort_by_dist target ns)).

(* ---- histories *)
Inductive op :=
| Add (n : node)
| RemoveBad
| Touch (i : bits) (rtt failed : Z).

Definition step (rt : rtable) (o : op) : res rtable :=
  match o with
  | Add n => do r <- rt_add rt n; Ok (fst r)
  | RemoveBad => Ok (fst (rt_remove_bad rt))
  | Touch i rtt failed => rt_touch rt i rtt failed
  end.

Fixpoint run (rt : rtable) (ops : list op) : res rtable :=
  match ops with
  | [] => Ok rt
  | o :: tl => do rt' <- step rt o; run rt' tl
  end.

End Routing.

Definition all_nodes (t : trie bucket) : list node := flat_map bnodes (tvalues t).
Definition titems {A} (t : trie A) : list (bits * A) :=
  flat_map (fun k => match tget t k with Ok v => [(k, v)] | Raise _ => [] end) (tkeys t).
