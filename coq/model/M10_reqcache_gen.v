(* The request cache as RUN FROM THE TRANSLATED SOURCE: every operation of model/M10_reqcache.v that corresponds to
   a function of ipv8/requestcache.py is executed here by interpreting the program that tools/tr/tr_reqcache.py
   regenerated from that function's body (gen/G10_reqcache.v, interpreter model/M10_lang.v).  What is NOT taken from
   the source: the asyncio / TaskManager side (IterBegin, IterEnd, Advance, which task the loop runs: `Fire` only
   for a runnable task), the harness operation BSetFut, and how results are rendered as observations.  No proofs. *)
From Coq Require Import ZArith List Bool Arith.
From IPV8V Require Import lib.PyErr model.M10_reqcache model.M10_lang gen.G10_reqcache.
Import ListNotations.
Open Scope Z_scope.

Section Gen.
Variable cfg : list cache.

Definition no_cb : st -> nat -> st * list obs := fun s _ => (s, []).
Definition no_has : st -> val -> val -> res bool := fun _ _ _ => Raise TypeError.

(* request_cache.has(p, n) as computed by the translated `has` *)
Definition ghas_val (s : st) (p n : val) : res bool :=
  match call cfg no_cb no_has 2 g_has s [p; n] [] with
  | (_, OReturn (VBool b)) => Ok b
  | (_, ORaise e) => Raise e
  | _ => Raise TypeError
  end.

Definition gcall (cb : st -> nat -> st * list obs) (fuel : nat) (body : stmt) (s : st) (args : list val) (draws : list Z) :=
  call cfg cb ghas_val fuel body s args draws.

Definition filter_args (f : option (list Z)) : list val :=
  match f with
  | Some (h :: r) => [VClass h 0; VList (map (fun t => VClass t 0) r)]
  | _ => [VNone; VList []]
  end.

Definition gstep_b (s : st) (b : bop) : st * list obs :=
  match b with
  | BAdd c =>
      let '(x, o) := gcall no_cb 1 g_add s [VCache c] [] in
      (x_st x, [OAdd c (match o with
                        | OReturn (VCache c') => if Nat.eqb c' c then AAdded else ARaise TypeError
                        | OReturn VNone => if shut s then ADropped else ADup
                        | ORaise e => ARaise e
                        | _ => ARaise TypeError
                        end)])
  | BPop p n =>
      let '(x, o) := gcall no_cb 2 g_pop s [VStr p; VInt n] [] in
      (x_st x, [OPop p n (match o with OReturn (VCache c) => Ok c | ORaise e => Raise e | _ => Raise TypeError end)])
  | BRetr p n =>        (* retrieve_cache: pop(cache_class.name, payload.identifier), KeyError -> cache_retrieval_failed *)
      let '(x, o) := gcall no_cb 2 g_pop s [VStr p; VInt n] [] in
      (x_st x, [ORetr p n (match o with OReturn (VCache c) => Some c | _ => None end)])
  | BHas p n =>
      let '(x, o) := gcall no_cb 2 g_has s [VStr p; VInt n] [] in
      (x_st x, [OHas p n (match o with OReturn (VBool b) => b | _ => false end)])
  | BGet p n =>
      let '(x, o) := gcall no_cb 2 g_get s [VStr p; VInt n] [] in
      (x_st x, [OGet p n (match o with OReturn (VCache c) => Some c | _ => None end)])
  | BNew p n =>
      let '(x, o) := gcall no_cb 1 g_numbercache_init s [VNone; VStr p; VInt n] [] in
      (x_st x, [ONew p n (match o with ONormal => false | _ => true end)])
  | BFind p draws =>
      let '(x, o) := gcall no_cb 1 g_find_unclaimed s [VNone; VStr p] draws in
      (x_st x, [OFind p (match o with OReturn (VInt n) => Ok n | ORaise e => Raise e | _ => Raise TypeError end)])
  | BClear =>
      let '(x, o) := gcall no_cb 1 g_clear s [] [] in
      (x_st x, [OClear (map snd (table s))])
  | BSetFut c k => step_b cfg s (BSetFut c k)
  | BPassEnter t f =>
      let '(x, o) := gcall no_cb 1 g_passthrough_enter s (filter_args f ++ [VInt t]) [] in
      (x_st x, [ONop])
  | BPassExit =>
      let '(x, o) := gcall no_cb 1 g_passthrough_exit s [VNone; VList []; VInt 0] [] in
      (x_st x, [ONop])
  end.

Fixpoint grun_b (s : st) (bs : list bop) : st * list obs :=
  match bs with
  | [] => (s, [])
  | b :: r => let '(s1, o1) := gstep_b s b in
              let '(s2, o2) := grun_b s1 r in (s2, o1 ++ o2)
  end.

(* the task of cache c is run by the loop: RequestCache._on_timeout(cache) from the source, the callback being the
   cache's script executed through the translated functions as well *)
Definition gfire (s : st) (c : nat) : st * list obs :=
  match tk_get (tasks s) c with
  | Some TReady =>
      let '(x, o) := gcall (fun s' c' => grun_b s' (c_script (getc cfg c'))) 1 g_on_timeout s [VCache c] [] in
      (x_st x, x_obs x ++ [OTimeoutEnd c (nth c (futs (x_st x)) [])])
  | _ => (s, [ORefused c])
  end.

Definition gstep (s : st) (o : op) : st * list obs :=
  match o with
  | OpB b => gstep_b s b
  | Fire c => gfire s c
  | Shutdown =>
      let '(x, _) := gcall no_cb 1 g_shutdown s [] [] in
      (x_st x, [OShutdown (map snd (table s))])
  | _ => step cfg s o
  end.

Fixpoint grun (s : st) (ops : list op) : st * list obs :=
  match ops with
  | [] => (s, [])
  | o :: r => let '(s1, o1) := gstep s o in
              let '(s2, o2) := grun s1 r in (s2, o1 ++ o2)
  end.

End Gen.

(* operations expressible through the Python signatures: passthrough() cannot be given an empty filter list,
   and the random search needs at least one and at most 1000 draws *)
Definition bop_ok (b : bop) : bool :=
  match b with
  | BPassEnter _ (Some []) => false
  | BFind _ draws => match draws with [] => false | _ => (length draws <=? 1000)%nat end
  | _ => true
  end.
Definition op_ok (o : op) : bool := match o with OpB b => bop_ok b | _ => true end.
Definition cfg_ok (cfg : list cache) : bool := forallb (fun k => forallb bop_ok (c_script k)) cfg.

Definition grun_case (c : case) : list obs := snd (grun (fst c) (init (fst c)) (snd c)).
