(* Executable model of the part of ipv8_service.py that C11 depends on: IPv8.overlays,
   IPv8.strategies (the list of (strategy, target_peers) the ticker walks over), add_strategy,
   unload_overlay, on_tick, stop.  A strategy belongs to one overlay (strategy.overlay); on_tick
   calls take_step on the strategies in the list (the ones whose peer target is not reached: chosen
   by the environment).  No proofs here.

   unload_overlay is a list of steps; gen/G11_unload.v (service_unload_steps) is regenerated from
   the body of IPv8.unload_overlay (fail-closed: only the rebuilding list comprehensions and the call
   of instance.unload are recognised). *)
From Coq Require Import ZArith List Bool.
Import ListNotations.
Open Scope Z_scope.

Definition oid := Z.       (* overlay instance *)
Definition sid := Z.       (* strategy instance *)

Record svc := mkSvc {
  v_overlays : list oid;
  v_strategies : list (sid * oid);     (* (strategy, strategy.overlay), in list order *)
  v_running : bool;                    (* state_machine_task alive and endpoint open *)
  v_unloaded : list oid }.             (* overlays whose unload() has been called *)

Definition init_svc : svc := mkSvc [] [] true [].

Inductive sstep :=
| SFilterOverlays       (* self.overlays = [overlay for overlay in self.overlays if overlay != instance] *)
| SFilterStrategies     (* self.strategies = [(s, t) for (s, t) in self.strategies if s.overlay != instance] *)
| SUnload.              (* return maybe_coroutine(instance.unload) *)

Definition memo (x : Z) (l : list Z) : bool := existsb (Z.eqb x) l.

Definition sstep_apply (x : oid) (s : svc) (u : sstep) : svc :=
  match u with
  | SFilterOverlays => mkSvc (filter (fun o => negb (o =? x)) (v_overlays s)) (v_strategies s) (v_running s) (v_unloaded s)
  | SFilterStrategies => mkSvc (v_overlays s) (filter (fun e => negb (snd e =? x)) (v_strategies s)) (v_running s) (v_unloaded s)
  | SUnload => mkSvc (v_overlays s) (v_strategies s) (v_running s) (x :: v_unloaded s)
  end.

Definition complete_service_unload (steps : list sstep) : bool :=
  existsb (fun u => match u with SFilterStrategies => true | _ => false end) steps
  && existsb (fun u => match u with SFilterOverlays => true | _ => false end) steps
  && existsb (fun u => match u with SUnload => true | _ => false end) steps.

Inductive sop :=
| SAdd (o : oid) (st : sid)           (* add_strategy(overlay, strategy, target_peers) *)
| SUnloadOverlay (o : oid)            (* unload_overlay(instance) *)
| STick (due : list sid)              (* one on_tick; due: the strategies whose peer target is not reached *)
| SStop.                              (* stop() *)

(* result: take_step calls as (strategy, its overlay) *)
Definition sop_apply (steps : list sstep) (s : svc) (o : sop) : svc * list (sid * oid) :=
  match o with
  | SAdd ov st =>
      (mkSvc (if memo ov (v_overlays s) then v_overlays s else v_overlays s ++ [ov])
             (v_strategies s ++ [(st, ov)]) (v_running s) (v_unloaded s), [])
  | SUnloadOverlay x => (fold_left (sstep_apply x) steps s, [])
  | STick due =>
      if v_running s then (s, filter (fun e => memo (fst e) due) (v_strategies s)) else (s, [])
  | SStop =>        (* stop(): unload_overlay for every listed overlay, then the endpoint is closed *)
      let s' := fold_left (fun acc x => fold_left (sstep_apply x) steps acc) (v_overlays s) s in
      (mkSvc (v_overlays s') (v_strategies s') false (v_unloaded s'), [])
  end.

Fixpoint srun (steps : list sstep) (s : svc) (ops : list sop) : svc * list (sid * oid) :=
  match ops with
  | [] => (s, [])
  | o :: r => let '(s1, o1) := sop_apply steps s o in let '(s2, o2) := srun steps s1 r in (s2, o1 ++ o2)
  end.

(* Python's `for e in l: if p(e): l.remove(e)` (removal while iterating skips the element that follows
   each removed one) - the shape unload_overlay must NOT have; used by a counter-example in props/C11.v.
   Entries are distinct, so list.remove(e) removes the entry at the current position. *)
Fixpoint remove_while_iterating {A} (p : A -> bool) (l : list A) : list A :=
  match l with
  | [] => []
  | e :: r =>
      if p e then match r with [] => [] | e2 :: r2 => e2 :: remove_while_iterating p r2 end
      else e :: remove_while_iterating p r
  end.

(* ---- correspondence plumbing: per operation the take_step calls, then overlays and strategies *)
Fixpoint strace (steps : list sstep) (s : svc) (ops : list sop) : list (list (sid * oid)) * svc :=
  match ops with
  | [] => ([], s)
  | o :: r => let '(s1, o1) := sop_apply steps s o in let '(os, sf) := strace steps s1 r in (o1 :: os, sf)
  end.
Definition sobs := (list (list (sid * oid)) * (list oid * list (sid * oid)))%type.
Definition run_scase (c : list sstep * list sop) : sobs :=
  let '(os, sf) := strace (fst c) init_svc (snd c) in (os, (v_overlays sf, v_strategies sf)).
Fixpoint pl_eqb (a b : list (Z * Z)) : bool :=
  match a, b with
  | [], [] => true
  | (x1, y1) :: a', (x2, y2) :: b' => (x1 =? x2) && (y1 =? y2) && pl_eqb a' b'
  | _, _ => false
  end.
Fixpoint zl_eqb (a b : list Z) : bool :=
  match a, b with
  | [], [] => true
  | x :: a', y :: b' => (x =? y) && zl_eqb a' b'
  | _, _ => false
  end.
Fixpoint pll_eqb (a b : list (list (Z * Z))) : bool :=
  match a, b with
  | [], [] => true
  | x :: a', y :: b' => pl_eqb x y && pll_eqb a' b'
  | _, _ => false
  end.
Definition sobs_eqb (x y : sobs) : bool :=
  pll_eqb (fst x) (fst y) && zl_eqb (fst (snd x)) (fst (snd y)) && pl_eqb (snd (snd x)) (snd (snd y)).
