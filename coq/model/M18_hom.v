(* C18 - the 2-DNF homomorphic encryption of primitives/boneh.py over an abstract finite abelian group
   (the order-n subgroup of F_p^2* that the Weil pairing lands in).  The group is a Section variable:
   ec.py / get_good_wp are not modelled, their outcome (generators g, h with the orders below) is the
   hypothesis of proofs/P18_hom.v.  A concrete toy instance (Z_6) is at the end.  No proofs here. *)
From Coq Require Import ZArith List Bool.
From IPV8V Require Import lib.PyErr.
Import ListNotations.
Open Scope Z_scope.

Section BGN.
  Variable G : Type.
  Variable gmul : G -> G -> G.
  Variable gone : G.
  Variable ginv : G -> G.
  Variable geqb : G -> G -> bool.

  (* x.intpow(k): square-and-multiply on |k| (Pos.iter_op is exactly that loop), inverse if k < 0 *)
  Definition gpow (x : G) (k : Z) : G :=
    match k with
    | Z0 => gone
    | Zpos p => Pos.iter_op gmul p x
    | Zneg p => ginv (Pos.iter_op gmul p x)
    end.

  Definition gdiv (x y : G) : G := gmul x (ginv y).

  Variable g h : G.
  Variable t1 : Z.

  (* encode(PK, m) = g^m * h^r  (r: the random exponent drawn by get_random_exponentiation) *)
  Definition encode (m r : Z) : G := gmul (gpow g m) (gpow h r).

  (* decode(SK, msgspace, c): first m in msgspace with c^t1 == (g^t1)^m *)
  Definition decode (msgspace : list Z) (c : G) : option Z :=
    let d := gpow c t1 in
    let t := gpow g t1 in
    find (fun m => geqb d (gpow t m)) msgspace.

  (* create_challenge_response: 3 when the challenge decodes to none of 0, 1, 2 *)
  Definition challenge_response (c : G) : Z :=
    match decode [0; 1; 2] c with Some m => m | None => 3 end.

  (* BitPairAttestation(a, b, complement).compress() * encode(PK, 0) *)
  Definition challenge_of (a b complement : G) (r0 : Z) : G :=
    gmul (gmul (gmul a b) complement) (encode 0 r0).
End BGN.

(* ---- toy instance: Z_6 written additively, t1 = 2, t2 = 3, g = 1, h = 3 ----------------------- *)
Inductive z6 : Type := A0 | A1 | A2 | A3 | A4 | A5.
Definition z6_to (a : z6) : Z := match a with A0 => 0 | A1 => 1 | A2 => 2 | A3 => 3 | A4 => 4 | A5 => 5 end.
Definition z6_of (n : Z) : z6 :=
  match n mod 6 with 0 => A0 | 1 => A1 | 2 => A2 | 3 => A3 | 4 => A4 | _ => A5 end.
Definition z6_mul (a b : z6) : z6 := z6_of (z6_to a + z6_to b).
Definition z6_inv (a : z6) : z6 := z6_of (- z6_to a).
Definition z6_eqb (a b : z6) : bool := z6_to a =? z6_to b.
