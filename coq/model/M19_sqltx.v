(* C19x - opening a database file written by an older release: the upgrade inside check_database, statement by
   statement, under the transaction rules of SQLite and of Python's sqlite3 module.  No proofs here.

   Modelled rules (each is named where it is implemented):
     S1  autocommit    a statement run while no transaction is open is its own transaction: its effect is
                       published when it completes, atomically                                   [sqlite_exec]
     S2  BEGIN/COMMIT  BEGIN opens a transaction (error inside one); COMMIT publishes the view and closes it
                       (error when none is open)                                                 [sqlite_exec]
     S3  in a transaction a statement changes what the connection sees, nothing is published    [sqlite_exec]
     S4  a failing statement has no effect and leaves the transaction state alone; the error reaches the
                       caller; an executescript stops at its first failing statement   [sqlite_exec, run_sqls]
     P1  Cursor.execute (legacy isolation level ""): INSERT/UPDATE/DELETE/REPLACE get an implicit BEGIN when no
                       transaction is open; every other statement (DDL, BEGIN, COMMIT) is passed as it is [expand]
     P2  Cursor.executescript: an open transaction is committed first; then the statements are passed as they
                       are, one by one, no implicit BEGIN                                              [expand]
     P3  Connection.commit(): COMMIT when a transaction is open, nothing otherwise                     [expand]
     K   a kill keeps exactly the published content; view and open transaction are gone               [crash]
   Kill instants: after every SQL statement SQLite completes (the implicit BEGIN/COMMIT included), i.e. what the
   sqlite statement trace hook can separate.

   The database content is a list of tables (number, primary-key columns, column count, rows).  The same
   statement language is given two semantics: on concrete rows (`apply_c`), and on symbolic contents
   (`apply_s`) where a table may hold "the rows of source table s, each extended by constant columns" - this is
   what lets the reachable published contents of an upgrade be computed once, for all rows (spec/proofs). *)
From Coq Require Import ZArith List Bool Arith.
From IPV8V Require Import lib.PyErr lib.Bytes.
Import ListNotations.
Open Scope Z_scope.

Definition xrow := list Z.
Definition NULLV : Z := -1.
Definition X_OPTION : Z := 0.
Definition XK_VERSION : Z := 0.

Record xtab (C : Type) := mkXT { xt_id : Z; xt_pk : list nat; xt_ncols : nat; xt_rows : C }.
Arguments mkXT {C}. Arguments xt_id {C}. Arguments xt_pk {C}. Arguments xt_ncols {C}. Arguments xt_rows {C}.
Definition xstate (C : Type) := list (xtab C).

Inductive xstmt :=
| XCreate (id : Z) (pk : list nat) (ncols : nat)     (* CREATE TABLE IF NOT EXISTS *)
| XRename (a b : Z)                                  (* ALTER TABLE a RENAME TO b *)
| XDrop (a : Z)                                      (* DROP TABLE a *)
| XInsert (ignore : bool) (t : Z) (r : xrow)         (* INSERT [OR IGNORE] INTO t VALUES r *)
| XDeleteEq (t : Z) (col : nat) (v : Z)              (* DELETE FROM t WHERE col = v *)
| XInsertSelect (ignore : bool) (dst src : Z)        (* INSERT [OR IGNORE] INTO dst SELECT <all columns> FROM src *)
| XAddCol (t : Z) (n : nat)                          (* ALTER TABLE t ADD <its (n+1)-th column> *)
| XUpdateCol (t : Z) (col : nat) (v : Z)             (* UPDATE t SET col = v *)
| XUpdateWhere (t : Z) (col : nat) (v : Z) (wcol : nat) (wv : Z).   (* UPDATE t SET col = v WHERE wcol = wv *)

(* fine / the statement raises (sqlite3.OperationalError, IntegrityError) / outside the modelled fragment *)
Inductive xres := XOk | XErr | XUnknown.

(* INSERT, UPDATE, DELETE, REPLACE: the statements Python's sqlite3 opens a transaction for *)
Definition is_dml (q : xstmt) : bool :=
  match q with
  | XInsert _ _ _ | XDeleteEq _ _ _ | XInsertSelect _ _ _ | XUpdateCol _ _ _ | XUpdateWhere _ _ _ _ _ => true
  | _ => false
  end.

(* ---------------------------------------------------------------- table list helpers (any content type) *)
Section Tabs.
Context {C : Type}.
Definition find_tab (d : xstate C) (t : Z) : option (xtab C) := find (fun x => xt_id x =? t) d.
Definition remove_tab (d : xstate C) (t : Z) : xstate C := filter (fun x => negb (xt_id x =? t)) d.
Definition replace_tab (d : xstate C) (t : Z) (n : xtab C) : xstate C :=
  map (fun x => if xt_id x =? t then n else x) d.
Definition set_rows (x : xtab C) (r : C) : xtab C := mkXT (xt_id x) (xt_pk x) (xt_ncols x) r.
End Tabs.

Definition xkey (pk : list nat) (r : xrow) : list Z := map (fun i => nth i r NULLV) pk.
Definition has_xkey (pk : list nat) (k : list Z) (rows : list xrow) : bool :=
  existsb (fun r => bytes_eqb (xkey pk r) k) rows.

Fixpoint set_nth (i : nat) (v : Z) (r : xrow) : xrow :=
  match i, r with
  | O, _ :: tl => v :: tl
  | Datatypes.S i', x :: tl => x :: set_nth i' v tl
  | _, [] => []
  end.

(* INSERT [OR IGNORE] INTO ... SELECT: the rows one after the other; without OR IGNORE a collision fails
   the whole statement *)
Fixpoint ins_all (pk : list nat) (ig : bool) (src acc : list xrow) : option (list xrow) :=
  match src with
  | [] => Some acc
  | r :: tl =>
      if has_xkey pk (xkey pk r) acc then (if ig then ins_all pk ig tl acc else None)
      else ins_all pk ig tl (acc ++ [r])
  end.

Definition in_nat (i : nat) (l : list nat) : bool := existsb (Nat.eqb i) l.

(* ---------------------------------------------------------------- concrete semantics *)
Definition apply_c (d : xstate (list xrow)) (q : xstmt) : xres * xstate (list xrow) :=
  match q with
  | XCreate id pk n =>
      match find_tab d id with Some _ => (XOk, d) | None => (XOk, d ++ [mkXT id pk n []]) end
  | XRename a b =>
      match find_tab d a, find_tab d b with
      | Some ta, None => (XOk, replace_tab d a (mkXT b (xt_pk ta) (xt_ncols ta) (xt_rows ta)))
      | _, _ => (XErr, d)
      end
  | XDrop a =>
      match find_tab d a with Some _ => (XOk, remove_tab d a) | None => (XErr, d) end
  | XInsert ig t r =>
      match find_tab d t with
      | None => (XErr, d)
      | Some tb =>
          if negb (Nat.eqb (length r) (xt_ncols tb)) then (XErr, d)
          else if has_xkey (xt_pk tb) (xkey (xt_pk tb) r) (xt_rows tb) then ((if ig then XOk else XErr), d)
          else (XOk, replace_tab d t (set_rows tb (xt_rows tb ++ [r])))
      end
  | XDeleteEq t col v =>
      match find_tab d t with
      | None => (XErr, d)
      | Some tb => (XOk, replace_tab d t (set_rows tb (filter (fun r => negb (nth col r NULLV =? v)) (xt_rows tb))))
      end
  | XInsertSelect ig dst src =>
      match find_tab d dst, find_tab d src with
      | Some td, Some ts =>
          if negb (Nat.eqb (xt_ncols td) (xt_ncols ts)) then (XErr, d)
          else match ins_all (xt_pk td) ig (xt_rows ts) (xt_rows td) with
               | Some rows => (XOk, replace_tab d dst (set_rows td rows))
               | None => (XErr, d)
               end
      | _, _ => (XErr, d)
      end
  | XAddCol t n =>
      match find_tab d t with
      | None => (XErr, d)
      | Some tb =>
          if Nat.eqb (xt_ncols tb) n
          then (XOk, replace_tab d t (mkXT t (xt_pk tb) (Datatypes.S n) (map (fun r => r ++ [NULLV]) (xt_rows tb))))
          else (XErr, d)                              (* duplicate column name *)
      end
  | XUpdateCol t col v =>
      match find_tab d t with
      | None => (XErr, d)
      | Some tb =>
          if in_nat col (xt_pk tb) || negb (col <? xt_ncols tb)%nat then (XUnknown, d)
          else (XOk, replace_tab d t (set_rows tb (map (set_nth col v) (xt_rows tb))))
      end
  | XUpdateWhere t col v wcol wv =>
      match find_tab d t with
      | None => (XErr, d)
      | Some tb =>
          if in_nat col (xt_pk tb) || negb (col <? xt_ncols tb)%nat then (XUnknown, d)
          else (XOk, replace_tab d t (set_rows tb
                 (map (fun r => if nth wcol r NULLV =? wv then set_nth col v r else r) (xt_rows tb))))
      end
  end.

(* SELECT value FROM option WHERE key == 'database_version'; missing table or row: 0 *)
Definition version_rows (rows : list xrow) : Z :=
  match find (fun r => nth 0 r NULLV =? XK_VERSION) rows with
  | Some r => nth 1 r 0
  | None => 0
  end.
Definition version_c (d : xstate (list xrow)) : option Z :=
  match find_tab d X_OPTION with
  | None => Some 0
  | Some tb => Some (version_rows (xt_rows tb))
  end.

(* ---------------------------------------------------------------- symbolic contents *)
Inductive content :=
| CRows (l : list xrow)                 (* these rows *)
| CSym (src : Z) (ext : list Z).        (* the rows of source table `src`, in order, each followed by `ext` *)

(* what is known of a source table: its number, the columns its rows are pairwise distinct on, its width *)
Record source := mkSrc { src_id : Z; src_pk : list nat; src_ncols : nat }.

Definition find_src (srcs : list source) (s : Z) : option source := find (fun x => src_id x =? s) srcs.

Definition subset_nat (a b : list nat) : bool := forallb (fun i => in_nat i b) a.

Definition apply_s (srcs : list source) (d : xstate content) (q : xstmt) : xres * xstate content :=
  match q with
  | XCreate id pk n =>
      match find_tab d id with Some _ => (XOk, d) | None => (XOk, d ++ [mkXT id pk n (CRows [])]) end
  | XRename a b =>
      match find_tab d a, find_tab d b with
      | Some ta, None => (XOk, replace_tab d a (mkXT b (xt_pk ta) (xt_ncols ta) (xt_rows ta)))
      | _, _ => (XErr, d)
      end
  | XDrop a =>
      match find_tab d a with Some _ => (XOk, remove_tab d a) | None => (XErr, d) end
  | XInsert ig t r =>
      match find_tab d t with
      | None => (XErr, d)
      | Some tb =>
          match xt_rows tb with
          | CSym _ _ => (XUnknown, d)
          | CRows rows =>
              if negb (Nat.eqb (length r) (xt_ncols tb)) then (XErr, d)
              else if has_xkey (xt_pk tb) (xkey (xt_pk tb) r) rows then ((if ig then XOk else XErr), d)
              else (XOk, replace_tab d t (set_rows tb (CRows (rows ++ [r]))))
          end
      end
  | XDeleteEq t col v =>
      match find_tab d t with
      | None => (XErr, d)
      | Some tb =>
          match xt_rows tb with
          | CSym _ _ => (XUnknown, d)
          | CRows rows => (XOk, replace_tab d t (set_rows tb (CRows (filter (fun r => negb (nth col r NULLV =? v)) rows))))
          end
      end
  | XInsertSelect ig dst src =>
      match find_tab d dst, find_tab d src with
      | Some td, Some ts =>
          if negb (Nat.eqb (xt_ncols td) (xt_ncols ts)) then (XErr, d)
          else match xt_rows td, xt_rows ts with
               | CRows [], CSym s ext =>
                   (* all rows arrive, in order, when the destination key is at least as fine as the columns the
                      source rows are known to be distinct on *)
                   match find_src srcs s with
                   | Some sc =>
                       if subset_nat (src_pk sc) (xt_pk td) && forallb (fun i => (i <? src_ncols sc)%nat) (src_pk sc)
                       then (XOk, replace_tab d dst (set_rows td (CSym s ext)))
                       else (XUnknown, d)
                   | None => (XUnknown, d)
                   end
               | CRows acc, CRows rows =>
                   match ins_all (xt_pk td) ig rows acc with
                   | Some r => (XOk, replace_tab d dst (set_rows td (CRows r)))
                   | None => (XErr, d)
                   end
               | _, _ => (XUnknown, d)
               end
      | _, _ => (XErr, d)
      end
  | XAddCol t n =>
      match find_tab d t with
      | None => (XErr, d)
      | Some tb =>
          if Nat.eqb (xt_ncols tb) n
          then (XOk, replace_tab d t (mkXT t (xt_pk tb) (Datatypes.S n)
                      (match xt_rows tb with
                       | CRows rows => CRows (map (fun r => r ++ [NULLV]) rows)
                       | CSym s ext => CSym s (ext ++ [NULLV])
                       end)))
          else (XErr, d)
      end
  | XUpdateCol t col v =>
      match find_tab d t with
      | None => (XErr, d)
      | Some tb =>
          if in_nat col (xt_pk tb) || negb (col <? xt_ncols tb)%nat then (XUnknown, d)
          else match xt_rows tb with
               | CRows rows => (XOk, replace_tab d t (set_rows tb (CRows (map (set_nth col v) rows))))
               | CSym s ext =>
                   match find_src srcs s with
                   | Some sc =>
                       if (src_ncols sc <=? col)%nat && Nat.eqb (src_ncols sc + length ext) (xt_ncols tb)
                       then (XOk, replace_tab d t (set_rows tb (CSym s (set_nth (col - src_ncols sc) v ext))))
                       else (XUnknown, d)
                   | None => (XUnknown, d)
                   end
               end
      end
  | XUpdateWhere t col v wcol wv =>
      match find_tab d t with
      | None => (XErr, d)
      | Some tb =>
          if in_nat col (xt_pk tb) || negb (col <? xt_ncols tb)%nat then (XUnknown, d)
          else match xt_rows tb with
               | CRows rows => (XOk, replace_tab d t (set_rows tb
                                 (CRows (map (fun r => if nth wcol r NULLV =? wv then set_nth col v r else r) rows))))
               | CSym _ _ => (XUnknown, d)
               end
      end
  end.

Definition version_s (d : xstate content) : option Z :=
  match find_tab d X_OPTION with
  | None => Some 0
  | Some tb => match xt_rows tb with CRows rows => Some (version_rows rows) | CSym _ _ => None end
  end.

(* what a symbolic content stands for, given the rows of the source tables *)
Definition conc_rows (env : Z -> list xrow) (c : content) : list xrow :=
  match c with CRows l => l | CSym s ext => map (fun r => r ++ ext) (env s) end.
Definition conc (env : Z -> list xrow) (d : xstate content) : xstate (list xrow) :=
  map (fun x => mkXT (xt_id x) (xt_pk x) (xt_ncols x) (conc_rows env (xt_rows x))) d.

(* ---------------------------------------------------------------- the connection: transaction state machine *)
Inductive sql := QBegin | QCommit | QStmt (q : xstmt).

Inductive pyop :=
| PExecute (s : sql)           (* self.execute("<one statement>") *)
| PScript (l : list sql)       (* self.executescript("<statements>") *)
| PCommit.                     (* self.commit()  (Database.commit with no `with` block open) *)

(* P1 / P2 / P3: the statements SQLite receives for one call, given whether a transaction is open *)
Definition expand (intx : bool) (op : pyop) : list sql :=
  match op with
  | PExecute (QStmt q) => (if is_dml q && negb intx then [QBegin] else []) ++ [QStmt q]
  | PExecute s => [s]
  | PScript l => (if intx then [QCommit] else []) ++ l
  | PCommit => if intx then [QCommit] else []
  end.

Record ucfg := mkU {
  u_latest : Z;                          (* LATEST_DB_VERSION *)
  u_fresh : list pyop;                   (* check_database for a file without a version (first open: creation) *)
  u_upgrades : list (Z * list pyop);     (* check_database: what is run for a file of version v, before ... *)
  u_tail : list pyop;                    (* ... what is run for every versioned file (for a current one: only this) *)
  u_inserts : list (bool * Z)            (* insert functions: (OR IGNORE, table) *)
}.

Inductive xout := ODone | ORaised | OUnknown.

Section Conn.
Context {D : Type}.
Variable app : D -> xstmt -> xres * D.
Variable ver : D -> option Z.

Record conn := mkConn { c_dur : D; c_view : D; c_intx : bool }.

(* S1 - S4 *)
Definition sqlite_exec (c : conn) (s : sql) : xres * conn :=
  match s with
  | QBegin => if c_intx c then (XErr, c) else (XOk, mkConn (c_dur c) (c_view c) true)
  | QCommit => if c_intx c then (XOk, mkConn (c_view c) (c_view c) false) else (XErr, c)
  | QStmt q =>
      let '(r, v) := app (c_view c) q in
      match r with
      | XOk => if c_intx c then (XOk, mkConn (c_dur c) v true) else (XOk, mkConn v v false)
      | _ => (r, c)
      end
  end.

(* returns (connection after every completed statement, final connection, outcome) *)
Fixpoint run_sqls (c : conn) (l : list sql) : list conn * conn * xout :=
  match l with
  | [] => ([], c, ODone)
  | s :: tl =>
      let '(r, c1) := sqlite_exec c s in
      match r with
      | XOk => let '(tr, c2, o) := run_sqls c1 tl in (c1 :: tr, c2, o)
      | XErr => ([], c, ORaised)
      | XUnknown => ([], c, OUnknown)
      end
  end.

Definition run_pyop (c : conn) (op : pyop) : list conn * conn * xout := run_sqls c (expand (c_intx c) op).

Fixpoint run_prog (c : conn) (ops : list pyop) : list conn * conn * xout :=
  match ops with
  | [] => ([], c, ODone)
  | op :: tl =>
      let '(tr1, c1, o1) := run_pyop c op in
      match o1 with
      | ODone => let '(tr2, c2, o2) := run_prog c1 tl in (tr1 ++ tr2, c2, o2)
      | _ => (tr1, c1, o1)
      end
  end.

Variable cfg : ucfg.

(* the upgrade blocks from version v up to the current one, in order *)
Definition upgrades_from (v : Z) : list pyop :=
  flat_map (fun p => if (v <=? fst p) && (fst p <? u_latest cfg) then snd p else []) (u_upgrades cfg).

(* Database.open(): _prepare_version reads the version (a missing table or row is 0 = not versioned yet), then
   check_database *)
Definition xopen (c : conn) : list conn * conn * xout :=
  match ver (c_view c) with
  | None => ([], c, OUnknown)
  | Some v =>
      if v =? 0 then run_prog c (u_fresh cfg)
      else if (v <? 1) || (u_latest cfg <? v) then ([], c, OUnknown)
      else run_prog c (upgrades_from v ++ u_tail cfg)
  end.

(* an insert call: execute(INSERT ...) ; commit().  Its exception is caught by the caller. *)
Definition run_call (c : conn) (call : nat * xrow) : list conn * conn :=
  match nth_error (u_inserts cfg) (fst call) with
  | None => ([], c)
  | Some (ig, t) =>
      let '(tr, c1, _) := run_prog c [PExecute (QStmt (XInsert ig t (snd call))); PCommit] in (tr, c1)
  end.

Fixpoint run_calls (c : conn) (calls : list (nat * xrow)) : list conn * conn :=
  match calls with
  | [] => ([], c)
  | x :: tl => let '(tr1, c1) := run_call c x in
               let '(tr2, c2) := run_calls c1 tl in (tr1 ++ tr2, c2)
  end.

(* one process: open, then insert calls; all kill instants *)
Definition xprocess (c : conn) (calls : list (nat * xrow)) : list conn * conn * xout :=
  let '(tr0, c1, o) := xopen c in
  match o with
  | ODone => let '(tr, c2) := run_calls c1 calls in (c :: tr0 ++ tr, c2, ODone)
  | _ => (c :: tr0, c1, o)
  end.

(* K *)
Definition crash (c : conn) : conn := mkConn (c_dur c) (c_dur c) false.
Definition fresh_conn (d : D) : conn := mkConn d d false.

Fixpoint xhistory (c : conn) (h : list (list (nat * xrow) * nat)) : conn :=
  match h with
  | [] => c
  | (calls, k) :: tl =>
      let '(snaps, cf, _) := xprocess c calls in
      xhistory (crash (nth k snaps cf)) tl
  end.

End Conn.
Arguments mkConn {D}. Arguments c_dur {D}. Arguments c_view {D}. Arguments c_intx {D}.

(* ---------------------------------------------------------------- symbolic exploration of one upgrade *)
Fixpoint zl_eqb (a b : list Z) : bool :=
  match a, b with
  | [], [] => true
  | x :: a', y :: b' => (x =? y) && zl_eqb a' b'
  | _, _ => false
  end.
Fixpoint nl_eqb (a b : list nat) : bool :=
  match a, b with
  | [], [] => true
  | x :: a', y :: b' => Nat.eqb x y && nl_eqb a' b'
  | _, _ => false
  end.
Fixpoint rows_eqb (a b : list xrow) : bool :=
  match a, b with
  | [], [] => true
  | x :: a', y :: b' => zl_eqb x y && rows_eqb a' b'
  | _, _ => false
  end.
Definition content_eqb (a b : content) : bool :=
  match a, b with
  | CRows x, CRows y => rows_eqb x y
  | CSym s e, CSym s' e' => (s =? s') && zl_eqb e e'
  | _, _ => false
  end.
Definition tab_eqb (a b : xtab content) : bool :=
  (xt_id a =? xt_id b) && nl_eqb (xt_pk a) (xt_pk b) && Nat.eqb (xt_ncols a) (xt_ncols b)
  && content_eqb (xt_rows a) (xt_rows b).

(* same tables with the same definitions and contents, whatever their order in the list *)
Definition sub_state (a b : xstate content) : bool :=
  forallb (fun x => match find_tab b (xt_id x) with Some y => tab_eqb x y | None => false end) a.
Definition same_state (a b : xstate content) : bool := sub_state a b && sub_state b a.

(* the same list *)
Fixpoint state_eqb (a b : xstate content) : bool :=
  match a, b with
  | [], [] => true
  | x :: a', y :: b' => tab_eqb x y && state_eqb a' b'
  | _, _ => false
  end.
Definition mem_exact (d : xstate content) (l : list (xstate content)) : bool := existsb (state_eqb d) l.

(* one open from a killed file with published content d: the published contents at every kill instant (None when
   the open raises or leaves the modelled fragment), and the content after it *)
Definition sym_open (srcs : list source) (cfg : ucfg) (d : xstate content)
  : option (list (xstate content) * xstate content) :=
  let '(snaps, cf, o) := xprocess (apply_s srcs) version_s cfg (fresh_conn d) [] in
  match o with
  | ODone => if c_intx cf then None else Some (map c_dur snaps, c_dur cf)
  | _ => None
  end.

(* every published content reachable from `todo` by opens killed anywhere, any number of times *)
Fixpoint explore (srcs : list source) (cfg : ucfg) (fuel : nat) (todo seen : list (xstate content))
  : option (list (xstate content)) :=
  match fuel with
  | O => None
  | Datatypes.S f =>
      match todo with
      | [] => Some seen
      | d :: tl =>
          if mem_exact d seen then explore srcs cfg f tl seen
          else match sym_open srcs cfg d with
               | None => None
               | Some (snaps, df) => explore srcs cfg f (snaps ++ df :: tl) (d :: seen)
               end
      end
  end.

(* R contains the start and is closed: every content in it opens, and every kill instant of that open
   publishes a content of R again *)
Definition closed_check (srcs : list source) (cfg : ucfg) (start : xstate content) (R : list (xstate content)) : bool :=
  mem_exact start R &&
  forallb (fun d => match sym_open srcs cfg d with
                    | None => false
                    | Some (snaps, df) => forallb (fun x => mem_exact x R) snaps && mem_exact df R
                    end) R.

(* every content of R is, table by table, one of `targets`, and every open from it ends in `final` *)
Definition class_check (srcs : list source) (cfg : ucfg) (targets : list (xstate content)) (final : xstate content)
                       (R : list (xstate content)) : bool :=
  forallb (fun d => existsb (same_state d) targets &&
                    match sym_open srcs cfg d with
                    | Some (_, df) => same_state df final
                    | None => false
                    end) R.

Definition reach (srcs : list source) (cfg : ucfg) (start : xstate content) : list (xstate content) :=
  match explore srcs cfg 400 [start] [] with Some r => r | None => [] end.

Definition upgrade_check (srcs : list source) (cfg : ucfg) (start : xstate content)
                         (targets : list (xstate content)) (final : xstate content) : bool :=
  closed_check srcs cfg start (reach srcs cfg start) && class_check srcs cfg targets final (reach srcs cfg start).

(* ---------------------------------------------------------------- correspondence interface (concrete rows) *)
Definition enc_xrows (l : list xrow) : list Z :=
  Z.of_nat (length l) :: flat_map (fun r => Z.of_nat (length r) :: r) l.

Definition xout_code (o : xout) : Z := match o with ODone => 1 | ORaised => 3 | OUnknown => 9 end.

(* history, kill, reopen by the observer; observation: outcome of that open, version, and for each listed table
   -1 when it does not exist, else its rows *)
Definition upgrade_obs (cfg : ucfg) (d0 : xstate (list xrow)) (ts : list Z)
                       (h : list (list (nat * xrow) * nat)) : list Z :=
  let c := xhistory apply_c version_c cfg (fresh_conn d0) h in
  let '(_, c1, o) := xopen apply_c version_c cfg c in
  xout_code o ::
  (match version_c (c_view c1) with Some v => v | None => -9 end) ::
  flat_map (fun t => match find_tab (c_view c1) t with
                     | None => [-1]
                     | Some tb => enc_xrows (xt_rows tb)
                     end) ts.

Definition upgrade_case : Type :=
  ucfg * xstate (list xrow) * list Z * list (list (nat * xrow) * nat) * list (nat * xrow) * list nat.
Definition run_upgrade_case (c : upgrade_case) : list (list Z) :=
  let '(cfg, d0, ts, h, calls, ks) := c in
  map (fun k => upgrade_obs cfg d0 ts (h ++ [(calls, k)])) ks.
