(* C13 (translated handlers) - the target language of tools/tr/tr_introduction.py: the Python subset the
   introduction handlers of ipv8/community.py are written in, as a Gallina datatype.  The translator maps the
   AST of each function body to a term of `fdef` one-to-one (statement by statement, expression by expression,
   source order); what these terms MEAN is fixed by the interpreter coq/model/M13_intro_gen.v.  No proofs. *)
From Coq Require Import ZArith List Bool String.
Import ListNotations.

Inductive cmpop := CEq | CNe | CLt | CLe | CGt | CGe | CIs | CIsNot | CIn | CNotIn.
Inductive binop := BMod | BAdd | BSub.

Inductive expr :=
| EName (x : string)
| EAttr (e : expr) (a : string)
| ECall (f : expr) (args : list arg)
| EStr (s : string)                    (* str / bytes constant *)
| EIp (z : Z)                          (* a str constant that is a dotted quad, as its 32-bit number *)
| EInt (z : Z) | EBool (b : bool) | ENone
| ETuple (l : list expr) | EList (l : list expr)
| ESub (e : expr) (i : expr)           (* e[i] *)
| ECmp (op : cmpop) (a b : expr)       (* chained comparisons are expanded into a conjunction *)
| EAnd (l : list expr) | EOr (l : list expr) | ENot (e : expr)
| EBin (op : binop) (a b : expr)
| EIf (c a b : expr)                   (* a if c else b *)
| EComp (elt : expr) (x : string) (iter : expr) (conds : list expr)   (* [elt for x in iter if conds...] *)
with arg :=
| APos (e : expr)                      (* f(e) *)
| AStar (e : expr)                     (* f( *e ) *)
| AKw (k : string) (e : expr)          (* f(k=e) *)
| ADStar (e : expr).                   (* f( **e ) *)

Inductive stmt :=
| SAssign (target : expr) (e : expr)   (* x = e / obj.attr = e *)
| SExpr (e : expr)
| SIf (c : expr) (body orelse : list stmt)
| SFor (x : string) (iter : expr) (body : list stmt)
| SReturn (e : option expr).

Record fdef := mkF {
  f_params : list (string * option expr);   (* parameter names (self included) with their defaults *)
  f_body : list stmt
}.

Record pclass := mkPC {                (* a payload class of ipv8/messaging/payload.py *)
  pc_name : string;
  pc_msg_id : Z;
  pc_fields : list (string * option expr)  (* constructor parameters, in order, with defaults; each is stored
                                              under its own name (checked by the translator) *)
}.

Record program := mkProg {
  p_funs : list (string * fdef);                 (* methods of Community / EndpointListener, by name *)
  p_payloads : list pclass;
  p_handlers : list (string * (string * bool));  (* payload class -> (handler method, signed?) from
                                                    add_message_handler + the lazy_wrapper decorator *)
  p_consts : list (string * list (string * Z))   (* module-level dict constants ( **kwargs splats) *)
}.
