(* C17 - identity attestations and token disclosure require the owner's consent.  Executable model of
     ipv8/attestation/identity/community.py  (IdentityCommunity.add_known_hash, should_sign,
        _received_disclosure_for_attest, on_disclosure, on_attest, on_request_missing, on_missing_response,
        request_attestation_advertisement, self_advertise, _fit_disclosure, permissions)
     ipv8/attestation/identity/manager.py    (IdentityManager.get_pseudonym / substantiate,
        PseudonymManager.add_credential / add_attestation / add_metadata / create_credential /
        create_disclosure)
     ipv8/attestation/identity/database.py   (insert_metadata, insert_attestation with their primary keys,
        get_metadata_for, get_attestations_over, get_authority)
     ipv8/attestation/identity/metadata.py, attestation.py (plaintext, verify, get_hash)
   The token tree of each pseudonym is the C16 model (model/M16_tokentree.v).
   No proofs here.  SHA3-256, the signature scheme, the node's own signing operation, json.loads and the
   SHA-1 padding are Section variables; executable instances (table driven / toy) are at the end.

   Messages are the authenticated, structurally decoded payloads (the sender is the verified key, C01;
   decoding is C02/C03).  A message whose byte areas end in a partial item is represented by the items
   that decode followed by a `fail` marker: the handler processes them and then raises, as the code does.
   Time is an integer number of seconds. *)
From Coq Require Import ZArith List Bool Arith.
From IPV8V Require Import lib.PyErr lib.Bytes model.M16_tokentree.
Import ListNotations.
Open Scope Z_scope.

(* ---------------------------------------------------------------- dicts keyed by byte strings *)
Fixpoint alookup {V} (k : bytes) (l : list (bytes * V)) : option V :=
  match l with
  | [] => None
  | (k', v) :: tl => if bytes_eqb k' k then Some v else alookup k tl
  end.

(* d[k] = v : an existing key keeps its position *)
Fixpoint aset {V} (k : bytes) (v : V) (l : list (bytes * V)) : list (bytes * V) :=
  match l with
  | [] => [(k, v)]
  | (k', v') :: tl => if bytes_eqb k' k then (k', v) :: tl else (k', v') :: aset k v tl
  end.

Definition mem (h : bytes) (l : list bytes) : bool := existsb (bytes_eqb h) l.

Fixpoint last_opt {A} (l : list A) : option A :=
  match l with [] => None | [x] => Some x | _ :: tl => last_opt tl end.

(* ---------------------------------------------------------------- JSON (the parser is trusted)
   json.loads(metadata.serialized_json_dict): a dict is a finite map from key strings (their UTF-8
   bytes) to values; a value is represented by a canonical rendering chosen so that Python's == on
   values is equality of renderings. *)
Inductive jdoc :=
| JBad                                   (* json.loads raises (ValueError family) *)
| JNotDict                               (* a JSON value without .keys(): AttributeError *)
| JDict (kv : list (bytes * bytes)).

Definition k_name : bytes := [110; 97; 109; 101].             (* "name" *)
Definition k_date : bytes := [100; 97; 116; 101].             (* "date" *)
Definition k_schema : bytes := [115; 99; 104; 101; 109; 97].  (* "schema" *)
Definition is_std (k : bytes) : bool := bytes_eqb k k_name || bytes_eqb k k_date || bytes_eqb k k_schema.
Definition has_field (k : bytes) (kv : list (bytes * bytes)) : bool :=
  match alookup k kv with Some _ => true | None => false end.
(* {k: v for k, v in transaction.items() if k not in ["name", "date", "schema"]} *)
Definition extras (kv : list (bytes * bytes)) : list (bytes * bytes) :=
  filter (fun p => negb (is_std (fst p))) kv.
(* dict equality (keys are unique on both sides) *)
Definition dict_eqb (a b : list (bytes * bytes)) : bool :=
  (length a =? length b)%nat &&
  forallb (fun p => match alookup (fst p) b with Some v => bytes_eqb v (snd p) | None => false end) a.

(* ---------------------------------------------------------------- signed objects and rows *)
Record metadata := mkMd { m_tptr : bytes; m_json : bytes; m_sig : bytes }.
Record attestation := mkAtt { a_mptr : bytes; a_sig : bytes }.
(* a row of table Attestations(public_key, authority_key, metadata_pointer, signature) *)
Record attrow := mkRow { r_pk : bytes; r_auth : bytes; r_mptr : bytes; r_sig : bytes }.
(* known_attestation_hashes[hash] = (name, time, public_key, metadata) *)
Record entry := mkEntry { e_name : bytes; e_time : Z; e_key : bytes; e_md : option (list (bytes * bytes)) }.

Definition md_plain (m : metadata) : bytes := m_tptr m ++ m_json m.      (* Metadata.get_plaintext *)
Definition md_signed (m : metadata) : bytes := md_plain m ++ m_sig m.    (* get_plaintext_signed *)

Record state := mkState {
  known : list (bytes * entry);        (* known_attestation_hashes *)
  pseus : list (bytes * tree);         (* identity_manager.pseudonyms: key -> token tree *)
  dmd : list (bytes * metadata);       (* table Metadata: (public_key, metadata), PK (public_key, token_pointer) *)
  datt : list attrow;                  (* table Attestations *)
  chain : list token;                  (* token_chain *)
  mdchain : list metadata;             (* metadata_chain *)
  perms : list (bytes * nat)           (* permissions: peer (key) -> highest index *)
}.

Definition set_known (s : state) v := mkState v (pseus s) (dmd s) (datt s) (chain s) (mdchain s) (perms s).
Definition set_pseus (s : state) v := mkState (known s) v (dmd s) (datt s) (chain s) (mdchain s) (perms s).
Definition set_dmd (s : state) v := mkState (known s) (pseus s) v (datt s) (chain s) (mdchain s) (perms s).
Definition set_datt (s : state) v := mkState (known s) (pseus s) (dmd s) v (chain s) (mdchain s) (perms s).
Definition set_chains (s : state) c m := mkState (known s) (pseus s) (dmd s) (datt s) c m (perms s).
Definition set_perms (s : state) v := mkState (known s) (pseus s) (dmd s) (datt s) (chain s) (mdchain s) v.

Inductive event :=
| EKnown (h name key : bytes) (md : option (list (bytes * bytes)))   (* user: add_known_hash *)
| EAdvertise (peer : option bytes) (h json : bytes) (jlen : nat)
    (* user: request_attestation_advertisement(peer, h, ..) / self_advertise(h, ..) when peer = None;
       json = json.dumps of the extended metadata as produced by the implementation, jlen = its length
       on the wire (used by the size arithmetic of _fit_disclosure only) *)
| EDisclose (peer : bytes) (mds : list metadata) (toks : list token)
            (atts : list (bytes * attestation)) (fail : option nat)     (* DisclosePayload from peer *)
| EMissingResp (peer : bytes) (toks : list token) (fail : bool)       (* MissingResponsePayload *)
| EAttest (peer : bytes) (a : option attestation)                     (* AttestPayload; None: too short *)
| EReqMissing (peer : bytes) (kn : Z).                                (* RequestMissingPayload *)

Inductive output :=
| OAttest (peer : bytes) (a : attestation)
| OReqMissing (peer : bytes) (n : nat)
| OMissingResp (peer : bytes) (toks : list token)
| ODisclose (peer : bytes) (m : metadata) (toks : list token) (kept : nat).
    (* toks: the root path of the disclosed credential; the packet carries `kept` of them (which ones
       depends on the iteration order of a Python set, see _fit_disclosure) *)

(* INSERT OR IGNORE INTO Metadata ... PRIMARY KEY (public_key, token_pointer) *)
Definition insert_md (pk : bytes) (m : metadata) (l : list (bytes * metadata)) : list (bytes * metadata) :=
  if existsb (fun r => bytes_eqb (fst r) pk && bytes_eqb (m_tptr (snd r)) (m_tptr m)) l then l
  else l ++ [(pk, m)].

(* INSERT OR IGNORE INTO Attestations.  wide = true: PRIMARY KEY (public_key, authority_key,
   metadata_pointer) (repaired schema); wide = false: PRIMARY KEY (public_key, metadata_pointer)
   (pinned schema: at most one attestation per metadata, whoever made it). *)
Definition att_conflict (wide : bool) (r x : attrow) : bool :=
  bytes_eqb (r_pk x) (r_pk r) && bytes_eqb (r_mptr x) (r_mptr r) &&
  (if wide then bytes_eqb (r_auth x) (r_auth r) else true).
Definition insert_att (wide : bool) (r : attrow) (l : list attrow) : list attrow :=
  if existsb (att_conflict wide r) l then l else l ++ [r].

(* get_authority: SELECT authority_key FROM Attestations WHERE signature = ?  (first row) *)
Definition authority_of (d : list attrow) (sg : bytes) : option bytes :=
  match find (fun r => bytes_eqb (r_sig r) sg) d with Some r => Some (r_auth r) | None => None end.

(* a Python set of signed objects (equality = equal signed plaintext), listed in first-occurrence order *)
Fixpoint dedup_by {A} (eqb : A -> A -> bool) (l : list A) : list A :=
  match l with
  | [] => []
  | x :: tl => x :: filter (fun y => negb (eqb x y)) (dedup_by eqb tl)
  end.
Definition md_eqb (a b : metadata) : bool := bytes_eqb (md_signed a) (md_signed b).      (* Metadata.__eq__ *)

(* pseudonym.get_credentials(): get_credentials_for -> the SET get_metadata_for(public_key) *)
Definition credentials_of (pk : bytes) (d : list (bytes * metadata)) : list metadata :=
  dedup_by md_eqb (map snd (filter (fun r => bytes_eqb (fst r) pk) d)).

Definition get_tree (k : bytes) (ps : list (bytes * tree)) : tree :=
  match alookup k ps with Some t => t | None => empty_tree 100 end.

Definition fail_is (f : option nat) (n : nat) : bool :=
  match f with Some k => (k =? n)%nat | None => false end.

Section Identity.
Variable hash : bytes -> bytes.                          (* hashlib.sha3_256(x).digest() *)
Variable sigverify : bytes -> bytes -> bytes -> bool.    (* ECCrypto.is_valid_signature(pk, msg, sig) *)
Variable mysign : bytes -> bytes.                        (* my_peer.key.signature(msg) *)
Variable parse : bytes -> jdoc.                          (* json.loads *)
Variable norm : bytes -> bytes.                          (* pad_hash for 20-byte hashes, identity otherwise *)
Variable me : bytes.                                     (* my_peer.public_key.key_to_bin() *)
Variable rhl rsl : nat.      (* widths of a digest / of a signature on the wire (size arithmetic only) *)
Variable wide : bool.        (* schema of table Attestations, see insert_att *)

Definition md_hash (m : metadata) : bytes := hash (md_signed m).                       (* get_hash() *)
Definition md_verify (pk : bytes) (m : metadata) : bool := sigverify pk (md_plain m) (m_sig m).
Definition att_verify (pk : bytes) (a : attestation) : bool := sigverify pk (a_mptr a) (a_sig a).

(* PseudonymManager.add_metadata *)
Definition add_metadata (pk : bytes) (m : metadata) (d : list (bytes * metadata)) : list (bytes * metadata) :=
  if md_verify pk m then insert_md pk m d else d.

(* PseudonymManager.add_attestation(authority, attestation) of the pseudonym of `subj` *)
Definition add_att (subj auth : bytes) (a : attestation) (d : list attrow) : list attrow * bool :=
  if att_verify auth a then (insert_att wide (mkRow subj auth (a_mptr a) (a_sig a)) d, true) else (d, false).

(* tree.unserialize_public over the chunks that decode *)
Fixpoint gather_list (pk : bytes) (tr : tree) (toks : list token) (correct : bool) : res (tree * bool) :=
  match toks with
  | [] => Ok (tr, correct)
  | t :: tl =>
      match gather_top hash sigverify pk tr t with
      | Raise e => Raise e
      | Ok (tr', r) => gather_list pk tr' tl (correct && is_some r)
      end
  end.

Definition add_atts (subj : bytes) (atts : list (bytes * attestation)) (d : list attrow) (c : bool)
  : list attrow * bool :=
  fold_left (fun acc aa => let '(d0, c0) := acc in
                           let '(d1, ok) := add_att subj (fst aa) (snd aa) d0 in (d1, c0 && ok))
            atts (d, c).

(* IdentityManager.substantiate: tokens, then metadata, then attestations; the state reached before an
   exception is kept *)
Definition substantiate (s : state) (pk : bytes) (mds : list metadata) (toks : list token)
           (atts : list (bytes * attestation)) (fail : option nat) : state * res bool :=
  match gather_list pk (get_tree pk (pseus s)) toks true with
  | Raise e => (set_pseus s (aset pk (get_tree pk (pseus s)) (pseus s)), Raise e)   (* get_pseudonym registered it *)
  | Ok (tr1, c1) =>
      let s1 := set_pseus s (aset pk tr1 (pseus s)) in
      if fail_is fail 0 then (s1, Raise StructError) else
      let s2 := set_dmd s1 (fold_left (fun d m => add_metadata pk m d) mds (dmd s1)) in
      if fail_is fail 1 then (s2, Raise StructError) else
      let '(d3, c3) := add_atts pk atts (datt s2) c1 in
      let s3 := set_datt s2 d3 in
      if fail_is fail 2 then (s3, Raise StructError) else (s3, Ok c3)
  end.

(* the loop at the end of should_sign: some attestation over this metadata was made by us *)
Definition already (d : list attrow) (h : bytes) : bool :=
  existsb (fun r => bytes_eqb (r_mptr r) h &&
                    match authority_of d (r_sig r) with Some a => bytes_eqb a me | None => false end) d.

Definition opt_eqb (a : option bytes) (b : bytes) : bool :=
  match a with Some x => bytes_eqb x b | None => false end.

(* IdentityCommunity.should_sign(pseudonym, metadata) at time `now` *)
Definition should_sign (s : state) (now : Z) (pk : bytes) (tr : tree) (m : metadata) : res bool :=
  match parse (m_json m) with
  | JBad => Raise ValueError
  | JNotDict => Raise TypeError
  | JDict kv =>
      match find_key hash (m_tptr m) (elements tr) with
      | None => Ok false
      | Some tok =>
          if negb (has_field k_name kv && has_field k_date kv && has_field k_schema kv) then Ok false
          else match alookup (t_chash tok) (known s) with
               | None => Ok false
               | Some e =>
                   if negb (bytes_eqb pk (e_key e)) then Ok false
                   else if e_time e + 300 <? now then Ok false
                   else if negb (opt_eqb (alookup k_name kv) (e_name e)) then Ok false
                   else if match e_md e with
                           | Some md => negb (dict_eqb (extras kv) md)
                           | None => false
                           end then Ok false
                   else if already (datt s) (md_hash m) then Ok false
                   else Ok true
               end
      end
  end.

(* for credential in pseudonym.get_credentials(): if self.should_sign(..): create, add, send *)
Fixpoint sign_loop (s : state) (now : Z) (pk : bytes) (tr : tree) (mds : list metadata)
  : state * list output * option exn :=
  match mds with
  | [] => (s, [], None)
  | m :: tl =>
      match should_sign s now pk tr m with
      | Raise e => (s, [], Some e)
      | Ok false => sign_loop s now pk tr tl
      | Ok true =>
          let a := mkAtt (md_hash m) (mysign (md_hash m)) in
          let s' := set_datt s (fst (add_att pk me a (datt s))) in
          let '(s2, outs, x) := sign_loop s' now pk tr tl in
          (s2, OAttest pk a :: outs, x)
      end
  end.

(* _received_disclosure_for_attest *)
Definition recv_disclosure (s : state) (now : Z) (peer : bytes) (mds : list metadata) (toks : list token)
           (atts : list (bytes * attestation)) (fail : option nat) : state * list output * option exn :=
  if negb (existsb (fun kv => bytes_eqb (e_key (snd kv)) peer) (known s)) then (s, [], None)
  else
    match substantiate s peer mds toks atts fail with
    | (s1, Raise e) => (s1, [], Some e)
    | (s1, Ok correct) =>
        let tr := get_tree peer (pseus s1) in
        let required := map fst (filter (fun kv => bytes_eqb (e_key (snd kv)) peer) (known s1)) in
        let kattrs := map t_chash (elements tr) in
        let '(s2, outs, x) :=
          if correct && existsb (fun h => mem h kattrs) required
          then sign_loop s1 now peer tr (credentials_of peer (dmd s1))
          else (s1, [], None) in
        match x with
        | Some e => (s2, outs, Some e)
        | None =>
            (s2, outs ++ map (fun _ => OReqMissing peer (length (elements tr)))
                             (filter (fun h => negb (mem h kattrs)) required), None)
        end
    end.

(* on_request_missing: the permitted range, from index `kn`, while it fits a packet *)
Definition tokw : Z := Z.of_nat (rhl + rhl + rsl).      (* len(token.get_plaintext_signed()) *)
Fixpoint collect (toks : list token) (idx kn outlen : Z) : list token :=
  match toks with
  | [] => []
  | t :: tl =>
      if kn <=? idx then
        if 1296 <? outlen + tokw then [] else t :: collect tl (idx + 1) kn (outlen + tokw)
      else collect tl (idx + 1) kn outlen
  end.
Definition perm_of (s : state) (peer : bytes) : nat :=
  match alookup peer (perms s) with Some n => n | None => 0%nat end.
Definition req_missing (s : state) (peer : bytes) (kn : Z) : state * list output * option exn :=
  (s, [OMissingResp peer (collect (firstn (perm_of s peer) (chain s)) 0 kn 0)], None).

(* _fit_disclosure for one metadata entry, no attestations: how many of n tokens stay in the packet *)
Definition fit (jlen n : nat) : nat :=
  let tsz := 64 + Z.of_nat rsl in
  let meta_len := 4 + Z.of_nat (rhl + jlen + rsl) in
  if 1296 <? meta_len + Z.of_nat n * tsz then
    let trim := Z.max 0 (1296 - meta_len) / tsz in
    if trim =? 0 then n else Nat.min n (Z.to_nat trim)
  else n.

(* TokenTree._append: self.elements[token.get_hash()] = token *)
Definition append_elem (tr : tree) (t : token) : tree :=
  if has_key hash (thash hash t) (elements tr)
  then mkTree (update_first (fun x => bytes_eqb (thash hash x) (thash hash t)) (fun _ => t) (elements tr))
              (unchained tr) (cap tr)
  else mkTree (elements tr ++ [t]) (unchained tr) (cap tr).

(* self_advertise (+ the rest of request_attestation_advertisement when a peer is given) *)
Definition advertise (s : state) (peer : option bytes) (h json : bytes) (jlen : nat)
  : state * list output * option exn :=
  let tr0 := get_tree me (pseus s) in
  let prev := match last_opt (mdchain s) with
              | None => genesis hash me
              | Some after => match find_key hash (m_tptr after) (elements tr0) with
                              | Some tk => thash hash tk
                              | None => genesis hash me
                              end
              end in
  let ah := norm h in
  let tok := mkToken prev ah (mysign (prev ++ ah)) None in
  match gather_top hash sigverify me (append_elem tr0 tok) tok with
  | Raise e => (set_pseus s (aset me (append_elem tr0 tok) (pseus s)), [], Some e)   (* add_by_hash stored it *)
  | Ok (tr2, r) =>
      let s1 := set_pseus s (aset me tr2 (pseus s)) in
      let md := mkMd (thash hash tok) json (mysign (thash hash tok ++ json)) in
      match r with
      | None => (s1, [], None)                       (* credential is None: only logged *)
      | Some _ =>
          if negb (md_verify me md) then (s1, [], None) else
          let s2 := set_dmd s1 (insert_md me md (dmd s1)) in
          match find_key hash (m_tptr md) (elements tr2) with
          | None => (set_chains s2 (chain s2) (mdchain s2 ++ [md]), [], Some KeyError)
              (* metadata_chain.append precedes the lookup for token_chain.append *)
          | Some tk =>
              let s3 := set_chains s2 (chain s2 ++ [tk]) (mdchain s2 ++ [md]) in
              match peer with
              | None => (s3, [], None)
              | Some p =>
                  let s4 := set_perms s3 (aset p (length (chain s3)) (perms s3)) in
                  if negb (tree_verify hash sigverify me tr2 tk 1000) then (s4, [], Some RuntimeError)
                  else
                    let path := get_root_path hash sigverify me tr2 tk 1000 in
                    (s4, [ODisclose p md path (fit jlen (length path))], None)
              end
          end
      end
  end.

Definition step (s : state) (now : Z) (ev : event) : state * list output * option exn :=
  match ev with
  | EKnown h name key md => (set_known s (aset (norm h) (mkEntry name now key md) (known s)), [], None)
  | EAdvertise p h json jlen => advertise s p h json jlen
  | EDisclose p mds toks atts fail => recv_disclosure s now p mds toks atts fail
  | EMissingResp p toks fail => recv_disclosure s now p [] toks [] (if fail then Some 0%nat else None)
  | EAttest p None => (s, [], Some StructError)
  | EAttest p (Some a) => (set_datt s (fst (add_att me p a (datt s))), [], None)
  | EReqMissing p kn => req_missing s p kn
  end.

Definition st_of (r : state * list output * option exn) : state := fst (fst r).
Definition outs_of (r : state * list output * option exn) : list output := snd (fst r).

(* a history: (time, event) pairs; the trace lists the outputs (and the exception, if any) per event *)
Fixpoint run (s : state) (evs : list (Z * event)) : state * list (list output * option exn) :=
  match evs with
  | [] => (s, [])
  | (now, ev) :: tl =>
      let '(s1, o, x) := step s now ev in
      let '(s2, tr) := run s1 tl in
      (s2, (o, x) :: tr)
  end.

Definition init : state := mkState [] [(me, empty_tree 100)] [] [] [] [] [].

End Identity.

(* ------------------------------------------------------------------------------------------------
   Executable instances.
   1. table driven (correspondence): SHA3-256 on the inputs of the case, the valid (key, message,
      signature) triples, the node's signatures, json.loads results, padded hashes. *)
Definition tbl_fun (tbl : list (bytes * bytes)) (dflt : bytes -> bytes) (x : bytes) : bytes :=
  match alookup x tbl with Some y => y | None => dflt x end.
Definition tbl_verify3 (valid : list (bytes * bytes * bytes)) (pk m s : bytes) : bool :=
  existsb (fun e => let '(k, m', s') := e in bytes_eqb k pk && bytes_eqb m' m && bytes_eqb s' s) valid.
Definition tbl_parse (tbl : list (bytes * jdoc)) (x : bytes) : jdoc :=
  match alookup x tbl with Some d => d | None => JBad end.

(* 2. toy: hash = identity; the signature of m under key k is [len k] ++ k ++ m, so a signature names
      its key; every key signs with itself *)
Definition toy_sig (k m : bytes) : bytes := Z.of_nat (length k) :: k ++ m.
Definition toy_verify3 (k m s : bytes) : bool := bytes_eqb s (toy_sig k m).
(* toy json: the document [1; n; d; c] ++ rest is the dict {name: [n], date: [d], schema: [c]} plus, when
   rest = [k; v], the extra field [k] -> [v]; [2] is a non-dict; anything else does not parse *)
Definition toy_parse (x : bytes) : jdoc :=
  match x with
  | [1; n; d; c] => JDict [(k_name, [n]); (k_date, [d]); (k_schema, [c])]
  | [1; n; d; c; k; v] => JDict [(k_name, [n]); (k_date, [d]); (k_schema, [c]); ([k], [v])]
  | [2] => JNotDict
  | _ => JBad
  end.

(* ------------------------------------------------------------------------------------------------
   Correspondence interface.  Observations per event: the outputs (attestations as a multiset, the rest
   in order), the exception class, and a digest of the state: rows of Attestations and Metadata (as
   multisets), every pseudonym tree (elements and waiting tokens in order), permissions, chain. *)
Record case := mkCase {
  c_me : bytes;
  c_rhl : nat; c_rsl : nat;
  c_wide : bool;
  c_htbl : list (bytes * bytes);
  c_vtbl : list (bytes * bytes * bytes);
  c_stbl : list (bytes * bytes);
  c_ptbl : list (bytes * jdoc);
  c_ntbl : list (bytes * bytes);
  c_evs : list (Z * event)
}.

Definition enc_b (b : bytes) : list Z := Z.of_nat (length b) :: b.
Definition enc_tok17 (t : token) : list Z := enc_b (t_prev t) ++ enc_b (t_chash t) ++ enc_b (t_sig t).
Definition enc_md (m : metadata) : list Z := enc_b (m_tptr m) ++ enc_b (m_json m) ++ enc_b (m_sig m).
Definition enc_ls {A} (f : A -> list Z) (l : list A) : list Z := Z.of_nat (length l) :: flat_map f l.
Definition exn_code17 (e : exn) : Z :=
  match e with
  | StructError => 10 | KeyError => 11 | OutOfFuel => 12 | ValueError => 13 | TypeError => 14
  | RuntimeError => 15 | _ => 19
  end.

(* per event: (attestation outputs, other outputs in order, exception code or 0,
               Attestations rows, Metadata rows, rest of the state in order) *)
Definition eobs := (list (list Z) * list (list Z) * Z * list (list Z) * list (list Z) * list Z)%type.

Definition enc_out (o : output) : list Z :=
  match o with
  | OAttest p a => 1 :: enc_b p ++ enc_b (a_mptr a) ++ enc_b (a_sig a)
  | OReqMissing p n => 2 :: enc_b p ++ [Z.of_nat n]
  | OMissingResp p toks => 3 :: enc_b p ++ enc_ls enc_tok17 toks
  | ODisclose p m toks k => 4 :: enc_b p ++ enc_md m ++ enc_ls enc_tok17 toks ++ [Z.of_nat k]
  end.
Definition is_attest (o : output) : bool := match o with OAttest _ _ => true | _ => false end.

Definition enc_row (r : attrow) : list Z := enc_b (r_pk r) ++ enc_b (r_auth r) ++ enc_b (r_mptr r) ++ enc_b (r_sig r).
Definition enc_mdrow (r : bytes * metadata) : list Z := enc_b (fst r) ++ enc_md (snd r).
Definition enc_tree (kt : bytes * tree) : list Z :=
  enc_b (fst kt) ++ enc_ls enc_tok17 (elements (snd kt)) ++ enc_ls enc_tok17 (unchained (snd kt)).
Definition enc_rest (s : state) : list Z :=
  enc_ls enc_tree (pseus s)
  ++ enc_ls (fun p => enc_b (fst p) ++ [Z.of_nat (snd p)]) (perms s)
  ++ enc_ls enc_tok17 (chain s)
  ++ enc_ls (fun kv => enc_b (fst kv) ++ enc_b (e_name (snd kv)) ++ [e_time (snd kv)] ++ enc_b (e_key (snd kv)))
            (known s).

Definition obs_event (s : state) (o : list output) (x : option exn) : eobs :=
  (map enc_out (filter is_attest o), map enc_out (filter (fun y => negb (is_attest y)) o),
   match x with Some e => exn_code17 e | None => 0 end,
   map enc_row (datt s), map enc_mdrow (dmd s), enc_rest s).

Section RunCase.
Variable c : case.
Let fH := tbl_fun (c_htbl c) (fun _ => []).
Let fV := tbl_verify3 (c_vtbl c).
Let fS := tbl_fun (c_stbl c) (fun _ => []).
Let fP := tbl_parse (c_ptbl c).
Let fN := tbl_fun (c_ntbl c) (fun x => x).

Fixpoint run_obs (s : state) (evs : list (Z * event)) : list eobs :=
  match evs with
  | [] => []
  | (now, ev) :: tl =>
      let '(s1, o, x) := step fH fV fS fP fN (c_me c) (c_rhl c) (c_rsl c) (c_wide c) s now ev in
      obs_event s1 o x :: run_obs s1 tl
  end.
Definition run_case_ : list eobs := run_obs (init (c_me c)) (c_evs c).
End RunCase.
Definition run_case (c : case) : list eobs := run_case_ c.

(* comparison: multisets where the implementation's order is that of a Python set / of row ids *)
Fixpoint lz_eqb (a b : list Z) : bool :=
  match a, b with
  | [], [] => true
  | x :: a', y :: b' => (x =? y) && lz_eqb a' b'
  | _, _ => false
  end.
Fixpoint llz_eqb (a b : list (list Z)) : bool :=
  match a, b with
  | [], [] => true
  | x :: a', y :: b' => lz_eqb x y && llz_eqb a' b'
  | _, _ => false
  end.
Definition count_lz (x : list Z) (l : list (list Z)) : nat := length (filter (lz_eqb x) l).
Definition mset_eqb (a b : list (list Z)) : bool :=
  (length a =? length b)%nat && forallb (fun x => (count_lz x a =? count_lz x b)%nat) a.
Definition eobs_eqb (a b : eobs) : bool :=
  let '(a1, a2, a3, a4, a5, a6) := a in
  let '(b1, b2, b3, b4, b5, b6) := b in
  mset_eqb a1 b1 && llz_eqb a2 b2 && (a3 =? b3) && mset_eqb a4 b4 && mset_eqb a5 b5 && lz_eqb a6 b6.
Fixpoint obs_eqb (a b : list eobs) : bool :=
  match a, b with
  | [], [] => true
  | x :: a', y :: b' => eobs_eqb x y && obs_eqb a' b'
  | _, _ => false
  end.
