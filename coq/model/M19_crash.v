(* C19 - stored identity data survives a crash at any point.  Executable model of
     ipv8/database.py                        (Database.open/_prepare_version, execute, executescript, commit,
                                              __enter__/__exit__ and the _pending_commits deferral counter)
     ipv8/attestation/identity/database.py   (insert_token / insert_metadata / insert_attestation, check_database)
     ipv8/attestation/wallet/database.py     (insert_attestation, check_database)
   over a transactional store.  No proofs here.

   The store (SQLite in WAL mode, synchronous=NORMAL, against a process kill) is the record `store_ops`:
   what the live connection sees (`s_view`), what a fresh process would see if this one were killed now
   (`s_durable`), statement execution inside the current transaction, commit and crash.  Its contract is in
   spec/S19_durable.v; the concrete two-level instance `cstore_ops` below makes the model executable.

   Rows are lists of abstract column values (the harness maps every distinct byte string to an index);
   tables are numbered by the translator (0 is always the `option` table). *)
From Coq Require Import ZArith List Bool Arith.
From IPV8V Require Import lib.PyErr lib.Bytes.
Import ListNotations.
Open Scope Z_scope.

(* ------------------------------------------------------------------------------------------------
   1. the logical content of a database file and the SQL statements the anchored code issues *)
Definition row := list Z.

Record tdef := mkT { t_id : Z; t_pk : list nat }.        (* table number, primary-key column positions *)

Record dstate := mkD {
  d_tables : list tdef;            (* CREATE TABLE keeps the definition it was first created with *)
  d_rows : list (Z * row)          (* (table, row) in insertion order *)
}.
Definition empty_d : dstate := mkD [] [].

Definition T_OPTION : Z := 0.      (* the `option` table: (key, value) *)
Definition K_VERSION : Z := 0.     (* the key 'database_version' *)

Inductive stmt :=
| SCreate (td : tdef)                         (* CREATE TABLE IF NOT EXISTS *)
| SInsert (ignore : bool) (t : Z) (r : row)   (* INSERT [OR IGNORE] INTO t VALUES r *)
| SDelete (t : Z) (col : nat) (v : Z).        (* DELETE FROM t WHERE col = v *)

Inductive sres := SOk | SNoTable | SIntegrity.   (* fine / sqlite3.OperationalError / sqlite3.IntegrityError *)

Definition find_table (d : dstate) (t : Z) : option tdef :=
  find (fun td => t_id td =? t) (d_tables d).

Definition key_of (pk : list nat) (r : row) : list Z := map (fun i => nth i r (-1)) pk.

Definition row_has_key (t : Z) (pk : list nat) (k : list Z) (tr : Z * row) : bool :=
  (fst tr =? t) && bytes_eqb (key_of pk (snd tr)) k.

Definition has_key (d : dstate) (t : Z) (pk : list nat) (k : list Z) : bool :=
  existsb (row_has_key t pk k) (d_rows d).

Definition del_match (t : Z) (col : nat) (v : Z) (tr : Z * row) : bool :=
  (fst tr =? t) && (nth col (snd tr) (-1) =? v).

Definition apply_stmt (d : dstate) (q : stmt) : sres * dstate :=
  match q with
  | SCreate td =>
      match find_table d (t_id td) with
      | Some _ => (SOk, d)
      | None => (SOk, mkD (d_tables d ++ [td]) (d_rows d))
      end
  | SInsert ig t r =>
      match find_table d t with
      | None => (SNoTable, d)
      | Some td =>
          if has_key d t (t_pk td) (key_of (t_pk td) r)
          then ((if ig then SOk else SIntegrity), d)
          else (SOk, mkD (d_tables d) (d_rows d ++ [(t, r)]))
      end
  | SDelete t col v =>
      match find_table d t with
      | None => (SNoTable, d)
      | Some _ => (SOk, mkD (d_tables d) (filter (fun tr => negb (del_match t col v tr)) (d_rows d)))
      end
  end.

Definition table_rows (d : dstate) (t : Z) : list row :=
  map snd (filter (fun tr => fst tr =? t) (d_rows d)).

(* SELECT value FROM option WHERE key == 'database_version' LIMIT 1 *)
Definition version_row (d : dstate) : option Z :=
  match find (fun tr => del_match T_OPTION 0 K_VERSION tr) (d_rows d) with
  | Some tr => Some (nth 1 (snd tr) 0)
  | None => None
  end.

(* ------------------------------------------------------------------------------------------------
   2. the transactional store *)
Record store_ops (S : Type) := mkOps {
  s_view : S -> dstate;                 (* what this connection reads (own uncommitted rows included) *)
  s_durable : S -> dstate;              (* what a fresh process reads if this one is killed now *)
  s_exec : S -> stmt -> sres * S;       (* one statement inside the current (implicitly begun) transaction *)
  s_commit : S -> S;                    (* COMMIT (no-op when nothing is pending) *)
  s_crash : S -> S                      (* SIGKILL, then a fresh connection *)
}.
Arguments s_view {S}. Arguments s_durable {S}. Arguments s_exec {S}.
Arguments s_commit {S}. Arguments s_crash {S}.

(* the concrete instance: published content + this connection's view *)
Record cstore := mkCS { cs_durable : dstate; cs_view : dstate }.
Definition cstore_ops : store_ops cstore :=
  mkOps cstore cs_view cs_durable
        (fun s q => let '(r, v) := apply_stmt (cs_view s) q in (r, mkCS (cs_durable s) v))
        (fun s => mkCS (cs_view s) (cs_view s))
        (fun s => mkCS (cs_durable s) (cs_durable s)).
Definition fresh_store : cstore := mkCS empty_d empty_d.

(* ------------------------------------------------------------------------------------------------
   3. what the translator extracts from the source: each write function as a list of operations *)
Inductive dbop :=
| OExec (ignore : bool) (t : Z)      (* self.execute("INSERT [OR IGNORE] INTO t (...) VALUES(?,...)", row) *)
| OScript (sc : list stmt)           (* self.executescript(...) *)
| OCommit.                           (* self.commit() *)

Record dbcfg := mkCfg {
  cfg_latest : Z;                    (* LATEST_DB_VERSION *)
  cfg_check : list dbop;             (* check_database for a current or fresh database *)
  cfg_inserts : list (list dbop)     (* the insert functions, in source order *)
}.

Inductive dberr := EIntegrity | EOperational | EStopIteration | EOutOfModel | EReraised.
Inductive outcome := Done | Raised (e : dberr).

Definition sres_err (r : sres) : option dberr :=
  match r with SOk => None | SNoTable => Some EOperational | SIntegrity => Some EIntegrity end.

(* the Database object: connection, _pending_commits; plus the harness's two logs (outside the database) *)
Record ms (S : Type) := mkMs {
  ms_st : S;
  ms_pend : Z;
  ms_started : list (nat * row);     (* insert calls begun (logged before the call) *)
  ms_acks : list (nat * row)         (* insert calls that returned (logged after the call) *)
}.
Arguments mkMs {S}. Arguments ms_st {S}. Arguments ms_pend {S}. Arguments ms_started {S}. Arguments ms_acks {S}.

Inductive exitkind := XNone | XIgnore | XOther.   (* no exception / IgnoreCommits / any other exception *)

Inductive action :=
| ACall (fn : nat) (r : row)     (* the fn-th insert function applied to a record *)
| AEnter                         (* with db: *)
| AExit (k : exitkind)           (* leaving the with block *)
| ACommit                        (* db.commit() *)
| ACheck.                        (* the check_database body once more (executescript + commit) *)

Section Machine.
Context {S : Type}.
Variable O : store_ops S.
Variable cfg : dbcfg.
Variable pinned : bool.   (* true: _prepare_version as on the pinned tree (StopIteration on a missing row) *)

Definition set_st (m : ms S) (s : S) : ms S := mkMs s (ms_pend m) (ms_started m) (ms_acks m).
Definition set_pend (m : ms S) (p : Z) : ms S := mkMs (ms_st m) p (ms_started m) (ms_acks m).
Definition add_start (m : ms S) (c : nat * row) : ms S :=
  mkMs (ms_st m) (ms_pend m) (ms_started m ++ [c]) (ms_acks m).
Definition add_ack (m : ms S) (c : nat * row) : ms S :=
  mkMs (ms_st m) (ms_pend m) (ms_started m) (ms_acks m ++ [c]).

(* sqlite3.Connection.commit() *)
Definition real_commit (m : ms S) : ms S := set_st m (s_commit O (ms_st m)).

(* Database.commit(): deferred while _pending_commits > 0 *)
Definition db_commit (m : ms S) : ms S :=
  if ms_pend m =? 0 then real_commit m else set_pend m (ms_pend m + 1).

(* The functions below return (states after each completed primitive step, final state, outcome):
   the first component is the list of instants at which the process can be killed. *)

(* the statements of an executescript body: SQLite autocommit mode, every statement its own transaction *)
Fixpoint run_script (m : ms S) (sc : list stmt) : list (ms S) * ms S * outcome :=
  match sc with
  | [] => ([], m, Done)
  | q :: tl =>
      let '(r, s1) := s_exec O (ms_st m) q in
      match sres_err r with
      | Some e => ([], set_st m s1, Raised e)
      | None =>
          let m1 := set_st m (s_commit O s1) in
          let '(tr, m2, o) := run_script m1 tl in (m1 :: tr, m2, o)
      end
  end.

Fixpoint run_ops (m : ms S) (ops : list dbop) (r : row) : list (ms S) * ms S * outcome :=
  match ops with
  | [] => ([], m, Done)
  | OExec ig t :: tl =>
      let '(res, s1) := s_exec O (ms_st m) (SInsert ig t r) in
      match sres_err res with
      | Some e => ([], set_st m s1, Raised e)          (* the exception skips the rest of the function *)
      | None =>
          let m1 := set_st m s1 in
          let '(tr, m2, o) := run_ops m1 tl r in (m1 :: tr, m2, o)
      end
  | OScript sc :: tl =>
      let m0 := real_commit m in                       (* executescript first commits a pending transaction *)
      let '(tr1, m1, o1) := run_script m0 sc in
      match o1 with
      | Raised e => (m0 :: tr1, m1, o1)
      | Done => let '(tr2, m2, o2) := run_ops m1 tl r in (m0 :: tr1 ++ tr2, m2, o2)
      end
  | OCommit :: tl =>
      let m1 := db_commit m in
      let '(tr, m2, o) := run_ops m1 tl r in (m1 :: tr, m2, o)
  end.

(* An upgrade script written as one explicit transaction: executescript("BEGIN; q1; ...; qn; COMMIT;").
   (The SQL of the shipped upgrade scripts - ALTER TABLE, UPDATE - is not modelled; this is the transaction
   structure only, for any statements.) *)
Fixpoint run_tx (m : ms S) (sc : list stmt) : list (ms S) * ms S * outcome :=
  match sc with
  | [] => ([], m, Done)
  | q :: tl =>
      let '(r, s1) := s_exec O (ms_st m) q in
      match sres_err r with
      | Some e => ([], set_st m s1, Raised e)
      | None => let m1 := set_st m s1 in
                let '(tr, m2, o) := run_tx m1 tl in (m1 :: tr, m2, o)
      end
  end.

Definition run_atomic (m : ms S) (sc : list stmt) : list (ms S) * ms S * outcome :=
  let m0 := real_commit m in                       (* executescript first commits a pending transaction *)
  let '(tr, m1, o) := run_tx m0 sc in
  match o with
  | Done => let m2 := real_commit m1 in (m0 :: tr ++ [m2], m2, Done)
  | Raised _ => (m0 :: tr, m1, o)
  end.

(* Database._prepare_version *)
Definition prepare_version (d : dstate) : Z + dberr :=
  match find_table d T_OPTION with
  | None => inl 0
  | Some _ =>
      match version_row d with
      | Some v => inl v
      | None => if pinned then inr EStopIteration else inl 0
      end
  end.

(* Database.open() on a fresh Database object; only current (or not yet versioned) files are modelled *)
Definition open (m : ms S) : list (ms S) * ms S * outcome :=
  match prepare_version (s_view O (ms_st m)) with
  | inr e => ([], m, Raised e)
  | inl v =>
      if (v =? 0) || (v =? cfg_latest cfg) then run_ops m (cfg_check cfg) []
      else ([], m, Raised EOutOfModel)
  end.

Definition run_action (m : ms S) (a : action) : list (ms S) * ms S * outcome :=
  match a with
  | ACall fn r =>
      let ms0 := add_start m (fn, r) in
      match nth_error (cfg_inserts cfg) fn with
      | None => ([ms0], ms0, Raised EOutOfModel)
      | Some ops =>
          let '(tr, m1, o) := run_ops ms0 ops r in
          match o with
          | Done => let m2 := add_ack m1 (fn, r) in (ms0 :: tr ++ [m2], m2, Done)   (* the call returned *)
          | Raised e => (ms0 :: tr, m1, o)
          end
      end
  | AEnter => let m1 := set_pend m (Z.max 1 (ms_pend m)) in ([m1], m1, Done)
  | AExit k =>
      let p := ms_pend m in
      let m1 := set_pend m 0 in
      match k with
      | XNone => let m2 := if 1 <? p then db_commit m1 else m1 in ([m2], m2, Done)
      | XIgnore => ([m1], m1, Done)
      | XOther => ([m1], m1, Raised EReraised)
      end
  | ACommit => let m1 := db_commit m in ([m1], m1, Done)
  | ACheck => run_ops m (cfg_check cfg) []
  end.

(* the harness catches what an action raises and carries on *)
Fixpoint run_actions (m : ms S) (acts : list action) : list (ms S) * ms S :=
  match acts with
  | [] => ([], m)
  | a :: tl =>
      let '(tr1, m1, _) := run_action m a in
      let '(tr2, m2) := run_actions m1 tl in (tr1 ++ tr2, m2)
  end.

(* one process: open, then the workload.  All instants: the start and after every primitive step. *)
Definition run_process (m : ms S) (acts : list action) : list (ms S) * ms S :=
  let '(tr0, m1, o) := open m in
  match o with
  | Raised _ => (m :: tr0, m1)
  | Done => let '(tr, m2) := run_actions m1 acts in (m :: tr0 ++ tr, m2)
  end.

(* kill, then a fresh process with a fresh Database object; the acknowledgement log is outside *)
Definition reboot (m : ms S) : ms S := mkMs (s_crash O (ms_st m)) 0 (ms_started m) (ms_acks m).

(* a history: processes, each killed at its k-th instant (beyond the end: after its last step) *)
Fixpoint run_history (m : ms S) (h : list (list action * nat)) : ms S :=
  match h with
  | [] => m
  | (acts, k) :: tl =>
      let '(snaps, mf) := run_process m acts in
      run_history (reboot (nth k snaps mf)) tl
  end.

End Machine.

(* ------------------------------------------------------------------------------------------------
   4. correspondence interface (concrete store).  Observations are flat lists of Z. *)
Definition enc_rows (l : list row) : list Z :=
  Z.of_nat (length l) :: flat_map (fun r => Z.of_nat (length r) :: r) l.

Definition err_code (e : dberr) : Z :=
  match e with EIntegrity => 2 | EOperational => 3 | EStopIteration => 4 | EOutOfModel => 9 | EReraised => 5 end.
Definition out_code (o : outcome) : Z := match o with Done => 1 | Raised e => err_code e end.

(* rows of the listed tables, in order *)
Definition enc_tables (d : dstate) (ts : list Z) : list Z := flat_map (fun t => enc_rows (table_rows d t)) ts.

(* (a) crash experiment: the history is run, the last state is rebooted and reopened by the observer;
       observation = outcome of that open, version row, rows of the listed tables.
       `pinned` selects the pinned _prepare_version for replaying recorded witnesses. *)
Definition crash_obs (pinned : bool) (cfg : dbcfg) (ts : list Z) (h : list (list action * nat)) : list Z :=
  let m := run_history cstore_ops cfg pinned (mkMs fresh_store 0 [] []) h in
  let '(_, m1, o) := open cstore_ops cfg pinned m in
  out_code o ::
  (match version_row (cs_view (ms_st m1)) with Some v => v | None => -1 end) ::
  enc_tables (cs_view (ms_st m1)) ts.

(* one workload, many kill instants of its last process *)
Definition crash_case : Type := bool * dbcfg * list Z * list (list action * nat) * list action * list nat.
Definition run_crash_case (c : crash_case) : list (list Z) :=
  let '(pinned, cfg, ts, h, acts, ks) := c in
  map (fun k => crash_obs pinned cfg ts (h ++ [(acts, k)])) ks.

(* (b) in-process run on a database that has been created, closed and opened again:
       after every action: outcome, _pending_commits, rows seen by the connection, rows seen by a
       second connection (committed content). *)
Fixpoint live_obs (cfg : dbcfg) (ts : list Z) (m : ms cstore) (acts : list action) : list Z :=
  match acts with
  | [] => []
  | a :: tl =>
      let '(_, m1, o) := run_action cstore_ops cfg m a in
      (out_code o :: ms_pend m1 :: enc_tables (cs_view (ms_st m1)) ts ++ enc_tables (cs_durable (ms_st m1)) ts)
      ++ live_obs cfg ts m1 tl
  end.

Definition live_case : Type := dbcfg * list Z * list action.
Definition run_live_case (c : live_case) : list Z :=
  let '(cfg, ts, acts) := c in
  let m0 := run_history cstore_ops cfg false (mkMs fresh_store 0 [] []) [([], 100%nat)] in
  let '(_, m1, o) := open cstore_ops cfg false m0 in
  out_code o :: live_obs cfg ts m1 acts.

Fixpoint zlist_eqb (a b : list Z) : bool :=
  match a, b with
  | [], [] => true
  | x :: a', y :: b' => (x =? y) && zlist_eqb a' b'
  | _, _ => false
  end.
Fixpoint zll_eqb (a b : list (list Z)) : bool :=
  match a, b with
  | [], [] => true
  | x :: a', y :: b' => zlist_eqb x y && zll_eqb a' b'
  | _, _ => false
  end.
