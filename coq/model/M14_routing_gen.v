(* C14 (extension) - the fixed vocabulary of the code GENERATED from ipv8/dht/routing.py by
   tools/tr/tr_routing.py (coq/gen/G14_routing.v).  No proofs.

   What is assumed of everything outside the translated functions (the "runtime"):

   * identifiers (Python bytes) are their bit strings; int(binascii.hexlify(i), 16) is the integer value of
     that bit string (py_int_hex); format(z, "0<w>b") renders at least w binary digits (py_format_bin);
     int(s, 2) parses a bit string and raises ValueError on "" (py_int_bin);
     binascii.unhexlify(format(z, "0<w/4>X")) is the w-bit identifier with value z (py_id_of_int; a value that
     does not fit is reported as ValueError here - Python would build a longer byte string or fail);
   * Bucket.nodes (dict[bytes, Node]) is an insertion-ordered list of nodes, the key of an entry being the id
     of the node stored there (the translator checks that every store has the form nodes[x.id] = x);
   * a set of Node objects holds one entry per identifier (Peer equality is by public key; one key per id);
   * the trie (ipv8/dht/trie.py, verified separately in props/C14.v) is the finite map of model/M14_routing.v;
     an object fetched from it is an ALIAS: it is carried with the key it was found under (bref) and a method
     that mutates it is written back under that key; iterating over trie.values() and mutating the yielded
     objects is a map-accumulate over the values in traversal order (trie_for_values);
   * sorted(xs, key=f) calls f once per element and is stable (py_sorted_by); xs[:m] is Python's slice;
   * a / b >= c on round-trip times is the exact rational comparison (py_truediv_ge; ZeroDivisionError when b = 0);
   * Node.last_response, Node.last_query, time.time() and random.randint are oracles (Section variables of the
     generated file); nothing else of a Node is read. *)
From Coq Require Import ZArith List Bool Arith.
From IPV8V Require Import lib.PyErr model.M14_routing.
Import ListNotations.
Open Scope Z_scope.

(* a bucket object that lives in the trie, with the key it is stored under *)
Definition bref := (bits * bucket)%type.

(* for x in l: body  -  body returns the new loop state and whether it executed `break` *)
Fixpoint for_each {S A} (body : S -> A -> res (S * bool)) (l : list A) (s : S) : res S :=
  match l with
  | [] => Ok s
  | x :: tl => do r <- body s x; if snd r then Ok (fst r) else for_each body tl (fst r)
  end.

Fixpoint filterM {A} (f : A -> res bool) (l : list A) : res (list A) :=
  match l with
  | [] => Ok []
  | x :: tl => do c <- f x; do r <- filterM f tl; Ok (if c then x :: r else r)
  end.

(* ---- dict[bytes, Node] *)
Definition dict_contains (d : list node) (k : bits) : bool := has_id k d.
Definition dict_getitem (d : list node) (k : bits) : res node :=
  match find_node k d with Some n => Ok n | None => Raise KeyError end.
Definition dict_get (d : list node) (k : bits) : option node := find_node k d.
Fixpoint dict_remove (k : bits) (d : list node) : list node :=
  match d with
  | [] => []
  | n :: tl => if bits_eqb (nid n) k then tl else n :: dict_remove k tl
  end.
Definition dict_pop (d : list node) (k : bits) : res (list node) :=       (* d.pop(k): the remaining dict *)
  if has_id k d then Ok (dict_remove k d) else Raise KeyError.
Definition dict_pop_default (d : list node) (k : bits) : list node := dict_remove k d.   (* d.pop(k, None) *)
(* write-back of an entry that was mutated through an alias: same id, same position *)
Definition dict_store (d : list node) (v : node) : list node :=
  map (fun m => if bits_eqb (nid m) (nid v) then v else m) d.
Definition dict_setitem (d : list node) (v : node) : list node :=           (* d[v.id] = v *)
  if has_id (nid v) d then dict_store d v else d ++ [v].

(* ---- integers and strings *)
Definition py_int_hex (i : bits) : Z := bitsZ i.
Definition py_format_bin (w : nat) (z : Z) : res bits :=
  if z <? 0 then Raise ValueError
  else Ok (Z_to_bits (Nat.max w (Z.to_nat (Z.log2 z + 1))) z).
Definition py_int_bin (s : bits) : res Z :=
  match s with [] => Raise ValueError | _ => Ok (bitsZ s) end.
Definition py_id_of_int (w : nat) (z : Z) : res bits :=
  if (0 <=? z) && (z <? 2 ^ Z.of_nat w) then Ok (Z_to_bits w z) else Raise ValueError.
Definition py_slice_to {A} (l : list A) (m : Z) : list A :=
  if m <? 0 then firstn (length l - Z.to_nat (- m)) l else firstn (Z.to_nat m) l.
Definition py_range (n : Z) : list Z := map Z.of_nat (seq 0 (Z.to_nat n)).
Definition py_truediv_ge (a b c : Z) : res bool :=
  if b =? 0 then Raise ZeroDivisionError
  else Ok (if 0 <? b then c * b <=? a else a <=? c * b).
Definition py_truediv_gt (a b c : Z) : res bool :=
  if b =? 0 then Raise ZeroDivisionError
  else Ok (if 0 <? b then c * b <? a else a <? c * b).

(* ---- sorted(l, key=f), f : node -> (int, int) *)
Definition key2_le (a b : Z * Z) : bool :=
  (fst a <? fst b) || ((fst a =? fst b) && (snd a <=? snd b)).
Fixpoint insert_key2 (x : (Z * Z) * node) (l : list ((Z * Z) * node)) : list ((Z * Z) * node) :=
  match l with
  | [] => [x]
  | h :: tl => if key2_le (fst x) (fst h) then x :: h :: tl else h :: insert_key2 x tl
  end.
Definition py_sorted_by (key : node -> res (Z * Z)) (l : list node) : res (list node) :=
  do ks <- mapM (fun n => do k <- key n; Ok (k, n)) l;
  Ok (map snd (fold_right insert_key2 [] ks)).

(* ---- the trie as seen from routing.py *)
Definition trie_getitem_ref (t : trie bucket) (k : bits) : res bref := do b <- tget t k; Ok (k, b).
Definition trie_lpv_ref (t : trie bucket) (k : bits) : option bref := lpi t k.
Definition trie_longest_prefix (t : trie bucket) (k : bits) (d : option bits) : res bits :=
  match lpi t k with
  | Some (p, _) => Ok p
  | None => match d with Some x => Ok x | None => Raise KeyError end
  end.

(* for v in trie.values(): body (mutating v in place) *)
Fixpoint trie_for_values {S} (body : S -> bucket -> res (S * bucket)) (t : trie bucket) (s : S)
  : res (trie bucket * S) :=
  match t with
  | Empty => Ok (Empty, s)
  | TNode v c0 c1 =>
      do r <- match v with
              | Some b => do r <- body s b; Ok (Some (snd r), fst r)
              | None => Ok (None, s)
              end;
      do r0 <- trie_for_values body c0 (snd r);
      do r1 <- trie_for_values body c1 (snd r0);
      Ok (TNode (fst r) (fst r0) (fst r1), snd r1)
  end.
