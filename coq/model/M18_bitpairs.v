(* C18 - bonehexact/attestation.py: bit-pair profiles (binary_relativity, _match, _certainty over exact
   rationals), the aggregate the verifier keeps, and the honest attest / challenge / response round over
   the abstract group of M18_hom.  No proofs. *)
From Coq Require Import ZArith List Bool QArith Qabs.
From IPV8V Require Import lib.PyErr model.M18_hom.
Import ListNotations.
Open Scope Z_scope.

(* ---- A = [int(c) for c in str(bin(value))[2:]], left-padded with zeros to `bitspace` ------------ *)
Fixpoint pos_bits (p : positive) (acc : list Z) : list Z :=
  match p with
  | xH => 1 :: acc
  | xO q => pos_bits q (0 :: acc)
  | xI q => pos_bits q (1 :: acc)
  end.

(* bin(-5) = '-0b101': the slice starts at 'b', int('b') raises ValueError *)
Definition bin_digits (v : Z) : res (list Z) :=
  match v with
  | Z0 => Ok [0]
  | Zpos p => Ok (pos_bits p [])
  | Zneg _ => Raise ValueError
  end.

Definition pad_bits (A : list Z) (bitspace : Z) : list Z :=
  repeat 0 (Z.to_nat (bitspace - Z.of_nat (length A))) ++ A.

Definition bits (v bitspace : Z) : res (list Z) :=
  bind (bin_digits v) (fun A => Ok (pad_bits A bitspace)).

(* ---- relativity maps {0: _, 1: _, 2: _, 3: _} ---------------------------------------------------- *)
Record relmap : Type := MkRM { r0 : Z; r1 : Z; r2 : Z; r3 : Z }.
Definition rm_empty : relmap := MkRM 0 0 0 0.            (* create_empty_relativity_map *)
Definition rm_eqb (a b : relmap) : bool :=
  (r0 a =? r0 b) && (r1 a =? r1 b) && (r2 a =? r2 b) && (r3 a =? r3 b).
Definition rm_total (m : relmap) : Z := r0 m + r1 m + r2 m + r3 m.

Definition rget (m : relmap) (k : Z) : Z :=
  if k =? 0 then r0 m else if k =? 1 then r1 m else if k =? 2 then r2 m else r3 m.

(* process_challenge_response: relativity_map[response] += 1 (KeyError for an unknown key) *)
Definition rm_incr (m : relmap) (k : Z) : res relmap :=
  if k =? 0 then Ok (MkRM (r0 m + 1) (r1 m) (r2 m) (r3 m))
  else if k =? 1 then Ok (MkRM (r0 m) (r1 m + 1) (r2 m) (r3 m))
  else if k =? 2 then Ok (MkRM (r0 m) (r1 m) (r2 m + 1) (r3 m))
  else if k =? 3 then Ok (MkRM (r0 m) (r1 m) (r2 m) (r3 m + 1))
  else Raise KeyError.

Definition tally_from (m : relmap) (cs : list Z) : res relmap :=
  fold_left (fun acc k => bind acc (fun m' => rm_incr m' k)) cs (Ok m).
Definition tally (cs : list Z) : res relmap := tally_from rm_empty cs.

(* class of the j-th bit pair: A[2j] + A[2j+1] *)
Definition pair_class (A : list Z) (j : nat) : Z := nth (2 * j) A 0 + nth (2 * j + 1) A 0.

(* len(range(0, bitspace - 1, 2)) *)
Definition npairs (bitspace : Z) : nat := Z.to_nat (bitspace / 2).

Definition binary_relativity (v bitspace : Z) : res relmap :=
  bind (bits v bitspace) (fun A => tally (map (pair_class A) (seq 0 (npairs bitspace)))).

(* binary_relativity_match: the loop over expected.items() (keys 0,1,2,3 in insertion order) *)
Fixpoint match_loop (ks : list Z) (expected value : relmap) (acc : Q) : Q :=
  match ks with
  | [] => acc
  | k :: tl =>
      let v := rget expected k in
      let w := rget value k in
      if v <? w then 0%Q
      else if (v =? 0) || (w =? 0) then match_loop tl expected value acc
      else match_loop tl expected value (acc * (inject_Z w / inject_Z v))%Q
  end.

Definition relativity_match (expected value : relmap) : Q := match_loop [0; 1; 2; 3] expected value 1%Q.

(* binary_relativity_certainty: match * (1 - 0.5 ** sum(value.values())) *)
Definition certainty (expected value : relmap) : Q :=
  (relativity_match expected value * (1 - Qpower (1 # 2) (rm_total value)))%Q.

(* ---- harness runners ------------------------------------------------------------------------------ *)
Definition rm_list (m : relmap) : list Z := [r0 m; r1 m; r2 m; r3 m].
Definition rm_of (l : list Z) : relmap :=
  match l with [a; b; c; d] => MkRM a b c d | _ => rm_empty end.

Definition run_relativity (c : Z * Z) : res (list Z) :=
  bind (binary_relativity (fst c) (snd c)) (fun m => Ok (rm_list m)).

(* fold process_challenge_response over a list of responses, from the empty map *)
Definition run_tally (cs : list Z) : res (list Z) := bind (tally cs) (fun m => Ok (rm_list m)).

(* |model - float| <= 10^-12, the float given as an exact rational; exact when demanded *)
Definition q_close (exact : bool) (x y : Q) : bool :=
  if exact then Qeq_bool x y else Qle_bool (Qabs (x - y)) (1 # 1000000000000).

(* case: (expected, value) -> (match, certainty) compared against the implementation's floats *)
Definition check_scores (c : list Z * list Z) (exact : bool) (fm fc : Q) : bool :=
  let e := rm_of (fst c) in let o := rm_of (snd c) in
  q_close exact (relativity_match e o) fm && q_close exact (certainty e o) fc.

(* ---- the honest round over the abstract group ------------------------------------------------------ *)
Record pair_rand : Type := MkPR {
  ra : Z; rb : Z;               (* the additive masks R[i], R[i+1] *)
  sa : Z; sb : Z; sc : Z; s0 : Z }.  (* the h-exponents of the four encodings *)

Section Protocol.
  Variable G : Type.
  Variable gmul : G -> G -> G.
  Variable gone : G.
  Variable ginv : G -> G.
  Variable geqb : G -> G -> bool.
  Variable g h : G.
  Variable t1 : Z.
  Variable P : Z.        (* PK.p *)

  Let enc := encode G gmul gone ginv g h.

  (* attest: the two public encodings of one bit pair and the private complement *)
  Definition attest_pair (bit_a bit_b : Z) (r : pair_rand) : G * G * G :=
    (enc (bit_a + ra r) (sa r), enc (bit_b + rb r) (sb r),
     enc (P - ((ra r + rb r) mod (P + 1)) + 1) (sc r)).

  (* verifier: create_challenge; prover: create_challenge_response *)
  Definition pair_response (bit_a bit_b : Z) (r : pair_rand) : Z :=
    let '(a, b, c) := attest_pair bit_a bit_b r in
    challenge_response G gmul gone ginv geqb g t1 (challenge_of G gmul gone ginv g h a b c (s0 r)).

  (* the verifier's aggregate after the challenges of the bit pairs listed in `order` were answered *)
  Definition honest_run (A : list Z) (rand : nat -> pair_rand) (order : list nat) : res relmap :=
    tally (map (fun j => pair_response (nth (2 * j) A 0) (nth (2 * j + 1) A 0) (rand j)) order).
End Protocol.
