(* C14 - executable interface of the model for the correspondence check (tools/checks/c14.py).
   Identifiers travel as integers and are expanded to W-bit lists here; nodes are named by the
   serial number (tag) the harness gave to the Python object.  No proofs. *)
From Coq Require Import ZArith List Bool Arith.
From IPV8V Require Import lib.PyErr model.M14_routing.
Import ListNotations.
Open Scope Z_scope.

Fixpoint list_eqb {A} (eqb : A -> A -> bool) (a b : list A) : bool :=
  match a, b with
  | [], [] => true
  | x :: a', y :: b' => eqb x y && list_eqb eqb a' b'
  | _, _ => false
  end.

Fixpoint zinsert (x : Z) (l : list Z) : list Z :=
  match l with [] => [x] | h :: tl => if x <=? h then x :: l else h :: zinsert x tl end.
Definition zsort (l : list Z) : list Z := fold_right zinsert [] l.

(* a key "010" travels as the integer 0b1010 (leading 1) *)
Definition key_code (k : bits) : Z := bitsZ (true :: k).
Fixpoint code_bits (fuel : nat) (z : Z) (acc : bits) : bits :=
  match fuel with
  | O => acc
  | S f => if z <=? 1 then acc else code_bits f (Z.div2 z) (Z.odd z :: acc)
  end.
Definition key_of (z : Z) : bits := code_bits (Z.to_nat (Z.log2 z + 1)) z [].

(* ------------------------------------------------------------------ trie histories *)
Inductive top :=
| TSet (k v : Z) | TDel (k : Z) | TGet (k : Z) | TLpi (k : Z) | TSuffixes (k : Z) | TValues.

Inductive tres :=
| TRUnit | TRVal (v : Z) | TRItem (k v : Z) | TRList (l : list Z) | TRExn (e : exn).

Definition tres_eqb (a b : tres) : bool :=
  match a, b with
  | TRUnit, TRUnit => true
  | TRVal x, TRVal y => x =? y
  | TRItem k v, TRItem k' v' => (k =? k') && (v =? v')
  | TRList l, TRList l' => list_eqb Z.eqb l l'
  | TRExn e, TRExn e' => exn_eqb e e'
  | _, _ => false
  end.

Definition tstep (t : trie Z) (o : top) : trie Z * tres :=
  match o with
  | TSet k v => (tset t (key_of k) v, TRUnit)
  | TDel k => match tdel t (key_of k) with Ok t' => (t', TRUnit) | Raise e => (t, TRExn e) end
  | TGet k => (t, match tget t (key_of k) with Ok v => TRVal v | Raise e => TRExn e end)
  | TLpi k => (t, match lpi t (key_of k) with Some (p, v) => TRItem (key_code p) v | None => TRExn KeyError end)
  | TSuffixes k => (t, TRList (zsort (map key_code (suffixes t (key_of k)))))
  | TValues => (t, TRList (zsort (tvalues t)))
  end.

Fixpoint trun (t : trie Z) (ops : list top) : list tres :=
  match ops with
  | [] => []
  | o :: tl => let (t', r) := tstep t o in r :: trun t' tl
  end.

Definition run_trie (ops : list top) : list tres := trun empty_root ops.

(* ------------------------------------------------------------------ routing histories *)
(* Identifiers are described compactly (a 2000-operation history with literal 160-bit numbers is slow
   to parse): either literally, or as "the first L bits of centre c, then the opposite of its next bit,
   then pseudo-random bits derived from seed".  The harness computes the same integer in Python. *)
Inductive idspec := Raw (z : Z) | Near (c : nat) (L seed : Z).

Definition M64 : Z := 18446744073709551615.
Definition xs64 (x : Z) : Z :=                       (* xorshift64: only shifts, xor and masks *)
  let x := Z.land (Z.lxor x (Z.shiftl x 13)) M64 in
  let x := Z.lxor x (Z.shiftr x 7) in
  Z.land (Z.lxor x (Z.shiftl x 17)) M64.
Definition G (seed : Z) : Z :=
  let x1 := xs64 (Z.lor (Z.land seed M64) 1099511627776) in
  let x2 := xs64 x1 in
  let x3 := xs64 x2 in
  Z.lor (Z.shiftl (Z.lor (Z.shiftl x1 64) x2) 64) x3.

Definition resolve (w : Z) (centers : list Z) (s : idspec) : Z :=
  match s with
  | Raw z => z
  | Near c L seed =>
      let ctr := nth c centers 0 in
      if w <=? L then ctr
      else let low := w - L - 1 in
           Z.shiftl (Z.shiftr ctr (low + 1)) (low + 1)
           + Z.shiftl (1 - Z.b2z (Z.testbit ctr low)) low
           + Z.land (G seed) (Z.ones low)
  end.

Inductive hop :=
| HAdd (id : idspec) (tag addr rtt failed : Z)
| HRemoveBad
| HTouch (id : idspec) (rtt failed : Z)
| HGet (id : idspec)
| HClosest (target : idspec) (k : Z) (excl : option idspec)
| HDist (a b : idspec)
| HDump.

Definition nrec := (Z * Z * Z * Z)%type.        (* tag, addr, rtt, failed *)
Inductive hres :=
| RNode (o : option nrec)
| RTags (l : list Z)
| RNum (z : Z)
| RState (l : list (Z * Z * list nrec))         (* per bucket: len(prefix), int(prefix), nodes *)
| RExn (e : exn).

Definition nrec_of (n : node) : nrec := (ntag n, naddr n, nrtt n, nfailed n).
Definition nrec_eqb (a b : nrec) : bool :=
  let '(t, a1, r, f) := a in let '(t', a1', r', f') := b in (t =? t') && (a1 =? a1') && (r =? r') && (f =? f').
Definition bkt_eqb (a b : Z * Z * list nrec) : bool :=
  let '(l, p, ns) := a in let '(l', p', ns') := b in (l =? l') && (p =? p') && list_eqb nrec_eqb ns ns'.

Definition hres_eqb (a b : hres) : bool :=
  match a, b with
  | RNode None, RNode None => true
  | RNode (Some x), RNode (Some y) => nrec_eqb x y
  | RTags l, RTags l' => list_eqb Z.eqb l l'
  | RNum x, RNum y => x =? y
  | RState l, RState l' => list_eqb bkt_eqb l l'
  | RExn e, RExn e' => exn_eqb e e'
  | _, _ => false
  end.

Definition dump (t : trie bucket) : hres :=
  RState (map (fun kb : bits * bucket =>
                 let (k, b) := kb in
                 (Z.of_nat (length k), bitsZ k, map nrec_of (bnodes b)))
              (titems t)).

Section H.
Variable W : nat.
Variable cap : nat.
Variable centers : list Z.
Let ID (s : idspec) : bits := Z_to_bits W (resolve (Z.of_nat W) centers s).

Definition hstep (rt : rtable) (o : hop) : res (rtable * hres) :=
  match o with
  | HAdd id tag addr rtt failed =>
      do r <- rt_add W cap rt (mkNode (ID id) tag addr rtt failed);
      Ok (fst r, RNode (option_map nrec_of (snd r)))
  | HRemoveBad =>
      let r := rt_remove_bad rt in Ok (fst r, RTags (zsort (map ntag (snd r))))
  | HTouch id rtt failed => do rt' <- rt_touch rt (ID id) rtt failed; Ok (rt', RNum 0)
  | HGet id => do r <- rt_get rt (ID id); Ok (rt, RNode (option_map nrec_of r))
  | HClosest target k excl =>
      do r <- closest rt (ID target) (Z.to_nat k) (option_map ID excl);
      Ok (rt, RTags (map ntag r))
  | HDist a b => Ok (rt, RNum (dist (ID a) (ID b)))
  | HDump => Ok (rt, dump (tr rt))
  end.

(* stops at the first exception, like the harness does on the implementation *)
Fixpoint hrun (rt : rtable) (ops : list hop) : list hres :=
  match ops with
  | [] => []
  | o :: tl => match hstep rt o with
               | Ok (rt', r) => r :: hrun rt' tl
               | Raise e => [RExn e]
               end
  end.
End H.

(* W, cap, centres (the first one is our own id), operations *)
Definition hist_case := (Z * Z * list Z * list hop)%type.
Definition run_hist (c : hist_case) : list hres :=
  let '(w, cap, centers, ops) := c in
  hrun (Z.to_nat w) (Z.to_nat cap) centers (rt_init (Z_to_bits (Z.to_nat w) (nth 0 centers 0))) ops.

(* Bucket(prefix).generate_id() with the random draw r; the prefix travels as a key code *)
Definition run_genid (c : Z * Z * Z) : Z :=
  let '(w, p, r) := c in bitsZ (gen_id (Z.to_nat w) (mkBucket (key_of p) []) r).

(* ------------------------------------------------------------------ exhaustive small-width sweep
   Sum of fingerprints over every sequence (length 1..depth) of additions drawn from a pool. *)
(* 64-bit fingerprints built from shifts and xor only (cheap under vm_compute); x >= -2 *)
Definition mix (h x : Z) : Z := xs64 (Z.lxor (Z.lxor h (x + 2)) 11400714819323198485).
Definition add64 (a b : Z) : Z := Z.land (a + b) M64.

Definition fp_bucket (h : Z) (kb : bits * bucket) : Z :=
  let (k, b) := kb in
  fold_left (fun h n => mix (mix h (ntag n)) (naddr n)) (bnodes b)
            (mix (mix (mix h 77) (Z.of_nat (length k))) (bitsZ k)).

Definition fp_state (t : trie bucket) : Z := fold_left fp_bucket (titems t) 1.

Section Exh.
Variable W : nat.
Variable cap : nat.
Variable pool : list node.

Definition fp_after (rt : rtable) (n : node) (r : option node) : Z :=
  let h := mix (fp_state (tr rt)) (match r with Some m => ntag m | None => -1 end) in
  match closest rt (nid n) 3 None with
  | Ok l => fold_left (fun h m => mix h (ntag m)) l (mix h 5)
  | Raise _ => mix h 99
  end.

Fixpoint exh (depth : nat) (rt : rtable) : Z :=
  match depth with
  | O => 0
  | S d =>
      fold_left (fun acc n =>
                   match rt_add W cap rt n with
                   | Ok (rt', r) => add64 acc (add64 (fp_after rt' n r) (exh d rt'))
                   | Raise _ => add64 acc 7
                   end) pool 0
  end.
End Exh.

(* case: W, cap, own, pool of (id, tag, addr, rtt, failed), first node index, depth *)
Definition exh_case := (Z * Z * Z * list (Z * Z * Z * Z * Z) * Z * Z)%type.
Definition run_exh (c : exh_case) : Z :=
  let '(w, cap, o, pl, first, depth) := c in
  let W := Z.to_nat w in
  let pool := map (fun x : Z * Z * Z * Z * Z =>
                     let '(id, tag, addr, rtt, failed) := x in
                     mkNode (Z_to_bits W id) tag addr rtt failed) pl in
  let rt0 := rt_init (Z_to_bits W o) in
  match nth_error pool (Z.to_nat first) with
  | None => -1
  | Some n =>
      match rt_add W (Z.to_nat cap) rt0 n with
      | Ok (rt', r) => add64 (fp_after rt' n r) (exh W (Z.to_nat cap) pool (Z.to_nat depth) rt')
      | Raise _ => 7
      end
  end.
