(* C12y - the operations of the peer graph RUN FROM THE TRANSLATED SOURCE (gen/G12_network.v, written on
   every run by tools/tr/tr_network.py from ipv8/peerdiscovery/network.py and ipv8/peer.py), next to
   what the hand model model/M12_network.v says the same operation does.  No proofs here. *)
From Coq Require Import ZArith List Bool.
From IPV8V Require Import lib.PyErr lib.Bytes model.M02_wire model.M12_network model.M12_network_rt
  gen.G12_network.
Import ListNotations.
Open Scope Z_scope.

Inductive gval : Type :=
| GUnit | GOPeer (o : option nat) | GPeers (l : list nat) | GAddrs (l : list addr) | GSvcs (l : list service)
| GBytes (b : bytes) | GBool (b : bool).

Definition rmap {A B} (f : A -> B) (r : res A) : res B := match r with Ok a => Ok (f a) | Raise e => Raise e end.
Definition with_val {A} (f : A -> gval) (x : net * res A) : net * res gval := (fst x, rmap f (snd x)).

(* fuel of the `while` loops of one call: `while address in introductions` runs at most once per element of
   the longest cached introduction list, `while offset < snaplen` at most once per byte *)
Definition longest {A} (c : list (key * list A)) : nat := list_max (map (fun e => length (snd e)) c).
Definition fuel_of (s : net) (o : op) : nat :=
  S (longest (intro_cache s)) + match o with LoadSnapshot d => S (length d) | _ => 0%nat end.

(* one operation through the translated functions *)
Definition gstep (s : net) (o : op) : net * res gval :=
  let fuel := fuel_of s o in
  match o with
  | AddVerified k am => let '(s1, i) := alloc s k am in with_val (fun _ => GUnit) (g_add_verified_peer fuel i s1)
  | DiscoverAddress k am a sv ns =>
      let '(s1, i) := alloc s k am in with_val (fun _ => GUnit) (g_discover_address fuel i a sv ns s1)
  | DiscoverServices k am ss =>
      let '(s1, i) := alloc s k am in with_val (fun _ => GUnit) (g_discover_services fuel i ss s1)
  | RemovePeer k am => with_val (fun _ => GUnit) (g_remove_peer fuel (k, am) s)
  | RemoveByAddress a => with_val (fun _ => GUnit) (g_remove_by_address fuel a s)
  | GetByKey k => with_val GOPeer (g_get_verified_by_public_key_bin fuel k s)
  | GetByAddress a hint => with_val GOPeer (g_get_verified_by_address fuel hint a s)
  | GetPeersForService sv => with_val GPeers (g_get_peers_for_service fuel sv s)
  | GetServicesForPeer k => with_val GSvcs (g_get_services_for_peer fuel (k, am_empty) s)
  | GetWalkable so old => with_val GAddrs (g_get_walkable_addresses fuel so old s)
  | GetIntroductionsFrom k => with_val GAddrs (g_get_introductions_from fuel (k, am_empty) s)
  | Snapshot => with_val GBytes (g_snapshot fuel s)
  | LoadSnapshot d => with_val (fun _ => GUnit) (g_load_snapshot fuel d s)
  end.

(* the same operation according to the hand model *)
Definition hstep (s : net) (o : op) : net * res gval :=
  (fst (step s o),
   match o with
   | GetByKey k => Ok (GOPeer (get_verified_by_public_key_bin s k))
   | GetByAddress a hint => Ok (GOPeer (snd (get_verified_by_address s a hint)))
   | GetPeersForService sv => Ok (GPeers (snd (get_peers_for_service s sv)))
   | GetServicesForPeer k => Ok (GSvcs (get_services_for_peer s k))
   | GetWalkable so old => Ok (GAddrs (snd (get_walkable_addresses s so old)))
   | GetIntroductionsFrom k => Ok (GAddrs (snd (get_introductions_from s k)))
   | Snapshot => rmap GBytes (snapshot s)
   | _ => Ok GUnit
   end).

Fixpoint grun (s : net) (ops : list op) : net * list (res gval) :=
  match ops with
  | [] => (s, [])
  | o :: tl => let '(s1, r) := gstep s o in let '(s2, rs) := grun s1 tl in (s2, r :: rs)
  end.
Fixpoint hrun (s : net) (ops : list op) : net * list (res gval) :=
  match ops with
  | [] => (s, [])
  | o :: tl => let '(s1, r) := hstep s o in let '(s2, rs) := hrun s1 tl in (s2, r :: rs)
  end.

(* ------------------------------------------------------------------ one Peer object through peer.py *)
Inductive pop : Type :=
| PAdd (a : addr)              (* peer.add_address(a)  /  peer.address = a *)
| PUpdate (m : addrmap)        (* peer.addresses.update(m): what add_verified_peer does to a known peer *)
| PRead.                       (* peer.address *)

Definition gpeer_new (ao : option addr) : pobj :=
  fst (g_peer_init ao (mkPobj (mkDD am_empty false) None false)).
Definition gpeer_step (p : pobj) (o : pop) : pobj * res (option addr) :=
  match o with
  | PAdd a => let '(p1, r) := g_peer_add_address a p in (p1, rmap (fun _ => None) r)
  | PUpdate m => let '(d1, r) := g_dd_update m (p_addresses p) in
                 (mkPobj d1 (p_address p) (p_frozen p), rmap (fun _ => None) r)
  | PRead => let '(p1, r) := g_peer_address p in (p1, rmap Some r)
  end.
(* what the hand model keeps of a Peer: its address dict; Peer.address is am_preferred of it *)
Definition hpeer_new (ao : option addr) : addrmap := match ao with Some a => am_put am_empty a | None => am_empty end.
Definition hpeer_step (m : addrmap) (o : pop) : addrmap * res (option addr) :=
  match o with
  | PAdd a => (am_put m a, Ok None)
  | PUpdate m' => (am_update m m', Ok None)
  | PRead => (m, Ok (Some (am_preferred m)))
  end.
Fixpoint gpeer_run (p : pobj) (ops : list pop) : pobj * list (res (option addr)) :=
  match ops with
  | [] => (p, [])
  | o :: tl => let '(p1, r) := gpeer_step p o in let '(p2, rs) := gpeer_run p1 tl in (p2, r :: rs)
  end.
Fixpoint hpeer_run (m : addrmap) (ops : list pop) : addrmap * list (res (option addr)) :=
  match ops with
  | [] => (m, [])
  | o :: tl => let '(m1, r) := hpeer_step m o in let '(m2, rs) := hpeer_run m1 tl in (m2, r :: rs)
  end.

(* interface of the correspondence check: chained hash of (result, whole state) after every operation,
   computed from the translated functions; same flattening as the hand model's trace *)
(* the address records a snapshot consists of (its order follows the iteration order of a set) *)
Fixpoint recs_of (fuel : nat) (d : bytes) (off : nat) : list bytes :=
  if (off <? length d)%nat then
    match fuel, unpack_address d off with
    | S f, Ok (_, o) => firstn (o - off) (skipn off d) :: recs_of f d o
    | _, _ => []
    end
  else [].
Definition gret (r : res gval) (h : list obj) : list Z :=
  match r with
  | Ok GUnit => [0]
  | Ok (GOPeer o) => flat_ret h (RPeer o)
  | Ok (GPeers l) => flat_ret h (RPeers l)
  | Ok (GAddrs l) => flat_ret h (RAddrs l)
  | Ok (GSvcs l) => flat_ret h (RSvcs l)
  | Ok (GBytes b) => flat_ret h (RRecords (recs_of (length b) b 0))
  | Ok (GBool b) => [8; if b then 1 else 0]
  | Raise _ => [6]
  end.
Fixpoint ghashed (s : net) (h : Z) (ops : list op) : net * Z :=
  match ops with
  | [] => (s, h)
  | o :: tl => let '(s1, r) := gstep s o in
               ghashed s1 (mix_list (mix_list h (gret r (heap s1))) (flat_net s1)) tl
  end.
Definition grun_fan_hash (c : c12_case) : Z :=
  let '(s, h) := ghashed (case_init c) 0 (case_path c) in
  mix_list 0 (map (fun o => let '(s1, r) := gstep s o in mix_list (mix_list h (gret r (heap s1))) (flat_net s1))
                  (case_fan c)).
