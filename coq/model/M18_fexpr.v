(* C18 - expressions over FP2 values evaluated with the operations translated from value.py, and the
   runner used by the correspondence of tools/checks/c18.py.  No proofs. *)
From Coq Require Import ZArith List Bool.
From IPV8V Require Import lib.PyErr model.M18_base gen.G18_fp2.
Import ListNotations.
Open Scope Z_scope.

Inductive fexpr : Type :=
| FVar (i : nat)                      (* an operand *)
| FInt (a : Z)                        (* FP2Value(p, a) *)
| FAdd (a b : fexpr) | FSub (a b : fexpr) | FMul (a b : fexpr) | FDiv (a b : fexpr)   (* + - * // *)
| FInv (a : fexpr).                   (* .inverse() *)

Fixpoint feval (p : Z) (env : list fp2) (e : fexpr) : res fp2 :=
  match e with
  | FVar i => match nth_error env i with Some v => Ok v | None => Raise IndexError end
  | FInt a => fp2_init p a 0 0 1 0 0
  | FAdd a b => bind (feval p env a) (fun x => bind (feval p env b) (fun y => fp2_add x y))
  | FSub a b => bind (feval p env a) (fun x => bind (feval p env b) (fun y => fp2_sub x y))
  | FMul a b => bind (feval p env a) (fun x => bind (feval p env b) (fun y => fp2_mul x y))
  | FDiv a b => bind (feval p env a) (fun x => bind (feval p env b) (fun y => fp2_floordiv x y))
  | FInv a => bind (feval p env a) fp2_inverse
  end.

(* python: (e1) == (e2) *)
Definition feq (p : Z) (env : list fp2) (e1 e2 : fexpr) : res bool :=
  bind (feval p env e1) (fun x => bind (feval p env e2) (fun y => fp2_eq x y)).

(* ---- harness: one operation on raw operands ------------------------------------------------- *)
Definition fields (v : fp2) : list Z := [fmod v; fa v; fb v; fc v; faC v; fbC v; fcC v].
Definition b2l (b : bool) : list Z := [if b then 1 else 0].

(* FP2Value(mod, a, b, c, aC, bC, cC) from seven raw integers *)
Definition mk (l : list Z) : res fp2 :=
  match l with
  | [m; a; b; c; aC; bC; cC] => fp2_init m a b c aC bC cC
  | _ => Raise TypeError
  end.

Inductive fop : Type :=
| OInit | OAdd | OSub | OMul | ODiv | OEq | ONorm | OInv | OPow | ONom | ODenInv | OCompress | OModinv.

(* case: (operation, raw x, raw y, integer k) *)
Definition run_fp2 (c : fop * list Z * list Z * Z) : res (list Z) :=
  let '(o, lx, ly, k) := c in
  match o with
  | OModinv => match lx with [e; m] => bind (modinv e m) (fun r => Ok [r]) | _ => Raise TypeError end
  | _ =>
    bind (mk lx) (fun x =>
      match o with
      | OInit => Ok (fields x)
      | ONorm => bind (fp2_normalize x) (fun r => Ok (fields r))
      | OInv => bind (fp2_inverse x) (fun r => Ok (fields r))
      | OPow => bind (fp2_intpow x k) (fun r => Ok (fields r))
      | ONom => bind (fp2_wp_nominator x) (fun r => Ok (fields r))
      | ODenInv => bind (fp2_wp_denom_inverse x) (fun r => Ok (fields r))
      | OCompress => bind (fp2_wp_compress x) (fun r => Ok (fields r))
      | _ =>
        bind (mk ly) (fun y =>
          match o with
          | OAdd => bind (fp2_add x y) (fun r => Ok (fields r))
          | OSub => bind (fp2_sub x y) (fun r => Ok (fields r))
          | OMul => bind (fp2_mul x y) (fun r => Ok (fields r))
          | ODiv => bind (fp2_floordiv x y) (fun r => Ok (fields r))
          | _ => bind (fp2_eq x y) (fun r => Ok (b2l r))
          end)
      end)
  end.

(* expression cases: (p, raw operands, e1, e2) -> fields of e1's value ++ [e1 == e2] *)
Fixpoint mk_all (ls : list (list Z)) : res (list fp2) :=
  match ls with
  | [] => Ok []
  | l :: tl => bind (mk l) (fun v => bind (mk_all tl) (fun vs => Ok (v :: vs)))
  end.

Definition run_fexpr (c : Z * list (list Z) * fexpr * fexpr) : res (list Z) :=
  let '(p, ls, e1, e2) := c in
  bind (mk_all ls) (fun env =>
  bind (feval p env e1) (fun v =>
  bind (feval p env e2) (fun w =>
  bind (fp2_eq v w) (fun b => Ok (fields v ++ b2l b))))).

Fixpoint zlist_eqb (a b : list Z) : bool :=
  match a, b with
  | [], [] => true
  | x :: a', y :: b' => (x =? y) && zlist_eqb a' b'
  | _, _ => false
  end.
