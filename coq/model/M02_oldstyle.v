(* Run-time library of the translated glue of the old-style payload classes
   (tools/tr/tr_oldstyle.py -> gen/G02_oldstyle.v): Python values are M02 `val`s, an instance is its class
   name plus its attribute dictionary (insertion order, as `vars(obj)`), every Python operation the glue uses
   is a function on `val` that raises where Python raises.  No proofs here.

   Conventions
   * bool is a subtype of int: `as_int (VBool b)` is 0/1, `py_eq (VBool true) (VInt 1)` is True.
   * a str is `VStr` of its UTF-8 encoding; an address tuple `("1.2.3.4", 80)` is `VAddr (A4 [1;2;3;4] 80)`
     (canonical address strings, as everywhere in C02).
   * `Unmodelled` (= OutOfFuel) marks operations on operand types this library does not model (floats, objects,
     str indexing, % formatting ...).  It never stands for a Python exception; the theorems show it is not reached
     on legal field values and the correspondence only feeds modelled operands.
   * a missing attribute raises AttributeError in Python; PyErr has no such class: `KeyError` is used (__dict__ lookup). *)
From Coq Require Import String Ascii.
From Coq Require Import ZArith List Bool.
From IPV8V Require Import lib.PyErr lib.Bytes lib.BE model.M02_wire.
Import ListNotations.
Open Scope Z_scope.

Definition Unmodelled : exn := OutOfFuel.

(* ---- instances ---- *)
Definition obj := (string * list (string * val))%type.
Definition new_obj (cls : string) : obj := (cls, []).

Fixpoint alist_get (n : string) (l : list (string * val)) : option val :=
  match l with
  | [] => None
  | (k, v) :: tl => if String.eqb k n then Some v else alist_get n tl
  end.
Fixpoint alist_set (n : string) (v : val) (l : list (string * val)) : list (string * val) :=
  match l with
  | [] => [(n, v)]
  | (k, w) :: tl => if String.eqb k n then (k, v) :: tl else (k, w) :: alist_set n v tl
  end.
Definition get_attr (o : obj) (n : string) : res val :=
  match alist_get n (snd o) with Some v => Ok v | None => Raise KeyError end.
Definition set_attr (o : obj) (n : string) (v : val) : obj := (fst o, alist_set n v (snd o)).

Fixpoint attrs_eqb (a b : list (string * val)) : bool :=
  match a, b with
  | [], [] => true
  | (k, v) :: a', (l, w) :: b' => String.eqb k l && val_eqb v w && attrs_eqb a' b'
  | _, _ => false
  end.
Definition obj_eqb (a b : obj) : bool := String.eqb (fst a) (fst b) && attrs_eqb (snd a) (snd b).

(* ---- numbers, truth, equality ---- *)
Definition as_int (v : val) : option Z :=
  match v with VInt z => Some z | VBool b => Some (if b then 1 else 0) | _ => None end.

Definition nonempty {A} (l : list A) : bool := match l with [] => false | _ => true end.

Definition py_truthy (v : val) : res bool :=
  match v with
  | VInt z => Ok (negb (z =? 0))
  | VBool b => Ok b
  | VBytes b | VStr b => Ok (nonempty b)
  | VList l | VTuple l => Ok (nonempty l)
  | VAddr _ => Ok true                      (* a non-empty tuple *)
  | VFloat _ | VNode _ _ | VMsg _ => Raise Unmodelled
  end.
Definition py_bool (v : val) : res val := do b <- py_truthy v; Ok (VBool b).

(* Python's == *)
Fixpoint py_eq (a b : val) {struct a} : res bool :=
  let fix list_eq (l1 l2 : list val) {struct l1} : res bool :=
    match l1, l2 with
    | [], [] => Ok true
    | x :: t1, y :: t2 => do c <- py_eq x y; if c then list_eq t1 t2 else Ok false
    | _, _ => Ok false
    end in
  match a, b with
  | VFloat _, _ | _, VFloat _ | VNode _ _, _ | _, VNode _ _ | VMsg _, _ | _, VMsg _ => Raise Unmodelled
  | VInt x, VInt y => Ok (x =? y)
  | VInt x, VBool y => Ok (x =? (if y then 1 else 0))
  | VBool x, VInt y => Ok ((if x then 1 else 0) =? y)
  | VBool x, VBool y => Ok (Bool.eqb x y)
  | VBytes x, VBytes y => Ok (bytes_eqb x y)
  | VStr x, VStr y => Ok (bytes_eqb x y)
  | VList x, VList y => list_eq x y
  | VTuple x, VTuple y => list_eq x y
  | VAddr x, VAddr y => Ok (addr_eqb x y)
  | VAddr _, VTuple _ | VTuple _, VAddr _ => Raise Unmodelled    (* an address is a tuple in Python *)
  | _, _ => Ok false
  end.
Definition py_eq_val (a b : val) : res val := do c <- py_eq a b; Ok (VBool c).
Definition py_ne_val (a b : val) : res val := do c <- py_eq a b; Ok (VBool (negb c)).

Definition py_mod (a b : val) : res val :=
  match as_int a, as_int b with
  | Some x, Some y => if y =? 0 then Raise ZeroDivisionError else Ok (VInt (x mod y))
  | _, _ =>
    match a, b with
    | VBytes _, _ | VStr _, _ | VFloat _, _ | _, VFloat _ => Raise Unmodelled   (* formatting, floats *)
    | _, _ => Raise TypeError
    end
  end.

Definition py_add (a b : val) : res val :=
  match as_int a, as_int b with
  | Some x, Some y => Ok (VInt (x + y))
  | _, _ =>
    match a, b with
    | VBytes x, VBytes y => Ok (VBytes (x ++ y))
    | VStr x, VStr y => Ok (VStr (x ++ y))
    | VList x, VList y => Ok (VList (x ++ y))
    | VTuple x, VTuple y => Ok (VTuple (x ++ y))
    | VFloat _, _ | _, VFloat _ | VAddr _, _ | _, VAddr _ | VNode _ _, _ | _, VNode _ _ | VMsg _, _ | _, VMsg _ =>
        Raise Unmodelled
    | _, _ => Raise TypeError
    end
  end.

(* ---- sequences ---- *)
Definition py_len (v : val) : res val :=
  match v with
  | VBytes b => Ok (VInt (blen b))
  | VStr b => Ok (VInt (Z.of_nat (length (filter (fun x => negb (cont x)) b))))   (* code points *)
  | VList l | VTuple l => Ok (VInt (Z.of_nat (length l)))
  | VAddr _ => Ok (VInt 2)
  | VNode _ _ | VMsg _ => Raise Unmodelled
  | _ => Raise TypeError
  end.

Definition norm_index (len i : Z) : res nat :=
  let j := if i <? 0 then i + len else i in
  if (j <? 0) || (len <=? j) then Raise IndexError else Ok (Z.to_nat j).

Definition py_index (v i : val) : res val :=
  match as_int i with
  | None => Raise TypeError
  | Some i =>
    match v with
    | VList l | VTuple l =>
        do k <- norm_index (Z.of_nat (length l)) i;
        match nth_error l k with Some x => Ok x | None => Raise IndexError end
    | VBytes b =>
        do k <- norm_index (blen b) i;
        match nth_error b k with Some x => Ok (VInt x) | None => Raise IndexError end
    | VAddr a =>
        do k <- norm_index 2 i;
        match k, a with
        | 1%nat, A4 _ p | 1%nat, A6 _ p | 1%nat, ADom _ p => Ok (VInt p)
        | _, _ => Raise Unmodelled            (* the host string *)
        end
    | VStr _ | VNode _ _ | VMsg _ => Raise Unmodelled
    | _ => Raise TypeError
    end
  end.

Definition lslice {A} (l : list A) (lo hi : option Z) : list A :=
  let n := Z.of_nat (length l) in
  let a := match lo with None => 0 | Some i => clamp n i end in
  let b := match hi with None => n | Some i => clamp n i end in
  firstn (Z.to_nat (b - a)) (skipn (Z.to_nat a) l).

Definition opt_int (o : option val) : res (option Z) :=
  match o with
  | None => Ok None
  | Some v => match as_int v with Some z => Ok (Some z) | None => Raise TypeError end
  end.

(* v[lo:hi] *)
Definition py_slice (v : val) (lo hi : option val) : res val :=
  do lo <- opt_int lo; do hi <- opt_int hi;
  match v with
  | VBytes b => Ok (VBytes (lslice b lo hi))
  | VList l => Ok (VList (lslice l lo hi))
  | VTuple l => Ok (VTuple (lslice l lo hi))
  | VStr _ | VAddr _ | VNode _ _ | VMsg _ => Raise Unmodelled
  | _ => Raise TypeError
  end.

(* range(...) as the list of its elements *)
Definition range_list (start stop step : Z) : list val :=
  let n := if 0 <? step then (stop - start + step - 1) / step else (start - stop - step - 1) / (- step) in
  map (fun k => VInt (start + Z.of_nat k * step)) (seq 0 (Z.to_nat n)).

Fixpoint all_ints (l : list val) : option (list Z) :=
  match l with
  | [] => Some []
  | v :: tl => match as_int v, all_ints tl with Some z, Some zs => Some (z :: zs) | _, _ => None end
  end.

Definition py_range (args : list val) : res val :=
  match all_ints args with
  | Some [stop] => Ok (VList (range_list 0 stop 1))
  | Some [start; stop] => Ok (VList (range_list start stop 1))
  | Some [start; stop; step] => if step =? 0 then Raise ValueError else Ok (VList (range_list start stop step))
  | _ => Raise TypeError
  end.

Definition py_iter (v : val) : res (list val) :=
  match v with
  | VList l | VTuple l => Ok l
  | VBytes b => Ok (map VInt b)
  | VStr _ | VAddr _ | VNode _ _ | VMsg _ => Raise Unmodelled
  | _ => Raise TypeError
  end.

Fixpoint mapM {A B} (f : A -> res B) (l : list A) : res (list B) :=
  match l with
  | [] => Ok []
  | x :: tl => do y <- f x; do ys <- mapM f tl; Ok (y :: ys)
  end.

(* [f x for x in it] *)
Definition py_listcomp (f : val -> res val) (it : val) : res val :=
  do l <- py_iter it; do r <- mapM f l; Ok (VList r).

Fixpoint intercalate (sep : bytes) (l : list bytes) : bytes :=
  match l with
  | [] => []
  | [x] => x
  | x :: tl => x ++ sep ++ intercalate sep tl
  end.

Definition bytes_of (v : val) : res bytes := match v with VBytes b => Ok b | _ => Raise TypeError end.
Definition str_of (v : val) : res bytes := match v with VStr b => Ok b | _ => Raise TypeError end.

(* sep.join(it) *)
Definition py_join (sep it : val) : res val :=
  match sep with
  | VBytes s => do l <- py_iter it; do bs <- mapM bytes_of l; Ok (VBytes (intercalate s bs))
  | VStr s => do l <- py_iter it; do bs <- mapM str_of l; Ok (VStr (intercalate s bs))
  | _ => Raise Unmodelled
  end.

(* list.insert(i, x) on a list nobody else refers to: the new list *)
Definition py_list_insert (l : val) (i : Z) (x : val) : res val :=
  match l with
  | VList l =>
      let k := Z.to_nat (clamp (Z.of_nat (length l)) i) in
      Ok (VList (firstn k l ++ x :: skipn k l))
  | _ => Raise KeyError      (* AttributeError *)
  end.

(* ---- struct.pack / struct.unpack with a literal big-endian format ---- *)
Definition spack1 (p : prim) (v : val) : res bytes :=
  match p with
  | PU w =>
      match as_int v with
      | Some z => if in_range 0 (256 ^ Z.of_nat w) z then Ok (be_encode w z) else Raise StructError
      | None => Raise StructError
      end
  | PS w =>
      match as_int v with
      | Some z => if in_range (- (256 ^ Z.of_nat w / 2)) (256 ^ Z.of_nat w / 2) z
                  then Ok (be_encode w (of_signed w z)) else Raise StructError
      | None => Raise StructError
      end
  | PBool => do b <- py_truthy v; Ok [if b then 1 else 0]
  | PChar => match v with VBytes [c] => Ok [c] | _ => Raise StructError end
  | PBytes n =>                            (* 's' pads with zero bytes / truncates silently *)
      match v with
      | VBytes b => Ok (firstn n b ++ repeat 0 (n - length b))
      | _ => Raise StructError
      end
  | PF w =>                                (* floats travel as their IEEE bit patterns *)
      match v with
      | VFloat z => if in_range 0 (256 ^ Z.of_nat w) z then Ok (be_encode w z) else Raise StructError
      | _ => Raise Unmodelled
      end
  end.

Fixpoint spack (ps : list prim) (vs : list val) : res bytes :=
  match ps, vs with
  | [], [] => Ok []
  | p :: ps', v :: vs' => do a <- spack1 p v; do b <- spack ps' vs'; Ok (a ++ b)
  | _, _ => Raise StructError
  end.
Definition py_struct_pack (ps : list prim) (args : list val) : res val := do b <- spack ps args; Ok (VBytes b).

Definition py_struct_unpack (ps : list prim) (v : val) : res val :=
  match v with
  | VBytes b => if (length b =? struct_size ps)%nat then Ok (VTuple (struct_dec ps b)) else Raise StructError
  | _ => Raise TypeError
  end.

(* ---- the interface to the wire model ---- *)
Definition pentry := (bytes * list val)%type.         (* one tuple of to_pack_list(): format name, arguments *)

(* Serializer.pack_serializable does packable[0] / packable[1:] *)
Definition pentry_of (v : val) : res pentry :=
  match v with
  | VTuple (VStr n :: args) | VList (VStr n :: args) => Ok (n, args)
  | VTuple [] | VList [] => Raise IndexError
  | VTuple _ | VList _ => Raise KeyError
  | _ => Raise Unmodelled
  end.
Definition pentries_of (v : val) : res (list pentry) := do l <- py_iter v; mapM pentry_of l.

Definition bytes_of_string (s : string) : bytes := map (fun a => Z.of_N (N_of_ascii a)) (list_ascii_of_string s).

Fixpoint find_fmt (reg : list (string * rfmt)) (n : bytes) : res fmt :=
  match reg with
  | [] => Raise KeyError
  | (k, r) :: tl =>
      if bytes_eqb (bytes_of_string k) n
      then match r with RF f => Ok f | _ => Raise Unmodelled end
      else find_fmt tl n
  end.

(* packer.pack( *args ): which model value the arguments of one entry are *)
Definition entry_val (f : fmt) (args : list val) : res val :=
  match f with
  | FStruct [p] => match args with [v] => Ok v | _ => Raise StructError end
  | FStruct _ | FBits => Ok (VTuple args)
  | _ => match args with [v] => Ok v | _ => Raise TypeError end
  end.

Fixpoint entry_vals (fs : list fmt) (pl : list pentry) : res (list val) :=
  match fs, pl with
  | [], [] => Ok []
  | f :: fs', e :: pl' => do v <- entry_val f (snd e); do vs <- entry_vals fs' pl'; Ok (v :: vs)
  | _, _ => Raise IndexError
  end.

(* the unpack list handed to from_unpack_list: `bits` contributes eight separate entries *)
Fixpoint unpack_args (fs : list fmt) (vs : list val) : list val :=
  match fs, vs with
  | FBits :: fs', VTuple l :: vs' => l ++ unpack_args fs' vs'
  | _ :: fs', v :: vs' => v :: unpack_args fs' vs'
  | _, _ => []
  end.

(* what the wire hands back for a packed value: `bits` only transports truth values *)
Definition bitnorm (v : val) : val :=
  match truthy v with Ok b => VInt (if b then 1 else 0) | Raise _ => v end.
Fixpoint wire_image (fs : list fmt) (vs : list val) : list val :=
  match fs, vs with
  | FBits :: fs', VTuple l :: vs' => VTuple (map bitnorm l) :: wire_image fs' vs'
  | _ :: fs', v :: vs' => v :: wire_image fs' vs'
  | _, _ => vs
  end.

Section Codec.
Variable reg : list (string * rfmt).
Variable key_ok : bytes -> bool.

(* Serializer.pack_serializable(x) *)
Definition encode_obj (to_pack : obj -> res (list pentry)) (x : obj) : res bytes :=
  do pl <- to_pack x;
  do fs <- mapM (find_fmt reg) (map fst pl);
  do vs <- entry_vals fs pl;
  pack_msg key_ok (msg_of_list fs) vs.

(* Serializer.unpack_serializable(cls, data, off) *)
Definition decode_obj (format_list : list bytes) (from_unpack : list val -> res obj) (data : bytes) (off : nat)
  : res (obj * nat) :=
  do fs <- mapM (find_fmt reg) format_list;
  do (vs, o) <- unpack_msg key_ok (msg_of_list fs) data off;
  do x <- from_unpack (unpack_args fs vs);
  Ok (x, o).
End Codec.

(* one row per translated class *)
Record oldcls := {
  oc_name : string;                                   (* qualified name, as in G02_registry.msgdefs *)
  oc_short : string;                                  (* class name carried by instances *)
  oc_formats : list bytes;                            (* format_list *)
  oc_new : list val -> res obj;                       (* cls( *args ) *)
  oc_to_pack : obj -> res (list pentry);              (* x.to_pack_list() *)
  oc_from_unpack : list val -> res obj                (* cls.from_unpack_list( *args ) *)
}.

(* ---- executable interface for the correspondence ---- *)
Definition pentry_eqb (a b : pentry) : bool := bytes_eqb (fst a) (fst b) && vlist_eqb (snd a) (snd b).
Fixpoint pentries_eqb (a b : list pentry) : bool :=
  match a, b with
  | [], [] => true
  | x :: a', y :: b' => pentry_eqb x y && pentries_eqb a' b'
  | _, _ => false
  end.
Definition on_eqb (a b : obj * nat) : bool := obj_eqb (fst a) (fst b) && (snd a =? snd b)%nat.

Inductive ocase :=
| CNew (c : oldcls) (args : list val)
| CPack (c : oldcls) (x : obj)
| CUnpack (c : oldcls) (args : list val)
| CEncode (reg : list (string * rfmt)) (c : oldcls) (x : obj)
| CDecode (reg : list (string * rfmt)) (c : oldcls) (data : bytes) (off : nat).
Inductive oresult :=
| RObj (r : res obj)
| RPack (r : res (list pentry))
| RBytes (r : res bytes)
| RDec (r : res (obj * nat)).

Definition run_ocase (c : ocase) : oresult :=
  match c with
  | CNew c args => RObj (oc_new c args)
  | CPack c x => RPack (oc_to_pack c x)
  | CUnpack c args => RObj (oc_from_unpack c args)
  | CEncode reg c x => RBytes (encode_obj reg (fun _ => true) (oc_to_pack c) x)
  | CDecode reg c data off => RDec (decode_obj reg (fun _ => true) (oc_formats c) (oc_from_unpack c) data off)
  end.
Definition oresult_eqb (a b : oresult) : bool :=
  match a, b with
  | RObj x, RObj y => res_eqb obj_eqb x y
  | RPack x, RPack y => res_eqb pentries_eqb x y
  | RBytes x, RBytes y => res_eqb_loose bytes_eqb x y      (* exception classes of the packers: not compared *)
  | RDec x, RDec y => res_eqb_loose on_eqb x y
  | _, _ => false
  end.
