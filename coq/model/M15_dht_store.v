(* C15 - DHT store / find.  Executable model of
     ipv8/dht/storage.py    (Value.expired, Storage.put / get / items_older_than / clean)
     ipv8/dht/community.py  (generate_token, check_token, token_maintenance, on_store_request,
                             on_find_request (token issue + values served), unserialize_value, add_value,
                             post_process_values, value_maintenance)
     ipv8/dht/discovery.py  (on_store_peer_request)
     ipv8/peer.py           (Peer.__str__ : the identity string a token is bound to)
   No proofs here.  SHA-1, base64, the signature scheme and the key vault are Section variables; the
   executable instances are at the end of the file (a table-driven one for the correspondence, with the real
   base64 coded in Gallina, and a toy one).
   The model follows the code AFTER the fix commit "fix: Storage.clean stops at the first unexpired value";
   the behaviour of the pinned tree is kept as clean_early_break.
   The limits and periods come from gen/G15_consts.v, regenerated from the source on every run.
   Time is in whole seconds (Z); the harness runs the implementation on a virtual clock with whole-second
   steps, so the float arithmetic of Value.age is exact. *)
From Coq Require Import ZArith List Bool Arith Lia.
From IPV8V Require Import lib.PyErr lib.Bytes lib.BE gen.G15_consts.
Import ListNotations.
Open Scope Z_scope.

(* ---- base64.b64encode (standard alphabet, '=' padding) ---- *)
Definition b64_alphabet : bytes :=
  [65;66;67;68;69;70;71;72;73;74;75;76;77;78;79;80;81;82;83;84;85;86;87;88;89;90;
   97;98;99;100;101;102;103;104;105;106;107;108;109;110;111;112;113;114;115;116;117;118;119;120;121;122;
   48;49;50;51;52;53;54;55;56;57;43;47].
Definition b64c (i : Z) : Z := nth (Z.to_nat i) b64_alphabet 61.
Fixpoint b64 (l : bytes) : bytes :=
  match l with
  | [] => []
  | [a] => [b64c (a / 4); b64c (a mod 4 * 16); 61; 61]
  | [a; b] => [b64c (a / 4); b64c (a mod 4 * 16 + b / 16); b64c (b mod 16 * 4); 61]
  | a :: b :: c :: tl =>
      b64c (a / 4) :: b64c (a mod 4 * 16 + b / 16) :: b64c (b mod 16 * 4 + c / 64) :: b64c (c mod 64) :: b64 tl
  end.

(* ---- storage.py ---- *)
Record value := mkV { v_id : bytes; v_data : bytes; v_last : Z; v_maxage : Z; v_version : Z }.

(* Storage.items : defaultdict(list), insertion ordered *)
Definition storage := list (bytes * list value).

Fixpoint sget (s : storage) (k : bytes) : list value :=
  match s with
  | [] => []
  | (k', l) :: tl => if bytes_eqb k' k then l else sget tl k
  end.

Fixpoint sset (s : storage) (k : bytes) (l : list value) : storage :=
  match s with
  | [] => [(k, l)]
  | (k', l') :: tl => if bytes_eqb k' k then (k', l) :: tl else (k', l') :: sset tl k l
  end.

(* list.index(new_value) with Value.__eq__ = equal ids *)
Fixpoint index_of (id : bytes) (l : list value) : option nat :=
  match l with
  | [] => None
  | v :: tl => if bytes_eqb (v_id v) id then Some O else option_map S (index_of id tl)
  end.

Fixpoint remove_nth {A} (n : nat) (l : list A) : list A :=
  match l, n with
  | [], _ => []
  | _ :: tl, O => tl
  | x :: tl, S n' => x :: remove_nth n' tl
  end.

(* list.sort(key=lambda v: 1 if v.id == key else 0) : stable *)
Definition sort_key (key : bytes) (l : list value) : list value :=
  filter (fun v => negb (bytes_eqb (v_id v) key)) l ++ filter (fun v => bytes_eqb (v_id v) key) l.

(* Value.expired at time now: age > max_age *)
Definition expired (now : Z) (v : value) : bool := v_maxage v <? now - v_last v.

(* Storage.clean (after the fix): every expired value of every key is removed *)
Definition clean (now : Z) (s : storage) : storage :=
  map (fun e => (fst e, filter (fun v => negb (expired now v)) (snd e))) s.

(* Storage.clean as on the pinned tree: walks each list from the end and stops at the first unexpired value *)
Fixpoint drop_while {A} (p : A -> bool) (l : list A) : list A :=
  match l with
  | [] => []
  | x :: tl => if p x then drop_while p tl else l
  end.
Definition clean_early_break (now : Z) (s : storage) : storage :=
  map (fun e => (fst e, rev (drop_while (expired now) (rev (snd e))))) s.

(* Storage.get(key, starting_point, limit) for starting_point >= 0 *)
Definition get (s : storage) (key : bytes) (start : nat) (limit : option Z) : list bytes :=
  let l := skipn start (sget s key) in
  map v_data (match limit with
              | None => l
              | Some n => if n =? 0 then [] else firstn (Z.to_nat n) l
              end).

(* Storage.items_older_than *)
Definition items_older_than (s : storage) (now min_age : Z) : list (bytes * bytes) :=
  flat_map (fun e => map (fun v => (fst e, v_data v)) (filter (fun v => min_age <? now - v_last v) (snd e))) s.

Definition all_values (s : storage) : list value := flat_map snd s.

(* ---- wire form of a stored value ---- *)
Definition u16_at (data : bytes) (off : nat) : res nat :=
  if (off + 2 <=? length data)%nat then Ok (Z.to_nat (be_decode (firstn 2 (skipn off data))))
  else Raise PackError.
Definition varlenH_at (data : bytes) (off : nat) : res (bytes * nat) :=
  do n <- u16_at data off;
  if (off + 2 + n <=? length data)%nat then Ok (firstn n (skipn (off + 2) data), (off + 2 + n)%nat)
  else Raise PackError.
Definition u32_at (data : bytes) (off : nat) : res (Z * nat) :=
  if (off + 4 <=? length data)%nat then Ok (be_decode (firstn 4 (skipn off data)), (off + 4)%nat)
  else Raise PackError.
(* Serializer.unpack_serializable(SignedStrPayload, value, offset=1): varlenH, I, varlenH; every packer error
   is re-raised as PackError *)
Definition unpack_signed (value : bytes) : res (bytes * Z * bytes) :=
  do (d, o1) <- varlenH_at value 1;
  do (ver, o2) <- u32_at value o1;
  do (pk, _) <- varlenH_at value o2;
  Ok (d, ver, pk).

(* a requester as the handler sees it: the text "ip:port" of peer.address and the public key *)
Record requester := mkRq { r_addr : bytes; r_pk : bytes }.

Record state := mkSt {
  secrets : list bytes;                 (* token_secrets: deque(maxlen = TOKEN_SECRETS_MAXLEN), newest last *)
  store : storage;                      (* the Storage of the requester's address class *)
  peers : list (bytes * list bytes)     (* DHTDiscoveryCommunity.store: target -> keys of the stored nodes *)
}.

Inductive op :=
| OFind (rq : requester) (target : bytes) (offset : nat) (force_nodes : bool)
| OStore (rq : requester) (now : Z) (token target : bytes) (values : list bytes) (num_closer : Z)
| OStorePeer (rq : requester) (token target : bytes)
| ORotate (secret : bytes)
| OClean (now : Z)
| OPut (now : Z) (key data : bytes) (id : option bytes) (max_age version : Z)
| OGet (key : bytes) (start : nat) (limit : option Z)
| OPost (values : list bytes)
| OUnser (value : bytes)
| OSnap.

Inductive out :=
| RNone
| RFind (token : bytes) (values : list bytes)
| RStore (responded : bool) (raised : option exn)
| RStorePeer (responded : bool)
| RGet (values : list bytes)
| RPost (r : res (list (bytes * option bytes)))
| RUnser (r : res (option (bytes * option bytes * Z)))
| RSnap (st : state).

Section Prims.
Variable hash : bytes -> bytes.                          (* hashlib.sha1(x).digest() *)
Variable enc : bytes -> bytes.                           (* base64.b64encode *)
Variable verify : bytes -> bytes -> bytes -> bool.       (* public key, message, signature *)
Variable siglen : bytes -> res nat.   (* key_from_public_bin + get_signature_length; raises on a malformed key *)

(* str(node).encode() = "Peer<ip:port, base64(mid)>", mid = sha1(public key) *)
Definition ident (rq : requester) : bytes :=
  [80; 101; 101; 114; 60] ++ r_addr rq ++ [44; 32] ++ enc (hash (r_pk rq)) ++ [62].

(* Storage.put *)
Definition put (s : storage) (now : Z) (key data : bytes) (id : option bytes) (max_age version : Z) : storage :=
  let id_ := match id with Some (x :: r) => x :: r | _ => hash data end in     (* id_ or sha1(data) *)
  let nv := mkV id_ data now max_age version in
  let l := sget s key in
  match index_of id_ l with
  | Some i =>
      match nth_error l i with
      | Some old => if v_version old <=? version then sset s key (sort_key key (nv :: remove_nth i l)) else s
      | None => s
      end
  | None => sset s key (sort_key key (nv :: l))
  end.

(* DHTCommunity.unserialize_value: None | (data, public key or None, version) *)
Definition unserialize (value : bytes) : res (option (bytes * option bytes * Z)) :=
  match value with
  | [] => Raise IndexError
  | t :: _ =>
      if t =? DHT_ENTRY_STR then Ok (Some (skipn 1 value, None, 0))
      else if t =? DHT_ENTRY_STR_SIGNED then
        do (d, ver, pk) <- unpack_signed value;
        do n <- siglen pk;
        let nz := Z.of_nat n in
        if verify pk (slice value None (Some (- nz))) (slice value (Some (- nz)) None)
        then Ok (Some (d, Some pk, ver)) else Ok None
      else Ok None
  end.

(* DHTCommunity.add_value *)
Definition add_value (s : storage) (now : Z) (key value : bytes) (max_age : Z) : res storage :=
  do u <- unserialize value;
  match u with
  | Some (_, pk, ver) =>
      let id := match pk with Some (x :: r) => Some (hash (x :: r)) | _ => None end in
      Ok (put s now key value id max_age ver)
  | None => Ok s
  end.

(* the loop `for value in payload.values: self.add_value(...)`: an exception leaves what was stored so far *)
Fixpoint add_values (s : storage) (now : Z) (key : bytes) (vals : list bytes) (max_age : Z)
  : storage * option exn :=
  match vals with
  | [] => (s, None)
  | v :: tl =>
      match add_value s now key v max_age with
      | Ok s' => add_values s' now key tl max_age
      | Raise e => (s, Some e)
      end
  end.

Definition token_for (rq : requester) (secret : bytes) : bytes := hash (ident rq ++ secret).
Definition generate_token (st : state) (rq : requester) : bytes := token_for rq (last (secrets st) []).
Definition check_token (st : state) (rq : requester) (token : bytes) : bool :=
  existsb (fun s => bytes_eqb (token_for rq s) token) (secrets st).

(* deque(maxlen).append *)
Definition lastn {A} (n : nat) (l : list A) : list A := skipn (length l - n) l.
Definition rotate (st : state) (secret : bytes) : state :=
  mkSt (lastn (Z.to_nat TOKEN_SECRETS_MAXLEN) (secrets st ++ [secret])) (store st) (peers st).

Definition store_max_age (num_closer : Z) : Z :=
  MAX_ENTRY_AGE / 2 ^ Z.max 0 (num_closer - TARGET_NODES + 1).

(* the three gates of on_store_request, in source order *)
Definition store_gate (st : state) (rq : requester) (token : bytes) (values : list bytes) : bool :=
  negb (existsb (fun v => MAX_ENTRY_SIZE <? blen v) values)
  && negb (MAX_VALUES_IN_STORE <? Z.of_nat (length values))
  && check_token st rq token.

Definition on_store (st : state) (rq : requester) (now : Z) (token target : bytes) (values : list bytes)
           (num_closer : Z) : state * out :=
  if store_gate st rq token values then
    let '(s', err) := add_values (store st) now target values (store_max_age num_closer) in
    (mkSt (secrets st) s' (peers st),
     RStore (match err with None => true | Some _ => false end) err)
  else (st, RStore false None).

Definition on_find (st : state) (rq : requester) (target : bytes) (offset : nat) (force_nodes : bool)
  : state * out :=
  (st, RFind (generate_token st rq)
             (if force_nodes then [] else get (store st) target offset (Some MAX_VALUES_IN_FIND))).

(* self.store[target]: list of nodes, equality = equal public key *)
Fixpoint pget (p : list (bytes * list bytes)) (k : bytes) : list bytes :=
  match p with
  | [] => []
  | (k', l) :: tl => if bytes_eqb k' k then l else pget tl k
  end.
Fixpoint pset (p : list (bytes * list bytes)) (k : bytes) (l : list bytes) : list (bytes * list bytes) :=
  match p with
  | [] => [(k, l)]
  | (k', l') :: tl => if bytes_eqb k' k then (k', l) :: tl else (k', l') :: pset tl k l
  end.

Definition on_store_peer (st : state) (rq : requester) (token target : bytes) : state * out :=
  if negb (check_token st rq token) then (st, RStorePeer false)
  else if negb (bytes_eqb target (hash (r_pk rq))) then (st, RStorePeer false)
  else
    let l := pget (peers st) target in
    let l' := if existsb (bytes_eqb (r_pk rq)) l then l else l ++ [r_pk rq] in
    (mkSt (secrets st) (store st) (pset (peers st) target l'), RStorePeer true).

(* post_process_values *)
Definition okey_eqb (a b : option bytes) : bool :=
  match a, b with
  | None, None => true
  | Some x, Some y => bytes_eqb x y
  | _, _ => false
  end.
Definition udict := list (option bytes * list (Z * bytes)).
Fixpoint dd_append (d : udict) (k : option bytes) (x : Z * bytes) : udict :=
  match d with
  | [] => [(k, [x])]
  | (k', l) :: tl => if okey_eqb k' k then (k', l ++ [x]) :: tl else (k', l) :: dd_append tl k x
  end.
Fixpoint unpack_values (vals : list bytes) (d : udict) : res udict :=
  match vals with
  | [] => Ok d
  | v :: tl =>
      do u <- unserialize v;
      match u with
      | Some (data, pk, ver) => unpack_values tl (dd_append d pk (ver, data))
      | None => unpack_values tl d
      end
  end.
(* max(data_list, key=lambda t: t[0]): the first element with the largest version *)
Fixpoint max_by_version (best : Z * bytes) (l : list (Z * bytes)) : Z * bytes :=
  match l with
  | [] => best
  | x :: tl => if fst best <? fst x then max_by_version x tl else max_by_version best tl
  end.
Definition signed_results (d : udict) : list (bytes * option bytes) :=
  flat_map (fun e => match fst e, snd e with
                     | Some pk, x :: tl => [(snd (max_by_version x tl), Some pk)]
                     | _, _ => []
                     end) d.
Definition unsigned_results (d : udict) : list (bytes * option bytes) :=
  flat_map (fun e => match fst e with
                     | None => map (fun x => (snd x, None)) (snd e)
                     | Some _ => []
                     end) d.
Definition post_process (vals : list bytes) : res (list (bytes * option bytes)) :=
  do d <- unpack_values vals [];
  Ok (signed_results d ++ unsigned_results d).

Definition step (st : state) (o : op) : state * out :=
  match o with
  | OFind rq target offset force => on_find st rq target offset force
  | OStore rq now token target values nc => on_store st rq now token target values nc
  | OStorePeer rq token target => on_store_peer st rq token target
  | ORotate s => (rotate st s, RNone)
  | OClean now => (mkSt (secrets st) (clean now (store st)) (peers st), RNone)
  | OPut now key data id max_age version =>
      (mkSt (secrets st) (put (store st) now key data id max_age version) (peers st), RNone)
  | OGet key start limit => (st, RGet (get (store st) key start limit))
  | OPost vals => (st, RPost (post_process vals))
  | OUnser v => (st, RUnser (unserialize v))
  | OSnap => (st, RSnap st)
  end.

Fixpoint run (st : state) (ops : list op) : state * list out :=
  match ops with
  | [] => (st, [])
  | o :: tl =>
      let '(st1, r) := step st o in
      let '(st2, rs) := run st1 tl in
      (st2, r :: rs)
  end.

(* DHTCommunity.serialize_value(data, sign=True) with an explicit version, for the round-trip statement *)
Variable sign : bytes -> bytes -> bytes.                 (* private key, message *)
Definition signed_body (data : bytes) (version : Z) (pk : bytes) : bytes :=
  [DHT_ENTRY_STR_SIGNED] ++ be_encode 2 (blen data) ++ data ++ be_encode 4 version ++ be_encode 2 (blen pk) ++ pk.
Definition serialize_signed (sk pk data : bytes) (version : Z) : bytes :=
  let body := signed_body data version pk in body ++ sign sk body.
Definition serialize_plain (data : bytes) : bytes := DHT_ENTRY_STR :: data.

End Prims.

(* the node right after DHTCommunity.__init__: one secret, nothing stored *)
Definition init_state (secret : bytes) : state := mkSt [secret] [] [].

(* ---- executable interface for the correspondence (tools/checks/c15.py) ---- *)
Definition exn_code (e : exn) : Z :=
  match e with
  | IndexError => 1 | StructError => 2 | KeyError => 3 | ValueError => 4 | TypeError => 5
  | UnicodeError => 6 | PackError => 7 | OSError => 8 | CryptoError => 9 | DecodingError => 10
  | AssertionError => 11 | OutOfFuel => 12 | RuntimeError => 13 | ZeroDivisionError => 14
  end.

Fixpoint lookup_b (t : list (bytes * bytes)) (x : bytes) : bytes :=
  match t with [] => [] | (k, v) :: tl => if bytes_eqb k x then v else lookup_b tl x end.
Fixpoint lookup_len (t : list (bytes * res nat)) (pk : bytes) : res nat :=
  match t with [] => Raise ValueError | (k, n) :: tl => if bytes_eqb k pk then n else lookup_len tl pk end.
Definition valid_in (t : list (bytes * bytes)) (pk msg sg : bytes) : bool :=
  existsb (fun e => bytes_eqb (fst e) pk && bytes_eqb (snd e) (msg ++ sg)) t.

Fixpoint index_in (l : list bytes) (x : bytes) (i : Z) : Z :=
  match l with [] => -1 | y :: tl => if bytes_eqb y x then i else index_in tl x (i + 1) end.

(* operations with the long byte strings (values, keys) given as indices into the tables of the case *)
Inductive iop :=
| IFind (r : nat) (target : bytes) (offset : nat) (force_nodes : bool)
| IStore (r : nat) (now : Z) (token target : bytes) (values : list nat) (num_closer : Z)
| IStorePeer (r : nat) (token target : bytes)
| IRotate (secret : bytes)
| IClean (now : Z)
| IPut (now : Z) (key : bytes) (data : nat) (id : option bytes) (max_age version : Z)
| IGet (key : bytes) (start : nat) (limit : option Z)
| IPost (values : list nat)
| IUnser (value : nat)
| ISnap.

Record case := mkCase {
  c_pool : list bytes;                    (* serialized values *)
  c_keys : list bytes;                    (* every byte string used as a public key *)
  c_hpool : list bytes;                   (* sha1 of each pool entry *)
  c_hkeys : list bytes;                   (* sha1 of each key *)
  c_htok : list (bytes * bytes);          (* sha1 of identity ++ secret, for the pairs of the case *)
  c_len : list (res nat);                 (* signature length / key vault error of each key *)
  c_valid : list (nat * nat);             (* (key index, pool index): value = signed part ++ valid signature *)
  c_rqs : list (bytes * nat);             (* requesters: address text, key index *)
  c_secret0 : bytes;
  c_ops : list iop
}.

Definition nthb (l : list bytes) (i : nat) : bytes := nth i l [].

Definition case_hash (c : case) : bytes -> bytes :=
  lookup_b (combine (c_pool c) (c_hpool c) ++ combine (c_keys c) (c_hkeys c) ++ c_htok c).
Definition case_siglen (c : case) : bytes -> res nat := lookup_len (combine (c_keys c) (c_len c)).
Definition case_verify (c : case) : bytes -> bytes -> bytes -> bool :=
  valid_in (map (fun e => (nthb (c_keys c) (fst e), nthb (c_pool c) (snd e))) (c_valid c)).

Definition case_rq (c : case) (r : nat) : requester :=
  match nth_error (c_rqs c) r with
  | Some (a, k) => mkRq a (nthb (c_keys c) k)
  | None => mkRq [] []
  end.

Definition resolve (c : case) (o : iop) : op :=
  match o with
  | IFind r t off f => OFind (case_rq c r) t off f
  | IStore r now tok t vs nc => OStore (case_rq c r) now tok t (map (nthb (c_pool c)) vs) nc
  | IStorePeer r tok t => OStorePeer (case_rq c r) tok t
  | IRotate s => ORotate s
  | IClean now => OClean now
  | IPut now k d id ma ver => OPut now k (nthb (c_pool c) d) id ma ver
  | IGet k s l => OGet k s l
  | IPost vs => OPost (map (nthb (c_pool c)) vs)
  | IUnser v => OUnser (nthb (c_pool c) v)
  | ISnap => OSnap
  end.

(* flat rendering of the observations; long strings as table indices *)
Definition fb (b : bytes) : list Z := blen b :: b.
Definition fl {A} (f : A -> list Z) (l : list A) : list Z := Z.of_nat (length l) :: flat_map f l.
Definition fbool (b : bool) : Z := if b then 1 else 0.
Definition fopt {A} (f : A -> list Z) (o : option A) : list Z :=
  match o with None => [0] | Some a => 1 :: f a end.

Definition flat_value (c : case) (v : value) : list Z :=
  [index_in (c_pool c) (v_data v) 0; v_version v; v_last v; v_maxage v] ++ fb (v_id v).
Definition flat_state (c : case) (st : state) : list Z :=
  fl fb (secrets st)
  ++ fl (fun e => fb (fst e) ++ fl (flat_value c) (snd e)) (store st)
  ++ fl (fun e => fb (fst e) ++ fl (fun k => [index_in (c_keys c) k 0]) (snd e)) (peers st).
Definition flat_pk (c : case) (pk : option bytes) : list Z :=
  match pk with None => [-1] | Some k => [index_in (c_keys c) k 0] end.
Definition flat_out (c : case) (r : out) : list Z :=
  match r with
  | RNone => [0]
  | RFind tok vals => 1 :: fb tok ++ fl (fun v => [index_in (c_pool c) v 0]) vals
  | RStore resp raised => [2; fbool resp; match raised with None => 0 | Some e => exn_code e end]
  | RStorePeer resp => [3; fbool resp]
  | RGet vals => 4 :: fl (fun v => [index_in (c_pool c) v 0]) vals
  | RPost (Ok l) => 5 :: 0 :: fl (fun e => fb (fst e) ++ flat_pk c (snd e)) l
  | RPost (Raise e) => [5; exn_code e]
  | RUnser (Ok None) => [6; 0; 0]
  | RUnser (Ok (Some (d, pk, ver))) => 6 :: 0 :: 1 :: fb d ++ flat_pk c pk ++ [ver]
  | RUnser (Raise e) => [6; exn_code e]
  | RSnap st => 7 :: flat_state c st
  end.

Definition run_case (c : case) : list Z :=
  let '(_, outs) := run (case_hash c) b64 (case_verify c) (case_siglen c) (init_state (c_secret0 c))
                        (map (resolve c) (c_ops c)) in
  flat_map (flat_out c) outs.

(* ---- a toy instance of the primitives (shows the hypotheses used in the proofs are satisfiable):
   hash = identity (collision free), text encoding = two nibbles per byte (injective), signature of m under
   key k = [length of m; sum of k and m] (mod 256), one signature length for all non-empty keys ---- *)
Definition toy_hash (x : bytes) : bytes := x.
Definition toy_enc (x : bytes) : bytes := flat_map (fun b => [b / 16; b mod 16]) x.
Definition toy_sign (sk msg : bytes) : bytes := [Z.of_nat (length msg) mod 256; fold_left Z.add (sk ++ msg) 0 mod 256].
Definition toy_verify (pk msg sg : bytes) : bool := bytes_eqb sg (toy_sign pk msg).
Definition toy_siglen (pk : bytes) : res nat := match pk with [] => Raise ValueError | _ => Ok 2%nat end.
