(* C18 - serialisation of integers, keys and attestations: primitives/structs.py (_num_to_str, _str_to_num,
   ipack, iunpack, pack_pair, unpack_pair, Boneh*Key.(un)serialize), bonehexact/structs.py
   (BitPairAttestation / BonehAttestation), pengbaorange/boudot.py (_sipack, _siunpack).  No proofs. *)
From Coq Require Import ZArith List Bool.
From IPV8V Require Import lib.PyErr lib.Bytes lib.BE.
Import ListNotations.
Open Scope Z_scope.

(* bytes needed for the minimal big-endian form; zero takes one byte ("0" -> "00") *)
Definition nbytes (n : Z) : nat := if n =? 0 then 1%nat else Z.to_nat (Z.log2 n / 8 + 1).
Definition hexdigits (n : Z) : Z := if n =? 0 then 1 else Z.log2 n / 4 + 1.

(* _num_to_str: f"{num:x}", left-padded to an even number of digits, two digits per byte.
   A negative number keeps its '-' sign: depending on the parity either int("0-", 16) fails
   (ValueError) or struct.pack(">B", <negative>) does (struct.error). *)
Definition num_to_str (n : Z) : res bytes :=
  if n <? 0 then (if Z.even (hexdigits (- n)) then Raise ValueError else Raise StructError)
  else Ok (be_encode (nbytes n) n).

Definition str_to_num (s : bytes) : Z := be_decode s.

(* ipack: one byte len(l), then l = length of the number, then the number *)
Definition ipack (n : Z) : res bytes :=
  bind (num_to_str n) (fun pnum =>
  bind (num_to_str (blen pnum)) (fun l =>
  if 255 <? blen l then Raise StructError else Ok (blen l :: l ++ pnum))).

Definition iunpack (s : bytes) : res (Z * bytes) :=
  match s with
  | [] => Raise StructError                       (* struct.unpack(">B", b"") *)
  | llen :: _ =>
      let l := str_to_num (slice s (Some 1) (Some (1 + llen))) in
      Ok (str_to_num (slice s (Some (1 + llen)) (Some (llen + l + 1))), slice s (Some (llen + l + 1)) None)
  end.

Definition pack_pair (a b : Z) : res bytes :=
  bind (ipack a) (fun x => bind (ipack b) (fun y => Ok (x ++ y))).

Definition unpack_pair (s : bytes) : res (Z * Z * bytes) :=
  bind (iunpack s) (fun ar => bind (iunpack (snd ar)) (fun br => Ok (fst ar, fst br, snd br))).

(* ipack(n1) + ipack(n2) + ... : keys, bit pairs *)
Fixpoint pack_nums (ns : list Z) : res bytes :=
  match ns with
  | [] => Ok []
  | n :: tl => bind (ipack n) (fun x => bind (pack_nums tl) (fun y => Ok (x ++ y)))
  end.

(* `while rem and len(nums) < amount: unpacked, rem = iunpack(rem); nums.append(unpacked)` *)
Fixpoint unpack_nums (amount : nat) (rem : bytes) : res (list Z * bytes) :=
  match amount with
  | O => Ok ([], rem)
  | S k =>
      match rem with
      | [] => Ok ([], rem)
      | _ => bind (iunpack rem) (fun xr =>
             bind (unpack_nums k (snd xr)) (fun r => Ok (fst xr :: fst r, snd r)))
      end
  end.

(* BonehPublicKey.unserialize (FIELDS = 5) / BonehPrivateKey.unserialize (FIELDS = 7): None when short *)
Definition key_unserialize (nfields : nat) (s : bytes) : res (option (list Z)) :=
  bind (unpack_nums nfields s) (fun r =>
    if Nat.eqb (length (fst r)) nfields then Ok (Some (fst r)) else Ok None).

(* _sipack of up to eight integers *)
Fixpoint sipack_loop (ns : list Z) (sign : Z) (packed : bytes) : res bytes :=
  match ns with
  | [] => Ok (sign :: packed)
  | i :: tl => bind (ipack (Z.abs i)) (fun p =>
               sipack_loop tl (2 * sign + (if i <? 0 then 1 else 0)) (p ++ packed))
  end.
Definition sipack (ns : list Z) : res bytes :=
  if (8 <? Z.of_nat (length ns)) then Raise RuntimeError else sipack_loop ns 0 [].

(* _siunpack(buf, amount): numbers come back in the order they were given to _sipack *)
Fixpoint siunpack_loop (amount : nat) (rem : bytes) (sign : Z) (nums : list Z) : res (list Z * bytes) :=
  match amount with
  | O => Ok (nums, rem)
  | S k =>
      match rem with
      | [] => Ok (nums, rem)
      | _ => bind (iunpack rem) (fun xr =>
             siunpack_loop k (snd xr) (sign / 2) ((if Z.odd sign then - fst xr else fst xr) :: nums))
      end
  end.
Definition siunpack (buf : bytes) (amount : nat) : res (list Z * bytes) :=
  match buf with
  | [] => Raise StructError
  | sign :: rem => siunpack_loop amount rem sign []
  end.

(* ---- harness runners (results flattened to lists of integers) ---------------------------------- *)
Definition run_ipack (n : Z) : res (list Z) := ipack n.
Definition run_iunpack (s : bytes) : res (list Z) :=
  bind (iunpack s) (fun r => Ok (fst r :: blen (snd r) :: snd r)).
Definition run_sipack (ns : list Z) : res (list Z) := sipack ns.
Definition run_siunpack (c : bytes * nat) : res (list Z) :=
  bind (siunpack (fst c) (snd c)) (fun r => Ok (Z.of_nat (length (fst r)) :: fst r ++ snd r)).
Definition run_unpack_nums (c : bytes * nat) : res (list Z) :=
  bind (unpack_nums (snd c) (fst c)) (fun r => Ok (Z.of_nat (length (fst r)) :: fst r ++ snd r)).
