(* lazy_community.py: lazy_wrapper / lazy_wrapper_wd / _verify_signature / ezr_pack.
   The signature scheme is a Section variable.  No proofs here. *)
From Coq Require Import ZArith List Bool Lia.
From IPV8V Require Import lib.PyErr lib.Bytes lib.BE model.M02_wire.
Import ListNotations.
Open Scope Z_scope.

Inductive invocation := Invoke (pk : bytes) (args : list val).

Section Sig.
Variable key_ok : bytes -> bool.                        (* for node-list payloads (M02) *)
Variable verify : bytes -> bytes -> bytes -> bool.      (* public key, message, signature *)
Variable siglen : bytes -> res nat.  (* key_from_public_bin + get_signature_length; raises on a malformed key *)

Definition auth_fmt : fmt := FVarLen 2 1 false.         (* BinMemberAuthenticationPayload: varlenH *)

(* the decorator, step by step *)
Definition wrapper_signed (m : msgfmt) (data : bytes) : res invocation :=
  do (a, _) <- unpack key_ok auth_fmt data 23;
  match a with
  | VBytes pk =>
      do n <- siglen pk;
      let nz := Z.of_nat n in
      let signed := slice data None (Some (- nz)) in
      let signature := slice data (Some (- nz)) None in
      let remainder := slice data (Some (2 + blen pk)) (Some (- nz)) in
      do vs <- unpack_all key_ok m remainder 23;
      if negb (verify pk signed signature) then Raise DecodingError
      else Ok (Invoke pk vs)
  | _ => Raise TypeError
  end.

Definition wrapper_unsigned (m : msgfmt) (data : bytes) : res (list val) := unpack_all key_ok m data 23.

(* EZPackOverlay._ez_unpack_auth(payload_class, data), used by handlers that parse authenticated messages by hand
   (DiscoveryCommunity.on_old_introduction_request): the same steps with the format list
   [GlobalTimeDistributionPayload; payload_class] *)
Definition ez_unpack_auth (payload : msgfmt) (data : bytes) : res invocation :=
  wrapper_signed (MCons (FStruct [PU 8]) payload) data.

(* sender: ezr_pack(msg_num, *payloads, sig=True) with prefix of 22 bytes *)
Variable sign : bytes -> bytes -> bytes.                (* secret key, message *)
Definition ez_pack (sk pk prefix : bytes) (msg_id : Z) (m : msgfmt) (vs : list val) : res bytes :=
  do a <- pack key_ok auth_fmt (VBytes pk);
  do b <- pack_msg key_ok m vs;
  let packet := prefix ++ [msg_id] ++ a ++ b in
  Ok (packet ++ sign sk packet).

(* which peer object the handler receives: the verified one registered under that key, else a fresh one *)
Definition peer_for (index : list (bytes * bytes)) (pk : bytes) : bytes :=
  (* index maps key bytes to the key of the registered peer object; a fresh peer is built from pk *)
  match find (fun e => bytes_eqb (fst e) pk) index with Some e => snd e | None => pk end.

End Sig.

(* ---- executable interface: signature oracle given as tables ---- *)
Fixpoint lookup_len (t : list (bytes * nat)) (pk : bytes) : res nat :=
  match t with [] => Raise ValueError | (k, n) :: tl => if bytes_eqb k pk then Ok n else lookup_len tl pk end.
Definition valid_in (t : list (bytes * bytes * bytes)) (pk msg sg : bytes) : bool :=
  existsb (fun e => let '(k, m, s) := e in bytes_eqb k pk && bytes_eqb m msg && bytes_eqb s sg) t.

Definition auth_case := (list (bytes * nat) * list (bytes * bytes * bytes) * list bytes * list fmt * bytes)%type.
Definition run_signed (c : auth_case) : res (bytes * list val) :=
  let '(lens, valid, keys, fs, data) := c in
  match wrapper_signed (keyset keys) (valid_in valid) (lookup_len lens) (msg_of_list fs) data with
  | Ok (Invoke pk vs) => Ok (pk, vs)
  | Raise e => Raise e
  end.
Definition pkvs_eqb (a b : bytes * list val) : bool := bytes_eqb (fst a) (fst b) && vlist_eqb (snd a) (snd b).

(* handler table entries generated from the overlay sources *)
Record hentry := mkH { h_signed : bool; h_takes_peer : bool }.
