(* The receive pipeline and the local send entry points of M04_onion with the TRANSLATED handlers plugged in
   (gen/G04_onion.v, written by tools/tr/tr_onion.py from the source on every run): what the correspondence stage of
   C04 evaluates next to the hand model, and what props/C04x.v proves equal to it.  The dispatch glue
   (on_packet / process_cell / on_cell / on_packet_from_circuit) is the text of M04_onion - those functions are
   translated by tools/tr/tr_recv.py into gen/G03_recv.v (C03x) - with every handler call replaced by a run of the
   generated handler.  No proofs here. *)
From Coq Require Import ZArith List Bool Lia.
From IPV8V Require Import lib.PyErr lib.Bytes lib.BE model.M02_wire model.M03_recv model.M04_onion model.M05_isolation
  model.M04_gen_rt gen.G04_onion model.M04_harness.
Import ListNotations.
Open Scope Z_scope.

Section G.
Variables key nonce secret : Type.
Variable O : oracles key nonce secret.
Variable dec : key -> dir -> bytes -> option bytes.
Notation enc := (o_enc O).
Notation node := (node key).

Definition data_acts (l : list cact) : list action :=
  flat_map (fun a => match a with CData x => [x] | _ => [] end) l.
(* a node of the data-plane model as the tables of the control-plane model (no caches, nothing pending) *)
Definition wrap (nd : node) : cnode key := mkCN nd [] [] [] 0.
(* run a translated function on a node, observe it the way M04_onion's functions report *)
Definition g_run {A} (nd : node) (ns : nat -> nonce) (m : GM key nonce A) : res (node * list action) :=
  let r := m (start (wrap nd) ns) in
  match snd r with
  | Ok _ => Ok (cn_tab (g_c (fst r)), data_acts (g_out (fst r)))
  | Raise e => Raise e
  end.

Definition g_on_packet_from_circuit (nd : node) (src : addr) (data : bytes) (cid : Z) (ns : nat -> nonce)
  : res (node * list action) :=
  if negb (bytes_eqb (n_prefix nd) (slice data None (Some 22))) then Ok (nd, [])
  else
    do mid <- idx data 22;
    if negb (existsb (Z.eqb mid) (n_handlers nd)) then Ok (nd, [])
    else
      try_catch
        (if mid =? 1 then g_run nd ns (g_TunnelCommunity_on_data O src data (Some cid))
         else if mid =? 6 then g_run nd ns (g_W_TunnelCommunity_on_ping O src data (Some cid))
         else if mid =? 7 then g_run nd ns (g_W_TunnelCommunity_on_pong O src data (Some cid))
         else if mid =? 19 then g_run nd ns (g_TunnelCommunity_on_test_request O src data (Some cid))
         else if mid =? 20 then on_test_response nd src data cid
         else Ok (nd, [Control mid src cid data]))
        (fun _ => Ok (nd, [])).

Definition g_on_cell (nd : node) (src : addr) (data : bytes) (ns : nat -> nonce) : res (node * list action) :=
  do c <- from_bin data;
  do skip <- (if cl_plain c then do m0 <- idx (cl_msg c) 0; Ok (negb (NO_CRYPTO m0)) else Ok false);
  if skip then Ok (nd, [])
  else do u <- unwrap (n_prefix nd) c; g_on_packet_from_circuit nd src u (cl_cid c) ns.

Definition g_community_on_cell_packet (nd : node) (src : addr) (data : bytes) (ns : nat -> nonce)
  : res (node * list action) :=
  if negb (bytes_eqb (n_prefix nd) (slice data None (Some 22))) || (blen data <? 23) then Ok (nd, [])
  else try_catch (g_on_cell nd src data ns) (fun _ => Ok (nd, [])).

Definition g_process_cell (nd : node) (src : addr) (data : bytes) (ns : nat -> nonce) : res (node * list action) :=
  if blen data <? 29 then Ok (nd, [])
  else
    do c <- from_bin data;
    if has (cl_cid c) (n_relays nd) then relay_cell enc dec nd c ns
    else
      do oc <- incoming_crypto dec nd c;
      match oc with
      | None => Ok (nd, [])
      | Some c1 =>
          if (length (cl_msg c1) =? 0)%nat then Ok (nd, [])
          else
            do m0 <- idx (cl_msg c1) 0;
            if (negb (cl_early c1) && (m0 =? 4)) || (n_max_early nd <=? 0) then Ok (nd, [])
            else if cl_plain c1 && negb (NO_CRYPTO m0) then Ok (nd, [])
            else g_community_on_cell_packet nd src (cell_to_bin (n_prefix nd) c1) ns
      end.

Definition g_on_packet (nd : node) (src : addr) (data : bytes) (ns : nat -> nonce) : res (node * list action) :=
  if negb (bytes_eqb (n_prefix nd) (slice data None (Some 22))) then Ok (nd, [])
  else if (22 <? blen data) then
    do b <- idx data 22;
    if b =? 0 then g_process_cell nd src data ns else Ok (nd, [NonCell src data])
  else Ok (nd, [NonCell src data]).

Fixpoint g_expand (fuel : nat) (ns : nat -> nonce) {struct fuel} : node -> list action -> res (node * list action) :=
  fix go (nd : node) (acts : list action) {struct acts} : res (node * list action) :=
    match acts with
    | [] => Ok (nd, [])
    | Reinject origin payload cid :: tl =>
        match fuel with
        | 0%nat => do (nd2, a2) <- go nd tl; Ok (nd2, Reinject origin payload cid :: a2)
        | S f =>
            do (nd1, a1) <- g_on_packet_from_circuit nd origin payload cid ns;
            do (nd1', a1') <- g_expand f ns nd1 a1;
            do (nd2, a2) <- go nd1' tl;
            Ok (nd2, Reinject origin payload cid :: a1' ++ a2)
        end
    | a :: tl => do (nd2, a2) <- go nd tl; Ok (nd2, a :: a2)
    end.

Definition g_on_packet_rec (nd : node) (src : addr) (data : bytes) (ns : nat -> nonce) : res (node * list action) :=
  do (nd1, a1) <- g_on_packet nd src data ns; g_expand (length data) ns nd1 a1.

End G.

Arguments data_acts : clear implicits. Arguments wrap {key}. Arguments g_run {key nonce A}.
Arguments g_on_packet_from_circuit {key nonce secret}. Arguments g_on_cell {key nonce secret}.
Arguments g_community_on_cell_packet {key nonce secret}. Arguments g_process_cell {key nonce secret}.
Arguments g_on_packet {key nonce secret}. Arguments g_expand {key nonce secret}. Arguments g_on_packet_rec {key nonce secret}.

(* ---- the lockstep events of M04_harness on the generated functions (toy AEAD) ---- *)
Definition toyO (rnd : bytes) : oracles Z Z unit :=
  mkO tenc (fun _ => rnd) (fun _ => Raise ValueError) (fun _ => Raise ValueError) (fun _ => Raise ValueError) []
      (fun _ _ => true) (fun _ => false) (fun _ c => c) 5.

Definition g_run_event (nd : tnode) (ev : event) (rnd : bytes) (ns : list Z) : outcome :=
  let O := toyO rnd in
  match ev with
  | EvPacket src data => g_on_packet_rec O tdec nd src data (stream ns)
  | EvSendData target cid dest org data => g_run nd (stream ns) (g_TunnelCommunity_send_data O target cid dest org data)
  | EvTunnelData cid source data =>
      match assoc cid (n_exits nd) with
      | Some es => g_run nd (stream ns) (g_TunnelExitSocket_tunnel_data O (cid, es) source data)
      | None => Raise KeyError
      end
  | EvSendPing target cid ident => g_run nd (stream ns) (g_TunnelCommunity_send_cell O target (g_mk_PingPayload cid ident))
  | EvSendTestRequest target cid ident rsize data =>
      g_run nd (stream ns) (g_TunnelCommunity_send_cell O target (g_mk_TestRequestPayload cid ident rsize data))
  end.
Definition g_run_lcase (c : lcase) : outcome := let '(nd, ev, rnd, ns) := c in g_run_event nd ev rnd ns.
