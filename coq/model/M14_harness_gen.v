(* C14 (extension) - executable interface of the GENERATED routing functions (gen/G14_routing.v) for the
   correspondence check: the same case and result formats as model/M14_harness.v.  No proofs.
   Oracles: the clock stands at 1000, a node whose tag is a multiple of 3 has just responded (GOOD), the
   others never (UNKNOWN) - as the harness sets Node.last_response; randint returns the recorded draw. *)
From Coq Require Import ZArith List Bool Arith.
From IPV8V Require Import lib.PyErr model.M14_routing model.M14_routing_gen model.M14_harness gen.G14_routing.
Import ListNotations.
Open Scope Z_scope.

Definition o_now : Z := 1000.
Definition o_last_response (n : node) : Z := if ntag n mod 3 =? 0 then 1000 else 0.
Definition o_last_query (n : node) : Z := 0.

Section HG.
Variable W : nat.
Variable cap : nat.
Variable centers : list Z.
Let ID (s : idspec) : bits := Z_to_bits W (resolve (Z.of_nat W) centers s).

Definition hstep_gen (rt : rtable) (o : hop) : res (rtable * hres) :=
  match o with
  | HAdd id tag addr rtt failed =>
      do r <- G_RoutingTable_add W cap o_now o_last_response o_last_query (S W) rt (mkNode (ID id) tag addr rtt failed);
      Ok (fst r, RNode (option_map nrec_of (snd r)))
  | HRemoveBad =>
      do r <- G_RoutingTable_remove_bad_nodes o_now o_last_response o_last_query rt;
      Ok (fst r, RTags (zsort (map ntag (snd r))))
  | HTouch id rtt failed => do rt' <- rt_touch rt (ID id) rtt failed; Ok (rt', RNum 0)
  | HGet id => do r <- G_RoutingTable_get W rt (ID id); Ok (rt, RNode (option_map nrec_of r))
  | HClosest target k excl =>
      do r <- G_RoutingTable_closest_nodes W o_now o_last_response o_last_query rt (ID target) k
                (option_map (fun s => mkNode (ID s) (-1) 0 0 0) excl);
      Ok (rt, RTags (map ntag r))
  | HDist a b => do d <- G_distance (ID a) (ID b); Ok (rt, RNum d)
  | HDump => Ok (rt, dump (tr rt))
  end.

Fixpoint hrun_gen (rt : rtable) (ops : list hop) : list hres :=
  match ops with
  | [] => []
  | o :: tl => match hstep_gen rt o with
               | Ok (rt', r) => r :: hrun_gen rt' tl
               | Raise e => [RExn e]
               end
  end.
End HG.

Definition run_hist_gen (c : hist_case) : list hres :=
  let '(w, cap, centers, ops) := c in
  hrun_gen (Z.to_nat w) (Z.to_nat cap) centers (rt_init (Z_to_bits (Z.to_nat w) (nth 0 centers 0))) ops.

(* Bucket(prefix).generate_id() with the recorded random draw; -1 when it raises *)
Definition run_genid_gen (c : Z * Z * Z) : Z :=
  let '(w, p, r) := c in
  match G_Bucket_generate_id (Z.to_nat w) (fun _ _ => r) (mkBucket (key_of p) []) with
  | Ok i => bitsZ i
  | Raise _ => -1
  end.
