(* C09, path level - a network of M09 tunnel nodes.

   A network state is a finite map from node names to M09 node states plus the multiset (list) of
   messages in flight.  One network step = one node processing one event at a given time: a message
   taken from the flight (delivered, optionally leaving a duplicate behind), a message dropped, or a
   local event of a node (timer, sweep, deferred task, wake-up, API call, or a datagram that comes from
   outside the modelled nodes).  Which message is delivered / dropped / duplicated, when, and in which
   order is an unconstrained choice of the trace: every pattern of loss, duplication, reordering and
   delay is some trace.  Everything a node does is M09_reclaim.step; the cells and destroys it puts on
   the wire join the flight, stamped with the sending time and with the kind of message they carry
   (a relayed cell inherits the kind of the cell that was relayed: a relay cannot change it).

   The second half of the file states, as executable boolean checks, the situation the path-level
   theorem starts from (a torn-down / abandoned circuit: `quiet_shape`) and what it assumes about the
   trace afterwards (`step_ok`), and the plumbing used by tools/checks/c09_path.py to replay observed
   network histories.  No proofs here. *)
From Coq Require Import ZArith List Bool.
From IPV8V Require Import gen.G09_rules model.M09_reclaim spec.S09_reclaim.
Import ListNotations.
Open Scope Z_scope.

(* ---------------------------------------------------------------- the network *)
Inductive msg :=
| FCell (src dst cid : Z) (early : bool) (mid : Z) (sent : Z)   (* mid: kind of the message inside; 0 = unknown *)
| FDestroy (src dst cid reason : Z) (sent : Z).

Definition msg_sent (m : msg) : Z :=
  match m with FCell _ _ _ _ _ t => t | FDestroy _ _ _ _ t => t end.

Record net := mkNet { nodes : list (Z * node); flight : list msg }.

Definition init_net (names : list Z) (t0 : Z) : net :=
  mkNet (map (fun n => (n, init_node t0)) names) [].

Definition msg_of_out (me t inherit : Z) (o : out) : list msg :=
  match o with
  | OCell dst cid early mid => [FCell me dst cid early (if mid =? 0 then inherit else mid) t]
  | ODestroy dst cid reason => [FDestroy me dst cid reason t]
  | _ => []
  end.
Definition msgs_of_outs (me t inherit : Z) (os : list out) : list msg :=
  flat_map (msg_of_out me t inherit) os.

Inductive nlabel :=
| NDeliver (i : nat) (keep : bool) (plain : bool) (len : Z) (cr : crypt) (ls : list Z)
    (* the i-th message in flight reaches its destination; keep = a duplicate stays in flight;
       plain / len / cr / ls are the oracle outcomes of M09's ERecvCell *)
| NDrop (i : nat)
| NLocal (n : Z) (e : ev).

Section Net.
Variable st : settings.

(* node n processes event e at time t; what it sends joins the flight *)
Definition node_event (w : net) (n t : Z) (e : ev) (inherit : Z) : net :=
  match aget n (nodes w) with
  | None => w
  | Some s =>
      let so := step st s (t, e) in
      mkNet (aset n (fst so) (nodes w)) (flight w ++ msgs_of_outs n t inherit (snd so))
  end.

Definition take_msg (w : net) (i : nat) (keep : bool) : net :=
  if keep then w else mkNet (nodes w) (remove_nth i (flight w)).

Definition nstep (w : net) (tl : Z * nlabel) : net :=
  let t := fst tl in
  match snd tl with
  | NDrop i => mkNet (nodes w) (remove_nth i (flight w))
  | NLocal n e => node_event w n t e 0
  | NDeliver i keep plain len cr ls =>
      match nth_error (flight w) i with
      | None => w
      | Some (FCell src dst cid early mid _) =>
          node_event (take_msg w i keep) dst t (ERecvCell src cid plain early len cr ls) mid
      | Some (FDestroy src dst cid reason _) =>
          node_event (take_msg w i keep) dst t (ERecvDestroy src cid reason) 0
      end
  end.

Fixpoint nrun (w : net) (tr : list (Z * nlabel)) : net :=
  match tr with
  | [] => w
  | tl :: rest => nrun (nstep w tl) rest
  end.

(* ---------------------------------------------------------------- assumptions on one step *)
(* the node that acts *)
Definition actor (w : net) (l : nlabel) : option Z :=
  match l with
  | NDrop _ => None
  | NLocal n _ => Some n
  | NDeliver i _ _ _ _ _ =>
      match nth_error (flight w) i with
      | Some (FCell _ dst _ _ _ _) => Some dst
      | Some (FDestroy _ dst _ _ _) => Some dst
      | None => None
      end
  end.

(* the event loop of the acting node is on time (M09_reclaim.on_time) *)
Definition step_timely (w : net) (tl : Z * nlabel) : bool :=
  match actor w (snd tl) with
  | Some n => match aget n (nodes w) with Some s => on_time st s (fst tl) | None => true end
  | None => true
  end.

(* a datagram, and every duplicate of it, is delivered within D of being sent - or never *)
Definition step_within (D : Z) (w : net) (tl : Z * nlabel) : bool :=
  match snd tl with
  | NDeliver i _ _ _ _ _ =>
      match nth_error (flight w) i with
      | Some m => fst tl <=? msg_sent m + D
      | None => true
      end
  | _ => true
  end.

(* decryption does not change the kind of a message: at the node that peels the last layer (a node that
   relays the cell does not look inside) it fails, or yields a message of the kind that was sent *)
Definition relaying (w : net) (dst cid : Z) : bool :=
  match aget dst (nodes w) with Some s => ahas cid (relays s) | None => true end.

Definition step_typed (w : net) (tl : Z * nlabel) : bool :=
  match snd tl with
  | NDeliver i _ _ _ cr _ =>
      match nth_error (flight w) i, cr with
      | Some (FCell _ dst cid _ mid _), COk m => (mid =? 0) || (msg_id m =? mid) || relaying w dst cid
      | _, _ => true
      end
  | _ => true
  end.

End Net.

(* ---------------------------------------------------------------- a path and its identifiers *)
(* originator, then the hops in order, each with the circuit id used on the link that leads to it *)
Record path := mkPath { p_origin : Z; p_hops : list (Z * Z) }.
Definition p_len (p : path) : nat := length (p_hops p).
Definition p_nodes (p : path) : list Z := p_origin p :: map fst (p_hops p).
Definition p_ids (p : path) : list Z := map snd (p_hops p).
Definition nd (p : path) (k : nat) : Z := nth k (p_nodes p) (-1).      (* k = 0: the originator *)
Definition idk (p : path) (k : nat) : Z := nth k (0 :: p_ids p) 0.     (* k = 1 .. p_len: id of link k *)

Definition inI (ids : list Z) (x : Z) : bool := existsb (Z.eqb x) ids.

Fixpoint nodup_b (l : list Z) : bool :=
  match l with [] => true | x :: tl => negb (existsb (Z.eqb x) tl) && nodup_b tl end.
Definition path_ok_b (p : path) : bool := nodup_b (p_nodes p) && nodup_b (p_ids p).

(* no new traffic for the ids of the path: nothing from outside the modelled nodes names them, the
   application does not send on them, nothing arrives for them at an exit from outside, and they are not
   handed out again as fresh ids (a 2^-32 event in the code) *)
Definition quiet_label (ids : list Z) (l : nlabel) : bool :=
  match l with
  | NLocal _ (ERecvCell _ cid _ _ _ _ _) => negb (inI ids cid)
  | NLocal _ (ESendData _ cid _) => negb (inI ids cid)
  | NLocal _ (EOutside cid _ _ _) => negb (inI ids cid)
  | NLocal _ (ECreateCircuit cid _ _ _) => negb (inI ids cid)
  | NLocal _ (ERun _ _ _ to_cid _ _ _) => negb (inI ids to_cid)
  | _ => true
  end.

(* a dead link: cells that carry one of these ids are never delivered any more (a cut link, the links of a
   node that is isolated) *)
Definition step_alive (dead : list Z) (w : net) (tl : Z * nlabel) : bool :=
  match snd tl with
  | NDeliver i _ _ _ _ _ =>
      match nth_error (flight w) i with
      | Some (FCell _ _ cid _ _ _) => negb (inI dead cid)
      | _ => true
      end
  | _ => true
  end.

Definition step_ok (st : settings) (D : Z) (ids dead : list Z) (w : net) (tl : Z * nlabel) : bool :=
  step_timely st w tl && step_within D w tl && step_typed w tl && quiet_label ids (snd tl)
  && step_alive dead w tl.

Fixpoint nrun_ok (st : settings) (D : Z) (ids dead : list Z) (w : net) (tr : list (Z * nlabel)) : bool :=
  match tr with
  | [] => true
  | tl :: rest => step_ok st D ids dead w tl && nrun_ok st D ids dead (nstep st w tl) rest
  end.

(* timeliness alone (histories before the quiet point) *)
Fixpoint nrun_timely (st : settings) (w : net) (tr : list (Z * nlabel)) : bool :=
  match tr with
  | [] => true
  | tl :: rest => step_timely st w tl && nrun_timely st (nstep st w tl) rest
  end.

(* ---------------------------------------------------------------- the quiet point *)
(* The situation at time tq from which the theorem starts.  Entries that name ids of the path sit where
   the path says (each one on its own: any subset of them may already be missing); the handshake is over
   (no create / extend under way for these ids); every cell in flight for these ids travels on a link of
   the path and was sent by tq.  And the circuit is dead at the originator or cut off from its far end:
     j = 0: the circuit entry at the originator is closing (torn down there; the removal task sleeps) or
            the originator is gone;
     j > 0: the path is broken at position j - node j holds neither an exit socket for the link that
            leads to it nor the route that carries cells from below back up that link (it dropped them, or
            it is gone), or else that link is dead (its id is in `dead`: nothing is delivered on it any
            more); no node above it answers pings in its place - and what was still travelling
            upwards above the break reaches the originator by L = tq - (max_time_inactive + sweep +
            remove_tunnel_delay); the originator's circuit entry may then still be alive, last active
            by L: it goes on pinging until its own inactivity sweep, which comes by tq. *)
Section Shape.
Variable st : settings.
Variable D : Z.
Variable p : path.
Variable tq : Z.
Variable j : nat.
Variable dead : list Z.

Let ids := p_ids p.
Let h := p_len p.
Definition cutj : bool := (1 <=? j)%nat && inI dead (idk p j).
Definition L_of : Z := tq - (s_max_inactive st + s_sweep st + s_remove_delay st).

Definition circ_shape_b (n : Z) (s : node) (kc : Z * circuit) : bool :=
  let '(x, c) := kc in
  negb (inI ids x)
  || ((n =? nd p 0) && (x =? idk p 1)
      && ((c_closing c
           && existsb (fun w => match w with
                                | (due, KCirc, y) => (y =? x) && (due <=? tq + s_remove_delay st)
                                | _ => false
                                end) (sleeping s))
          || (negb (c_closing c) && (1 <=? j)%nat && (c_goal c <=? c_hops c) && (c_first c =? nd p 1)
              && (la (c_ro c) <=? L_of)))).

Definition route_b (n x nxt peer : Z) (k : nat) : bool :=
  (n =? nd p k)
  && (((x =? idk p k) && (nxt =? idk p (S k)) && (peer =? nd p (S k)))
      || ((x =? idk p (S k)) && (nxt =? idk p k) && (peer =? nd p (pred k)) && (negb (k =? j)%nat || cutj))).

Definition relay_shape_b (n : Z) (kr : Z * relay) : bool :=
  let '(x, r) := kr in
  if inI ids x then
    existsb (route_b n x (r_next r) (r_peer r)) (seq 1 (pred h)) && (la (r_ro r) <=? tq)
  else negb (inI ids (r_next r)).

Definition exit_shape_b (n : Z) (ke : Z * exitsock) : bool :=
  let '(x, e) := ke in
  negb (inI ids x)
  || ((existsb (fun k => (n =? nd p k) && (x =? idk p k)) (seq (S j) (h - j))
       || (cutj && (n =? nd p j) && (x =? idk p j))) && (la (e_ro e) <=? tq)).

Definition create_shape_b (kc : Z * createc) : bool :=
  negb (inI ids (cc_from (snd kc))) && negb (inI ids (cc_to (snd kc))).

Definition retry_shape_b (kr : Z * retry) : bool := negb (inI ids (fst kr)).

Definition start_shape_b (s : node) (d : deferred) : bool :=
  match d with
  | DCreate _ x _ | DExtend _ x _ | DRetry x _ _ => negb (inI ids x)
  | DOpen x => negb (inI ids x) || ((now s <=? tq) && ahas x (exits s))
  | DRemove _ _ _ _ => true
  end.

Definition node_shape_b (kn : Z * node) : bool :=
  let '(n, s) := kn in
  forallb (circ_shape_b n s) (circuits s) && forallb (relay_shape_b n) (relays s)
  && forallb (exit_shape_b n) (exits s) && forallb create_shape_b (creates s)
  && forallb retry_shape_b (retries s) && forallb (start_shape_b s) (starts s).

Definition kind_down_b (mid : Z) : bool := negb (existsb (Z.eqb mid) [0; MSG_CREATE; MSG_EXTEND]).
Definition kind_up_b (mid : Z) : bool := negb (existsb (Z.eqb mid) [0; MSG_CREATE; MSG_EXTEND; MSG_PING]).

Definition link_b (src dst cid mid sent : Z) (k : nat) : bool :=
  (cid =? idk p k)
  && (((src =? nd p (pred k)) && (dst =? nd p k) && kind_down_b mid)
      || ((src =? nd p k) && (dst =? nd p (pred k)) && kind_up_b mid
          && ((j <? k)%nat || (sent + Z.of_nat k * D <=? L_of) || (cutj && (k =? j)%nat)))).

Definition msg_shape_b (m : msg) : bool :=
  match m with
  | FCell src dst cid _ mid sent =>
      negb (inI ids cid) || ((sent <=? tq) && existsb (link_b src dst cid mid sent) (seq 1 h))
  | FDestroy _ _ _ _ _ => true
  end.

Definition quiet_shape_b (w : net) : bool :=
  path_ok_b p && (j <=? h)%nat && forallb node_shape_b (nodes w) && forallb msg_shape_b (flight w).

End Shape.

(* the bound: 2 * hops message life-times for the traffic still travelling to drain (down to the far end,
   the answer back up), then the per-entry bound of C09 *)
Definition B_path (st : settings) (D : Z) (hops : nat) : Z :=
  2 * Z.of_nat hops * D + (s_max_inactive st + s_sweep st + s_remove_delay st).

(* every node's event loop has been served up to time T *)
Definition all_on_time (st : settings) (w : net) (T : Z) : bool :=
  forallb (fun kn => on_time st (snd kn) T) (nodes w).

Definition holds_any (s : node) (ids : list Z) : bool :=
  existsb (fun x => ahas x (circuits s) || ahas x (relays s) || ahas x (exits s)) ids.
Definition net_holds (w : net) (ids : list Z) : bool :=
  existsb (fun kn => holds_any (snd kn) ids) (nodes w).

(* ---------------------------------------------------------------- replay of observed histories *)
(* tools/checks/c09_path.py: an observed network history is a list of (time, label, what the acting node
   did according to the implementation).  Codes: 0 = ok; 1 = outputs differ; 3 = event loop late;
   4 = the delivered message is not the one the implementation delivered. *)
Definition expect := (Z * Z * bool)%type.      (* (source, circuit id, relay_early) of a delivered message *)

Definition expect_ok (w : net) (l : nlabel) (x : option expect) : bool :=
  match l, x with
  | NDeliver i _ _ _ _ _, Some (src, cid, early) =>
      match nth_error (flight w) i with
      | Some (FCell s _ c e _ _) => (s =? src) && (c =? cid) && Bool.eqb e early
      | Some (FDestroy s _ c _ _) => (s =? src) && (c =? cid)
      | None => false
      end
  | _, _ => true
  end.

Definition out_of_label (st : settings) (w : net) (tl : Z * nlabel) : list out :=
  let ev_at := fun n e => match aget n (nodes w) with
                          | Some s => snd (step st s (fst tl, e))
                          | None => []
                          end in
  match snd tl with
  | NDrop _ => []
  | NLocal n e => ev_at n e
  | NDeliver i _ plain len cr ls =>
      match nth_error (flight w) i with
      | Some (FCell src dst cid early _ _) => ev_at dst (ERecvCell src cid plain early len cr ls)
      | Some (FDestroy src dst cid reason _) => ev_at dst (ERecvDestroy src cid reason)
      | None => []
      end
  end.

Definition nobs := (Z * nlabel * option expect * list out)%type.

Fixpoint nreplay (st : settings) (w : net) (obs : list nobs) (k : Z) : Z * net :=
  match obs with
  | [] => (0, w)
  | (t, l, x, o) :: rest =>
      if negb (step_timely st w (t, l)) then (3000 + k, w)
      else if negb (expect_ok w l x) then (4000 + k, w)
      else if negb (list_eqb out_eqb (out_of_label st w (t, l)) o) then (1000 + k, w)
      else nreplay st (nstep st w (t, l)) rest (k + 1)
  end.

(* comparison of the tables of a node with what the implementation holds (times of the last event are not
   compared: the implementation also runs events the model does not have) *)
Definition tables_eqb (a b : node) : bool :=
  alist_eqb circuit_eqb (circuits a) (circuits b) && alist_eqb relay_eqb (relays a) (relays b)
  && alist_eqb exit_eqb (exits a) (exits b) && alist_eqb retry_eqb (retries a) (retries b)
  && alist_eqb Z.eqb (createds a) (createds b) && alist_eqb createc_eqb (creates a) (creates b)
  && list_eqb deferred_eqb (starts a) (starts b) && list_eqb sleep_eqb (sleeping a) (sleeping b).

Definition net_tables_eqb (w : net) (expected : list (Z * node)) : bool :=
  forallb (fun kn => match aget (fst kn) (nodes w) with
                     | Some s => tables_eqb s (snd kn)
                     | None => false
                     end) expected.

Definition labels_of (obs : list nobs) : list (Z * nlabel) := map (fun o => (fst (fst (fst o)), snd (fst (fst o)))) obs.

(* One observed scenario: the history up to the quiet point, the state the implementation was in there, the
   history after it, and the state at the deadline.  Result 0 = the model followed the implementation, the
   hypotheses of the path theorem hold on the observed history, and so does its conclusion.
   10 = tables differ at the quiet point; 11 = the quiet-point shape does not hold; 12 = a step after the
   quiet point breaks an assumption; 13 = tables differ at the deadline; 14 = a node was not served up to
   the deadline; 15 = the deadline is not beyond the bound (harness error); 16 = an entry is left. *)
Record ncase := mkNCase {
  nc_settings : settings; nc_names : list Z; nc_path : path; nc_tq : Z; nc_j : nat; nc_dead : list Z; nc_D : Z; nc_T : Z;
  nc_before : list nobs; nc_mid : list (Z * node); nc_after : list nobs; nc_end : list (Z * node)
}.

Definition run_ncase (c : ncase) : Z :=
  let st := nc_settings c in
  let ids := p_ids (nc_path c) in
  let '(code, wq) := nreplay st (init_net (nc_names c) 0) (nc_before c) 1 in
  if negb (code =? 0) then code
  else if negb (net_tables_eqb wq (nc_mid c)) then 10
  else if negb (quiet_shape_b st (nc_D c) (nc_path c) (nc_tq c) (nc_j c) (nc_dead c) wq) then 11
  else
    let '(code2, wT) := nreplay st wq (nc_after c) 1 in
    if negb (code2 =? 0) then code2 + 500000
    else if negb (nrun_ok st (nc_D c) ids (nc_dead c) wq (labels_of (nc_after c))) then 12
    else if negb (net_tables_eqb wT (nc_end c)) then 13
    else if negb (all_on_time st wT (nc_T c)) then 14
    else if negb (nc_tq c + B_path st (nc_D c) (p_len (nc_path c)) <? nc_T c) then 15
    else if net_holds wT ids then 16
    else 0.

(* ================================================================ circuits under construction *)
(* While a circuit is being built its ids are not a fixed path: the originator retries the first create
   with other candidates under the same id, a node asked to extend allocates a fresh id for every attempt,
   and every node that accepted a create holds an exit socket for it.  The ids that hang off one circuit
   form a tree, recorded per id: its level (1 = the originator's own id), the node at its upper end (which
   allocated it and sends downwards on it), the id that this node held when it allocated it (none for
   level 1), and the nodes at its lower end (the candidates it was offered to).  The family of a run is a
   ghost: it is computed from the observed history (tools/checks/c09_path.py) or given with the trace, and
   the theorem holds for every family that passes the checks below. *)
Record finfo := mkF { f_lvl : nat; f_par : Z; f_from : option Z; f_tgts : list Z }.
Definition family := list (Z * finfo).

Definition inl (n : Z) (l : list Z) : bool := existsb (Z.eqb n) l.
Definition inF (F : family) (x : Z) : bool := ahas x F.
Definition optz_is (o : option Z) (z : Z) : bool := match o with Some y => y =? z | None => false end.

Section Build.
Variable st : settings.
Variable D : Z.
Variable F : family.
Variable O : Z.          (* the originator *)
Variable x0 : Z.         (* the id of its circuit *)
Variable h : nat.        (* the depth of the family: the number of hops the circuit is to have *)
Variable tq : Z.         (* by tq the originator has stopped: see the alive clause of bcirc_shape_b *)

Definition finfo_ok_b (xi : Z * finfo) : bool :=
  let i := snd xi in
  (1 <=? f_lvl i)%nat && (f_lvl i <=? h)%nat && negb (inl (f_par i) (f_tgts i))
  && match f_from i with
     | None => (f_lvl i =? 1)%nat
     | Some z => match aget z F with
                 | Some iz => (f_lvl i =? S (f_lvl iz))%nat && inl (f_par i) (f_tgts iz)
                 | None => false
                 end
     end.

Definition fam_ok_b : bool :=
  forallb finfo_ok_b F && nodup_b (map fst F)
  && match aget x0 F with
     | Some i0 => (f_lvl i0 =? 1)%nat && (f_par i0 =? O) && match f_from i0 with None => true | Some _ => false end
     | None => false
     end.

Definition tgts0 : list Z := match aget x0 F with Some i0 => f_tgts i0 | None => [] end.

(* the originator's entry: closing (the removal task sleeps), or still building - not ready - and created
   early enough that the retry budget of the code runs out by tq *)
Definition bcirc_shape_b (n : Z) (s : node) (kc : Z * circuit) : bool :=
  let '(x, c) := kc in
  negb (inF F x)
  || ((n =? O) && (x =? x0) && inl (c_first c) tgts0 && (0 <=? c_hops c)
      && (negb (c_hops c =? 0) || match c_unver c with Some u => inl u tgts0 | None => true end)
      && ((c_closing c
           && existsb (fun w => match w with
                                | (due, KCirc, y) => (y =? x) && (due <=? tq + s_remove_delay st)
                                | _ => false
                                end) (sleeping s))
          || (negb (c_closing c) && (c_hops c <? c_goal c)
              && (creation (c_ro c) + build_bound st (c_goal c) + s_remove_delay st <=? tq)))).

Definition fw_b (n x : Z) (ix : finfo) (r : relay) : bool :=
  inl n (f_tgts ix)
  && match aget (r_next r) F with
     | Some iy => (f_par iy =? n) && optz_is (f_from iy) x && inl (r_peer r) (f_tgts iy)
     | None => false
     end.
Definition bw_b (n : Z) (ix : finfo) (r : relay) : bool :=
  (n =? f_par ix)
  && match f_from ix with
     | Some z => (r_next r =? z) && match aget z F with Some iz => r_peer r =? f_par iz | None => false end
     | None => false
     end.

Definition brelay_shape_b (n : Z) (kr : Z * relay) : bool :=
  let '(x, r) := kr in
  match aget x F with
  | Some ix => (la (r_ro r) <=? tq) && (fw_b n x ix r || bw_b n ix r)
  | None => negb (inF F (r_next r))
  end.

Definition bexit_shape_b (n : Z) (ke : Z * exitsock) : bool :=
  let '(x, e) := ke in
  match aget x F with
  | Some ix => inl n (f_tgts ix) && (e_peer e =? f_par ix) && (la (e_ro e) <=? tq)
  | None => true
  end.

Definition bcreated_shape_b (n : Z) (kd : Z * Z) : bool :=
  match aget (fst kd) F with Some ix => inl n (f_tgts ix) | None => true end.

Definition cache_b (n : Z) (cc : createc) : bool :=
  match aget (cc_to cc) F, aget (cc_from cc) F with
  | Some iy, Some iz =>
      (f_par iy =? n) && optz_is (f_from iy) (cc_from cc) && inl (cc_to_peer cc) (f_tgts iy)
      && (cc_peer cc =? f_par iz)
  | None, None => true
  | _, _ => false
  end.
Definition bcreate_shape_b (n : Z) (kc : Z * createc) : bool := cache_b n (snd kc).

Definition bretry_shape_b (n : Z) (kr : Z * retry) : bool :=
  negb (inF F (fst kr)) || ((n =? O) && (fst kr =? x0)).

Definition bstart_shape_b (n : Z) (s : node) (d : deferred) : bool :=
  match d with
  | DCreate src x _ =>
      match aget x F with Some ix => inl n (f_tgts ix) && (src =? f_par ix) && (now s <=? tq) | None => true end
  | DExtend _ x _ =>
      match aget x F with Some ix => inl n (f_tgts ix) && (now s <=? tq) | None => true end
  | DRetry x _ _ => negb (inF F x) || ((n =? O) && (x =? x0) && (now s <=? tq))
  | DOpen x => negb (inF F x) || (now s <=? tq)
  | DRemove _ _ _ _ => true
  end.

Definition bnode_shape_b (kn : Z * node) : bool :=
  let '(n, s) := kn in
  forallb (bcirc_shape_b n s) (circuits s) && forallb (brelay_shape_b n) (relays s)
  && forallb (bexit_shape_b n) (exits s) && forallb (bcreated_shape_b n) (createds s)
  && forallb (bcreate_shape_b n) (creates s) && forallb (bretry_shape_b n) (retries s)
  && forallb (bstart_shape_b n s) (starts s).

(* kinds: created / extended only travel upwards, create / extend (and pings) only downwards *)
Definition kind_dn_b (mid : Z) : bool := negb (existsb (Z.eqb mid) [0; MSG_CREATED; MSG_EXTENDED]).
Definition kind_upw_b (mid : Z) : bool := negb (existsb (Z.eqb mid) [0; MSG_CREATE; MSG_EXTEND; MSG_PING]).

Definition bmsg_shape_b (m : msg) : bool :=
  match m with
  | FCell src dst x _ mid sent =>
      match aget x F with
      | Some ix =>
          (sent <=? tq)
          && (((src =? f_par ix) && inl dst (f_tgts ix) && kind_dn_b mid)
              || ((dst =? f_par ix) && inl src (f_tgts ix) && kind_upw_b mid))
      | None => true
      end
  | FDestroy _ _ _ _ _ => true
  end.

Definition build_shape_b (w : net) : bool :=
  fam_ok_b && forallb bnode_shape_b (nodes w) && forallb bmsg_shape_b (flight w).

(* ------------------------------------------------- assumptions on one step of a building run *)
(* the event a label stands for at its node, with the node's state *)
Definition label_event (w : net) (l : nlabel) : option (Z * node * ev) :=
  match l with
  | NDrop _ => None
  | NLocal n e => match aget n (nodes w) with Some s => Some (n, s, e) | None => None end
  | NDeliver i _ plain len cr ls =>
      match nth_error (flight w) i with
      | Some (FCell src dst cid early _ _) =>
          match aget dst (nodes w) with
          | Some s => Some (dst, s, ERecvCell src cid plain early len cr ls)
          | None => None
          end
      | Some (FDestroy src dst cid reason _) =>
          match aget dst (nodes w) with Some s => Some (dst, s, ERecvDestroy src cid reason) | None => None end
      | None => None
      end
  end.

(* a created answers the create it was sent for: the request cache it finds was opened for its circuit id *)
Definition ident_ok_b (s : node) (e : ev) : bool :=
  match e with
  | ERecvCell _ cid _ _ _ (COk (MCreated ident _ _)) _ =>
      match aget ident (creates s) with Some cc => cc_to cc =? cid | None => true end
  | _ => true
  end.

Definition pick_in_tgts (p : pick) : bool :=
  match p_next p with Some nxt => inl nxt tgts0 | None => true end.

(* no traffic for the family from outside the modelled nodes or from the application; the circuit is created
   by its originator only, early enough; ids of the family are allocated where the family says (a fresh id per
   extend, never an id of the family for another circuit); the body of on_extend runs while the exit socket
   it extends is still there *)
Definition bquiet_b (t : Z) (local : bool) (n : Z) (s : node) (e : ev) : bool :=
  match e with
  | ERecvCell _ cid _ _ _ _ _ => negb local || negb (inF F cid)
  | ESendData _ cid _ => negb (inF F cid)
  | EOutside cid _ _ _ => negb (inF F cid)
  | ECreateCircuit cid goal p _ =>
      negb (inF F cid)
      || ((n =? O) && (cid =? x0) && pick_in_tgts p && (t <=? tq) && (0 <? goal)
          && (t + build_bound st goal + s_remove_delay st <=? tq))
  | ERun i eo target to_cid _ p _ =>
      match nth_error (starts s) i with
      | Some (DExtend _ x _) =>
          match aget x F with
          | Some _ =>
              negb eo
              || ahas x (exits s)
              && match aget to_cid F with
                 | Some iy => (f_par iy =? n) && optz_is (f_from iy) x && inl target (f_tgts iy)
                 | None => false
                 end
          | None => negb (inF F to_cid)
          end
      | Some (DRetry x _ _) =>
          negb (inF F x)
          || match aget x (circuits s) with
             | Some c => negb (c_hops c =? 0) || pick_in_tgts p
             | None => true
             end
      | _ => true
      end
  | _ => true
  end.

Definition is_local (l : nlabel) : bool := match l with NLocal _ _ => true | _ => false end.

Definition step_events_ok (w : net) (tl : Z * nlabel) : bool :=
  match label_event w (snd tl) with
  | Some (n, s, e) => ident_ok_b s e && bquiet_b (fst tl) (is_local (snd tl)) n s e
  | None => true
  end.

(* the circuit does not become ready: after the step the originator's entry is closing, gone, or still short
   of its goal (a circuit that does become ready is the business of the other theorem) *)
Definition unready_b (w : net) : bool :=
  match aget O (nodes w) with
  | Some s => match aget x0 (circuits s) with
              | Some c => c_closing c || (c_hops c <? c_goal c)
              | None => true
              end
  | None => true
  end.

Definition bstep_ok (w : net) (tl : Z * nlabel) : bool :=
  step_timely st w tl && step_within D w tl && step_typed w tl && step_events_ok w tl
  && unready_b (nstep st w tl).

Fixpoint brun_ok (w : net) (tr : list (Z * nlabel)) : bool :=
  match tr with
  | [] => true
  | tl :: rest => bstep_ok w tl && brun_ok (nstep st w tl) rest
  end.

End Build.

(* the bound, counted from the creation of the circuit: the retry budget of the code (next_hop_timeout *
   (circuit_timeout / next_hop_timeout + hops - 1)), the removal delay, then the path bound *)
Definition B_build (st : settings) (D : Z) (goal : Z) (hops : nat) : Z :=
  build_bound st goal + s_remove_delay st + B_path st D hops.

(* replay of an observed building scenario: 0 = the model followed the implementation, the hypotheses of the
   building theorem hold on the observed history and so does its conclusion (codes as run_ncase; 11 = the family
   shape does not hold at the start, 12 = a step breaks an assumption) *)
Record bcase := mkBCase {
  bc_settings : settings; bc_names : list Z; bc_family : family; bc_origin : Z; bc_id : Z; bc_depth : nat;
  bc_tq : Z; bc_D : Z; bc_T : Z;
  bc_before : list nobs; bc_mid : list (Z * node); bc_after : list nobs; bc_end : list (Z * node)
}.

Definition run_bcase (c : bcase) : Z :=
  let st := bc_settings c in
  let ids := map fst (bc_family c) in
  let '(code, wq) := nreplay st (init_net (bc_names c) 0) (bc_before c) 1 in
  if negb (code =? 0) then code
  else if negb (net_tables_eqb wq (bc_mid c)) then 10
  else if negb (build_shape_b st (bc_family c) (bc_origin c) (bc_id c) (bc_depth c) (bc_tq c) wq) then 11
  else
    let '(code2, wT) := nreplay st wq (bc_after c) 1 in
    if negb (code2 =? 0) then code2 + 500000
    else if negb (brun_ok st (bc_D c) (bc_family c) (bc_origin c) (bc_id c) (bc_tq c) wq (labels_of (bc_after c))) then 12
    else if negb (net_tables_eqb wT (bc_end c)) then 13
    else if negb (all_on_time st wT (bc_T c)) then 14
    else if negb (bc_tq c + B_path st (bc_D c) (bc_depth c) <? bc_T c) then 15
    else if net_holds wT ids then 16
    else 0.
