(* Emission path of an exit node: on_data (exit branch) -> exit_data -> TunnelExitSocket.sendto ->
   transport, and outside datagram -> datagram_received -> tunnel_data -> send_data.
   The classifier and gate come from the generated file. No proofs here. *)
From Coq Require Import ZArith List Bool.
From IPV8V Require Import lib.PyErr lib.Bytes lib.BE gen.G06_datachecker.
Import ListNotations.
Open Scope Z_scope.

(* addresses are abstracted to an ip identifier and a port; DNull is ("0.0.0.0", 0) *)
Inductive dest := DNull | DV4 (ip port : Z) | DV6 (ip port : Z) | DDomain (name port : Z).

Definition dest_eqb (a b : dest) : bool :=
  match a, b with
  | DNull, DNull => true
  | DV4 i p, DV4 j q | DV6 i p, DV6 j q | DDomain i p, DDomain j q => (i =? j) && (p =? q)
  | _, _ => false
  end.

Record sock := mkSock {
  enabled : bool;
  opened : bool;                       (* transports exist (create_transports has run) *)
  queue : list (bytes * dest);         (* deque(maxlen) : oldest first *)
  pending : list bytes;                (* data waiting for a DNS answer *)
  bytes_up : Z;
  bytes_down : Z
}.

Definition init_sock : sock := mkSock false false [] [] 0 0.

Inductive op :=
| ExitData (known : bool) (src_ip : Z) (d : dest) (data : bytes)
    (* TunnelCommunity.on_data reached its exit branch; known = circuit id has an exit socket *)
| TransportsCreated                    (* the create_transports task gets to run *)
| Resolved (i : nat) (ok : bool) (d : dest)   (* i-th pending resolution completes *)
| Outside (v6 : bool) (mapped : bool) (src : dest) (data : bytes).   (* datagram from outside *)

Inductive out :=
| Sendto (data : bytes) (d : dest)     (* transport.sendto *)
| SendData (src : dest) (data : bytes) (* overlay.send_data(hop.address, circuit_id, null, src, data) *).

Section Exit.
Variable flags : list Z.
Variable prefix : bytes.
Variable prev_ip : Z.

Definition allowed (data : bytes) : bool :=
  match is_allowed flags prefix data with Ok b => b | Raise _ => false end.

Definition q_append (q : list (bytes * dest)) (x : bytes * dest) : list (bytes * dest) :=
  if Z.of_nat (length q) <? EXIT_QUEUE_MAXLEN then q ++ [x] else tl q ++ [x].

(* TunnelExitSocket.sendto *)
Definition sendto (s : sock) (data : bytes) (d : dest) : sock * list out :=
  if negb (allowed data) then (s, [])
  else match d with
       | DDomain _ _ =>
           (mkSock (enabled s) (opened s) (queue s) (pending s ++ [data]) (bytes_up s) (bytes_down s), [])
       | _ =>
           if negb (opened s) then
             (mkSock (enabled s) (opened s) (q_append (queue s) (data, d)) (pending s)
                     (bytes_up s) (bytes_down s), [])
           else
             (mkSock (enabled s) (opened s) (queue s) (pending s) (bytes_up s + blen data) (bytes_down s),
              [Sendto data d])
       end.

Fixpoint drain (s : sock) (q : list (bytes * dest)) : sock * list out :=
  match q with
  | [] => (s, [])
  | (data, d) :: tl =>
      let '(s1, o1) := sendto s data d in
      let '(s2, o2) := drain s1 tl in (s2, o1 ++ o2)
  end.

Fixpoint remove_nth {A} (i : nat) (l : list A) : list A :=
  match i, l with
  | _, [] => []
  | O, _ :: tl => tl
  | S j, x :: tl => x :: remove_nth j tl
  end.

Definition is_null (d : dest) : bool := match d with DNull => true | _ => false end.

Definition step (s : sock) (o : op) : sock * list out :=
  match o with
  | ExitData known src_ip d data =>
      (* on_data: destination != ("0.0.0.0", 0); exit_data: socket known, enable only from prev hop *)
      if is_null d then (s, [])
      else if negb known then (s, [])
      else if enabled s then sendto s data d
      else if src_ip =? prev_ip then
        sendto (mkSock true (opened s) (queue s) (pending s) (bytes_up s) (bytes_down s)) data d
      else (s, [])
  | TransportsCreated =>
      if enabled s && negb (opened s) then
        drain (mkSock true true [] (pending s) (bytes_up s) (bytes_down s)) (queue s)
      else (s, [])
  | Resolved i ok d =>
      match nth_error (pending s) i with
      | None => (s, [])
      | Some data =>
          let s' := mkSock (enabled s) (opened s) (queue s) (remove_nth i (pending s))
                           (bytes_up s) (bytes_down s) in
          if ok then sendto s' data d else (s', [])
      end
  | Outside v6 mapped src data =>
      if negb (opened s) then (s, [])       (* no transport, nothing can arrive *)
      else if v6 && mapped then (s, [])     (* ::ffff: mapped addresses are ignored on the v6 socket *)
      else
        let s' := mkSock (enabled s) (opened s) (queue s) (pending s) (bytes_up s)
                         (bytes_down s + blen data) in
        if allowed data then (s', [SendData src data]) else (s', [])
  end.

Fixpoint run (s : sock) (ops : list op) : sock * list out :=
  match ops with
  | [] => (s, [])
  | o :: tl => let '(s1, o1) := step s o in let '(s2, o2) := run s1 tl in (s2, o1 ++ o2)
  end.

End Exit.

(* ---- executable interface for the correspondence check ---- *)
Definition out_eqb (a b : out) : bool :=
  match a, b with
  | Sendto x d, Sendto y e => bytes_eqb x y && dest_eqb d e
  | SendData s x, SendData t y => dest_eqb s t && bytes_eqb x y
  | _, _ => false
  end.

Fixpoint list_eqb {A} (eqb : A -> A -> bool) (a b : list A) : bool :=
  match a, b with
  | [], [] => true
  | x :: a', y :: b' => eqb x y && list_eqb eqb a' b'
  | _, _ => false
  end.

(* observation of a finished history: outputs, enabled, opened, |queue|, |pending|, up, down *)
Definition obs := (list out * (bool * bool * Z * Z * Z * Z))%type.
Definition observe (r : sock * list out) : obs :=
  let s := fst r in
  (snd r, (enabled s, opened s, Z.of_nat (length (queue s)), Z.of_nat (length (pending s)),
           bytes_up s, bytes_down s)).
Definition obs_eqb (a b : obs) : bool :=
  let '(oa, (ea, pa, qa, na, ua, da)) := a in
  let '(ob, (eb, pb, qb, nb, ub, db)) := b in
  list_eqb out_eqb oa ob && Bool.eqb ea eb && Bool.eqb pa pb && (qa =? qb) && (na =? nb)
  && (ua =? ub) && (da =? db).

Definition hist_case := (list Z * bytes * Z * list op)%type.
Definition run_hist (c : hist_case) : obs :=
  let '(flags, prefix, prev, ops) := c in observe (run flags prefix prev init_sock ops).

(* single classifier evaluations: which function, flags, prefix, data *)
Definition cls_case := (nat * list Z * bytes * bytes)%type.
Definition run_cls (c : cls_case) : res bool :=
  let '(f, flags, prefix, data) := c in
  match f with
  | 0%nat => could_be_utp data
  | 1%nat => could_be_udp_tracker data
  | 2%nat => could_be_dht data
  | 3%nat => could_be_bt data
  | 4%nat => could_be_ipv8 data
  | _ => is_allowed flags prefix data
  end.

(* exhaustive sweep of two adjacent bytes: per value of the first byte one number whose base-4
   digits (0 false, 1 true, 2 raised) are the results for the 256 values of the second byte,
   first value most significant *)
Definition digit (r : res bool) : Z := match r with Ok false => 0 | Ok true => 1 | Raise _ => 2 end.
Definition sweep_row (f : bytes -> res bool) (pre post : bytes) (b0 : nat) : Z :=
  fold_left (fun acc b1 => acc * 4 + digit (f (pre ++ [Z.of_nat b0; Z.of_nat b1] ++ post)))
            (seq 0 256) 0.
Definition sweep2 (f : bytes -> res bool) (pre post : bytes) : list Z :=
  map (sweep_row f pre post) (seq 0 256).
Definition sweep_case := (nat * list Z * bytes * bytes * bytes)%type.
Definition run_sweep (c : sweep_case) : list Z :=
  let '(f, flags, prefix, pre, post) := c in
  sweep2 (fun d => run_cls (f, flags, prefix, d)) pre post.
