(* Executable model of ipv8/taskmanager.py: _pending_tasks, _shutdown, _counter, register_task,
   register_anonymous_task, cancel_pending_task, cancel_all_pending_tasks, replace_task (cancel + done
   callback), is_pending_task_active, shutdown_task_manager, and of the part of asyncio they rely on:
   the FIFO queue of ready handles (call_soon), Task first step, Task/Future cancellation and the
   scheduling of done callbacks.  One `Tick` is one iteration of the event loop: it runs the handles
   that were ready when the iteration began, in order; handles they schedule run in the next one.
   No proofs here.

   A task is a coroutine task (register_task(name, coroutine_function), @task, interval/delay
   runners) or a bare Future (register_task(name, future): RequestCache.wait_for, executor tasks).
   What the body of a task does is not part of this machine; the environment decides when a task
   finishes by itself (`Complete`).  The model follows the repaired done callback (it forgets only
   its own task; see corpus/C11). *)
From Coq Require Import ZArith List Bool Arith.
From IPV8V Require Import lib.PyErr.
Import ListNotations.
Open Scope Z_scope.

Inductive name := Named (n : Z) | Anon (base k : Z).     (* basename + " " + str(counter) *)
Definition name_eqb (a b : name) : bool :=
  match a, b with
  | Named x, Named y => x =? y
  | Anon x i, Anon y j => (x =? y) && (i =? j)
  | _, _ => false
  end.

Inductive kind := KCoro | KFut.
Inductive status :=
| SNew      (* coroutine task created, first step scheduled, body not begun *)
| SRun      (* waiting (sleep, gate, I/O); a Future that is not done *)
| SWake     (* its wake-up (result of what it waited for, or CancelledError) is scheduled *)
| SDone.    (* done(): finished or cancelled; permanent *)
Definition is_done (x : status) : bool := match x with SDone => true | _ => false end.

Inductive cb :=
| DoneCb (n : name)          (* register_task's done_cb: forget the task *)
| ReplCb (n : name).         (* replace_task's cancel_cb: register the new task *)

Record task := mkTask {
  t_name : name; t_kind : kind; t_st : status;
  t_creq : bool;             (* cancel() has been called on it *)
  t_cbs : list cb }.         (* done callbacks not yet scheduled *)

Inductive handle :=
| HStart (tid : nat)                     (* Task.__step, first *)
| HFinish (tid : nat)                    (* Task.__wakeup that lets the coroutine end / throws CancelledError *)
| HCb (owner : option nat) (c : cb).     (* a done callback of task `owner` (None: of a fresh succeed(None)) *)

Record tm := mkTM {
  tasks : list task;                     (* every task ever created; position = task id *)
  pending : list (name * nat);           (* _pending_tasks, insertion order *)
  shut : bool;
  counter : Z;
  ready : list handle }.

Definition init_tm : tm := mkTM [] [] false 0 [].

Fixpoint nlookup (n : name) (m : list (name * nat)) : option nat :=
  match m with
  | [] => None
  | (k, v) :: r => if name_eqb k n then Some v else nlookup n r
  end.
Fixpoint nset (n : name) (v : nat) (m : list (name * nat)) : list (name * nat) :=
  match m with
  | [] => [(n, v)]
  | (k, w) :: r => if name_eqb k n then (k, v) :: r else (k, w) :: nset n v r
  end.
Definition ndel (n : name) (m : list (name * nat)) : list (name * nat) :=
  filter (fun e => negb (name_eqb (fst e) n)) m.

Fixpoint upd {A} (l : list A) (i : nat) (f : A -> A) : list A :=
  match l, i with
  | [], _ => []
  | x :: r, O => f x :: r
  | x :: r, S j => x :: upd r j f
  end.

Definition get (s : tm) (tid : nat) : option task := nth_error (tasks s) tid.
Definition st_done (s : tm) (tid : nat) : bool :=
  match get s tid with Some t => is_done (t_st t) | None => false end.

Definition set_tasks s x := mkTM x (pending s) (shut s) (counter s) (ready s).
Definition set_pending s x := mkTM (tasks s) x (shut s) (counter s) (ready s).
Definition set_ready s x := mkTM (tasks s) (pending s) (shut s) (counter s) x.
Definition add_ready s hs := set_ready s (ready s ++ hs).
Definition upd_task s tid f := set_tasks s (upd (tasks s) tid f).

Definition with_st (x : status) (t : task) := mkTask (t_name t) (t_kind t) x (t_creq t) (t_cbs t).
Definition with_creq (t : task) := mkTask (t_name t) (t_kind t) (t_st t) true (t_cbs t).
Definition with_cbs (c : list cb) (t : task) := mkTask (t_name t) (t_kind t) (t_st t) (t_creq t) c.

(* the task becomes done: its callbacks are handed to call_soon *)
Definition finish (s : tm) (tid : nat) : tm :=
  match get s tid with
  | None => s
  | Some t => add_ready (upd_task s tid (fun t => with_cbs [] (with_st SDone t)))
                        (map (HCb (Some tid)) (t_cbs t))
  end.

(* Task.cancel() / Future.cancel() *)
Definition do_cancel (s : tm) (tid : nat) : tm :=
  match get s tid with
  | None => s
  | Some t =>
      match t_st t with
      | SDone => s
      | SNew | SWake => upd_task s tid with_creq
      | SRun =>
          match t_kind t with
          | KCoro => add_ready (upd_task s tid (fun t => with_st SWake (with_creq t))) [HFinish tid]
          | KFut => finish (upd_task s tid with_creq) tid
          end
      end
  end.

(* is_pending_task_active *)
Definition is_active (s : tm) (n : name) : bool :=
  match nlookup n (pending s) with Some tid => negb (st_done s tid) | None => false end.

(* cancel_pending_task: the returned future is task `tid`, or a fresh completed one (None) *)
Definition cancel_pending (s : tm) (n : name) : tm * option nat :=
  match nlookup n (pending s) with
  | None => (s, None)
  | Some tid =>
      if st_done s tid then (s, Some tid)
      else let s1 := do_cancel s tid in (set_pending s1 (ndel n (pending s1)), Some tid)
  end.

Inductive regres := RNew (tid : nat) | RRefused | RRaise.

(* register_task *)
Definition register (s : tm) (n : name) (k : kind) : tm * regres :=
  if shut s then (s, RRefused)
  else if is_active s n then (s, RRaise)
  else let tid := length (tasks s) in
       let t := mkTask n k (match k with KCoro => SNew | KFut => SRun end) false [DoneCb n] in
       (mkTM (tasks s ++ [t]) (nset n tid (pending s)) (shut s) (counter s)
             (ready s ++ match k with KCoro => [HStart tid] | KFut => [] end), RNew tid).

Inductive out :=
| OStarted (tid : nat)                                  (* the body of a coroutine task begins to run *)
| OReg (r : regres)                                     (* result of register_task / register_anonymous_task *)
| ORepl (old : option nat) (old_done : bool) (r : regres).
     (* replace_task's callback ran: it registered the new task; old = the task it waited for,
        old_done = whether that task was done at that moment *)

Definition run_cb (s : tm) (owner : option nat) (c : cb) : tm * list out :=
  match c with
  | DoneCb n =>
      match owner with
      | Some tid =>
          match nlookup n (pending s) with
          | Some cur => if Nat.eqb cur tid then (set_pending s (ndel n (pending s)), []) else (s, [])
          | None => (s, [])
          end
      | None => (s, [])
      end
  | ReplCb n =>
      let '(s', r) := register s n KCoro in
      (s', [ORepl owner (match owner with Some tid => st_done s tid | None => true end) r])
  end.

Definition process (s : tm) (h : handle) : tm * list out :=
  match h with
  | HStart tid =>
      match get s tid with
      | Some t =>
          match t_st t with
          | SNew => if t_creq t then (finish s tid, [])
                    else (upd_task s tid (with_st SRun), [OStarted tid])
          | _ => (s, [])
          end
      | None => (s, [])
      end
  | HFinish tid =>
      match get s tid with
      | Some t => match t_st t with SWake => (finish s tid, []) | _ => (s, []) end
      | None => (s, [])
      end
  | HCb owner c => run_cb s owner c
  end.

Fixpoint process_all (s : tm) (hs : list handle) : tm * list out :=
  match hs with
  | [] => (s, [])
  | h :: r => let '(s1, o1) := process s h in let '(s2, o2) := process_all s1 r in (s2, o1 ++ o2)
  end.

Fixpoint cancel_names (s : tm) (ns : list name) : tm :=
  match ns with [] => s | n :: r => cancel_names (fst (cancel_pending s n)) r end.

Inductive top :=
| Register (n : name) (k : kind)
| RegisterAnon (base : Z) (k : kind)
| Cancel (n : name)                 (* cancel_pending_task *)
| Replace (n : name)                (* replace_task(name, coroutine_function) *)
| Shutdown                          (* shutdown_task_manager, up to its first await *)
| Complete (tid : nat)              (* environment: what the task waits for completes *)
| ExtCancel (tid : nat)             (* environment: somebody cancels the returned future directly *)
| Tick.                             (* one iteration of the event loop *)

Definition tstep (s : tm) (o : top) : tm * list out :=
  match o with
  | Register n k => let '(s', r) := register s n k in (s', [OReg r])
  | RegisterAnon b k =>
      let c := counter s + 1 in
      let s0 := mkTM (tasks s) (pending s) (shut s) c (ready s) in
      let '(s', r) := register s0 (Anon b c) k in (s', [OReg r])
  | Cancel n => (fst (cancel_pending s n), [])
  | Replace n =>
      let '(s1, old) := cancel_pending s n in
      match old with
      | None => (add_ready s1 [HCb None (ReplCb n)], [])
      | Some tid =>
          if st_done s1 tid then (add_ready s1 [HCb (Some tid) (ReplCb n)], [])
          else (upd_task s1 tid (fun t => with_cbs (t_cbs t ++ [ReplCb n]) t), [])
      end
  | Shutdown =>
      if shut s then (s, [])
      else (cancel_names (mkTM (tasks s) (pending s) true (counter s) (ready s)) (map fst (pending s)), [])
  | Complete tid =>
      match get s tid with
      | Some t =>
          match t_st t, t_kind t with
          | SRun, KCoro => (add_ready (upd_task s tid (with_st SWake)) [HFinish tid], [])
          | SRun, KFut => (finish s tid, [])
          | _, _ => (s, [])
          end
      | None => (s, [])
      end
  | ExtCancel tid => (do_cancel s tid, [])
  | Tick => process_all (set_ready s []) (ready s)
  end.

Fixpoint trun (s : tm) (ops : list top) : tm * list out :=
  match ops with
  | [] => (s, [])
  | o :: r => let '(s1, o1) := tstep s o in let '(s2, o2) := trun s1 r in (s2, o1 ++ o2)
  end.

(* a task that may still act: not done and nobody asked it to stop *)
Definition live (t : task) : bool := negb (is_done (t_st t)) && negb (t_creq t).
Definition no_live (s : tm) : bool := forallb (fun t => negb (live t)) (tasks s).

(* ------------------------------------------------------------------ correspondence plumbing *)
(* observation after every operation: outputs of the operation, then for every task (done?, cancel
   requested?), the pending dict, the shutdown flag, the counter *)
Definition tobs := (list out * (list (bool * bool) * list (name * nat) * bool * Z))%type.
Definition observe (s : tm) :=
  (map (fun t => (is_done (t_st t), t_creq t)) (tasks s), pending s, shut s, counter s).
Fixpoint ttrace (s : tm) (ops : list top) : list tobs :=
  match ops with
  | [] => []
  | o :: r => let '(s1, o1) := tstep s o in (o1, observe s1) :: ttrace s1 r
  end.
Definition run_tcase (ops : list top) : list tobs := ttrace init_tm ops.

Definition regres_eqb (a b : regres) : bool :=
  match a, b with
  | RNew x, RNew y => Nat.eqb x y
  | RRefused, RRefused | RRaise, RRaise => true
  | _, _ => false
  end.
Definition optnat_eqb (a b : option nat) : bool :=
  match a, b with Some x, Some y => Nat.eqb x y | None, None => true | _, _ => false end.
Definition out_eqb (a b : out) : bool :=
  match a, b with
  | OStarted x, OStarted y => Nat.eqb x y
  | OReg x, OReg y => regres_eqb x y
  | ORepl o1 d1 r1, ORepl o2 d2 r2 => optnat_eqb o1 o2 && Bool.eqb d1 d2 && regres_eqb r1 r2
  | _, _ => false
  end.
Fixpoint leqb {A} (eqb : A -> A -> bool) (a b : list A) : bool :=
  match a, b with
  | [], [] => true
  | x :: a', y :: b' => eqb x y && leqb eqb a' b'
  | _, _ => false
  end.
Definition tobs_eqb (x y : tobs) : bool :=
  let '(o1, (t1, p1, s1, c1)) := x in
  let '(o2, (t2, p2, s2, c2)) := y in
  leqb out_eqb o1 o2
  && leqb (fun a b => Bool.eqb (fst a) (fst b) && Bool.eqb (snd a) (snd b)) t1 t2
  && leqb (fun a b => name_eqb (fst a) (fst b) && Nat.eqb (snd a) (snd b)) p1 p2
  && Bool.eqb s1 s2 && (c1 =? c2).
Definition tobsl_eqb (x y : list tobs) : bool := leqb tobs_eqb x y.
