(* Running the GENERATED handshake functions (gen/G08_handshake.v) on a correspondence case: the dispatch of
   decode_map_private / RequestCache._on_timeout / create_circuit to the generated definitions, with the runtime
   record built from what the harness observed (oracle values, get_candidates results, candidate flags,
   random.choice).  Events whose code is not translated (remove_circuit task, purge) use the hand model. *)
From Coq Require Import ZArith List Bool.
From IPV8V Require Import lib.PyErr model.M08_handshake model.M08_toy model.M08_rt gen.G08_handshake.
Import ListNotations.
Open Scope Z_scope.

Definition g_timeout (C : crypto) (R : rt) (cid : Z) : M C unit :=
  mbind (rc_get_retry cid) (fun oc => match oc with
                                      | None => mret tt
                                      | Some r => mbind (rc_pop_retry cid) (fun _ => g_retry_on_timeout C R cid r)
                                      end).

Definition g_step (C : crypto) (R : rt) (tc th : Z) (e : @event C) : M C unit :=
  match e with
  | EvNewCircuit _ goal re firsts _ _ => g_create_circuit_tail C R tc th goal re firsts
  | EvMsg src (MCreate cid i k X) _ => g_on_create C R src (mkPCreate cid i k X) tt
  | EvMsg src (MCreated cid i Y au ce) _ => g_on_created C R src (mkAns cid i Y au ce) tt
  | EvMsg src (MExtend cid i k X ad) _ => g_on_extend C R src (mkPExtend cid i k X ad) tt
  | EvMsg src (MExtended cid i Y au ce) _ => g_on_extended C R src (mkAns cid i Y au ce) tt
  | EvTimeout cid _ => g_timeout C R cid
  | _ => mret tt
  end.

Definition with_cid (o : oracle) (cid : Z) : oracle :=
  mkOracle (o_x o) (o_pid o) (o_fallback o) (o_offer o) cid (o_num o) (o_known o).

Definition ev_oracle (e : @event Toy) : oracle :=
  match e with
  | EvNewCircuit cid _ _ _ _ o => with_cid o cid
  | EvMsg _ _ o | EvTimeout _ o => o
  | _ => mkOracle 0 0 None [] 0 0 None
  end.

Definition translated (e : @event Toy) : bool :=
  match e with EvNewCircuit _ _ _ _ _ _ | EvMsg _ _ _ | EvTimeout _ _ => true | _ => false end.

(* observed environment of one handler run: get_candidates(EXIT_BT, RELAY), get_candidates(RELAY), the flags of
   the known candidates, the peer random.choice returned, settings circuit_timeout / next_hop_timeout *)
Record genv := mkGenv { ge_c21 : list peer; ge_c1 : list peer; ge_flags : list (Z * list Z); ge_choice : option peer;
                        ge_tc : Z; ge_th : Z }.

Definition rt_of (g : genv) (o : oracle) : rt :=
  mkRt o
       (fun fl => if zlist_eqb fl [2; 1] then ge_c21 g else if zlist_eqb fl [1] then ge_c1 g else [])
       (fun p => match aget (p_key p) (ge_flags g) with Some f => f | None => [] end)
       (fun l => match ge_choice g with Some p => p | None => match l with p :: _ => p | [] => mkPeer 0 0 end end).

Definition run_case_gen (c : @node Toy * @event Toy * genv) : @out Toy :=
  let '(n, e, g) := c in
  if translated e then run_m (g_step Toy (rt_of g (ev_oracle e)) (ge_tc g) (ge_th g) e) n else step n e.
