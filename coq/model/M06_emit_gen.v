(* Emission path of an exit node, restated ON TOP OF THE GENERATED DECISIONS of gen/G06_exit.v
   (translated on every run from community.py / exit_socket.py by tools/tr/tr_exit.py).

   The generated file gives, per function, the list of effects performed as a function of the condition
   atoms; this file says what the atoms and the effects mean on the state of one exit socket, and strings the
   functions together along the call structure of the code:
     level 0 (no calls)        sendto, enable, tunnel_data
     level 1 (calls level 0)   exit_data, on_address, create_transports (drain loop), datagram_received
     level 2 (calls level 1)   on_data (exit branch), datagram_received_ipv4 / _ipv6
   Same op / out / dest / obs interface as model/M06_emit.v (whose types are reused), so that the same harness
   histories can be evaluated.  IP addresses are TEXT here (lists of code points): the gate of exit_data and the
   mapped-prefix test of datagram_received_ipv6 are evaluated on the strings the code sees.  No proofs here. *)
From Coq Require Import ZArith List Bool.
From IPV8V Require Import lib.PyErr lib.Bytes lib.BE gen.G06_datachecker gen.G06_exit model.M06_emit.
Import ListNotations.
Open Scope Z_scope.

Inductive tstate := TaskNone | TaskRegistered | TaskDone.   (* the "create_transports" task of the socket *)

Record sockx := mkX {
  x_enabled : bool;
  x_task : tstate;
  x_t4 : option cbsel;                 (* transport_ipv4: None, or open and delivering to this callback *)
  x_t6 : option cbsel;
  x_queue : list (bytes * dest);       (* deque(maxlen): oldest first *)
  x_pending : list bytes;              (* data waiting for a DNS answer *)
  x_up : Z;
  x_down : Z;
  x_stuck : bool                       (* an effect occurred in a situation the interpreter has no meaning for *)
}.

Definition init_sockx : sockx := mkX false TaskNone None None [] [] 0 0 false.

(* an emission together with the transport it left through: 4, 6, or 0 for send_data *)
Definition xout := (out * Z)%type.

Record ctx := mkCtx { c_data : bytes; c_dest : dest; c_src : dest }.

Definition is_some {A} (o : option A) : bool := match o with Some _ => true | None => false end.
Definition have (s : sockx) (t : tsel) : bool :=
  match t with T4 => is_some (x_t4 s) | T6 => is_some (x_t6 s) end.
Definition tag (t : tsel) : Z := match t with T4 => 4 | T6 => 6 end.

(* isinstance(destination, ...): the null address ("0.0.0.0", 0) is a UDPv4Address *)
Definition is_domain (d : dest) : bool := match d with DDomain _ _ => true | _ => false end.
Definition is_v6 (d : dest) : bool := match d with DV6 _ _ => true | _ => false end.
Definition is_v4 (d : dest) : bool := match d with DV4 _ _ | DNull => true | _ => false end.

Definition set_stuck (s : sockx) : sockx :=
  mkX (x_enabled s) (x_task s) (x_t4 s) (x_t6 s) (x_queue s) (x_pending s) (x_up s) (x_down s) true.

(* deque(maxlen=n).append on a full deque discards the oldest element *)
Definition qx_append (q : list (bytes * dest)) (x : bytes * dest) : list (bytes * dest) :=
  if Z.of_nat (length q) <? gx_queue_maxlen then q ++ [x] else tl q ++ [x].

Definition q_pop (side : qside) (q : list (bytes * dest)) : option ((bytes * dest) * list (bytes * dest)) :=
  match side with
  | QLeft => match q with [] => None | x :: tl => Some (x, tl) end
  | QRight => match rev q with [] => None | x :: tl => Some (x, rev tl) end
  end.

Section Exit.
Variable flags : list Z.
Variable prefix : bytes.
Variable hop_ip : bytes.               (* text of the previous hop's IP address *)

Notation allowed := (M06_emit.allowed flags prefix).

(* ---- effects without calls ---- *)
Definition leaf (c : ctx) (s : sockx) (e : eff) : sockx * list xout :=
  match e with
  | ESetEnabled =>
      (mkX true (x_task s) (x_t4 s) (x_t6 s) (x_queue s) (x_pending s) (x_up s) (x_down s) (x_stuck s), [])
  | ERegisterCreate =>
      match x_task s with
      | TaskNone => (mkX (x_enabled s) TaskRegistered (x_t4 s) (x_t6 s) (x_queue s) (x_pending s)
                         (x_up s) (x_down s) (x_stuck s), [])
      | _ => (set_stuck s, [])         (* register_task under a name in use *)
      end
  | EOpen T4 cb =>
      (mkX (x_enabled s) (x_task s) (Some cb) (x_t6 s) (x_queue s) (x_pending s) (x_up s) (x_down s) (x_stuck s), [])
  | EOpen T6 cb =>
      (mkX (x_enabled s) (x_task s) (x_t4 s) (Some cb) (x_queue s) (x_pending s) (x_up s) (x_down s) (x_stuck s), [])
  | EStartResolve =>
      (mkX (x_enabled s) (x_task s) (x_t4 s) (x_t6 s) (x_queue s) (x_pending s ++ [c_data c])
           (x_up s) (x_down s) (x_stuck s), [])
  | EOnResolved => (s, [])             (* the translator insists that it directly follows EStartResolve *)
  | EQueueAppend =>
      (mkX (x_enabled s) (x_task s) (x_t4 s) (x_t6 s) (qx_append (x_queue s) (c_data c, c_dest c)) (x_pending s)
           (x_up s) (x_down s) (x_stuck s), [])
  | ETransportSendto t =>
      if have s t then (s, [(Sendto (c_data c) (c_dest c), tag t)])
      else (set_stuck s, [])           (* None.sendto: AttributeError *)
  | EBytesUp =>
      (mkX (x_enabled s) (x_task s) (x_t4 s) (x_t6 s) (x_queue s) (x_pending s) (x_up s + blen (c_data c))
           (x_down s) (x_stuck s), [])
  | EBeatHeart => (s, [])
  | EBytesDown =>
      (mkX (x_enabled s) (x_task s) (x_t4 s) (x_t6 s) (x_queue s) (x_pending s) (x_up s)
           (x_down s + blen (c_data c)) (x_stuck s), [])
  | ESendData => (s, [(SendData (c_src c) (c_data c), 0)])
  | _ => (set_stuck s, [])
  end.

Fixpoint run_effs (h : sockx -> eff -> sockx * list xout) (s : sockx) (effs : list eff) : sockx * list xout :=
  match effs with
  | [] => (s, [])
  | e :: tl => let '(s1, o1) := h s e in let '(s2, o2) := run_effs h s1 tl in (s2, o1 ++ o2)
  end.

(* ---- level 0 ---- *)
Definition do_sendto (c : ctx) (s : sockx) : sockx * list xout :=
  run_effs (leaf c) s
    (gx_sendto (allowed (c_data c)) (is_domain (c_dest c)) (is_v4 (c_dest c)) (is_v6 (c_dest c)) (have s)).
Definition do_enable (c : ctx) (s : sockx) : sockx * list xout := run_effs (leaf c) s (gx_enable (x_enabled s)).
Definition do_tunnel_data (c : ctx) (s : sockx) : sockx * list xout := run_effs (leaf c) s gx_tunnel_data.

(* while self.queue: self.sendto( *self.queue.pop<side>() ).  One iteration per element present at the start
   suffices unless sendto puts elements back (then Python would not terminate: stuck). *)
Fixpoint drain_loop (side : qside) (fuel : nat) (s : sockx) : sockx * list xout :=
  match q_pop side (x_queue s) with
  | None => (s, [])
  | Some ((data, d), q') =>
      match fuel with
      | O => (set_stuck s, [])
      | S f =>
          let s0 := mkX (x_enabled s) (x_task s) (x_t4 s) (x_t6 s) q' (x_pending s) (x_up s) (x_down s) (x_stuck s) in
          let '(s1, o1) := do_sendto (mkCtx data d DNull) s0 in
          let '(s2, o2) := drain_loop side f s1 in (s2, o1 ++ o2)
      end
  end.

(* ---- level 1 ---- *)
Definition lvl1 (c : ctx) (s : sockx) (e : eff) : sockx * list xout :=
  match e with
  | ESendtoCall => do_sendto c s
  | EEnableCall => do_enable c s
  | ETunnelDataCall => do_tunnel_data c s
  | EDrain side => drain_loop side (length (x_queue s)) s
  | _ => leaf c s e
  end.

Definition do_exit_data (known : bool) (src_ip : bytes) (c : ctx) (s : sockx) : sockx * list xout :=
  run_effs (lvl1 c) s (gx_exit_data known (x_enabled s) src_ip hop_ip).
Definition do_on_address (ok : bool) (c : ctx) (s : sockx) : sockx * list xout :=
  run_effs (lvl1 c) s (gx_on_address ok).
Definition do_create (c : ctx) (s : sockx) : sockx * list xout := run_effs (lvl1 c) s gx_create_transports.
Definition do_datagram_received (c : ctx) (s : sockx) : sockx * list xout :=
  run_effs (lvl1 c) s (gx_datagram_received (allowed (c_data c))).

(* ---- level 2 ---- *)
Definition lvl2 (known : bool) (src_ip : bytes) (c : ctx) (s : sockx) (e : eff) : sockx * list xout :=
  match e with
  | EExitDataCall => do_exit_data known src_ip c s
  | EDatagramReceivedCall => do_datagram_received c s
  | _ => lvl1 c s e
  end.

(* operations with textual addresses *)
Inductive opx :=
| XExitData (known : bool) (src_ip : bytes) (d : dest) (data : bytes)
| XTransportsCreated
| XResolved (i : nat) (ok : bool) (d : dest)
| XOutside (v6 : bool) (src_ip : bytes) (src : dest) (data : bytes).
    (* a datagram arrives on the v4 / v6 transport (if it exists); src_ip is source[0] as the callback sees it,
       src the same address in the abstract form that reaches send_data *)

Definition stepx (s : sockx) (o : opx) : sockx * list xout :=
  match o with
  | XExitData known src_ip d data =>
      run_effs (lvl2 known src_ip (mkCtx data d DNull)) s (gx_on_data_exit (is_null d))
  | XTransportsCreated =>
      match x_task s with
      | TaskRegistered =>
          do_create (mkCtx [] DNull DNull)
                    (mkX (x_enabled s) TaskDone (x_t4 s) (x_t6 s) (x_queue s) (x_pending s) (x_up s) (x_down s) (x_stuck s))
      | _ => (s, [])
      end
  | XResolved i ok d =>
      match nth_error (x_pending s) i with
      | None => (s, [])
      | Some data =>
          do_on_address ok (mkCtx data d DNull)
            (mkX (x_enabled s) (x_task s) (x_t4 s) (x_t6 s) (x_queue s) (remove_nth i (x_pending s))
                 (x_up s) (x_down s) (x_stuck s))
      end
  | XOutside v6 src_ip src data =>
      match (if v6 then x_t6 s else x_t4 s) with
      | None => (s, [])
      | Some cb =>
          run_effs (lvl2 false [] (mkCtx data DNull src)) s
                   (match cb with CB4 => gx_datagram_received_ipv4 src_ip | CB6 => gx_datagram_received_ipv6 src_ip end)
      end
  end.

Fixpoint runx (s : sockx) (ops : list opx) : sockx * list xout :=
  match ops with
  | [] => (s, [])
  | o :: tl => let '(s1, o1) := stepx s o in let '(s2, o2) := runx s1 tl in (s2, o1 ++ o2)
  end.

End Exit.

(* ---- the op interface of M06_emit: numeric address identifiers, rendered by a text table ---- *)
(* `txt` gives the text of an address identifier as the implementation sees it.  For Outside, the harness hands
   the IPv6 callback the fixed text of key MAPPED_KEY when the op's `mapped` flag is set. *)
Definition MAPPED_KEY : Z := -1.
Definition lift (txt : Z -> bytes) (o : op) : opx :=
  match o with
  | ExitData known src d data => XExitData known (txt src) d data
  | TransportsCreated => XTransportsCreated
  | Resolved i ok d => XResolved i ok d
  | Outside v6 mapped src data =>
      XOutside v6 (match src with
                   | DV4 ip _ | DV6 ip _ => txt (if mapped then MAPPED_KEY else ip)
                   | _ => []
                   end) src data
  end.

Definition to_sock (s : sockx) : sock :=
  mkSock (x_enabled s) (is_some (x_t4 s)) (x_queue s) (x_pending s) (x_up s) (x_down s).

Definition step_gen (flags : list Z) (prefix : bytes) (txt : Z -> bytes) (prev_ip : Z) (s : sockx) (o : op)
  : sockx * list xout := stepx flags prefix (txt prev_ip) s (lift txt o).
Definition run_gen (flags : list Z) (prefix : bytes) (txt : Z -> bytes) (prev_ip : Z) (s : sockx) (ops : list op)
  : sockx * list xout := runx flags prefix (txt prev_ip) s (map (lift txt) ops).

(* ---- executable interface for the correspondence check ---- *)
Definition txt_of (tbl : list (Z * bytes)) (n : Z) : bytes :=
  match find (fun p => fst p =? n) tbl with Some p => snd p | None => [] end.

(* observation: the obs of M06_emit, the transport tags of the emissions, and the stuck flag *)
Definition obsx := (obs * list Z * bool)%type.
Definition observex (r : sockx * list xout) : obsx :=
  (observe (to_sock (fst r), map fst (snd r)), map snd (snd r), x_stuck (fst r)).
Definition obsx_eqb (a b : obsx) : bool :=
  let '(oa, ta, sa) := a in let '(ob, tb, sb) := b in
  obs_eqb oa ob && list_eqb Z.eqb ta tb && Bool.eqb sa sb.

Definition histx_case := (list (Z * bytes) * hist_case)%type.
Definition run_histx (c : histx_case) : obsx :=
  let '(tbl, (flags, prefix, prev, ops)) := c in
  observex (run_gen flags prefix (txt_of tbl) prev init_sockx ops).
