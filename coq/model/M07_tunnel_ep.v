(* TunnelEndpoint (ipv8/messaging/anonymization/endpoint.py): the per-prefix anonymity switch, send
   routing, the bounded send queue and the delivery filter; the opt-in of Community.__init__ and of
   TunnelCommunity.__init__; the part of TunnelCommunity the endpoint relies on (the circuits dict,
   Circuit.state / exit_flags / hop, find_circuits, create_circuit's effect).
   Literal constants come from the generated file.  No proofs here. *)
From Coq Require Import ZArith List Bool.
From IPV8V Require Import lib.PyErr lib.Bytes gen.G07_consts.
Import ListNotations.
Open Scope Z_scope.

(* socket addresses are abstract identifiers; NULL_ADDR stands for ("0.0.0.0", 0) *)
Definition addr := Z.
Definition NULL_ADDR : addr := 0.
(* circuit types: 0 = CIRCUIT_TYPE_DATA, 1 = IP_SEEDER, 2 = RP_SEEDER, 3 = RP_DOWNLOADER *)
Definition CTYPE_DATA : Z := 0.

(* tunnel.py: Hop (address of its peer, flags; flags None is []) *)
Record hop := mkHop { h_addr : addr; h_flags : list Z }.

(* tunnel.py: Circuit *)
Record circ := mkCirc {
  c_id : Z;
  c_closing : bool;              (* _closing *)
  c_goal : Z;                    (* goal_hops *)
  c_ctype : Z;
  c_hops : list hop;             (* _hops, first hop first *)
  c_unverified : option hop      (* unverified_hop *)
}.

Inductive cstate := READY | EXTENDING | CLOSING.

(* Circuit.state *)
Definition state_of (c : circ) : cstate :=
  if c_closing c then CLOSING
  else if Z.of_nat (length (c_hops c)) <? c_goal c then EXTENDING
  else READY.

Definition is_ready (c : circ) : bool :=
  match state_of c with READY => true | _ => false end.

Fixpoint last_hop (l : list hop) : option hop :=
  match l with
  | [] => None
  | [h] => Some h
  | _ :: tl => last_hop tl
  end.

(* Circuit.exit_flags: flags of the last hop, [] without hops *)
Definition exit_flags (c : circ) : list Z :=
  match last_hop (c_hops c) with Some h => h_flags h | None => [] end.

Fixpoint zmem (x : Z) (l : list Z) : bool :=
  match l with [] => false | y :: tl => (x =? y) || zmem x tl end.

(* Circuit.hop.address: first verified hop, else the unverified one (None.address raises; the value
   -1 is never reached for a circuit that send() selects, see P07) *)
Definition first_hop_addr (c : circ) : addr :=
  match c_hops c with
  | h :: _ => h_addr h
  | [] => match c_unverified c with Some h => h_addr h | None => -1 end
  end.

(* the candidate filter of find_circuits(exit_flags=[PEER_FLAG_EXIT_IPV8], hops=cfg, state=None):
   ctype defaults to DATA, {EXIT_IPV8} <= set(c.exit_flags), hops == c.goal_hops *)
Definition matches (cfg : Z) (c : circ) : bool :=
  (c_ctype c =? CTYPE_DATA) && zmem PEER_FLAG_EXIT_IPV8 (exit_flags c) && (cfg =? c_goal c).

(* ---- state of one node: the TunnelEndpoint and the TunnelCommunity it may be attached to ---- *)
Record st := mkSt {
  settings : list (bytes * bool);    (* TunnelEndpoint.settings, dict in insertion order *)
  attached : bool;                   (* tunnel_community is not None *)
  hops_cfg : Z;                      (* TunnelEndpoint.hops *)
  queue : list (addr * bytes);       (* send_queue, oldest first *)
  circuits : list circ;              (* TunnelCommunity.circuits, dict in insertion order *)
  next_id : Z                        (* circuit ids are fresh: canonical id = creation index *)
}.

Definition init : st := mkSt [] false INIT_HOPS [] [] 0.

Fixpoint dict_get (d : list (bytes * bool)) (k : bytes) : option bool :=
  match d with
  | [] => None
  | (k', v) :: tl => if bytes_eqb k' k then Some v else dict_get tl k
  end.

Fixpoint dict_set (d : list (bytes * bool)) (k : bytes) (v : bool) : list (bytes * bool) :=
  match d with
  | [] => [(k, v)]
  | (k', v') :: tl => if bytes_eqb k' k then (k', v) :: tl else (k', v') :: dict_set tl k v
  end.

(* packet[:PREFIX_LEN] *)
Definition pfx_of (p : bytes) : bytes := firstn (Z.to_nat PREFIX_LEN) p.

(* self.settings.get(prefix, False) *)
Definition switch (s : st) (pfx : bytes) : bool :=
  match dict_get (settings s) pfx with Some b => b | None => false end.
Definition anon_on (s : st) (p : bytes) : bool := switch s (pfx_of p).

Inductive op :=
| Send (a : addr) (p : bytes) (nh : option hop)
    (* TunnelEndpoint.send(a, p); nh: the first hop create_circuit picks if it is asked to build a
       circuit (None: it knows no suitable peer and returns None) - environment outcome *)
| SetAnon (pfx : bytes) (b : bool)          (* set_anonymity *)
| Toggle (pfx : bytes)                      (* set_anonymity(pfx, not settings.get(pfx, False)) *)
| Attach (h : Z)                            (* set_tunnel_community(community, h) *)
| Detach                                    (* set_tunnel_community(None) *)
| Launch (pfx : bytes) (anonymize : bool)   (* Community.__init__ on this endpoint *)
| LaunchTunnel (pfx : bytes)                (* TunnelCommunity.__init__ on this endpoint *)
| NewCirc (goal ctype : Z) (uh : hop)       (* the community builds a circuit on its own account *)
| AddHop (k : nat) (h : hop)                (* k-th circuit (dict order), if still short, verifies one more hop *)
| Close (k : nat)                           (* Circuit.close() *)
| Remove (k : nat).                         (* circuits.pop(id) *)

Inductive out :=
| Raw (a : addr) (p : bytes)                          (* wrapped endpoint's send(a, p) *)
| Tunnel (target : addr) (cid : Z) (dest org : addr) (p : bytes)
                                                      (* tunnel_community.send_data(target, cid, dest, org, p) *)
| CreateCircuit (h : Z) (flags : list Z)              (* tunnel_community.create_circuit(h, exit_flags=flags) *)
| Queued (a : addr) (p : bytes)                       (* appended to send_queue *)
| Evicted (a : addr) (p : bytes)                      (* pushed out of the full deque by that append *)
| Dropped (a : addr) (p : bytes).                     (* anonymity on, no community: send() falls through *)

Definition set_settings (s : st) (d : list (bytes * bool)) : st :=
  mkSt d (attached s) (hops_cfg s) (queue s) (circuits s) (next_id s).
Definition set_queue (s : st) (q : list (addr * bytes)) : st :=
  mkSt (settings s) (attached s) (hops_cfg s) q (circuits s) (next_id s).
Definition set_circuits (s : st) (cs : list circ) : st :=
  mkSt (settings s) (attached s) (hops_cfg s) (queue s) cs (next_id s).
Definition set_attach (s : st) (a : bool) (h : Z) : st :=
  mkSt (settings s) a h (queue s) (circuits s) (next_id s).

(* a fresh circuit as create_circuit leaves it: EXTENDING towards goal, first hop still unverified *)
Definition add_circuit (s : st) (goal ctype : Z) (uh : hop) : st :=
  mkSt (settings s) (attached s) (hops_cfg s) (queue s)
       (circuits s ++ [mkCirc (next_id s) false goal ctype [] (Some uh)]) (next_id s + 1).

(* deque(maxlen).append : returns the new queue and the evicted element, if any *)
Definition enqueue (q : list (addr * bytes)) (x : addr * bytes) : list (addr * bytes) * list out :=
  if Z.of_nat (length q) <? SEND_QUEUE_MAXLEN then (q ++ [x], [Queued (fst x) (snd x)])
  else match q with
       | [] => (q ++ [x], [Queued (fst x) (snd x)])
       | (ea, ep) :: tl => (tl ++ [x], [Evicted ea ep; Queued (fst x) (snd x)])
       end.

Definition tunnel_out (c : circ) (x : addr * bytes) : out :=
  Tunnel (first_hop_addr c) (c_id c) (fst x) NULL_ADDR (snd x).

(* TunnelEndpoint.send *)
Definition send (s : st) (a : addr) (p : bytes) (nh : option hop) : st * list out :=
  if negb (anon_on s p) then (s, [Raw a p])
  else if negb (attached s) then (s, [Dropped a p])
  else match filter (matches (hops_cfg s)) (circuits s) with
       | [] =>
           let s1 := match nh with Some h => add_circuit s (hops_cfg s) CTYPE_DATA h | None => s end in
           let '(q, o) := enqueue (queue s1) (a, p) in
           (set_queue s1 q, CreateCircuit (hops_cfg s) [PEER_FLAG_EXIT_IPV8] :: o)
       | c :: _ =>
           if is_ready c then
             (set_queue s [], tunnel_out c (a, p) :: map (tunnel_out c) (queue s))
           else
             let '(q, o) := enqueue (queue s) (a, p) in (set_queue s q, o)
       end.

Fixpoint upd_nth {A} (k : nat) (f : A -> A) (l : list A) : list A :=
  match k, l with
  | _, [] => []
  | O, x :: tl => f x :: tl
  | S j, x :: tl => x :: upd_nth j f tl
  end.

Fixpoint del_nth {A} (k : nat) (l : list A) : list A :=
  match k, l with
  | _, [] => []
  | O, _ :: tl => tl
  | S j, x :: tl => x :: del_nth j tl
  end.

Definition step (s : st) (o : op) : st * list out :=
  match o with
  | Send a p nh => send s a p nh
  | SetAnon pfx b => (set_settings s (dict_set (settings s) pfx b), [])
  | Toggle pfx => (set_settings s (dict_set (settings s) pfx (negb (switch s pfx))), [])
  | Attach h => (set_attach s true h, [])
  | Detach => (set_attach s false ATTACH_DEFAULT_HOPS, [])
  | Launch pfx anonymize =>
      if anonymize then (set_settings s (dict_set (settings s) pfx true), []) else (s, [])
  | LaunchTunnel pfx =>
      let s1 := set_attach s true ATTACH_DEFAULT_HOPS in
      (set_settings s1 (dict_set (settings s1) pfx false), [])
  | NewCirc goal ctype uh => (add_circuit s goal ctype uh, [])
  | AddHop k h =>
      (* _ours_on_created_extended: only a circuit that still lacks hops gets one *)
      (set_circuits s (upd_nth k (fun c => if Z.of_nat (length (c_hops c)) <? c_goal c
                                           then mkCirc (c_id c) (c_closing c) (c_goal c) (c_ctype c)
                                                       (c_hops c ++ [h]) None
                                           else c) (circuits s)), [])
  | Close k =>
      (set_circuits s (upd_nth k (fun c => mkCirc (c_id c) true (c_goal c) (c_ctype c)
                                                  (c_hops c) (c_unverified c)) (circuits s)), [])
  | Remove k => (set_circuits s (del_nth k (circuits s)), [])
  end.

(* one processed operation: state before, the operation, what the node did *)
Record event := mkEv { ev_pre : st; ev_op : op; ev_outs : list out }.

Fixpoint trace (s : st) (ops : list op) : list event :=
  match ops with
  | [] => []
  | o :: tl => let '(s1, outs) := step s o in mkEv s o outs :: trace s1 tl
  end.

Fixpoint final (s : st) (ops : list op) : st :=
  match ops with
  | [] => s
  | o :: tl => final (fst (step s o)) tl
  end.

(* ---- delivery filter: TunnelEndpoint.notify_listeners(packet, from_tunnel) over the wrapped
   endpoint's _listeners; a listener is (identity, anonymize attribute if it has one) ---- *)
Definition listener := (Z * option bool)%type.
Definition anonymize_of (l : listener) : bool :=
  match snd l with Some b => b | None => false end.      (* getattr(listener, "anonymize", False) *)
Definition notify (ls : list listener) (from_tunnel : bool) : list Z :=
  map fst (filter (fun l => Bool.eqb (anonymize_of l) from_tunnel) ls).

(* ---- executable interface for the correspondence check ---- *)
Fixpoint list_eqb {A} (eqb : A -> A -> bool) (a b : list A) : bool :=
  match a, b with
  | [], [] => true
  | x :: a', y :: b' => eqb x y && list_eqb eqb a' b'
  | _, _ => false
  end.

Definition out_eqb (x y : out) : bool :=
  match x, y with
  | Raw a p, Raw b q | Queued a p, Queued b q | Evicted a p, Evicted b q | Dropped a p, Dropped b q =>
      (a =? b) && bytes_eqb p q
  | Tunnel t c d o p, Tunnel t' c' d' o' p' =>
      (t =? t') && (c =? c') && (d =? d') && (o =? o') && bytes_eqb p p'
  | CreateCircuit h f, CreateCircuit h' f' => (h =? h') && list_eqb Z.eqb f f'
  | _, _ => false
  end.

Definition hop_eqb (x y : hop) : bool := (h_addr x =? h_addr y) && list_eqb Z.eqb (h_flags x) (h_flags y).
Definition opt_eqb {A} (eqb : A -> A -> bool) (x y : option A) : bool :=
  match x, y with Some a, Some b => eqb a b | None, None => true | _, _ => false end.
Definition circ_eqb (x y : circ) : bool :=
  (c_id x =? c_id y) && Bool.eqb (c_closing x) (c_closing y) && (c_goal x =? c_goal y)
  && (c_ctype x =? c_ctype y) && list_eqb hop_eqb (c_hops x) (c_hops y)
  && opt_eqb hop_eqb (c_unverified x) (c_unverified y).
Definition st_eqb (x y : st) : bool :=
  list_eqb (fun a b => bytes_eqb (fst a) (fst b) && Bool.eqb (snd a) (snd b)) (settings x) (settings y)
  && Bool.eqb (attached x) (attached y) && (hops_cfg x =? hops_cfg y)
  && list_eqb (fun a b => (fst a =? fst b) && bytes_eqb (snd a) (snd b)) (queue x) (queue y)
  && list_eqb circ_eqb (circuits x) (circuits y) && (next_id x =? next_id y).

(* a history: per operation the outputs and (|queue|, |circuits|) afterwards; then the final state *)
Fixpoint run_steps (s : st) (ops : list op) : list (list out * Z * Z) * st :=
  match ops with
  | [] => ([], s)
  | o :: tl =>
      let '(s1, outs) := step s o in
      let '(r, sf) := run_steps s1 tl in
      ((outs, Z.of_nat (length (queue s1)), Z.of_nat (length (circuits s1))) :: r, sf)
  end.
Definition obs := (list (list out * Z * Z) * st)%type.
Definition run_case (ops : list op) : obs := run_steps init ops.
Definition obs_eqb (x y : obs) : bool :=
  list_eqb (fun a b => let '(oa, qa, ca) := a in let '(ob, qb, cb) := b in
                       list_eqb out_eqb oa ob && (qa =? qb) && (ca =? cb)) (fst x) (fst y)
  && st_eqb (snd x) (snd y).

Definition notify_case := (list listener * bool)%type.
Definition run_notify (c : notify_case) : list Z := notify (fst c) (snd c).

(* ---- exhaustive enumeration: a digest of the behaviour on every operation sequence of length d
   over an alphabet, computed depth first so that common prefixes are shared.  The harness computes
   the same number from the implementation's runs. ---- *)
Definition HMASK : Z := 2305843009213693951.   (* 2^61 - 1 *)
Definition mix (h x : Z) : Z := Z.land (1000003 * h + x + 1) HMASK.
(* a byte string enters the digest as one small number (length, third byte, last byte): enough to
   tell apart the few packets of an exhaustive family; the case-by-case comparison of generated
   histories uses full equality instead *)
Definition bytes_code (l : bytes) : Z := blen l + 256 * nth 2 l 0 + 65536 * last l 0.
(* the complete byte string, for the case-by-case comparison *)
Definition bytes_full (l : bytes) : Z := fold_left mix l (blen l).
Definition mix_zs (h : Z) (l : list Z) : Z := fold_left mix l (mix h (Z.of_nat (length l))).
Definition mix_bool (h : Z) (b : bool) : Z := mix h (if b then 1 else 0).

Section Digest.
Variable bc : bytes -> Z.          (* how a byte string enters: bytes_code or bytes_full *)

Definition mix_out (h : Z) (o : out) : Z :=
  match o with
  | Raw a p => mix (mix (mix h 1) a) (bc p)
  | Tunnel t c d g p => mix (mix (mix (mix (mix (mix h 2) t) c) d) g) (bc p)
  | CreateCircuit n f => mix_zs (mix (mix h 3) n) f
  | Queued a p => mix (mix (mix h 4) a) (bc p)
  | Evicted a p => mix (mix (mix h 5) a) (bc p)
  | Dropped a p => mix (mix (mix h 6) a) (bc p)
  end.

Definition mix_hop (h : Z) (x : hop) : Z := mix_zs (mix h (h_addr x)) (h_flags x).
Definition mix_circ (h : Z) (c : circ) : Z :=
  let h := mix_bool (mix h (c_id c)) (c_closing c) in
  let h := mix (mix h (c_goal c)) (c_ctype c) in
  let h := fold_left mix_hop (c_hops c) (mix h (Z.of_nat (length (c_hops c)))) in
  match c_unverified c with Some u => mix_hop (mix h 1) u | None => mix h 0 end.
Definition mix_st (h : Z) (s : st) : Z :=
  let h := fold_left (fun h kv => mix_bool (mix h (bc (fst kv))) (snd kv)) (settings s)
                     (mix h (Z.of_nat (length (settings s)))) in
  let h := mix (mix_bool h (attached s)) (hops_cfg s) in
  let h := fold_left (fun h x => mix (mix h (fst x)) (bc (snd x))) (queue s)
                     (mix h (Z.of_nat (length (queue s)))) in
  let h := fold_left mix_circ (circuits s) (mix h (Z.of_nat (length (circuits s)))) in
  mix h (next_id s).

(* one step: the outputs, then |queue| and |circuits| afterwards *)
Definition mix_step (h : Z) (outs : list out) (s1 : st) : Z :=
  mix (mix (fold_left mix_out outs (mix h 7)) (Z.of_nat (length (queue s1)))) (Z.of_nat (length (circuits s1))).

(* digest of a whole history: every step, then the complete final state *)
Definition path_digest (s : st) (ops : list op) : st * Z :=
  fold_left (fun sh o => let '(s, h) := sh in
                         let '(s1, outs) := step s o in (s1, mix_step h outs s1)) ops (s, 0).
Definition history_digest (ops : list op) : Z :=
  let '(s, h) := path_digest init ops in mix_st h s.
End Digest.

(* generated histories are compared through the digest over complete byte strings *)
Definition run_case_digest (ops : list op) : Z := history_digest bytes_full ops.

(* h: digest of the path so far; at a leaf the complete state enters; acc: fold over the leaves *)
Fixpoint dfs (alpha : list op) (d : nat) (s : st) (h acc : Z) : Z :=
  match d with
  | O => mix acc (mix_st bytes_code h s)
  | S d' =>
      fold_left (fun acc o => let '(s1, outs) := step s o in
                              dfs alpha d' s1 (mix_step bytes_code h outs s1) acc)
                alpha acc
  end.

(* digest of all sequences  pre ++ w, |w| = d, w over alpha *)
Definition enum_case := (list op * list op * nat)%type.
Definition run_enum (c : enum_case) : Z :=
  let '(alpha, pre, d) := c in
  let '(s, h) := path_digest bytes_code init pre in dfs alpha d s h 0.
