(* C17x - the translated handlers (gen/G17_consent.v) assembled into the step format of the hand model
   (hand-written glue, fixed text): which translated function an event of the model runs, with which
   decoded payload.  No proofs here. *)
From Coq Require Import ZArith List Bool Arith.
From IPV8V Require Import lib.PyErr lib.Bytes model.M16_tokentree model.M16_tokentree_gen model.M17_consent
  model.M17_consent_gen gen.G17_consent.
Import ListNotations.
Open Scope Z_scope.

Section Run.
Variable hash : bytes -> bytes.
Variable sigverify : bytes -> bytes -> bytes -> bool.
Variable mysign : bytes -> bytes.
Variable parse : bytes -> jdoc.
Variable me : bytes.
Variable rhl rsl : nat.

(* the empty state before IdentityCommunity.__init__ ran *)
Definition blank : state := mkState [] [] [] [] [] [] [].
Definition g_initial : state * list output * option exn :=
  run_m (g_init hash sigverify mysign parse me rhl rsl 0 [] 0%nat tt) blank.

Definition g_step (s : state) (now : Z) (ev : event) : state * list output * option exn :=
  match ev with
  | EKnown h name key md =>
      run_m (g_add_known_hash hash sigverify mysign parse me rhl rsl now [] 0%nat h name key md) s
  | EAdvertise None h json jl =>
      run_m (g_self_advertise hash sigverify mysign parse me rhl rsl now json jl h [] [] None) s
  | EAdvertise (Some p) h json jl =>
      run_m (g_request_attestation_advertisement hash sigverify mysign parse me rhl rsl now json jl p h [] [] None) s
  | EDisclose p mds toks atts fail =>
      run_m (g_on_disclosure hash sigverify mysign parse me rhl rsl now [] 0%nat p
               ((mds, fail_is fail 1), (toks, fail_is fail 0), tt, (atts, fail_is fail 2))) s
  | EMissingResp p toks fail =>
      run_m (g_on_missing_response hash sigverify mysign parse me rhl rsl now [] 0%nat p (toks, fail)) s
  | EAttest p a =>
      run_m (g_on_attest hash sigverify mysign parse me rhl rsl now [] 0%nat p a) s
  | EReqMissing p kn =>
      run_m (g_on_request_missing hash sigverify mysign parse me rhl rsl now [] 0%nat p kn) s
  end.

Fixpoint g_run (s : state) (evs : list (Z * event)) : state * list (list output * option exn) :=
  match evs with
  | [] => (s, [])
  | (now, ev) :: tl =>
      let '(s1, o, x) := g_step s now ev in
      let '(s2, tr) := g_run s1 tl in
      (s2, (o, x) :: tr)
  end.
End Run.

(* the SHA-1 padding as translated (pad_hash inside add_known_hash / self_advertise) *)
Definition g_norm (h : bytes) : bytes :=
  if (Z.of_nat (length h) =? 20) then [83; 72; 65; 45; 49; 0; 0; 0; 0; 0; 0; 0] ++ h else h.

(* ---------------------------------------------------------------- correspondence interface (tools/checks/c17.py):
   the same cases and observations as model/M17_consent.v, evaluated through the translated functions; the SHA-1
   padding is the translated pad_hash, the Attestations key the one of get_schema (c_ntbl / c_wide are unused) *)
Section RunCaseGen.
Variable c : case.
Let fH := tbl_fun (c_htbl c) (fun _ => []).
Let fV := tbl_verify3 (c_vtbl c).
Let fS := tbl_fun (c_stbl c) (fun _ => []).
Let fP := tbl_parse (c_ptbl c).
Fixpoint run_obs_g (s : state) (evs : list (Z * event)) : list eobs :=
  match evs with
  | [] => []
  | (now, ev) :: tl =>
      let '(s1, o, x) := g_step fH fV fS fP (c_me c) (c_rhl c) (c_rsl c) s now ev in
      obs_event s1 o x :: run_obs_g s1 tl
  end.
Definition run_case_g_ : list eobs :=
  match g_initial fH fV fS fP (c_me c) (c_rhl c) (c_rsl c) with
  | (s0, _, None) => run_obs_g s0 (c_evs c)
  | (_, _, Some _) => []
  end.
End RunCaseGen.
Definition run_case_g (c : case) : list eobs := run_case_g_ c.
(* both models on one case: the hand model's observations when the generated functions agree with it, else a
   marker that no implementation run produces *)
Definition differ_marker : list eobs := [([], [], -777, [], [], [])].
Definition run_case_both (c : case) : list eobs :=
  let a := run_case c in if obs_eqb a (run_case_g c) then a else differ_marker.
