(* Executable instance of the tunnel data-plane model: a toy AEAD (shows the hypotheses used by the
   C04/C05 theorems are jointly satisfiable, and lets the correspondence check evaluate the model),
   decidable equality on states and actions, and the case runner.  No proofs here. *)
From Coq Require Import ZArith List Bool Lia.
From IPV8V Require Import lib.PyErr lib.Bytes lib.BE model.M02_wire model.M03_recv model.M04_onion.
Import ListNotations.
Open Scope Z_scope.

(* ---- toy AEAD: 8-element nonce header, message, 16-element trailer naming key, direction and a
   checksum of nonce and message; same expansion (24) as ChaCha20-Poly1305 with an explicit nonce ---- *)
Definition dcode (d : dir) : Z := match d with FORWARD => 0 | BACKWARD => 1 end.
Definition zsum (l : bytes) : Z := fold_right Z.add 0 l.
Definition ttag (k : Z) (d : dir) (n : Z) (m : bytes) : bytes := [k; dcode d; n + zsum m] ++ repeat 0 13%nat.
Definition tenc (k : Z) (d : dir) (n : Z) (m : bytes) : bytes := (n :: repeat 0 7%nat) ++ m ++ ttag k d n m.
Definition tdec (k : Z) (d : dir) (c : bytes) : option bytes :=
  if (length c <? 24)%nat then None
  else
    let n := hd 0 c in
    let m := firstn (length c - 24) (skipn 8 c) in
    if bytes_eqb c (tenc k d n m) then Some m else None.

Definition tovh : nat := 24%nat.

Notation thop := (hop Z).
Notation tcircuit := (circuit Z).
Notation trelay := (relay_route Z).
Notation texit := (exit_sock Z).
Notation tnode := (node Z).

(* ---- decidable equality ---- *)
Definition opt_eqb {A} (e : A -> A -> bool) (a b : option A) : bool :=
  match a, b with Some x, Some y => e x y | None, None => true | _, _ => false end.
Fixpoint list_eqb {A} (e : A -> A -> bool) (a b : list A) : bool :=
  match a, b with
  | [], [] => true
  | x :: a', y :: b' => e x y && list_eqb e a' b'
  | _, _ => false
  end.
Definition hop_eqb (a b : thop) : bool :=
  (h_pk a =? h_pk b) && addr_eqb (h_addr a) (h_addr b) && opt_eqb Z.eqb (h_keys a) (h_keys b).
Definition circuit_eqb (a b : tcircuit) : bool :=
  (c_goal a =? c_goal b) && ctype_eqb (c_ctype a) (c_ctype b) && list_eqb hop_eqb (c_hops a) (c_hops b)
  && opt_eqb hop_eqb (c_unverified a) (c_unverified b) && opt_eqb Z.eqb (c_hs a) (c_hs b)
  && Bool.eqb (c_closing a) (c_closing b) && (c_early a =? c_early b).
Definition relay_eqb (a b : trelay) : bool :=
  (rr_cid a =? rr_cid b) && hop_eqb (rr_hop a) (rr_hop b) && dir_eqb (rr_dir a) (rr_dir b)
  && Bool.eqb (rr_rdv a) (rr_rdv b) && (rr_early a =? rr_early b).
Definition exit_eqb (a b : texit) : bool :=
  (es_cid a =? es_cid b) && hop_eqb (es_hop a) (es_hop b) && Bool.eqb (es_enabled a) (es_enabled b).

(* dictionaries are compared as maps: same keys (given sorted by the harness), same values *)
Definition tab_eqb {A} (e : A -> A -> bool) (a b : list (Z * A)) : bool :=
  list_eqb (fun x y => (fst x =? fst y) && e (snd x) (snd y)) a b.

Fixpoint insert_sorted {A} (x : Z * A) (l : list (Z * A)) : list (Z * A) :=
  match l with
  | [] => [x]
  | y :: tl => if fst x <=? fst y then x :: l else y :: insert_sorted x tl
  end.
Definition sort_tab {A} (l : list (Z * A)) : list (Z * A) := fold_right insert_sorted [] l.

Definition node_eqb (a b : tnode) : bool :=
  bytes_eqb (n_prefix a) (n_prefix b) && (n_max_early a =? n_max_early b)
  && list_eqb Z.eqb (n_flags a) (n_flags b) && list_eqb Z.eqb (n_handlers a) (n_handlers b)
  && list_eqb Z.eqb (n_data_ids a) (n_data_ids b)
  && Bool.eqb (n_tunnel_ep a) (n_tunnel_ep b)
  && tab_eqb circuit_eqb (sort_tab (n_circuits a)) (sort_tab (n_circuits b))
  && tab_eqb relay_eqb (sort_tab (n_relays a)) (sort_tab (n_relays b))
  && tab_eqb exit_eqb (sort_tab (n_exits a)) (sort_tab (n_exits b)).

Definition action_eqb (a b : action) : bool :=
  match a, b with
  | Send d p, Send e q => addr_eqb d e && bytes_eqb p q
  | ExitSendto c x d, ExitSendto c' y e => (c =? c') && bytes_eqb x y && addr_eqb d e
  | RawData c o x, RawData c' p y => (c =? c') && addr_eqb o p && bytes_eqb x y
  | Reinject o x c, Reinject p y c' => addr_eqb o p && bytes_eqb x y && (c =? c')
  | NotifyOther o x, NotifyOther p y => addr_eqb o p && bytes_eqb x y
  | GotPong s c i, GotPong t c' j => addr_eqb s t && (c =? c') && (i =? j)
  | GotTestResponse s c i x, GotTestResponse t c' j y => addr_eqb s t && (c =? c') && (i =? j) && bytes_eqb x y
  | Control m s c x, Control m' t c' y => (m =? m') && addr_eqb s t && (c =? c') && bytes_eqb x y
  | NonCell s x, NonCell t y => addr_eqb s t && bytes_eqb x y
  | _, _ => false
  end.

Definition outcome := res (tnode * list action).
Definition outcome_eqb : outcome -> outcome -> bool :=
  res_eqb (fun a b => node_eqb (fst a) (fst b) && list_eqb action_eqb (snd a) (snd b)).

(* ---- events of the lockstep correspondence ---- *)
Inductive event :=
| EvPacket (src : addr) (data : bytes)                                   (* a datagram arrives *)
| EvSendData (target : addr) (cid : Z) (dest org : addr) (data : bytes)  (* overlay.send_data(...) *)
| EvTunnelData (cid : Z) (source : addr) (data : bytes)                  (* exit_sockets[cid].tunnel_data(source, data) *)
| EvSendPing (target : addr) (cid ident : Z)                             (* send_cell(target, PingPayload(cid, ident)) *)
| EvSendTestRequest (target : addr) (cid ident rsize : Z) (data : bytes).

Definition stream (l : list Z) : nat -> Z := fun i => nth i l 0.

Definition run_event (nd : tnode) (ev : event) (rnd : bytes) (ns : list Z) : outcome :=
  match ev with
  | EvPacket src data => on_packet_rec tenc tdec nd src data (fun _ => rnd) (stream ns)
  | EvSendData target cid dest org data => send_data tenc nd target cid dest org data (stream ns)
  | EvTunnelData cid source data =>
      match assoc cid (n_exits nd) with
      | Some es => tunnel_data tenc nd es source data (stream ns)
      | None => Raise KeyError
      end
  | EvSendPing target cid ident => send_cell tenc nd target cid 6 fmt_ping [VInt ident] (stream ns)
  | EvSendTestRequest target cid ident rsize data =>
      send_cell tenc nd target cid 19 fmt_test_request [VInt ident; VInt rsize; VBytes data] (stream ns)
  end.

(* a datagram with one element altered: the harness names the honest datagram once per shard *)
Fixpoint xor_at (pos : nat) (mask : Z) (l : bytes) : bytes :=
  match l, pos with
  | [], _ => []
  | x :: tl, O => Z.lxor x mask :: tl
  | x :: tl, S p => x :: xor_at p mask tl
  end.

Definition lcase := (tnode * event * bytes * list Z)%type.
Definition run_lcase (c : lcase) : outcome := let '(nd, ev, rnd, ns) := c in run_event nd ev rnd ns.
