(* Circuit handshake of TunnelCommunity (community.py: send_initial_create, send_extend,
   _ours_on_created_extended, on_create, join_circuit, on_created, on_extend, on_extended, remove_circuit;
   caches.py: RetryRequestCache, CreateRequestCache, CreatedRequestCache; crypto.py: TunnelCrypto methods).
   Symbolic: X25519, the crypto_auth MAC, HKDF and the session-key AEAD are Section variables.
   One [node] carries every role a TunnelCommunity plays at once (originator, joined exit, relay).
   Randomness (ephemeral secrets, packet identifiers, circuit ids, cache numbers, random.choice) and the
   candidate bookkeeping that is not part of the handshake are inputs ([oracle]).  No proofs here. *)
From Coq Require Import ZArith List Bool Lia.
From IPV8V Require Import lib.PyErr.
Import ListNotations.
Open Scope Z_scope.

(* ---- Python dicts keyed by int ------------------------------------------------------------------ *)
Section AL.
Context {V : Type}.
Fixpoint aget (k : Z) (l : list (Z * V)) : option V :=
  match l with [] => None | (k', v) :: tl => if k =? k' then Some v else aget k tl end.
Fixpoint adel (k : Z) (l : list (Z * V)) : list (Z * V) :=
  match l with [] => [] | (k', v) :: tl => if k =? k' then adel k tl else (k', v) :: adel k tl end.
Definition aset (k : Z) (v : V) (l : list (Z * V)) : list (Z * V) := (k, v) :: adel k l.
Definition ahas (k : Z) (l : list (Z * V)) : bool := match aget k l with Some _ => true | None => false end.
End AL.

Definition zlen {A} (l : list A) : Z := Z.of_nat (length l).
Definition zmem (k : Z) (l : list Z) : bool := existsb (Z.eqb k) l.

(* ---- plain data ---------------------------------------------------------------------------------- *)
(* a Peer: identity = public key bin (an opaque id here), address (0 is ("0.0.0.0", 0)) *)
Record peer := mkPeer { p_key : Z; p_addr : Z }.
Definition peer_eqb (a b : peer) : bool := p_key a =? p_key b.     (* Peer.__eq__: same public key *)

Inductive cst := Closing | Extending | Ready.

Record retry := mkRetry {
  r_pid : Z;               (* RetryRequestCache.packet_identifier *)
  r_tries : Z;             (* max_tries *)
  r_initial : bool;        (* retry_func is send_initial_create (else send_extend) *)
  r_peers : list peer;     (* candidates of send_initial_create *)
  r_keys : list Z }.       (* candidates of send_extend *)

Record creq := mkCreq {    (* CreateRequestCache, keyed by its random number *)
  q_ident : Z; q_to : Z; q_from : Z; q_peer : peer; q_to_peer : peer }.

Record dreq := mkDreq {    (* CreatedRequestCache, keyed by circuit id *)
  d_peer : peer; d_cands : list peer }.

Record oracle := mkOracle {
  o_x : Z;                     (* index of the next fresh X25519 secret (generate_diffie_secret / OpenSSLSK.generate) *)
  o_pid : Z;                   (* secrets.randbelow(2**16) of the next RetryRequestCache *)
  o_fallback : option peer;    (* random.choice(choices) in send_extend; None when choices is empty *)
  o_offer : list peer;         (* peers_list computed by join_circuit *)
  o_cid : Z;                   (* _generate_circuit_id() in on_extend *)
  o_num : Z;                   (* number drawn by CreateRequestCache *)
  o_known : option peer }.     (* network.get_verified_by_public_key_bin in on_extend *)

(* first i with c[i] == c[i+1]: relay = c[:i], exit = c[i+1:] *)
Fixpoint split_dup (pre : list Z) (l : list Z) : option (list Z * list Z) :=
  match l with
  | a :: tl => match tl with
               | b :: _ => if a =? b then Some (rev pre, tl) else split_dup (a :: pre) tl
               | [] => None
               end
  | [] => None
  end.
Definition split_cands (l : list Z) : list Z * list Z :=
  match split_dup [] l with Some p => p | None => (l, []) end.

(* the external primitives, bundled: one Section variable [C] *)
Record crypto := mkCrypto {
  SK : Type; PK : Type; SEC : Type; TAG : Type; KEYS : Type; CENC : Type;
  sk_of : Z -> SK;                  (* the secret drawn with index i *)
  pub : SK -> PK;                   (* get_crypt_pk of a private key *)
  dh : SK -> PK -> option SEC;      (* diffie_hellman; None: ValueError (wrong length / rejected point) *)
  mac : SEC -> PK -> TAG;           (* crypto_auth(shared_secret[:32], crypt_pk) *)
  tag_eqb : TAG -> TAG -> bool;     (* crypto_auth_verify recomputes and compares *)
  kdf : SEC -> SEC -> KEYS;         (* generate_session_keys(s1 + s2) *)
  cenc_of : KEYS -> list Z -> CENC;         (* encrypt_str(pack("varlenH-list", keys), FORWARD) *)
  cdec : KEYS -> CENC -> res (list Z);      (* decrypt_str(.., FORWARD) + unpack of the list; may raise *)
  cpk : Z -> PK;                    (* crypt pk inside a public key bin *)
  valid_key : Z -> bool }.          (* key_from_public_bin succeeds *)

Section HS.
Variable C : crypto.
Local Notation sk := (SK C).
Local Notation pk := (PK C).
Local Notation sec := (SEC C).
Local Notation tag := (TAG C).
Local Notation keys := (KEYS C).
Local Notation cenc := (CENC C).
Local Notation sk_of := (sk_of C).
Local Notation pub := (pub C).
Local Notation dh := (dh C).
Local Notation mac := (mac C).
Local Notation tag_eqb := (tag_eqb C).
Local Notation kdf := (kdf C).
Local Notation cenc_of := (cenc_of C).
Local Notation cdec := (cdec C).
Local Notation cpk := (cpk C).
Local Notation valid_key := (valid_key C).

Record hop := mkHop { h_peer : peer; h_keys : option keys; h_dh : option sk }.

Record circuit := mkCirc {
  c_goal : Z; c_hops : list hop; c_unv : option hop; c_closing : bool; c_reqexit : option peer }.

Record rroute := mkRoute { rr_cid : Z; rr_hop : hop; rr_fwd : bool }.

Inductive msg :=
| MCreate (cid ident : Z) (node_pk : Z) (key : pk)
| MCreated (cid ident : Z) (key : pk) (auth : tag) (ce : cenc)
| MExtend (cid ident : Z) (node_pk : Z) (key : pk) (addr : Z)
| MExtended (cid ident : Z) (key : pk) (auth : tag) (ce : cenc).

Inductive action :=
| Send (to : Z) (m : msg)     (* send_cell(address, payload) *)
| RmExit (cid : Z).           (* remove_exit_socket(cid, remove_now=True) registered *)

Record node := mkNode {
  n_sk : sk;                  (* my_peer.key *)
  n_pkbin : Z;                (* my_peer.public_key.key_to_bin() *)
  n_any_flag : bool;          (* bool(settings.peer_flags) *)
  n_relay_flag : bool;        (* PEER_FLAG_RELAY in settings.peer_flags *)
  n_max_joined : Z;
  n_circ : list (Z * circuit);
  n_exit : list (Z * hop);
  n_relay : list (Z * rroute);
  n_retry : list (Z * retry);
  n_creq : list (Z * creq);
  n_dreq : list (Z * dreq);
  n_rm : list Z }.            (* remove_circuit tasks registered, first part not yet run *)

Definition set_circ (n : node) (v : list (Z * circuit)) : node :=
  mkNode (n_sk n) (n_pkbin n) (n_any_flag n) (n_relay_flag n) (n_max_joined n)
         v (n_exit n) (n_relay n) (n_retry n) (n_creq n) (n_dreq n) (n_rm n).
Definition set_exit (n : node) (v : list (Z * hop)) : node :=
  mkNode (n_sk n) (n_pkbin n) (n_any_flag n) (n_relay_flag n) (n_max_joined n)
         (n_circ n) v (n_relay n) (n_retry n) (n_creq n) (n_dreq n) (n_rm n).
Definition set_relay (n : node) (v : list (Z * rroute)) : node :=
  mkNode (n_sk n) (n_pkbin n) (n_any_flag n) (n_relay_flag n) (n_max_joined n)
         (n_circ n) (n_exit n) v (n_retry n) (n_creq n) (n_dreq n) (n_rm n).
Definition set_retry (n : node) (v : list (Z * retry)) : node :=
  mkNode (n_sk n) (n_pkbin n) (n_any_flag n) (n_relay_flag n) (n_max_joined n)
         (n_circ n) (n_exit n) (n_relay n) v (n_creq n) (n_dreq n) (n_rm n).
Definition set_creq (n : node) (v : list (Z * creq)) : node :=
  mkNode (n_sk n) (n_pkbin n) (n_any_flag n) (n_relay_flag n) (n_max_joined n)
         (n_circ n) (n_exit n) (n_relay n) (n_retry n) v (n_dreq n) (n_rm n).
Definition set_dreq (n : node) (v : list (Z * dreq)) : node :=
  mkNode (n_sk n) (n_pkbin n) (n_any_flag n) (n_relay_flag n) (n_max_joined n)
         (n_circ n) (n_exit n) (n_relay n) (n_retry n) (n_creq n) v (n_rm n).
Definition set_rm (n : node) (v : list Z) : node :=
  mkNode (n_sk n) (n_pkbin n) (n_any_flag n) (n_relay_flag n) (n_max_joined n)
         (n_circ n) (n_exit n) (n_relay n) (n_retry n) (n_creq n) (n_dreq n) v.

(* what a handler did: final state, cells sent, and the exception (if any) that reached the catch-all of
   on_packet_from_circuit / the task wrapper.  State changes made before the raise stay. *)
Definition out := (node * list action * option exn)%type.
Definition done (n : node) (a : list action) : out := (n, a, None).
Definition fail (e : exn) (n : node) (a : list action) : out := (n, a, Some e).

Definition cstate (c : circuit) : cst :=
  if c_closing c then Closing else if zlen (c_hops c) <? c_goal c then Extending else Ready.

Definition with_hops_unv (c : circuit) (hs : list hop) (u : option hop) : circuit :=
  mkCirc (c_goal c) hs u (c_closing c) (c_reqexit c).
Definition with_closing (c : circuit) : circuit :=
  mkCirc (c_goal c) (c_hops c) (c_unv c) true (c_reqexit c).

(* remove_circuit(...) called: the task is registered, nothing has happened yet *)
Definition schedule_rm (n : node) (cid : Z) : node := set_rm n (n_rm n ++ [cid]).

(* send_initial_create(circuit, candidate_peers, max_tries) *)
Definition send_initial_create (n : node) (cid : Z) (cands : list peer) (tries : Z) (o : oracle) : out :=
  match aget cid (n_circ n) with
  | None => done n []
  | Some c =>
      let n1 := set_retry n (adel cid (n_retry n)) in                 (* has -> pop *)
      match cands with
      | [] => fail IndexError n1 []                                    (* candidate_peers[0] *)
      | first :: _ =>
          let alt := filter (fun p => negb (peer_eqb p first)) cands in
          let x := sk_of (o_x o) in
          let c1 := with_hops_unv c (c_hops c) (Some (mkHop first None (Some x))) in
          let r := mkRetry (o_pid o) (tries - 1) true alt [] in
          let n2 := set_retry (set_circ n1 (aset cid c1 (n_circ n1))) (aset cid r (n_retry n1)) in
          done n2 [Send (p_addr first) (MCreate cid (o_pid o) (n_pkbin n) (pub x))]
      end
  end.

(* [c for c in candidates if c not in exclude and self.crypto.key_from_public_bin(c)] *)
Fixpoint filter_cands (ex : list Z) (l : list Z) : res (list Z) :=
  match l with
  | [] => Ok []
  | c :: tl => if zmem c ex then filter_cands ex tl
               else if valid_key c then (do r <- filter_cands ex tl; Ok (c :: r))
               else Raise ValueError
  end.

(* send_extend(circuit, candidates, max_tries) *)
Definition send_extend (n : node) (cid : Z) (cands : list Z) (tries : Z) (o : oracle) : out :=
  match aget cid (n_circ n) with
  | None => done n []
  | Some c =>
      let become_exit := c_goal c - 1 =? zlen (c_hops c) in
      let sel : res (option (Z * Z) * list Z) :=
        match (if become_exit then c_reqexit c else None) with
        | Some re => Ok (Some (p_key re, p_addr re), cands)
        | None =>
            let exclude := map (fun h => p_key (h_peer h)) (c_hops c) ++ [n_pkbin n]
                           ++ match c_reqexit c with Some re => [p_key re] | None => [] end in
            do f <- filter_cands exclude cands;
            match f with
            | t :: _ => Ok (Some (t, 0), f)
            | [] => match o_fallback o with
                    | Some p => Ok (Some (p_key p, p_addr p), f)
                    | None => Ok (None, f)
                    end
            end
        end in
      match sel with
      | Raise e => fail e n []
      | Ok (None, _) => done (schedule_rm n cid) []                   (* "no candidates to extend" *)
      | Ok (Some (t, addr), f) =>
          let n1 := set_retry n (adel cid (n_retry n)) in
          let x := sk_of (o_x o) in
          let c1 := with_hops_unv c (c_hops c) (Some (mkHop (mkPeer t 0) None (Some x))) in
          let alt := if negb become_exit || (match c_reqexit c with None => true | Some _ => false end)
                     then filter (fun k => negb (k =? t)) f else [] in
          let r := mkRetry (o_pid o) (tries - 1) false [] alt in
          let n2 := set_retry (set_circ n1 (aset cid c1 (n_circ n1))) (aset cid r (n_retry n1)) in
          let first_addr := match c_hops c with h :: _ => p_addr (h_peer h) | [] => 0 end in
          done n2 [Send first_addr (MExtend cid (o_pid o) t (pub x) addr)]
      end
  end.

(* _ours_on_created_extended(circuit_id, payload), after fix 233b9c9 (retry cache popped as soon as the hop is
   accepted; unreadable candidate list -> remove_circuit) *)
Definition ours (n : node) (cid : Z) (Y : pk) (au : tag) (ce : cenc) (o : oracle) : out :=
  match aget cid (n_circ n) with
  | None => fail KeyError n []
  | Some c =>
      match c_unv c with
      | None => done n []
      | Some u =>
          match h_dh u with
          | None => done n []
          | Some x =>
              match dh x Y with
              | None => done n []               (* except ValueError: logged, the answer is ignored (fix 48d1509) *)
              | Some s1 =>
                  match dh x (cpk (p_key (h_peer u))) with
                  | None => done n []
                  | Some s2 =>
                      if negb (tag_eqb au (mac s1 Y)) then fail CryptoError n []   (* not a ValueError *)
                      else
                        let k := kdf s1 s2 in
                        let c1 := with_hops_unv c (c_hops c ++ [mkHop (h_peer u) (Some k) (Some x)]) None in
                        let n1 := set_circ n (aset cid c1 (n_circ n)) in
                        match cstate c1 with
                        | Extending =>
                            match aget cid (n_retry n1) with
                            | None => fail KeyError n1 []               (* request_cache.pop *)
                            | Some r =>
                                let n2 := set_retry n1 (adel cid (n_retry n1)) in
                                match cdec k ce with
                                | Raise _ => done (schedule_rm n2 cid) []   (* except Exception: remove_circuit *)
                                | Ok cands =>
                                    let '(rel, ex) := split_cands cands in
                                    let become_exit := c_goal c1 - 1 =? zlen (c_hops c1) in
                                    let cs := if become_exit then ex
                                              else match rel with [] => ex | _ => rel end in
                                    send_extend n2 cid cs (r_tries r) o
                                end
                            end
                        | Ready =>
                            match aget cid (n_retry n1) with
                            | None => fail KeyError n1 []
                            | Some _ => done (set_retry n1 (adel cid (n_retry n1))) []
                            end
                        | Closing => done n1 []
                        end
                  end
              end
          end
      end
  end.

Definition find_peer (k : Z) (l : list peer) : option peer := find (fun p => p_key p =? k) l.

(* {peer.public_key.key_to_bin(): peer for peer in peers_list}.values(): first occurrence of every key *)
Fixpoint dedup_peers (seen : list Z) (l : list peer) : list peer :=
  match l with
  | [] => []
  | p :: tl => if zmem (p_key p) seen then dedup_peers seen tl else p :: dedup_peers (p_key p :: seen) tl
  end.

(* on_create + should_join_circuit + join_circuit *)
Definition on_create (n : node) (src : Z) (cid ident npk : Z) (X : pk) (o : oracle) : out :=
  if negb (n_any_flag n) then done n []
  else if ahas cid (n_dreq n) then done n []
  else if ahas cid (n_circ n) || ahas cid (n_relay n) || ahas cid (n_exit n) then done n []   (* id in use *)
  else if n_max_joined n <=? zlen (n_relay n) + zlen (n_exit n) then done n []
  else
    let y := sk_of (o_x o) in
    match dh y X with
    | None => fail ValueError n []
    | Some s1 =>
        match dh (n_sk n) X with
        | None => fail ValueError n []
        | Some s2 =>
            let k := kdf s1 s2 in
            let Y := pub y in
            let au := mac s1 Y in
            if negb (valid_key npk) then fail ValueError n []           (* Peer(create_payload.node_public_key, ..) *)
            else
              let p := mkPeer npk src in
              let n1 := set_dreq n (aset cid (mkDreq p (dedup_peers [] (o_offer o))) (n_dreq n)) in
              let n2 := set_exit n1 (aset cid (mkHop p (Some k) None) (n_exit n1)) in
              done n2 [Send src (MCreated cid ident Y au (cenc_of k (map p_key (o_offer o))))]
        end
    end.

(* on_extend *)
Definition on_extend (n : node) (src : Z) (cid ident npk : Z) (X : pk) (addr : Z) (o : oracle) : out :=
  if negb (n_relay_flag n) then done n []
  else match aget cid (n_dreq n) with
  | None => done n []
  | Some rq =>
      let in_c := find_peer npk (d_cands rq) in
      if (addr =? 0) && (match in_c with None => true | Some _ => false end) then done n []
      else
        let cand : res peer :=
          match in_c with
          | Some p => Ok p
          | None => match o_known o with
                    | Some p => Ok p
                    | None => if valid_key npk then Ok (mkPeer npk addr) else Raise ValueError
                    end
          end in
        match cand with
        | Raise e => fail e n []
        | Ok cd =>
            let prev : res (option peer) :=
              match aget cid (n_circ n) with
              | Some c => match c_hops c with
                          | h :: _ => Ok (Some (h_peer h))
                          | [] => match c_unv c with Some u => Ok (Some (h_peer u)) | None => Raise TypeError end
                          end
              | None => match aget cid (n_exit n) with
                        | Some h => Ok (Some (h_peer h))
                        | None => match aget cid (n_relay n) with
                                  | Some r => Ok (Some (h_peer (rr_hop r)))
                                  | None => Ok None
                                  end
                        end
              end in
            match prev with
            | Raise e => fail e n []
            | Ok None => done n []
            | Ok (Some pv) =>
                let q := mkCreq ident (o_cid o) cid pv cd in
                let n1 := set_creq n (aset (o_num o) q (n_creq n)) in
                done n1 [Send (p_addr cd) (MCreate (o_cid o) (o_num o) (n_pkbin n) X)]
            end
        end
  end.

(* on_created *)
Definition on_created (n : node) (src : Z) (cid ident : Z) (Y : pk) (au : tag) (ce : cenc) (o : oracle) : out :=
  match aget ident (n_creq n) with
  | Some q =>
      let n1 := set_creq n (adel ident (n_creq n)) in
      match aget (q_from q) (n_exit n1) with
      | None => done n1 []
      | Some eh =>
          if ahas (q_from q) (n_relay n1) then done n1 []         (* already extended *)
          else
          let ks := h_keys eh in
          let bw := mkRoute (q_from q) (mkHop (q_peer q) ks None) false in
          let fw := mkRoute (q_to q) (mkHop (q_to_peer q) ks None) true in
          let n2 := set_relay n1 (aset (q_from q) fw (aset (q_to q) bw (n_relay n1))) in
          done n2 [RmExit (q_from q);
                   Send (p_addr (q_peer q)) (MExtended (q_from q) (q_ident q) Y au ce)]
      end
  | None =>
      match aget cid (n_retry n) with
      | Some r => if r_pid r =? ident then ours n cid Y au ce o else done n []
      | None => done n []
      end
  end.

(* on_extended *)
Definition on_extended (n : node) (src : Z) (cid ident : Z) (Y : pk) (au : tag) (ce : cenc) (o : oracle) : out :=
  match aget cid (n_retry n) with
  | Some r => if r_pid r =? ident then ours n cid Y au ce o else done n []
  | None => done n []
  end.

Definition handle (n : node) (src : Z) (m : msg) (o : oracle) : out :=
  match m with
  | MCreate cid ident npk X => on_create n src cid ident npk X o
  | MCreated cid ident Y au ce => on_created n src cid ident Y au ce o
  | MExtend cid ident npk X addr => on_extend n src cid ident npk X addr o
  | MExtended cid ident Y au ce => on_extended n src cid ident Y au ce o
  end.

(* try: ... except Exception: log *)
Definition swallow (r : out) : out := (fst (fst r), snd (fst r), None).

(* RequestCache._on_timeout + RetryRequestCache.on_timeout + the retry-later task *)
Definition retry_timeout (n : node) (cid : Z) (o : oracle) : out :=
  match aget cid (n_retry n) with
  | None => done n []
  | Some r =>
      let n1 := set_retry n (adel cid (n_retry n)) in
      match aget cid (n_circ n1) with
      | None => done n1 []
      | Some c =>
          if c_closing c then done n1 []
          else if r_initial r then
            match r_peers r with
            | [] => done (schedule_rm n1 cid) []
            | _ => if r_tries r <? 1 then done (schedule_rm n1 cid) []
                   else swallow (send_initial_create n1 cid (r_peers r) (r_tries r) o)
            end
          else
            match r_keys r with
            | [] => done (schedule_rm n1 cid) []
            | _ => if r_tries r <? 1 then done (schedule_rm n1 cid) []
                   else swallow (send_extend n1 cid (r_keys r) (r_tries r) o)
            end
      end
  end.

(* one registered task leaves the list *)
Fixpoint remove_one (k : Z) (l : list Z) : list Z :=
  match l with [] => [] | a :: tl => if a =? k then tl else a :: remove_one k tl end.

(* first part of the remove_circuit task: pop the retry cache, close the circuit *)
Definition run_remove (n : node) (cid : Z) : node :=
  let n0 := set_rm n (remove_one cid (n_rm n)) in
  let n1 := set_retry n0 (adel cid (n_retry n0)) in
  match aget cid (n_circ n1) with
  | None => n1
  | Some c => set_circ n1 (aset cid (with_closing c) (n_circ n1))
  end.

Inductive event :=
| EvNewCircuit (cid goal : Z) (reqexit : option peer) (firsts : list peer) (tries : Z) (o : oracle)
                                                   (* create_circuit: Circuit(..) + send_initial_create *)
| EvMsg (src : Z) (m : msg) (o : oracle)           (* a handler of decode_map_private runs *)
| EvTimeout (cid : Z) (o : oracle)                 (* the retry cache of cid times out *)
| EvRunRemove (cid : Z)                            (* a registered remove_circuit task starts *)
| EvPurge (cid : Z)                                (* ... and, remove_tunnel_delay later, pops the circuit *)
| EvExitGone (cid : Z).                            (* a remove_exit_socket task pops the exit socket *)

Definition step (n : node) (e : event) : out :=
  match e with
  | EvNewCircuit cid goal re firsts tries o =>
      if ahas cid (n_circ n) then done n []          (* _generate_circuit_id never returns a live id *)
      else send_initial_create (set_circ n (aset cid (mkCirc goal [] None false re) (n_circ n))) cid firsts tries o
  | EvMsg src m o => handle n src m o
  | EvTimeout cid o => retry_timeout n cid o
  | EvRunRemove cid => done (run_remove n cid) []
  | EvPurge cid => done (set_circ n (adel cid (n_circ n))) []
  | EvExitGone cid => done (set_exit n (adel cid (n_exit n))) []
  end.

Definition st (r : out) : node := fst (fst r).
Definition acts (r : out) : list action := snd (fst r).

Fixpoint run (n : node) (evs : list event) : node :=
  match evs with [] => n | e :: tl => run (st (step n e)) tl end.

(* all cells sent during a history, oldest first *)
Fixpoint run_acts (n : node) (evs : list event) : list action :=
  match evs with [] => [] | e :: tl => acts (step n e) ++ run_acts (st (step n e)) tl end.

(* the session keys a joined node holds for a circuit id: exit socket first, relay route otherwise *)
Definition node_keys (n : node) (cid : Z) : option keys :=
  match aget cid (n_exit n) with
  | Some h => h_keys h
  | None => match aget cid (n_relay n) with Some r => h_keys (rr_hop r) | None => None end
  end.

End HS.

Arguments mkHop {C}.
Arguments h_peer {C}.
Arguments h_keys {C}.
Arguments h_dh {C}.
Arguments mkCirc {C}.
Arguments c_goal {C}.
Arguments c_hops {C}.
Arguments c_unv {C}.
Arguments c_closing {C}.
Arguments c_reqexit {C}.
Arguments mkRoute {C}.
Arguments rr_cid {C}.
Arguments rr_hop {C}.
Arguments rr_fwd {C}.
Arguments MCreate {C}.
Arguments MCreated {C}.
Arguments MExtend {C}.
Arguments MExtended {C}.
Arguments Send {C}.
Arguments RmExit {C}.
Arguments mkNode {C}.
Arguments n_sk {C}.
Arguments n_pkbin {C}.
Arguments n_any_flag {C}.
Arguments n_relay_flag {C}.
Arguments n_max_joined {C}.
Arguments n_circ {C}.
Arguments n_exit {C}.
Arguments n_relay {C}.
Arguments n_retry {C}.
Arguments n_creq {C}.
Arguments n_dreq {C}.
Arguments n_rm {C}.
Arguments set_circ {C}.
Arguments set_exit {C}.
Arguments set_relay {C}.
Arguments set_retry {C}.
Arguments set_creq {C}.
Arguments set_dreq {C}.
Arguments set_rm {C}.
Arguments done {C}.
Arguments fail {C}.
Arguments cstate {C}.
Arguments with_hops_unv {C}.
Arguments with_closing {C}.
Arguments schedule_rm {C}.
Arguments send_initial_create {C}.
Arguments filter_cands {C}.
Arguments send_extend {C}.
Arguments ours {C}.
Arguments on_create {C}.
Arguments on_extend {C}.
Arguments on_created {C}.
Arguments on_extended {C}.
Arguments handle {C}.
Arguments retry_timeout {C}.
Arguments swallow {C}.
Arguments run_remove {C}.
Arguments EvNewCircuit {C}.
Arguments EvMsg {C}.
Arguments EvTimeout {C}.
Arguments EvRunRemove {C}.
Arguments EvPurge {C}.
Arguments EvExitGone {C}.
Arguments step {C}.
Arguments st {C}.
Arguments acts {C}.
Arguments run {C}.
Arguments run_acts {C}.
Arguments node_keys {C}.
