(* Overlay lifecycle: the listener table (M11_listeners) and the task managers (M11_tasks) an overlay
   instance owns, composed.  One `node` is ONE overlay instance together with everything it creates:
   its registration(s) on the endpoint (itself; for TunnelCommunity also the PythonCryptoEndpoint put
   in front of it by setup_tunnels), its own task manager (Overlay is a TaskManager), its RequestCache
   (a TaskManager), and its exit sockets (TunnelExitSocket: a TaskManager plus two datagram
   transports).
   The overlay acts only in four situations, and each is guarded by the component that enables it:
     - a datagram is delivered to one of its listeners          (listener table)
     - one of its tasks runs: periodic task, cache timeout, ...  (that task is live in its manager)
     - a datagram arrives at a transport of one of its sockets   (the transport is open)
     - the application calls its task-manager API               (answered by the manager)
   What it then does (`act`) is arbitrary and chosen by the environment.
   unload() is a list of steps; gen/G11_unload.v is regenerated from the source and gives, for every
   shipped overlay class, the steps of its unload() flattened through the MRO.  No proofs here. *)
From Coq Require Import ZArith List Bool Arith.
From IPV8V Require Import lib.PyErr lib.Bytes model.M11_listeners model.M11_tasks.
Import ListNotations.
Open Scope Z_scope.

(* ------------------------------------------------------------------ static description *)
Record cls := mkCls {
  has_cache : bool;          (* self.request_cache = RequestCache() *)
  has_crypto : bool;         (* installs a PythonCryptoEndpoint as additional listener *)
  has_socks : bool }.        (* creates TunnelExitSockets while running *)

Inductive ustep :=
| UBootstrappers             (* while self.bootstrappers: self.bootstrappers.pop().unload() *)
| URemovals                  (* self.remove_circuit / remove_relay / remove_exit_socket(..., remove_now=True): anonymous tasks *)
| UCacheShutdown             (* await self.request_cache.shutdown() *)
| URemoveSelf                (* self.endpoint.remove_listener(self) *)
| UShutdownTM                (* await self.shutdown_task_manager() *)
| URemoveCrypto              (* self.endpoint.remove_listener(self.crypto_endpoint) *)
| UCloseSockets              (* for exit_socket in self.exit_sockets.values(): await exit_socket.close() *)
| UCloseDB.                  (* self.database.close() *)

(* ------------------------------------------------------------------ state *)
Record sock := mkSock { s_open : bool; s_tm : tm }.

Record node := mkNode {
  n_ep : ep;
  n_me : lid;
  n_crypto : option lid;
  n_tm : tm;
  n_cache : option tm;
  n_socks : list sock }.

Inductive who := WOwn | WCache | WSock (i : nat).

Definition get_tm (n : node) (w : who) : option tm :=
  match w with
  | WOwn => Some (n_tm n)
  | WCache => n_cache n
  | WSock i => option_map s_tm (nth_error (n_socks n) i)
  end.
Definition set_tm (n : node) (w : who) (x : tm) : node :=
  match w with
  | WOwn => mkNode (n_ep n) (n_me n) (n_crypto n) x (n_cache n) (n_socks n)
  | WCache => mkNode (n_ep n) (n_me n) (n_crypto n) (n_tm n) (match n_cache n with Some _ => Some x | None => None end) (n_socks n)
  | WSock i => mkNode (n_ep n) (n_me n) (n_crypto n) (n_tm n) (n_cache n)
                      (upd (n_socks n) i (fun s => mkSock (s_open s) x))
  end.
Definition set_socks (n : node) (l : list sock) : node :=
  mkNode (n_ep n) (n_me n) (n_crypto n) (n_tm n) (n_cache n) l.
Definition set_ep (n : node) (e : ep) : node :=
  mkNode e (n_me n) (n_crypto n) (n_tm n) (n_cache n) (n_socks n).

(* observable behaviour of the overlay *)
Inductive nout :=
| NHandler (l : lid)                 (* on_packet of the overlay (or of its crypto endpoint) entered *)
| NSend                              (* endpoint.send *)
| NTask (w : who) (o : out)          (* a task-manager event: task body started, registration answered *)
| NFire (w : who) (tid : nat)        (* a task body ran (periodic call, timeout callback, continuation) *)
| NOutside (i : nat)                 (* a datagram arrived at a transport of socket i *)
| NSockSend (i : nat)                (* transport.sendto *)
| NSockOpened (i : nat)
| NApi.                              (* a pending API coroutine acted directly, in its caller's task *)

Definition tm_op (n : node) (w : who) (o : top) : node * list nout :=
  match get_tm n w with
  | Some x => let '(x', os) := tstep x o in (set_tm n w x', map (NTask w) os)
  | None => (n, [])
  end.

(* a new TaskManager: its constructor registers "_check_tasks" *)
Definition CHECKER : name := Named 0.
Definition CREATE_TRANSPORTS : name := Named 1.
Definition fresh_tm : tm := fst (tstep init_tm (Register CHECKER KCoro)).

Inductive act :=
| ASend
| ATask (w : who) (o : top)          (* any call into one of its task managers (register, replace, cancel, ...) *)
| ANewSock                           (* join_circuit: self.exit_sockets[cid] = TunnelExitSocket(...) *)
| AEnable (i : nat)                  (* exit_socket.enable(): register_task("create_transports", ...) *)
| ASockSend (i : nat)                (* exit_socket.sendto -> transport.sendto *)
| ACloseSock (i : nat).              (* await exit_socket.close() (remove_exit_socket) *)

Definition close_sock (s : sock) : sock := mkSock false (fst (tstep (s_tm s) Shutdown)).

Definition opened_ok (os : list out) : bool :=
  match os with [OReg (RNew _)] => true | _ => false end.

Definition perform1 (c : cls) (n : node) (a : act) : node * list nout :=
  match a with
  | ASend => (n, [NSend])
  | ATask w o => tm_op n w o
  | ANewSock => if has_socks c then (set_socks n (n_socks n ++ [mkSock false fresh_tm]), []) else (n, [])
  | AEnable i =>
      match nth_error (n_socks n) i with
      | Some s =>
          if s_open s then (n, [])
          else let '(x', os) := tstep (s_tm s) (Register CREATE_TRANSPORTS KCoro) in
               let b := opened_ok os in     (* refused by a shut-down manager: the transports never open *)
               (set_socks n (upd (n_socks n) i (fun _ => mkSock b x')), if b then [NSockOpened i] else [])
      | None => (n, [])
      end
  | ASockSend i =>
      match nth_error (n_socks n) i with
      | Some s => if s_open s then (n, [NSockSend i]) else (n, [])
      | None => (n, [])
      end
  | ACloseSock i => (set_socks n (upd (n_socks n) i close_sock), [])
  end.

Fixpoint perform (c : cls) (n : node) (acts : list act) : node * list nout :=
  match acts with
  | [] => (n, [])
  | a :: r => let '(n1, o1) := perform1 c n a in let '(n2, o2) := perform c n1 r in (n2, o1 ++ o2)
  end.

Inductive nevent :=
| EDatagram (d : bytes) (via_tunnel : option bool) (acts : list act)
     (* a datagram reaches the endpoint (socket, or TunnelEndpoint.notify_listeners(.., from_tunnel));
        acts: what the overlay's handler does if it is entered *)
| ETm (w : who) (o : top)
     (* the loop runs an iteration, a task finishes, somebody calls the task-manager API *)
| EFire (w : who) (tid : nat) (acts : list act)
     (* task tid of manager w runs a piece of its body (a period elapsed, a cache timed out) *)
| EOutside (i : nat) (acts : list act)
     (* a datagram from the Internet arrives at a transport of exit socket i *)
| EApiStep (routed : bool) (acts : list act).
     (* a public coroutine of the overlay that the APPLICATION is awaiting (store_value, connect_peer, ...) resumes
        in the caller's task - unload() cannot cancel it - and reaches its next sending step.  routed: that step is
        a @task / registered task of the overlay's own manager (gen/G11_unload.v public_coroutines says which
        public coroutines are built that way); otherwise it acts directly. *)

Definition started_ok (os : list nout) : bool :=
  match os with [NTask _ (OReg (RNew _))] => true | _ => false end.

Definition is_mine (n : node) (l : lid) : bool :=
  (l =? n_me n) || match n_crypto n with Some c => l =? c | None => false end.

Definition nstep (c : cls) (n : node) (e : nevent) : node * list nout :=
  match e with
  | EDatagram d via acts =>
      let calls := called (n_ep n) (match via with None => Socket d | Some ft => Tunnel d ft end) in
      match filter (is_mine n) calls with
      | [] => (n, [])
      | l :: _ => let '(n', os) := perform c n acts in (n', NHandler l :: os)
      end
  | ETm w o => tm_op n w o
  | EFire w tid acts =>
      match get_tm n w with
      | Some x =>
          match get x tid with
          | Some t => if live t then let '(n', os) := perform c n acts in (n', NFire w tid :: os) else (n, [])
          | None => (n, [])
          end
      | None => (n, [])
      end
  | EOutside i acts =>
      match nth_error (n_socks n) i with
      | Some s => if s_open s then let '(n', os) := perform c n acts in (n', NOutside i :: os) else (n, [])
      | None => (n, [])
      end
  | EApiStep routed acts =>
      if routed then
        let '(n1, os) := tm_op n WOwn (RegisterAnon 9 KCoro) in
        if started_ok os then let '(n2, o2) := perform c n1 acts in (n2, os ++ o2) else (n1, os)
      else let '(n', os) := perform c n acts in (n', NApi :: os)
  end.

Definition event_routed (e : nevent) : bool := match e with EApiStep r _ => r | _ => true end.

(* one step of unload() *)
Definition ustep_apply (c : cls) (n : node) (u : ustep) : node * list nout :=
  match u with
  | UBootstrappers => (n, [])
  | URemovals =>      (* one removal task per exit socket (circuits and relays hold no resources) *)
      fold_left (fun acc _ => let '(n0, o0) := acc in
                              let '(n1, o1) := tm_op n0 WOwn (RegisterAnon 7 KCoro) in (n1, o0 ++ o1))
                (n_socks n) (n, [])
  | UCacheShutdown => tm_op n WCache Shutdown
  | URemoveSelf => (set_ep n (fst (step (n_ep n) (RemL (n_me n)))), [])
  | UShutdownTM => tm_op n WOwn Shutdown
  | URemoveCrypto =>
      match n_crypto n with
      | Some l => (set_ep n (fst (step (n_ep n) (RemL l))), [])
      | None => (n, [])
      end
  | UCloseSockets => (set_socks n (map close_sock (n_socks n)), [])
  | UCloseDB => (n, [])
  end.

(* a history: steps of unload() interleaved with whatever else happens meanwhile *)
Inductive item := IStep (u : ustep) | IEvent (e : nevent).

Definition istep (c : cls) (n : node) (i : item) : node * list nout :=
  match i with IStep u => ustep_apply c n u | IEvent e => nstep c n e end.

Fixpoint irun (c : cls) (n : node) (l : list item) : node * list nout :=
  match l with
  | [] => (n, [])
  | i :: r => let '(n1, o1) := istep c n i in let '(n2, o2) := irun c n1 r in (n2, o1 ++ o2)
  end.

Definition item_routed (i : item) : bool := match i with IEvent e => event_routed e | IStep _ => true end.

Definition steps_of (l : list item) : list ustep :=
  flat_map (fun i => match i with IStep u => [u] | IEvent _ => [] end) l.

(* ------------------------------------------------------------------ is an unload() complete? *)
(* what has been achieved after a prefix of the steps: the overlay is off the endpoint (itself /
   its crypto endpoint), its managers are shut down, its sockets are closed for good.  Closing the
   sockets only counts once nothing can create or open one any more. *)
Record flags := mkF { f_self : bool; f_crypto : bool; f_own : bool; f_cache : bool; f_socks : bool }.

Definition flags0 (c : cls) : flags :=
  mkF false (negb (has_crypto c)) false (negb (has_cache c)) false.

Definition flag_step (fl : flags) (u : ustep) : flags :=
  match u with
  | URemoveSelf => mkF true (f_crypto fl) (f_own fl) (f_cache fl) (f_socks fl)
  | URemoveCrypto => mkF (f_self fl) true (f_own fl) (f_cache fl) (f_socks fl)
  | UShutdownTM => mkF (f_self fl) (f_crypto fl) true (f_cache fl) (f_socks fl)
  | UCacheShutdown => mkF (f_self fl) (f_crypto fl) (f_own fl) true (f_socks fl)
  | UCloseSockets => mkF (f_self fl) (f_crypto fl) (f_own fl) (f_cache fl)
                         (f_socks fl || (f_self fl && f_crypto fl && f_own fl && f_cache fl))
  | _ => fl
  end.

Definition flags_all (fl : flags) : bool := f_self fl && f_crypto fl && f_own fl && f_cache fl && f_socks fl.

(* an overlay class that never creates a socket has none to close *)
Definition complete_unload (c : cls) (steps : list ustep) : bool :=
  let fl := fold_left flag_step steps (flags0 c) in
  f_self fl && f_crypto fl && f_own fl && f_cache fl && (f_socks fl || negb (has_socks c)).

(* ------------------------------------------------------------------ correspondence plumbing *)
(* the harness abstracts a real overlay before unload (alpha) into a node whose managers hold the
   observed tasks, replays the steps of the generated unload list, and compares the abstraction of
   the real overlay after unload() has returned *)
Definition tm_of_tasks (names : list (name * bool)) (shutdown : bool) : tm :=
  (* tasks that are pending in the manager: (name, already started?) *)
  let s := fst (trun init_tm (map (fun nb => Register (fst nb) KCoro) names)) in
  let s := fst (tstep s Tick) in
  if shutdown then fst (tstep s Shutdown) else s.

Definition settle (x : tm) : tm := fst (trun x [Tick; Tick; Tick]).

Record nobs := mkObs {
  o_self_listening : bool; o_crypto_listening : bool;
  o_own_shut : bool; o_own_pending : nat;
  o_cache_shut : bool; o_cache_pending : nat;
  o_socks_open : nat; o_sock_tasks : nat }.

Definition tm_unfinished (x : tm) : nat := length (filter (fun t => negb (is_done (t_st t))) (tasks x)).
Definition listening (e : ep) (l : lid) : bool :=
  memz l (glob (inner e)) || existsb (fun en => memz l (snd en)) (pmap (inner e)).

Definition observe_node (n : node) : nobs :=
  let cache := match n_cache n with Some x => settle x | None => fresh_tm end in
  mkObs (listening (n_ep n) (n_me n))
        (match n_crypto n with Some l => listening (n_ep n) l | None => false end)
        (shut (n_tm n)) (tm_unfinished (settle (n_tm n)))
        (match n_cache n with Some x => shut x | None => true end)
        (match n_cache n with Some _ => tm_unfinished cache | None => O end)
        (length (filter s_open (n_socks n)))
        (fold_left (fun a s => (a + tm_unfinished (settle (s_tm s)))%nat) (n_socks n) O).

Definition nobs_eqb (a b : nobs) : bool :=
  Bool.eqb (o_self_listening a) (o_self_listening b) && Bool.eqb (o_crypto_listening a) (o_crypto_listening b)
  && Bool.eqb (o_own_shut a) (o_own_shut b) && Nat.eqb (o_own_pending a) (o_own_pending b)
  && Bool.eqb (o_cache_shut a) (o_cache_shut b) && Nat.eqb (o_cache_pending a) (o_cache_pending b)
  && Nat.eqb (o_socks_open a) (o_socks_open b) && Nat.eqb (o_sock_tasks a) (o_sock_tasks b).

Definition run_unload_case (x : cls * node * list ustep) : nobs :=
  let '(c, n, steps) := x in observe_node (fst (irun c n (map IStep steps))).
