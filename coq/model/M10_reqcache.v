(* Executable model of ipv8/requestcache.py (RequestCache, NumberCache, RandomNumberCache),
   the part of ipv8/taskmanager.py it uses (register_task with delay, cancel_pending_task,
   cancel_all_pending_tasks, done callback) and lazy_community.retrieve_cache.
   No proofs here.

   State mirrors the two dictionaries of the implementation:
     table  = RequestCache._identifiers   ("prefix:number" -> cache object)
     tasks  = TaskManager._pending_tasks  (name = cache object -> its timeout task, live ones only)
   Cache objects are indices into a static population `cfg` (prefix, number, timeout_delay,
   class tags, managed futures, the script its on_timeout callback executes).

   The asyncio loop is modelled at the granularity of one loop iteration (`_run_once`):
     IterBegin : timers whose deadline has passed get their sleep future resolved (TSleep -> TWoken),
                 tasks woken in the previous iteration become runnable (TWoken -> TReady),
                 freshly created tasks take their first step (TCreated d -> TSleep (now+d), or
                 runnable at once when the delay is 0, as register_task then skips delay_runner).
     Fire c    : the scheduler runs the timeout task of cache c (enabled only in TReady);
                 the order of Fire operations inside an iteration is chosen by the environment.
     IterEnd   : reports the runnable tasks that were not run (a real loop leaves none).
   A task that is sleeping, woken or runnable can still be cancelled (asyncio: Task.cancel on a
   task whose wake-up is already scheduled sets _must_cancel and the coroutine never resumes). *)
From Coq Require Import ZArith List Bool Arith.
From IPV8V Require Import lib.PyErr.
Import ListNotations.
Open Scope Z_scope.

(* ---------------------------------------------------------------- static description of caches *)
Inductive fspec := SNone | SVal (v : Z) | SExc (v : Z).          (* register_future(fut, on_timeout=...) *)
Inductive fstate := FPending | FNone | FVal (v : Z) | FExc (v : Z) | FCancelled | FExt.

(* operations that are plain synchronous calls: usable at top level and inside on_timeout *)
Inductive bop :=
| BAdd (c : nat)                       (* request_cache.add(cache c) *)
| BPop (p n : Z)                       (* request_cache.pop(prefix, number) *)
| BRetr (p n : Z)                      (* a handler decorated with @retrieve_cache receives a response *)
| BHas (p n : Z)
| BGet (p n : Z)
| BNew (p n : Z)                       (* NumberCache.__init__(request_cache, prefix, number) *)
| BFind (p : Z) (draws : list Z)       (* RandomNumberCache.find_unclaimed_identifier, draws = the random numbers *)
| BClear
| BSetFut (c k : nat)                  (* the response handler completes managed future k of cache c *)
| BPassEnter (t : Z) (f : option (list Z))   (* passthrough(filters f, timeout=t).__enter__ *)
| BPassExit.

Record cache := mkCache {
  c_prefix : Z; c_number : Z; c_delay : Z; c_classes : list Z;
  c_futs : list fspec; c_script : list bop }.

Definition dflt_cache : cache := mkCache 0 0 1 [] [] [].
Definition getc (cfg : list cache) (c : nat) : cache := nth c cfg dflt_cache.

Definition key := (Z * Z)%type.
Definition key_eqb (a b : key) : bool := (fst a =? fst b) && (snd a =? snd b).
Definition ckey (cfg : list cache) (c : nat) : key := (c_prefix (getc cfg c), c_number (getc cfg c)).

(* ---------------------------------------------------------------- state *)
Inductive tstate := TCreated (d : Z) | TSleep (dl : Z) | TWoken | TReady.

Record st := mkSt {
  table : list (key * nat);
  tasks : list (nat * tstate);
  futs : list (list fstate);           (* per cache object, the state of its managed futures *)
  now : Z;
  shut : bool;
  ovr : option Z;                      (* _timeout_override *)
  filt : option (list Z) }.            (* _timeout_filters *)

Definition init_futs (cfg : list cache) : list (list fstate) :=
  map (fun k => map (fun _ => FPending) (c_futs k)) cfg.
Definition init (cfg : list cache) : st := mkSt [] [] (init_futs cfg) 0 false None None.

Fixpoint tbl_get (t : list (key * nat)) (k : key) : option nat :=
  match t with
  | [] => None
  | (k', c) :: r => if key_eqb k' k then Some c else tbl_get r k
  end.
Definition tbl_del (t : list (key * nat)) (k : key) : list (key * nat) :=
  filter (fun e => negb (key_eqb (fst e) k)) t.

Fixpoint tk_get (l : list (nat * tstate)) (c : nat) : option tstate :=
  match l with
  | [] => None
  | (c', x) :: r => if Nat.eqb c' c then Some x else tk_get r c
  end.
Definition tk_del (l : list (nat * tstate)) (c : nat) : list (nat * tstate) :=
  filter (fun e => negb (Nat.eqb (fst e) c)) l.

Fixpoint upd {A} (l : list A) (i : nat) (f : A -> A) : list A :=
  match l, i with
  | [], _ => []
  | x :: r, O => f x :: r
  | x :: r, S j => x :: upd r j f
  end.

Definition cancel_fut (f : fstate) : fstate := match f with FPending => FCancelled | x => x end.
Definition cancel_futs (fs : list (list fstate)) (c : nat) : list (list fstate) := upd fs c (map cancel_fut).

Definition timeout_fut (sp : fspec) (f : fstate) : fstate :=
  match f with
  | FPending => match sp with SNone => FNone | SVal v => FVal v | SExc v => FExc v end
  | x => x
  end.
Fixpoint timeout_futl (sps : list fspec) (fl : list fstate) : list fstate :=
  match sps, fl with
  | sp :: sr, f :: fr => timeout_fut sp f :: timeout_futl sr fr
  | _, _ => fl
  end.

Definition set_table s t := mkSt t (tasks s) (futs s) (now s) (shut s) (ovr s) (filt s).
Definition set_tasks s t := mkSt (table s) t (futs s) (now s) (shut s) (ovr s) (filt s).
Definition set_futs s f := mkSt (table s) (tasks s) f (now s) (shut s) (ovr s) (filt s).

(* ---------------------------------------------------------------- observations *)
Inductive addres := AAdded | ADup | ADropped | ARaise (e : exn).

Inductive obs :=
| OAdd (c : nat) (r : addres)
| OPop (p n : Z) (r : res nat)
| ORetr (p n : Z) (r : option nat)         (* Some c: handler called with cache c; None: cache_retrieval_failed *)
| OHas (p n : Z) (b : bool)
| OGet (p n : Z) (r : option nat)
| ONew (p n : Z) (raised : bool)           (* RuntimeError "number already in use" *)
| OFind (p : Z) (r : res Z)
| OClear (cs : list nat)                   (* caches that were in the table *)
| OShutdown (cs : list nat)
| OTimeout (c : nat)                       (* cache c's on_timeout is entered *)
| OTimeoutEnd (c : nat) (fs : list fstate) (* _on_timeout returns; states of c's managed futures *)
| ORefused (c : nat)                       (* Fire on a task that is not runnable: nothing happens *)
| OIterEnd (stale : list nat)
| OSnap (tbl : list (key * nat)) (live : list nat) (fs : list (list fstate)) (sh : bool)
| ONop.

(* ---------------------------------------------------------------- synchronous operations *)
Definition filter_match (f : list Z) (classes : list Z) : bool :=
  existsb (fun x => existsb (Z.eqb x) classes) f.

Definition eff_delay (s : st) (k : cache) : Z :=
  match ovr s with
  | Some t => match filt s with
              | None => t
              | Some f => if filter_match f (c_classes k) then t else c_delay k
              end
  | None => c_delay k
  end.

Fixpoint first_unclaimed (t : list (key * nat)) (p : Z) (draws : list Z) : res Z :=
  match draws with
  | [] => Raise RuntimeError
  | n :: r => match tbl_get t (p, n) with None => Ok n | Some _ => first_unclaimed t p r end
  end.

Definition step_b (cfg : list cache) (s : st) (b : bop) : st * list obs :=
  match b with
  | BAdd c =>
      let k := getc cfg c in
      if c_delay k <=? 0 then (s, [OAdd c (ARaise AssertionError)])
      else if shut s then (set_futs s (cancel_futs (futs s) c), [OAdd c ADropped])
      else match tbl_get (table s) (ckey cfg c) with
           | Some _ => (s, [OAdd c ADup])
           | None =>
               let s1 := set_table s (table s ++ [(ckey cfg c, c)]) in
               match tk_get (tasks s) c with
               | Some _ => (s1, [OAdd c (ARaise RuntimeError)])     (* register_task: "Task already exists" *)
               | None => (set_tasks s1 (tasks s ++ [(c, TCreated (eff_delay s k))]), [OAdd c AAdded])
               end
           end
  | BPop p n =>
      match tbl_get (table s) (p, n) with
      | None => (s, [OPop p n (Raise KeyError)])
      | Some c => (set_tasks (set_table s (tbl_del (table s) (p, n))) (tk_del (tasks s) c), [OPop p n (Ok c)])
      end
  | BRetr p n =>
      match tbl_get (table s) (p, n) with
      | None => (s, [ORetr p n None])
      | Some c => (set_tasks (set_table s (tbl_del (table s) (p, n))) (tk_del (tasks s) c), [ORetr p n (Some c)])
      end
  | BHas p n => (s, [OHas p n (match tbl_get (table s) (p, n) with Some _ => true | None => false end)])
  | BGet p n => (s, [OGet p n (tbl_get (table s) (p, n))])
  | BNew p n => (s, [ONew p n (match tbl_get (table s) (p, n) with Some _ => true | None => false end)])
  | BFind p draws => (s, [OFind p (first_unclaimed (table s) p draws)])
  | BClear => (set_tasks (set_table s []) [], [OClear (map snd (table s))])
  | BSetFut c k =>
      (set_futs s (upd (futs s) c (fun fl => upd fl k (fun f => match f with FPending => FExt | x => x end))), [ONop])
  | BPassEnter t f => (mkSt (table s) (tasks s) (futs s) (now s) (shut s) (Some t) f, [ONop])
  | BPassExit => (mkSt (table s) (tasks s) (futs s) (now s) (shut s) None None, [ONop])
  end.

Fixpoint run_b (cfg : list cache) (s : st) (bs : list bop) : st * list obs :=
  match bs with
  | [] => (s, [])
  | b :: r => let '(s1, o1) := step_b cfg s b in
              let '(s2, o2) := run_b cfg s1 r in (s2, o1 ++ o2)
  end.

(* ---------------------------------------------------------------- loop and asynchronous operations *)
Inductive op :=
| OpB (b : bop)
| Advance (dt : Z)
| IterBegin
| Fire (c : nat)
| IterEnd
| Shutdown                             (* the synchronous part of `await request_cache.shutdown()` *)
| Snap.

Definition iter_begin1 (t : Z) (x : tstate) : tstate :=
  match x with
  | TCreated d => if d =? 0 then TReady else if d <? 0 then TWoken else TSleep (t + d)
  | TSleep dl => if dl <=? t then TWoken else TSleep dl
  | TWoken => TReady
  | TReady => TReady
  end.

Definition is_ready (x : tstate) : bool := match x with TReady => true | _ => false end.

(* RequestCache._on_timeout(cache c), run by the task registered for it *)
Definition fire (cfg : list cache) (s : st) (c : nat) : st * list obs :=
  match tk_get (tasks s) c with
  | Some TReady =>
      let s1 := set_tasks (set_table s (tbl_del (table s) (ckey cfg c))) (tk_del (tasks s) c) in
      let '(s2, o2) := run_b cfg s1 (c_script (getc cfg c)) in
      let s3 := set_futs s2 (upd (futs s2) c (timeout_futl (c_futs (getc cfg c)))) in
      (s3, OTimeout c :: o2 ++ [OTimeoutEnd c (nth c (futs s3) [])])
  | _ => (s, [ORefused c])
  end.

Definition step (cfg : list cache) (s : st) (o : op) : st * list obs :=
  match o with
  | OpB b => step_b cfg s b
  | Advance dt => (mkSt (table s) (tasks s) (futs s) (now s + Z.max 0 dt) (shut s) (ovr s) (filt s), [ONop])
  | IterBegin => (set_tasks s (map (fun e => (fst e, iter_begin1 (now s) (snd e))) (tasks s)), [ONop])
  | Fire c => fire cfg s c
  | IterEnd => (s, [OIterEnd (map fst (filter (fun e => is_ready (snd e)) (tasks s)))])
  | Shutdown =>
      let cs := map snd (table s) in
      (mkSt [] [] (fold_left cancel_futs cs (futs s)) (now s) true (ovr s) (filt s), [OShutdown cs])
  | Snap => (s, [OSnap (table s) (map fst (tasks s)) (futs s) (shut s)])
  end.

Fixpoint run (cfg : list cache) (s : st) (ops : list op) : st * list obs :=
  match ops with
  | [] => (s, [])
  | o :: r => let '(s1, o1) := step cfg s o in
              let '(s2, o2) := run cfg s1 r in (s2, o1 ++ o2)
  end.

(* ---------------------------------------------------------------- the property on one observed history *)
Inductive ev := EAdded (c : nat) | EPopped (c : nat) | ETimeout (c : nat) | EDropped (cs : list nat) | EShut.

Definition ev_of (o : obs) : list ev :=
  match o with
  | OAdd c AAdded => [EAdded c]
  | OPop _ _ (Ok c) => [EPopped c]
  | ORetr _ _ (Some c) => [EPopped c]
  | OTimeout c => [ETimeout c]
  | OClear cs => [EDropped cs]
  | OShutdown cs => [EDropped cs; EShut]
  | _ => []
  end.
Definition events (os : list obs) : list ev := flat_map ev_of os.

Definition memn (c : nat) (l : list nat) : bool := existsb (Nat.eqb c) l.
Definition deln (c : nat) (l : list nat) : list nat := filter (fun x => negb (Nat.eqb x c)) l.

(* holds: `out` = caches currently outstanding, `sh` = shutdown seen.
   - a cache is accepted only when not shut down and no outstanding cache has its (prefix, number);
   - a pop result / a timeout is only ever delivered for an outstanding cache, and ends it;
   - clear/shutdown drop outstanding caches only; after shutdown nothing times out or is accepted. *)
Fixpoint holds (cfg : list cache) (out : list nat) (sh : bool) (l : list ev) : bool :=
  match l with
  | [] => true
  | EAdded c :: r =>
      negb sh && negb (existsb (fun c' => key_eqb (ckey cfg c') (ckey cfg c)) out) && holds cfg (out ++ [c]) sh r
  | EPopped c :: r => memn c out && holds cfg (deln c out) sh r
  | ETimeout c :: r => negb sh && memn c out && holds cfg (deln c out) sh r
  | EDropped cs :: r => forallb (fun c => memn c out) cs && holds cfg (filter (fun x => negb (memn x cs)) out) sh r
  | EShut :: r => match out with [] => holds cfg [] true r | _ => false end
  end.

(* ---------------------------------------------------------------- harness plumbing: decidable equality on observations *)
Fixpoint list_eqb {A} (e : A -> A -> bool) (a b : list A) : bool :=
  match a, b with
  | [], [] => true
  | x :: a', y :: b' => e x y && list_eqb e a' b'
  | _, _ => false
  end.
Definition opt_eqb {A} (e : A -> A -> bool) (a b : option A) : bool :=
  match a, b with Some x, Some y => e x y | None, None => true | _, _ => false end.
Definition fstate_eqb (a b : fstate) : bool :=
  match a, b with
  | FPending, FPending | FNone, FNone | FCancelled, FCancelled | FExt, FExt => true
  | FVal x, FVal y | FExc x, FExc y => x =? y
  | _, _ => false
  end.
Definition addres_eqb (a b : addres) : bool :=
  match a, b with
  | AAdded, AAdded | ADup, ADup | ADropped, ADropped => true
  | ARaise e, ARaise f => exn_eqb e f
  | _, _ => false
  end.
Definition ent_eqb (a b : key * nat) : bool := key_eqb (fst a) (fst b) && Nat.eqb (snd a) (snd b).
Definition obs_eqb (a b : obs) : bool :=
  match a, b with
  | OAdd c r, OAdd c' r' => Nat.eqb c c' && addres_eqb r r'
  | OPop p n r, OPop p' n' r' => (p =? p') && (n =? n') && res_eqb Nat.eqb r r'
  | ORetr p n r, ORetr p' n' r' => (p =? p') && (n =? n') && opt_eqb Nat.eqb r r'
  | OHas p n b, OHas p' n' b' => (p =? p') && (n =? n') && Bool.eqb b b'
  | OGet p n r, OGet p' n' r' => (p =? p') && (n =? n') && opt_eqb Nat.eqb r r'
  | ONew p n b, ONew p' n' b' => (p =? p') && (n =? n') && Bool.eqb b b'
  | OFind p r, OFind p' r' => (p =? p') && res_eqb Z.eqb r r'
  | OClear cs, OClear cs' | OShutdown cs, OShutdown cs' | OIterEnd cs, OIterEnd cs' => list_eqb Nat.eqb cs cs'
  | OTimeout c, OTimeout c' | ORefused c, ORefused c' => Nat.eqb c c'
  | OTimeoutEnd c fs, OTimeoutEnd c' fs' => Nat.eqb c c' && list_eqb fstate_eqb fs fs'
  | OSnap t l f s, OSnap t' l' f' s' =>
      list_eqb ent_eqb t t' && list_eqb Nat.eqb l l' && list_eqb (list_eqb fstate_eqb) f f' && Bool.eqb s s'
  | ONop, ONop => true
  | _, _ => false
  end.

(* a correspondence case: population, flattened schedule observed on the implementation *)
Definition case := (list cache * list op)%type.
Definition run_case (c : case) : list obs := snd (run (fst c) (init (fst c)) (snd c)).
Definition obsl_eqb : list obs -> list obs -> bool := list_eqb obs_eqb.
(* the oracle evaluated on the model's own history (must be true by theorem) *)
Definition holds_case (c : case) : bool := holds (fst c) [] false (events (run_case c)).
