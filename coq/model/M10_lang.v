(* A small imperative language in which tools/tr/tr_reqcache.py re-expresses the bodies of
   RequestCache.add / has / get / pop / passthrough / _on_timeout / clear / shutdown, NumberCache.__init__ and
   RandomNumberCache.find_unclaimed_identifier (gen/G10_reqcache.v), and its interpreter over the state `st` of
   model/M10_reqcache.v.  No proofs here.

   What stays a runtime primitive (its behaviour is the task / timer model of M10_reqcache):
     SRegisterTimeout   TaskManager.register_task(name, self._on_timeout, cache, delay=d)
     SCancelTask        TaskManager.cancel_pending_task(name)
     SCancelAll         TaskManager.cancel_all_pending_tasks()
     SCallOnTimeout     cache.on_timeout()            (the callback: a parameter of the interpreter)
     XHas               request_cache.has(p, n)       (a parameter of the interpreter: the generated `has`)
     futures            Future.done / cancel / set_result / set_exception on the managed futures
   Not modelled (evaluate to nothing / are skipped): logging, the thread locks, RequestCache._waiters,
   awaiting the cancelled tasks at the end of shutdown. *)
From Coq Require Import ZArith List Bool Arith.
From IPV8V Require Import lib.PyErr model.M10_reqcache.
Import ListNotations.
Open Scope Z_scope.

Inductive pyty := TyNumberCache | TyInt | TyStr | TyNumber | TyException.     (* TyNumber = (int, float) *)
Inductive attr := ANumber | APrefix | ATimeoutDelay | AName.
Inductive sattr := SfShutdown | SfOverride | SfFilters.    (* self._shutdown / _timeout_override / _timeout_filters *)

Inductive val :=
| VNone
| VBool (b : bool)
| VInt (z : Z)
| VStr (p : Z)                       (* a prefix string, by its identifier *)
| VClass (tag name : Z)              (* a cache class: its tag (for issubclass) and its `name` attribute *)
| VKey (k : key)                     (* an identifier "prefix:number" *)
| VCache (c : nat)
| VFut (c k : nat)                   (* managed future k of cache c *)
| VSpec (sp : fspec)                 (* the on_timeout value registered with a future *)
| VList (l : list val)
| VTasks                             (* the list returned by cancel_all_pending_tasks *)
| VOpaque.                           (* strings built for messages *)

Inductive expr :=
| XNone
| XBool (b : bool)
| XInt (z : Z)
| XOpaque
| XLocal (i : nat)
| XSelf (a : sattr)
| XAttr (e : expr) (a : attr)
| XIdent (number prefix : expr)      (* self._create_identifier(number, prefix) *)
| XIn (k : expr)                     (* k in self._identifiers *)
| XGet (k : expr)                    (* self._identifiers.get(k) *)
| XIsNone (e : expr)
| XNot (e : expr)
| XAnd (a b : expr)
| XOr (a b : expr)
| XGt (a b : expr)
| XIsInst (e : expr) (t : pyty)
| XAnyFilter (c : expr)              (* any(issubclass(c.__class__, f) for f in self._timeout_filters) *)
| XFutDone (f : expr)
| XHas (p n : expr)                  (* request_cache.has(p, n) *)
| XTruthy (e : expr)
| XCons (h t : expr)                 (* [h, *list(t)] *)
| XIfExp (c a b : expr).

Inductive stmt :=
| SSkip
| SSeq (a b : stmt)
| SAssign (i : nat) (e : expr)
| SAssert (e : expr)
| SIf (e : expr) (a b : stmt)
| SReturn (e : expr)
| SRaise (x : exn)
| STblSet (k v : expr)               (* self._identifiers[k] = v *)
| STblPop (dst : option nat) (k : expr)      (* [dst =] self._identifiers.pop(k) *)
| STblClear
| SSetSelf (a : sattr) (e : expr)
| SRegisterTimeout (name arg delay : expr)
| SCancelTask (name : expr)
| SCancelAll (dst : option nat)
| SForFutures (c : expr) (fi oi : option nat) (body : stmt)   (* for fi, oi in c.managed_futures: body *)
| SForCaches (ci : nat) (body : stmt)                         (* for ci in self._identifiers.values(): body *)
| SFutCancel (f : expr)
| SFutSetResult (f v : expr)
| SFutSetException (f v : expr)
| SCallOnTimeout (c : expr)
| SWaiterPop (dst : nat)             (* dst = self._waiters.pop(<key>, None) : no waiters in the model *)
| STailSelf (args : list expr)       (* return self.<this function>(args) *)
| SAwaitTasks                        (* with suppress(CancelledError): await gather( *tasks ) *)
| SDrawNumber (dst : nat)            (* dst = int(random() * 2 ** 16) *)
| SForRangeElse (n : Z) (body els : stmt)
| SBreak.

Inductive outcome := ONormal | OReturn (v : val) | ORaise (e : exn) | OTail (args : list val) | OBreak.

(* execution state: model state, locals, observations produced by callbacks, the pending random draws *)
Definition env := nat -> val.
Record xs := mkXs { x_st : st; x_env : env; x_obs : list obs; x_draws : list Z }.

Definition env_get (e : env) (i : nat) : val := e i.
Definition env_set (e : env) (i : nat) (v : val) : env := fun j => if Nat.eqb j i then v else e j.
Definition env_of_list (l : list val) : env := fun i => nth i l VNone.
Definition set_local (x : xs) (i : nat) (v : val) : xs := mkXs (x_st x) (env_set (x_env x) i v) (x_obs x) (x_draws x).
Definition set_local_opt (x : xs) (i : option nat) (v : val) : xs :=
  match i with Some j => set_local x j v | None => x end.
Definition with_st (x : xs) (s : st) : xs := mkXs s (x_env x) (x_obs x) (x_draws x).

(* loops: run the body once per item (bound into the locals by `bind`); `break` ends the loop normally *)
Fixpoint loop_items {A} (bind : A -> xs -> xs) (run : xs -> xs * outcome) (items : list A) (x : xs) : xs * outcome :=
  match items with
  | [] => (x, ONormal)
  | it :: r => match run (bind it x) with
               | (x1, ONormal) => loop_items bind run r x1
               | (x1, OBreak) => (x1, ONormal)
               | res => res
               end
  end.
(* for _ in range(n): body  else: els *)
Fixpoint loop_fuel (run els : xs -> xs * outcome) (fuel : nat) (x : xs) : xs * outcome :=
  match fuel with
  | O => els x
  | S f => match run x with
           | (x1, ONormal) => loop_fuel run els f x1
           | (x1, OBreak) => (x1, ONormal)
           | res => res
           end
  end.

Definition fut_get (s : st) (c k : nat) : option fstate := nth_error (nth c (futs s) []) k.
Definition fut_upd (s : st) (c k : nat) (f : fstate -> fstate) : st :=
  set_futs s (upd (futs s) c (fun fl => upd fl k f)).

Definition truthy (v : val) : bool :=
  match v with
  | VNone => false | VBool b => b | VInt z => negb (z =? 0) | VList l => negb (match l with [] => true | _ => false end)
  | _ => true
  end.

Section Interp.
Variable cfg : list cache.
Variable on_timeout_cb : st -> nat -> st * list obs.       (* cache.on_timeout() *)
Variable has_cb : st -> val -> val -> res bool.            (* request_cache.has(p, n) *)

Definition tags_of (l : list val) : list Z :=
  flat_map (fun v => match v with VClass t _ => [t] | _ => [] end) l.

Fixpoint eval (s : st) (env : env) (e : expr) : res val :=
  match e with
  | XNone => Ok VNone
  | XBool b => Ok (VBool b)
  | XInt z => Ok (VInt z)
  | XOpaque => Ok VOpaque
  | XLocal i => Ok (env_get env i)
  | XSelf SfShutdown => Ok (VBool (shut s))
  | XSelf SfOverride => Ok (match ovr s with Some t => VInt t | None => VNone end)
  | XSelf SfFilters => Ok (match filt s with Some l => VList (map (fun t => VClass t 0) l) | None => VNone end)
  | XAttr e a =>
      match eval s env e with
      | Ok (VCache c) =>
          match a with
          | ANumber => Ok (VInt (c_number (getc cfg c)))
          | APrefix => Ok (VStr (c_prefix (getc cfg c)))
          | ATimeoutDelay => Ok (VInt (c_delay (getc cfg c)))
          | AName => Raise TypeError
          end
      | Ok (VClass _ nm) => match a with AName => Ok (VStr nm) | _ => Raise TypeError end
      | Ok _ => Raise TypeError
      | Raise x => Raise x
      end
  | XIdent n p =>
      match eval s env n with
      | Ok (VInt nz) => match eval s env p with
                        | Ok (VStr pz) => Ok (VKey (pz, nz))
                        | Ok _ => Raise TypeError
                        | Raise x => Raise x
                        end
      | Ok _ => Raise TypeError
      | Raise x => Raise x
      end
  | XIn k =>
      match eval s env k with
      | Ok (VKey kk) => Ok (VBool (match tbl_get (table s) kk with Some _ => true | None => false end))
      | Ok _ => Raise TypeError
      | Raise x => Raise x
      end
  | XGet k =>
      match eval s env k with
      | Ok (VKey kk) => Ok (match tbl_get (table s) kk with Some c => VCache c | None => VNone end)
      | Ok _ => Raise TypeError
      | Raise x => Raise x
      end
  | XIsNone e => match eval s env e with Ok VNone => Ok (VBool true) | Ok _ => Ok (VBool false) | Raise x => Raise x end
  | XNot e => match eval s env e with Ok v => Ok (VBool (negb (truthy v))) | Raise x => Raise x end
  | XAnd a b => match eval s env a with
                | Ok v => if truthy v then eval s env b else Ok v
                | Raise x => Raise x
                end
  | XOr a b => match eval s env a with
               | Ok v => if truthy v then Ok v else eval s env b
               | Raise x => Raise x
               end
  | XGt a b =>
      match eval s env a, eval s env b with
      | Ok (VInt x), Ok (VInt y) => Ok (VBool (y <? x))
      | Raise x, _ => Raise x
      | _, Raise x => Raise x
      | _, _ => Raise TypeError
      end
  | XIsInst e t =>
      match eval s env e with
      | Ok v => Ok (VBool (match v, t with
                           | VCache _, TyNumberCache => true
                           | VInt _, TyInt | VInt _, TyNumber => true
                           | VStr _, TyStr => true
                           | VSpec (SExc _), TyException => true
                           | _, _ => false
                           end))
      | Raise x => Raise x
      end
  | XAnyFilter c =>
      match eval s env c with
      | Ok (VCache cc) =>
          match filt s with
          | Some l => Ok (VBool (filter_match l (c_classes (getc cfg cc))))
          | None => Raise TypeError
          end
      | Ok _ => Raise TypeError
      | Raise x => Raise x
      end
  | XFutDone f =>
      match eval s env f with
      | Ok (VFut c k) => match fut_get s c k with
                         | Some FPending => Ok (VBool false)
                         | Some _ => Ok (VBool true)
                         | None => Raise IndexError
                         end
      | Ok _ => Raise TypeError
      | Raise x => Raise x
      end
  | XHas p n =>
      match eval s env p, eval s env n with
      | Ok pv, Ok nv => match has_cb s pv nv with Ok b => Ok (VBool b) | Raise x => Raise x end
      | Raise x, _ => Raise x
      | _, Raise x => Raise x
      end
  | XTruthy e => match eval s env e with Ok v => Ok (VBool (truthy v)) | Raise x => Raise x end
  | XCons h t =>
      match eval s env h, eval s env t with
      | Ok hv, Ok (VList l) => Ok (VList (hv :: l))
      | Raise x, _ => Raise x
      | _, Raise x => Raise x
      | _, _ => Raise TypeError
      end
  | XIfExp c a b =>
      match eval s env c with
      | Ok v => if truthy v then eval s env a else eval s env b
      | Raise x => Raise x
      end
  end.

Definition ev (x : xs) (e : expr) : res val := eval (x_st x) (x_env x) e.

(* for f, o in c.managed_futures: one item per managed future of the cache, with its registered on_timeout value *)
Definition managed (s : st) (c : nat) : list (nat * fspec) :=
  map (fun k => (k, nth k (c_futs (getc cfg c)) SNone)) (seq 0 (length (nth c (futs s) []))).

Definition configured_result (sp : fspec) : fstate :=
  match sp with SNone => FNone | SVal v => FVal v | SExc _ => FExt (* an exception object as a result: not a state of the model *) end.

Fixpoint evals (x : xs) (es : list expr) : res (list val) :=
  match es with
  | [] => Ok []
  | e :: r => match ev x e with
              | Ok v => match evals x r with Ok l => Ok (v :: l) | Raise z => Raise z end
              | Raise z => Raise z
              end
  end.

Fixpoint exec (p : stmt) (x : xs) : xs * outcome :=
  match p with
  | SSkip => (x, ONormal)
  | SSeq a b => match exec a x with
                | (x1, ONormal) => exec b x1
                | r => r
                end
  | SAssign i e => match ev x e with Ok v => (set_local x i v, ONormal) | Raise z => (x, ORaise z) end
  | SAssert e => match ev x e with
                 | Ok v => if truthy v then (x, ONormal) else (x, ORaise AssertionError)
                 | Raise z => (x, ORaise z)
                 end
  | SIf e a b => match ev x e with
                 | Ok v => if truthy v then exec a x else exec b x
                 | Raise z => (x, ORaise z)
                 end
  | SReturn e => match ev x e with Ok v => (x, OReturn v) | Raise z => (x, ORaise z) end
  | SRaise z => (x, ORaise z)
  | STblSet k v =>
      match ev x k, ev x v with
      | Ok (VKey kk), Ok (VCache c) =>
          let s := x_st x in
          (with_st x (set_table s (match tbl_get (table s) kk with
                                   | None => table s ++ [(kk, c)]
                                   | Some _ => map (fun e => if key_eqb (fst e) kk then (kk, c) else e) (table s)
                                   end)), ONormal)
      | Raise z, _ => (x, ORaise z)
      | _, Raise z => (x, ORaise z)
      | _, _ => (x, ORaise TypeError)
      end
  | STblPop dst k =>
      match ev x k with
      | Ok (VKey kk) =>
          let s := x_st x in
          match tbl_get (table s) kk with
          | Some c => (set_local_opt (with_st x (set_table s (tbl_del (table s) kk))) dst (VCache c), ONormal)
          | None => (x, ORaise KeyError)
          end
      | Ok _ => (x, ORaise TypeError)
      | Raise z => (x, ORaise z)
      end
  | STblClear => (with_st x (set_table (x_st x) []), ONormal)
  | SSetSelf a e =>
      match ev x e with
      | Ok v =>
          let s := x_st x in
          match a, v with
          | SfShutdown, VBool b => (with_st x (mkSt (table s) (tasks s) (futs s) (now s) b (ovr s) (filt s)), ONormal)
          | SfOverride, VNone => (with_st x (mkSt (table s) (tasks s) (futs s) (now s) (shut s) None (filt s)), ONormal)
          | SfOverride, VInt t => (with_st x (mkSt (table s) (tasks s) (futs s) (now s) (shut s) (Some t) (filt s)), ONormal)
          | SfFilters, VNone => (with_st x (mkSt (table s) (tasks s) (futs s) (now s) (shut s) (ovr s) None), ONormal)
          | SfFilters, VList l => (with_st x (mkSt (table s) (tasks s) (futs s) (now s) (shut s) (ovr s) (Some (tags_of l))), ONormal)
          | _, _ => (x, ORaise TypeError)
          end
      | Raise z => (x, ORaise z)
      end
  | SRegisterTimeout nm arg d =>
      match ev x nm, ev x arg, ev x d with
      | Ok (VCache c), Ok (VCache c'), Ok (VInt dz) =>
          let s := x_st x in
          if negb (Nat.eqb c c') then (x, ORaise TypeError)
          else if shut s then (x, ONormal)                       (* register_task after shutdown: nothing is scheduled *)
          else match tk_get (tasks s) c with
               | Some _ => (x, ORaise RuntimeError)              (* "Task already exists" *)
               | None => (with_st x (set_tasks s (tasks s ++ [(c, TCreated dz)])), ONormal)
               end
      | Raise z, _, _ => (x, ORaise z)
      | _, Raise z, _ => (x, ORaise z)
      | _, _, Raise z => (x, ORaise z)
      | _, _, _ => (x, ORaise TypeError)
      end
  | SCancelTask nm =>
      match ev x nm with
      | Ok (VCache c) => (with_st x (set_tasks (x_st x) (tk_del (tasks (x_st x)) c)), ONormal)
      | Ok _ => (x, ORaise TypeError)
      | Raise z => (x, ORaise z)
      end
  | SCancelAll dst => (set_local_opt (with_st x (set_tasks (x_st x) [])) dst VTasks, ONormal)
  | SForFutures ce fi oi body =>
      match ev x ce with
      | Ok (VCache c) =>
          loop_items (fun it x => set_local_opt (set_local_opt x fi (VFut c (fst it))) oi (VSpec (snd it)))
                     (exec body) (managed (x_st x) c) x
      | Ok _ => (x, ORaise TypeError)
      | Raise z => (x, ORaise z)
      end
  | SForCaches ci body =>
      loop_items (fun c x => set_local x ci (VCache c)) (exec body) (map snd (table (x_st x))) x
  | SFutCancel f =>
      match ev x f with
      | Ok (VFut c k) => match fut_get (x_st x) c k with
                         | Some _ => (with_st x (fut_upd (x_st x) c k cancel_fut), ONormal)
                         | None => (x, ORaise IndexError)
                         end
      | Ok _ => (x, ORaise TypeError)
      | Raise z => (x, ORaise z)
      end
  | SFutSetResult f v =>
      match ev x f, ev x v with
      | Ok (VFut c k), Ok (VSpec sp) =>
          match fut_get (x_st x) c k with
          | Some FPending => (with_st x (fut_upd (x_st x) c k (fun _ => configured_result sp)), ONormal)
          | Some _ => (x, ORaise RuntimeError)                   (* InvalidStateError *)
          | None => (x, ORaise IndexError)
          end
      | Raise z, _ => (x, ORaise z)
      | _, Raise z => (x, ORaise z)
      | _, _ => (x, ORaise TypeError)
      end
  | SFutSetException f v =>
      match ev x f, ev x v with
      | Ok (VFut c k), Ok (VSpec (SExc z)) =>
          match fut_get (x_st x) c k with
          | Some FPending => (with_st x (fut_upd (x_st x) c k (fun _ => FExc z)), ONormal)
          | Some _ => (x, ORaise RuntimeError)
          | None => (x, ORaise IndexError)
          end
      | Raise z, _ => (x, ORaise z)
      | _, Raise z => (x, ORaise z)
      | _, _ => (x, ORaise TypeError)
      end
  | SCallOnTimeout ce =>
      match ev x ce with
      | Ok (VCache c) =>
          let '(s2, o2) := on_timeout_cb (x_st x) c in
          (mkXs s2 (x_env x) (x_obs x ++ OTimeout c :: o2) (x_draws x), ONormal)
      | Ok _ => (x, ORaise TypeError)
      | Raise z => (x, ORaise z)
      end
  | SWaiterPop dst => (set_local x dst VNone, ONormal)
  | STailSelf args => match evals x args with Ok l => (x, OTail l) | Raise z => (x, ORaise z) end
  | SAwaitTasks => (x, ONormal)
  | SDrawNumber dst =>
      match x_draws x with
      | [] => (x, ORaise OutOfFuel)
      | [d] => (set_local x dst (VInt d), ONormal)               (* the last draw repeats *)
      | d :: r => (mkXs (x_st x) (env_set (x_env x) dst (VInt d)) (x_obs x) r, ONormal)
      end
  | SForRangeElse n body els =>
      loop_fuel (exec body) (exec els) (Z.to_nat n) x
  | SBreak => (x, OBreak)
  end.

(* run a translated function: parameters are locals 0.., a tail self-call restarts it with new arguments *)
Fixpoint call (fuel : nat) (body : stmt) (s : st) (args : list val) (draws : list Z) : xs * outcome :=
  match fuel with
  | O => (mkXs s (env_of_list args) [] draws, ORaise OutOfFuel)
  | S f => match exec body (mkXs s (env_of_list args) [] draws) with
           | (x1, OTail args') => call f body (x_st x1) args' (x_draws x1)
           | r => r
           end
  end.

End Interp.
