(* C19x - files written by earlier releases, and what "the intact old content or the complete new content" means.
   Hand-written from the release history (the version-1 schemas are no longer in the source):
     identity version 1: Tokens, Metadata as today; Attestations keyed on (public_key, metadata_pointer);
     wallet   version 1: (hash, blob, key) keyed on hash - no id_format column.
   A file is described symbolically: a data table holds "the rows of source table s" (model/M19_sqltx.v); what is
   assumed of those rows is in `wf_env`: their width, and that they are pairwise distinct on the old key. *)
From Coq Require Import ZArith List Bool.
From IPV8V Require Import lib.PyErr lib.Bytes model.M19_sqltx gen.G19x_upgrade.
Import ListNotations.
Open Scope Z_scope.

Definition wf_env (srcs : list source) (env : Z -> list xrow) : Prop :=
  Forall (fun sc => NoDup (map (xkey (src_pk sc)) (env (src_id sc))) /\
                    Forall (fun r => length r = src_ncols sc) (env (src_id sc))) srcs.

Definition option_tab (rows : list xrow) : xtab content := mkXT X_OPTION [O] 2 (CRows rows).
Definition version_is (v : Z) : list xrow := [[XK_VERSION; v]].

(* ---------------------------------------------------------------- identity *)
Definition identity_sources : list source :=
  [mkSrc TID_Tokens [0; 1; 3]%nat 5; mkSrc TID_Metadata [0; 1]%nat 4; mkSrc TID_Attestations [0; 2]%nat 4].

Definition identity_v1 : xstate content :=
  [mkXT TID_Tokens [0; 1; 3]%nat 5 (CSym TID_Tokens []);
   mkXT TID_Metadata [0; 1]%nat 4 (CSym TID_Metadata []);
   mkXT TID_Attestations [0; 2]%nat 4 (CSym TID_Attestations []);
   option_tab (version_is 1)].

(* every old row, Attestations under the new key; `ver` is the option table: the version row, or - for the
   instant between the DELETE and the INSERT of the schema script that runs on every open - nothing *)
Definition identity_v2 (ver : list xrow) : xstate content :=
  [mkXT TID_Tokens [0; 1; 3]%nat 5 (CSym TID_Tokens []);
   mkXT TID_Metadata [0; 1]%nat 4 (CSym TID_Metadata []);
   mkXT TID_Attestations [0; 1; 2]%nat 4 (CSym TID_Attestations []);
   option_tab ver].

Definition identity_allowed : list (xstate content) :=
  [identity_v1; identity_v2 (version_is 2); identity_v2 []].

(* ---------------------------------------------------------------- wallet *)
Definition wallet_sources : list source := [mkSrc TID_wallet [O] 3].

Definition wallet_v1 : xstate content :=
  [mkXT TID_wallet [O] 3 (CSym TID_wallet []); option_tab (version_is 1)].

(* every old row with id_format = 'id_metadata' *)
Definition wallet_v2 (ver : list xrow) : xstate content :=
  [mkXT TID_wallet [O] 4 (CSym TID_wallet [LIT_id_metadata]); option_tab ver].

Definition wallet_allowed : list (xstate content) :=
  [wallet_v1; wallet_v2 (version_is 2); wallet_v2 []].

(* ---------------------------------------------------------------- a brand-new file (first open) *)
(* the complete latest schema, empty, with its version row: what the first open of a fresh file must end in, and
   what every later open of a file whose first open was killed must end in as well *)
Definition identity_new : xstate content :=
  [mkXT TID_Tokens [0; 1; 3]%nat 5 (CRows []);
   mkXT TID_Metadata [0; 1]%nat 4 (CRows []);
   mkXT TID_Attestations [0; 1; 2]%nat 4 (CRows []);
   option_tab (version_is 2)].

Definition wallet_new : xstate content :=
  [mkXT TID_wallet [O] 4 (CRows []); option_tab (version_is 2)].

Definition no_rows (s : Z) : list xrow := [].
