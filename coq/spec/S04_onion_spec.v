(* Declarative side of C04 / C05: what is assumed of the AEAD, what an honest onion path is, and
   the vocabulary of the theorems (layered encryption, travelling through a list of relays).
   Written from the property text and the protocol documentation, not from the code. *)
From Coq Require Import ZArith List Bool Lia.
From IPV8V Require Import lib.PyErr lib.Bytes lib.BE model.M02_wire model.M03_recv model.M04_onion.
Import ListNotations.
Open Scope Z_scope.

Section Spec.
Variables key nonce : Type.
Variable enc : key -> dir -> nonce -> bytes -> bytes.
Variable dec : key -> dir -> bytes -> option bytes.

(* ---- assumptions on ChaCha20-Poly1305 as used by SessionKeys ---- *)
(* decryption inverts encryption *)
Definition aead_correct : Prop := forall k d n m, dec k d (enc k d n m) = Some m.
(* ideal authenticity: only encryptions under (k, d) decrypt under (k, d) *)
Definition aead_authentic : Prop := forall k d c m, dec k d c = Some m -> exists n, c = enc k d n m.
(* a ciphertext under one key and direction does not open under another *)
Definition aead_key_sep : Prop := forall k d n m k' d' m', dec k' d' (enc k d n m) = Some m' -> k = k' /\ d = d'.
(* ciphertexts are longer than plaintexts by a fixed positive overhead *)
Definition aead_grows (ovh : nat) : Prop := (0 < ovh)%nat /\ forall k d n m, length (enc k d n m) = (length m + ovh)%nat.

(* ---- layered encryption: first key outermost ---- *)
Fixpoint enc_layers (d : dir) (ks : list key) (nl : list nonce) (m : bytes) : bytes :=
  match ks, nl with
  | k :: ks', n :: nl' => enc k d n (enc_layers d ks' nl' m)
  | _, _ => m
  end.

(* bodies on the links of an n-hop path, link 0 next to the originator: n - i layers on link i *)
Definition link_bodies (d : dir) (ks : list key) (nl : list nonce) (m : bytes) : list bytes :=
  map (fun i => enc_layers d (skipn i ks) (skipn i nl) m) (seq 0 (length ks)).

Definition cid_ok (c : Z) : Prop := 0 <= c < 4294967296.

(* ---- a relay on a path ---- *)
Record relay_spec := mkRS {
  rs_addr : addr;          (* its address *)
  rs_node : node key;      (* its state *)
  rs_in : Z;               (* circuit id on the link towards the originator *)
  rs_out : Z;              (* circuit id on the link towards the exit *)
  rs_key : key }.          (* session key shared with the originator *)

(* the relay forwards cells of circuit rs_in to nxt under rs_out, peeling its layer; it has budget for
   another relay_early cell if the cell carries that flag *)
Definition fwd_route (pfx : bytes) (early : bool) (r : relay_spec) (nxt : addr) : Prop :=
  n_prefix (rs_node r) = pfx /\ cid_ok (rs_in r) /\ cid_ok (rs_out r) /\
  exists pk cnt,
    assoc (rs_in r) (n_relays (rs_node r))
      = Some (mkRR (rs_out r) (mkHop pk nxt (Some (rs_key r))) FORWARD false cnt)
    /\ (early = true -> cnt < n_max_early (rs_node r)).

(* the relay passes cells of circuit rs_out back to prv under rs_in, adding its layer *)
Definition bwd_route (pfx : bytes) (early : bool) (r : relay_spec) (prv : addr) : Prop :=
  n_prefix (rs_node r) = pfx /\ cid_ok (rs_in r) /\ cid_ok (rs_out r) /\
  exists pk cnt,
    assoc (rs_out r) (n_relays (rs_node r))
      = Some (mkRR (rs_in r) (mkHop pk prv (Some (rs_key r))) BACKWARD false cnt)
    /\ (early = true -> cnt < n_max_early (rs_node r)).

Definition first_addr (rs : list relay_spec) (last : addr) : addr :=
  match rs with [] => last | r :: _ => rs_addr r end.

(* relays listed from the originator's side; cid is the id on the link into the first one *)
Fixpoint fwd_chain (pfx : bytes) (early : bool) (rs : list relay_spec) (cid : Z) (last_addr : addr) (last_cid : Z) : Prop :=
  match rs with
  | [] => cid = last_cid
  | r :: tl => rs_in r = cid /\ fwd_route pfx early r (first_addr tl last_addr)
               /\ fwd_chain pfx early tl (rs_out r) last_addr last_cid
  end.

(* relays listed in travel order of a returning cell (nearest to the exit first) *)
Fixpoint bwd_chain (pfx : bytes) (early : bool) (rs : list relay_spec) (cid : Z) (last_addr : addr) (last_cid : Z) : Prop :=
  match rs with
  | [] => cid = last_cid
  | r :: tl => rs_out r = cid /\ bwd_route pfx early r (first_addr tl last_addr)
               /\ bwd_chain pfx early tl (rs_in r) last_addr last_cid
  end.

(* hand a datagram from node to node: each relay must answer with exactly one datagram, which is
   delivered to the next relay if addressed to it.  Result: sender, addressee and bytes of the last
   datagram, and the datagrams emitted by the relays in order *)
Fixpoint through (rs : list relay_spec) (src dst : addr) (pkt : bytes) (rnd : Z -> bytes)
         (nss : nat -> nat -> nonce) : option (addr * addr * bytes * list bytes) :=
  match rs with
  | [] => Some (src, dst, pkt, [])
  | r :: tl =>
      if addr_eqb dst (rs_addr r) then
        match on_packet enc dec (rs_node r) src pkt rnd (nss O) with
        | Ok (_, [Send dst' pkt']) =>
            match through tl (rs_addr r) dst' pkt' rnd (fun i => nss (S i)) with
            | Some (s, d, p, log) => Some (s, d, p, pkt' :: log)
            | None => None
            end
        | _ => None
        end
      else None
  end.

Definition last_sender (rs : list relay_spec) (src : addr) : addr :=
  match rev rs with [] => src | r :: _ => rs_addr r end.

(* nonces drawn by one encrypt_cell call over n hops, outermost layer first *)
Definition drawn (ns : nat -> nonce) (n : nat) : list nonce := rev (map ns (seq 0 n)).

(* ---- an honest circuit: originator, relays, exit ---- *)
Record path := mkPath {
  p_pfx : bytes;                 (* the overlay prefix all nodes share *)
  p_origin : node key; p_oaddr : addr; p_cid : Z; p_circ : circuit key;
  p_relays : list relay_spec;
  p_exit : node key; p_xaddr : addr; p_xcid : Z; p_xsock : exit_sock key; p_xkey : key }.

(* session keys of the hops, first hop first *)
Definition path_keys (p : path) : list key := map rs_key (p_relays p) ++ [p_xkey p].
Definition path_len (p : path) : nat := S (length (p_relays p)).

(* the originator holds the circuit under p_cid with exactly these hop keys; the id is not also a relay
   or exit id there *)
Definition origin_ready (p : path) : Prop :=
  length (p_pfx p) = 22%nat /\ n_prefix (p_origin p) = p_pfx p /\ cid_ok (p_cid p) /\
  assoc (p_cid p) (n_circuits (p_origin p)) = Some (p_circ p) /\
  map h_keys (c_hops (p_circ p)) = map Some (path_keys p) /\
  (exists h0, circuit_hop (p_circ p) = Ok h0 /\ h_addr h0 = first_addr (p_relays p) (p_xaddr p)) /\
  assoc (p_cid p) (n_relays (p_origin p)) = None /\ assoc (p_cid p) (n_exits (p_origin p)) = None /\
  0 < n_max_early (p_origin p).

(* the exit holds an exit socket under p_xcid keyed with the last hop key, whose previous hop is the last
   relay (or the originator); the id is not also one of its relay ids or own circuits *)
Definition exit_ready (p : path) : Prop :=
  n_prefix (p_exit p) = p_pfx p /\ cid_ok (p_xcid p) /\
  assoc (p_xcid p) (n_relays (p_exit p)) = None /\ assoc (p_xcid p) (n_circuits (p_exit p)) = None /\
  assoc (p_xcid p) (n_exits (p_exit p)) = Some (p_xsock p) /\ es_cid (p_xsock p) = p_xcid p /\
  h_keys (es_hop (p_xsock p)) = Some (p_xkey p) /\
  h_addr (es_hop (p_xsock p)) = last_sender (p_relays p) (p_oaddr p) /\
  0 < n_max_early (p_exit p).

Definition forward_ready (early : bool) (p : path) : Prop :=
  origin_ready p /\ exit_ready p /\
  fwd_chain (p_pfx p) early (p_relays p) (p_cid p) (p_xaddr p) (p_xcid p).

Definition backward_ready (p : path) : Prop :=
  origin_ready p /\ exit_ready p /\
  bwd_chain (p_pfx p) false (rev (p_relays p)) (p_xcid p) (p_oaddr p) (p_cid p).

(* the relay_early flag the originator puts on a cell whose first byte is m0 *)
Definition origin_early (p : path) (m0 : Z) : bool :=
  (m0 =? 4) || (c_early (p_circ p) <? n_max_early (p_origin p)).

(* the body of a cell datagram *)
Definition cell_body (pkt : bytes) : bytes := skipn 29 pkt.

(* the exit's state after data left through socket es: unchanged, except that the first data from the
   previous hop enables the socket *)
Definition enabled_node (nd : node key) (cid : Z) (es : exit_sock key) : node key :=
  if es_enabled es then nd else set_enabled nd cid es.

(* ---- two circuits linked at a rendezvous point (hidden services): A sends, B receives ---- *)
Definition hs_out_dir (t : ctype) : dir := if ctype_eqb t CT_RP_SEEDER then FORWARD else BACKWARD.
Definition hs_in_dir (t : ctype) : dir := if ctype_eqb t CT_RP_DOWNLOADER then FORWARD else BACKWARD.

Record e2e_path := mkE2E {
  e_pfx : bytes;
  e_a : node key; e_aaddr : addr; e_acid : Z; e_acirc : circuit key; e_arelays : list relay_spec;
  e_rp : node key; e_rpaddr : addr; e_rcid_a : Z; e_rcid_b : Z; e_ka : key; e_kb : key;
  e_b : node key; e_baddr : addr; e_bcid : Z; e_bcirc : circuit key; e_brelays : list relay_spec;
  e_hs : key }.

Definition e2e_ready (early : bool) (e : e2e_path) : Prop :=
  length (e_pfx e) = 22%nat /\
  (* A: circuit with hop keys ending in the rendezvous point's, plus the end-to-end key *)
  n_prefix (e_a e) = e_pfx e /\ cid_ok (e_acid e) /\
  assoc (e_acid e) (n_circuits (e_a e)) = Some (e_acirc e) /\ c_hs (e_acirc e) = Some (e_hs e) /\
  c_hops (e_acirc e) <> [] /\
  map h_keys (c_hops (e_acirc e)) = map Some (map rs_key (e_arelays e) ++ [e_ka e]) /\
  fwd_chain (e_pfx e) early (e_arelays e) (e_acid e) (e_rpaddr e) (e_rcid_a e) /\
  (* the rendezvous point: a pair of rendezvous relay routes *)
  n_prefix (e_rp e) = e_pfx e /\ cid_ok (e_rcid_a e) /\ cid_ok (e_rcid_b e) /\
  (exists pk cnt r2,
     assoc (e_rcid_a e) (n_relays (e_rp e))
       = Some (mkRR (e_rcid_b e) (mkHop pk (last_sender (e_brelays e) (e_baddr e)) (Some (e_ka e))) FORWARD true cnt)
     /\ (early = true -> cnt < n_max_early (e_rp e))
     /\ assoc (e_rcid_b e) (n_relays (e_rp e)) = Some r2 /\ h_keys (rr_hop r2) = Some (e_kb e)) /\
  (* B: its own circuit to the rendezvous point, same end-to-end key, matching direction *)
  bwd_chain (e_pfx e) false (rev (e_brelays e)) (e_rcid_b e) (e_baddr e) (e_bcid e) /\
  n_prefix (e_b e) = e_pfx e /\ cid_ok (e_bcid e) /\
  assoc (e_bcid e) (n_relays (e_b e)) = None /\ assoc (e_bcid e) (n_exits (e_b e)) = None /\
  assoc (e_bcid e) (n_circuits (e_b e)) = Some (e_bcirc e) /\ c_hs (e_bcirc e) = Some (e_hs e) /\
  c_hops (e_bcirc e) <> [] /\
  map h_keys (c_hops (e_bcirc e)) = map Some (map rs_key (e_brelays e) ++ [e_kb e]) /\
  0 < n_max_early (e_b e) /\
  hs_out_dir (c_ctype (e_acirc e)) = hs_in_dir (c_ctype (e_bcirc e)).

End Spec.

Arguments mkRS {key}. Arguments rs_addr {key}. Arguments rs_node {key}. Arguments rs_in {key}.
Arguments rs_out {key}. Arguments rs_key {key}.
Arguments aead_correct {key nonce}. Arguments aead_authentic {key nonce}. Arguments aead_key_sep {key nonce}.
Arguments aead_grows {key nonce}. Arguments enc_layers {key nonce}. Arguments link_bodies {key nonce}.
Arguments fwd_route {key}. Arguments bwd_route {key}. Arguments first_addr {key}.
Arguments fwd_chain {key}. Arguments bwd_chain {key}. Arguments through {key nonce}.
Arguments last_sender {key}. Arguments drawn {nonce}.
Arguments mkPath {key}. Arguments p_pfx {key}. Arguments p_origin {key}. Arguments p_oaddr {key}. Arguments p_cid {key}.
Arguments p_circ {key}. Arguments p_relays {key}. Arguments p_exit {key}. Arguments p_xaddr {key}. Arguments p_xcid {key}.
Arguments p_xsock {key}. Arguments p_xkey {key}. Arguments path_keys {key}. Arguments path_len {key}.
Arguments origin_ready {key}. Arguments exit_ready {key}. Arguments forward_ready {key}. Arguments backward_ready {key}.
Arguments origin_early {key}.
Arguments mkE2E {key}. Arguments e_pfx {key}. Arguments e_a {key}. Arguments e_aaddr {key}. Arguments e_acid {key}.
Arguments e_acirc {key}. Arguments e_arelays {key}. Arguments e_rp {key}. Arguments e_rpaddr {key}. Arguments e_rcid_a {key}.
Arguments e_rcid_b {key}. Arguments e_ka {key}. Arguments e_kb {key}. Arguments e_b {key}. Arguments e_baddr {key}.
Arguments e_bcid {key}. Arguments e_bcirc {key}. Arguments e_brelays {key}. Arguments e_hs {key}. Arguments e2e_ready {key}.
Arguments enabled_node {key}.
