(* C07, declarative side: what the property text allows a node to do with a packet, written
   against the data of the model (states, circuits, outputs) but not against its functions
   (state_of, exit_flags, matches, send are not used here). *)
From Coq Require Import ZArith List Bool.
From IPV8V Require Import lib.PyErr lib.Bytes gen.G07_consts model.M07_tunnel_ep.
Import ListNotations.
Open Scope Z_scope.

(* "a ready circuit of the configured length ending in an IPv8-capable exit" *)
Definition usable (cfg : Z) (c : circ) : Prop :=
  c_closing c = false /\                                   (* not closing *)
  c_ctype c = CTYPE_DATA /\                                (* a general purpose data circuit *)
  c_goal c = cfg /\                                        (* built for the configured length *)
  c_goal c <= Z.of_nat (length (c_hops c)) /\              (* and completely built: READY *)
  exists hs h, c_hops c = hs ++ [h] /\ In PEER_FLAG_EXIT_IPV8 (h_flags h).   (* exit hop exits IPv8 *)

(* the cell is handed to the first hop of that circuit *)
Definition enters_at (c : circ) (t : addr) : Prop :=
  exists h tl, c_hops c = h :: tl /\ h_addr h = t.

(* a tunnel send made in state s is well formed *)
Definition tunnel_ok (s : st) (o : out) : Prop :=
  match o with
  | Tunnel t cid dest org p =>
      attached s = true /\ org = NULL_ADDR /\
      exists c, In c (circuits s) /\ c_id c = cid /\ usable (hops_cfg s) c /\ enters_at c t
  | _ => True
  end.

Definition is_raw (o : out) : bool := match o with Raw _ _ => true | _ => false end.
Definition is_tunnel (o : out) : bool := match o with Tunnel _ _ _ _ _ => true | _ => false end.

(* the three fates the property allows for a packet of an anonymized overlay, as a relation between
   the state before, the packet, what the node did and the state after *)
Inductive fate (s : st) (a : addr) (p : bytes) (outs : list out) (s' : st) : Prop :=
| Carried : forall c,
    (* over a usable circuit, now, followed by everything that was waiting, in order *)
    In c (circuits s) -> usable (hops_cfg s) c -> attached s = true ->
    outs = Tunnel (first_hop_addr c) (c_id c) a NULL_ADDR p
           :: map (fun x => Tunnel (first_hop_addr c) (c_id c) (fst x) NULL_ADDR (snd x)) (queue s) ->
    queue s' = [] ->
    fate s a p outs s'
| Held :
    (* appended to the bounded queue (possibly asking for a circuit, possibly pushing the oldest out) *)
    attached s = true ->
    Forall (fun o => is_raw o = false /\ is_tunnel o = false) outs ->
    In (Queued a p) outs ->
    (exists q, queue s' = q ++ [(a, p)]) ->
    fate s a p outs s'
| Lost :
    (* no tunnel community: the packet is dropped *)
    attached s = false -> outs = [Dropped a p] -> s' = s ->
    fate s a p outs s'.

(* operations that can switch a prefix off *)
Definition keeps_on (pfx : bytes) (o : op) : Prop :=
  match o with
  | SetAnon q false => q <> pfx
  | Toggle q => q <> pfx
  | LaunchTunnel q => q <> pfx
  | _ => True
  end.
