(* Which field values of the old-style payload classes are legal (hand-written, from the constructors'
   docstrings and the documented wire formats), what a legal instance looks like after a round trip
   (`canon`: flags come back as 0/1 or False/True), and Python equality of instances.  No proofs here. *)
From Coq Require Import String Ascii.
From Coq Require Import ZArith List Bool.
From IPV8V Require Import lib.PyErr lib.Bytes lib.BE model.M02_wire model.M02_oldstyle.
Import ListNotations.
Open Scope Z_scope.

Inductive kind :=
| KAddr4                 (* an IPv4 (host, port) tuple: 4 address bytes, port 0..65535 *)
| KFlag                  (* carried in one `bits` position and handed back as decoded: 0, 1, False, True -> 0 / 1 *)
| KBoolFlag              (* carried in one `bits` position and handed back through bool(): -> False / True *)
| KTrue                  (* a flag the class always constructs as True and never reads back *)
| KConn                  (* connection type: one of the three documented strings *)
| KUInt (w : nat)        (* an int, 0 <= z < 256^w; for `identifier`: already reduced modulo 2^16 *)
| KBytesN (n : nat)      (* exactly n bytes *)
| KRaw                   (* bytes up to the end of the message *)
| KVarBytes (lw : nat)   (* bytes, length < 256^lw *)
| KChunks (n : nat) (counted : bool)   (* a list of n-byte strings; counted: at most 65535 of them (varlenHx<n>) *)
| KOverlap.              (* a list of (20-byte string, 0 <= int < 2^32) tuples *)

Definition conn_unknown : bytes := [117; 110; 107; 110; 111; 119; 110].
Definition conn_public : bytes := [112; 117; 98; 108; 105; 99].
Definition conn_symmetric : bytes := [115; 121; 109; 109; 101; 116; 114; 105; 99; 45; 78; 65; 84].

Definition nokey : bytes -> bool := fun _ => true.    (* none of these formats carries a key *)

Definition flag_ok (v : val) : bool :=
  match v with VInt z => (z =? 0) || (z =? 1) | VBool _ => true | _ => false end.
Definition flag_z (v : val) : Z := match as_int v with Some z => z | None => 0 end.

Definition chunk_ok (n : nat) (v : val) : bool :=
  match v with VBytes b => (length b =? n)%nat && bytes_okb b | _ => false end.
Definition overlap_ok (v : val) : bool :=
  match v with
  | VTuple [VBytes h; VInt c] => (length h =? 20)%nat && bytes_okb h && in_range 0 (256 ^ 4) c
  | _ => false
  end.

Definition kind_ok (k : kind) (v : val) : bool :=
  match k with
  | KAddr4 => val_ok nokey FIPv4 v
  | KFlag | KBoolFlag => flag_ok v
  | KTrue => match v with VBool true | VInt 1 => true | _ => false end
  | KConn =>
      match v with
      | VStr s => bytes_eqb s conn_unknown || bytes_eqb s conn_public || bytes_eqb s conn_symmetric
      | _ => false
      end
  | KUInt w => prim_ok (PU w) v
  | KBytesN n => prim_ok (PBytes n) v
  | KRaw => val_ok nokey FRaw v
  | KVarBytes lw => val_ok nokey (FVarLen lw 1 false) v
  | KChunks n counted =>
      match v with
      | VList l => forallb (chunk_ok n) l && (negb counted || (Z.of_nat (length l) <? 65536))
      | _ => false
      end
  | KOverlap => match v with VList l => forallb overlap_ok l | _ => false end
  end.

(* the value the attribute has after decode(encode(x)) *)
Definition canon (k : kind) (v : val) : val :=
  match k with
  | KFlag => VInt (flag_z v)
  | KBoolFlag => VBool (negb (flag_z v =? 0))
  | KTrue => VBool true
  | _ => v
  end.

Definition fspec := list (string * kind).

Fixpoint fields_ok (spec : fspec) (attrs : list (string * val)) : bool :=
  match spec, attrs with
  | [], [] => true
  | (n, k) :: s', (m, v) :: a' => String.eqb n m && kind_ok k v && fields_ok s' a'
  | _, _ => false
  end.
Fixpoint canon_fields (spec : fspec) (attrs : list (string * val)) : list (string * val) :=
  match spec, attrs with
  | (_, k) :: s', (m, v) :: a' => (m, canon k v) :: canon_fields s' a'
  | _, _ => attrs
  end.

(* x is an instance of class `short` whose attributes are, in constructor order, legal values of `spec` *)
Definition legal (short : string) (spec : fspec) (x : obj) : bool :=
  String.eqb (fst x) short && fields_ok spec (snd x).
Definition canon_obj (spec : fspec) (x : obj) : obj := (fst x, canon_fields spec (snd x)).

(* same class, same attribute names, attribute values equal in Python's sense *)
Fixpoint attrs_pyeq (a b : list (string * val)) : res bool :=
  match a, b with
  | [], [] => Ok true
  | (k, v) :: a', (l, w) :: b' =>
      if String.eqb k l then do c <- py_eq v w; if c then attrs_pyeq a' b' else Ok false else Ok false
  | _, _ => Ok false
  end.
Definition obj_pyeq (a b : obj) : res bool :=
  if String.eqb (fst a) (fst b) then attrs_pyeq (snd a) (snd b) else Ok false.

(* ---- the classes (qualified name as in G02_registry.msgdefs) ---- *)
Local Open Scope string_scope.
Definition oldstyle_specs : list (string * fspec) :=
  [("ipv8.messaging.payload.IntroductionRequestPayload",
    [("destination_address", KAddr4); ("source_lan_address", KAddr4); ("source_wan_address", KAddr4);
     ("advice", KBoolFlag); ("supports_new_style", KFlag); ("connection_type", KConn);
     ("identifier", KUInt 2); ("extra_bytes", KRaw)]);
   ("ipv8.messaging.payload.IntroductionResponsePayload",
    [("destination_address", KAddr4); ("source_lan_address", KAddr4); ("source_wan_address", KAddr4);
     ("lan_introduction_address", KAddr4); ("wan_introduction_address", KAddr4); ("connection_type", KConn);
     ("supports_new_style", KFlag); ("intro_supports_new_style", KFlag); ("peer_limit_reached", KFlag);
     ("identifier", KUInt 2); ("extra_bytes", KRaw)]);
   ("ipv8.messaging.payload.PunctureRequestPayload",
    [("lan_walker_address", KAddr4); ("wan_walker_address", KAddr4); ("identifier", KUInt 2)]);
   ("ipv8.messaging.payload.PuncturePayload",
    [("source_lan_address", KAddr4); ("source_wan_address", KAddr4); ("identifier", KUInt 2)]);
   ("ipv8.messaging.payload_headers.BinMemberAuthenticationPayload", [("public_key_bin", KVarBytes 2)]);
   ("ipv8.messaging.payload_headers.GlobalTimeDistributionPayload", [("global_time", KUInt 8)]);
   ("ipv8.peerdiscovery.payload.SimilarityRequestPayload",
    [("identifier", KUInt 2); ("preference_list", KChunks 20 false); ("lan_address", KAddr4);
     ("wan_address", KAddr4); ("connection_type", KConn)]);
   ("ipv8.peerdiscovery.payload.SimilarityResponsePayload",
    [("identifier", KUInt 2); ("preference_list", KChunks 20 true); ("tb_overlap", KOverlap)]);
   ("ipv8.peerdiscovery.payload.PingPayload", [("identifier", KUInt 2)]);
   ("ipv8.peerdiscovery.payload.PongPayload", [("identifier", KUInt 2)]);
   ("ipv8.peerdiscovery.payload.DiscoveryIntroductionRequestPayload",
    [("destination_address", KAddr4); ("source_lan_address", KAddr4); ("source_wan_address", KAddr4);
     ("advice", KBoolFlag); ("supports_new_style", KTrue); ("connection_type", KConn);
     ("identifier", KUInt 2); ("extra_bytes", KRaw); ("introduce_to", KBytesN 20)]);
   ("ipv8.attestation.wallet.payload.RequestAttestationPayload", [("metadata", KRaw)]);
   ("ipv8.attestation.wallet.payload.VerifyAttestationRequestPayload", [("attestation_hash", KBytesN 20)]);
   ("ipv8.attestation.wallet.payload.AttestationChunkPayload",
    [("attestation_hash", KBytesN 20); ("sequence_number", KUInt 2); ("data", KRaw)]);
   ("ipv8.attestation.wallet.payload.ChallengePayload", [("attestation_hash", KBytesN 20); ("challenge", KRaw)]);
   ("ipv8.attestation.wallet.payload.ChallengeResponsePayload", [("challenge_hash", KBytesN 20); ("response", KRaw)])].

Fixpoint spec_of (name : string) (l : list (string * fspec)) : option fspec :=
  match l with
  | [] => None
  | (n, s) :: tl => if String.eqb n name then Some s else spec_of name tl
  end.

(* ---- how the classes meet the wire model ---- *)
From IPV8V Require Import gen.G02_registry.
Definition REG : list (string * rfmt) := (registry_default ++ registry_overlay)%list.
(* the class's format_list resolved through the live registry *)
Definition class_fmts (c : oldcls) : list fmt :=
  match mapM (find_fmt REG) (oc_formats c) with Ok fs => fs | Raise _ => [] end.
(* the formats the old-style classes use: none of them nests, lists or carries keys *)
Definition simple_fmt (f : fmt) : bool :=
  match f with FStruct _ | FBits | FRaw | FVarLen _ _ _ | FIPv4 => true | _ => false end.

Local Close Scope string_scope.
Definition spec_for (c : oldcls) : fspec :=
  match spec_of (oc_name c) oldstyle_specs with Some s => s | None => [] end.

(* the class-level statement of C02 for one class: decode(encode x) is x (flags in the form they are handed back:
   `canon_obj`, equal to x in Python's sense) and ends exactly where the encoding ends, at any offset, with any
   bytes around it (a message ending in `raw` must be last) *)
Definition class_roundtrips (c : oldcls) : Prop :=
  forall (key_ok : bytes -> bool) x bs (pre suf : bytes),
  legal (oc_short c) (spec_for c) x = true ->
  encode_obj REG key_ok (oc_to_pack c) x = Ok bs ->
  (msg_greedy (msg_of_list (class_fmts c)) = false \/ suf = []) ->
  decode_obj REG key_ok (oc_formats c) (oc_from_unpack c) (pre ++ bs ++ suf) (length pre)
    = Ok (canon_obj (spec_for c) x, (length pre + length bs)%nat).
