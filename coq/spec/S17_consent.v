(* C17 - declarative reading of the property text, independent of the node's state:
   what the user consented to is a function of the history of user operations alone. *)
From Coq Require Import ZArith List Bool Arith.
From IPV8V Require Import lib.PyErr lib.Bytes model.M16_tokentree model.M17_consent.
Import ListNotations.
Open Scope Z_scope.

Section Spec.
Variable norm : bytes -> bytes.       (* SHA-1 padding of 20-byte hashes *)
Variable parse : bytes -> jdoc.       (* json.loads *)

(* the user's standing registration for attribute hash h after a history: the LAST add_known_hash whose
   (padded) hash is h - a later registration of the same hash for another subject replaces it *)
Fixpoint registration (evs : list (Z * event)) (h : bytes) : option entry :=
  match evs with
  | [] => None
  | (t, ev) :: tl =>
      match registration tl h with
      | Some e => Some e
      | None =>
          match ev with
          | EKnown h' name key md => if bytes_eqb (norm h') h then Some (mkEntry name t key md) else None
          | _ => None
          end
      end
  end.

(* registration e covers metadata m of subject p at time `now`:
   exact subject key, less than five minutes old, exact name, and - if the registration fixed extra
   metadata - exactly those extra fields *)
Definition consent (e : entry) (p : bytes) (now : Z) (m : metadata) : Prop :=
  e_key e = p /\
  now <= e_time e + 300 /\
  exists kv,
    parse (m_json m) = JDict kv /\
    alookup k_name kv = Some (e_name e) /\
    has_field k_date kv = true /\ has_field k_schema kv = true /\
    forall md, e_md e = Some md ->
      length (extras kv) = length md /\ forall k v, In (k, v) (extras kv) -> alookup k md = Some v.

(* who sent the message (the authenticated key) *)
Definition sender_of (ev : event) : option bytes :=
  match ev with
  | EDisclose p _ _ _ _ => Some p
  | EMissingResp p _ _ => Some p
  | EAttest p _ => Some p
  | EReqMissing p _ => Some p
  | _ => None
  end.

Definition tokens_of (ev : event) : list token :=
  match ev with EDisclose _ _ toks _ _ => toks | EMissingResp _ toks _ => toks | _ => [] end.
Definition atts_of (ev : event) : list (bytes * attestation) :=
  match ev with EDisclose _ _ _ atts _ => atts | _ => [] end.
Definition is_disclosure (ev : event) : bool :=
  match ev with EDisclose _ _ _ _ _ => true | EMissingResp _ _ _ => true | _ => false end.

(* metadata pointers of the attestations sent in a list of outputs / in a whole trace *)
Definition attest_ptrs (outs : list output) : list bytes :=
  flat_map (fun o => match o with OAttest _ a => [a_mptr a] | _ => [] end) outs.
Definition trace_ptrs (tr : list (list output * option exn)) : list bytes :=
  flat_map (fun ox => attest_ptrs (fst ox)) tr.

End Spec.

(* the chain position the user opened to peer p: the length of the node's chain right after the user's
   last request_attestation_advertisement addressed to p (0 when there was none).  The chain is
   append-only, so a position identifies a token for good. *)
Section Opened.
Variable hash : bytes -> bytes.
Variable sigverify : bytes -> bytes -> bytes -> bool.
Variable mysign : bytes -> bytes.
Variable parse : bytes -> jdoc.
Variable norm : bytes -> bytes.
Variable me : bytes.
Variable rhl rsl : nat.
Variable wide : bool.

Fixpoint opened_from (s : state) (evs : list (Z * event)) (p : bytes) (cur : nat) : nat :=
  match evs with
  | [] => cur
  | (t, ev) :: tl =>
      let s1 := st_of (step hash sigverify mysign parse norm me rhl rsl wide s t ev) in
      let cur' := match ev with
                  | EAdvertise (Some q) _ _ _ => if bytes_eqb q p then length (chain s1) else cur
                  | _ => cur
                  end in
      opened_from s1 tl p cur'
  end.
Definition opened (evs : list (Z * event)) (p : bytes) : nat := opened_from (init me) evs p 0.
End Opened.
