(* C18 - intended semantics of FP2Value, written from the class documentation, not from the formulas:
   "a rational value (a + bx + cx^2)/(aC + bCx + cCx^2) (mod 1 + x + x^2, mod p)".
   R_p = Z_p[x]/(x^2+x+1); an element is a pair (u, v) standing for u + v*x, compared modulo p. *)
From Coq Require Import ZArith List Bool Zdiv.
From IPV8V Require Import lib.PyErr model.M18_base model.M18_fexpr.
Open Scope Z_scope.

(* congruence modulo p (any p; p = 0 degenerates to equality) *)
Definition cg (p a b : Z) : Prop := a mod p = b mod p.

Definition r2 : Type := (Z * Z)%type.

(* reduction of a quadratic: x^2 = -x - 1 *)
Definition red3 (a b c : Z) : r2 := (a - c, b - c).

Definition radd (s t : r2) : r2 := (fst s + fst t, snd s + snd t).
Definition rsub (s t : r2) : r2 := (fst s - fst t, snd s - snd t).
Definition rscale (k : Z) (s : r2) : r2 := (k * fst s, k * snd s).
(* product of two linear polynomials, then the reduction *)
Definition rmul (s t : r2) : r2 :=
  red3 (fst s * fst t) (fst s * snd t + snd s * fst t) (snd s * snd t).
Definition rone : r2 := (1, 0).
Definition rzero : r2 := (0, 0).

Fixpoint rpow_nat (s : r2) (k : nat) : r2 :=
  match k with O => rone | S k' => rmul s (rpow_nat s k') end.

(* equality in R_p *)
Definition req (p : Z) (s t : r2) : Prop := cg p (fst s) (fst t) /\ cg p (snd s) (snd t).
Definition reqb (p : Z) (s t : r2) : bool :=
  (fst s mod p =? fst t mod p) && (snd s mod p =? snd t mod p).

(* what an FP2Value instance denotes: numerator and denominator in R_p *)
Definition num (v : fp2) : r2 := red3 (fa v) (fb v) (fc v).
Definition den (v : fp2) : r2 := red3 (faC v) (fbC v) (fcC v).

(* fractions: pairs (numerator, denominator); textbook operations *)
Definition frac : Type := (r2 * r2)%type.
Definition fr_add (x y : frac) : frac := (radd (rmul (fst x) (snd y)) (rmul (fst y) (snd x)), rmul (snd x) (snd y)).
Definition fr_sub (x y : frac) : frac := (rsub (rmul (fst x) (snd y)) (rmul (fst y) (snd x)), rmul (snd x) (snd y)).
Definition fr_mul (x y : frac) : frac := (rmul (fst x) (fst y), rmul (snd x) (snd y)).
Definition fr_div (x y : frac) : frac := (rmul (fst x) (snd y), rmul (snd x) (fst y)).
Definition fr_inv (x : frac) : frac := (snd x, fst x).
Definition fr_one : frac := (rone, rone).
Definition fr_zero : frac := (rzero, rone).
Definition fr_pow_nat (x : frac) (k : nat) : frac := (rpow_nat (fst x) k, rpow_nat (snd x) k).

(* two fractions are equal when they cross-multiply to the same element of R_p *)
Definition fr_eq (p : Z) (x y : frac) : Prop := req p (rmul (fst x) (snd y)) (rmul (fst y) (snd x)).
Definition fr_eqb (p : Z) (x y : frac) : bool := reqb p (rmul (fst x) (snd y)) (rmul (fst y) (snd x)).

Definition denote (v : fp2) : frac := (num v, den v).

(* v represents the fraction f (componentwise, modulo p) *)
Definition represents (p : Z) (v : fp2) (f : frac) : Prop :=
  fmod v = p /\ req p (num v) (fst f) /\ req p (den v) (snd f).

(* textbook meaning of an expression: fractions over R_p, operands given by their denotation *)
Fixpoint fsem (env : list frac) (e : fexpr) : frac :=
  match e with
  | FVar i => nth i env fr_zero
  | FInt a => ((a, 0), rone)
  | FAdd a b => fr_add (fsem env a) (fsem env b)
  | FSub a b => fr_sub (fsem env a) (fsem env b)
  | FMul a b => fr_mul (fsem env a) (fsem env b)
  | FDiv a b => fr_div (fsem env a) (fsem env b)
  | FInv a => fr_inv (fsem env a)
  end.

Fixpoint fvars_ok (n : nat) (e : fexpr) : bool :=
  match e with
  | FVar i => Nat.ltb i n
  | FInt _ => true
  | FAdd a b | FSub a b | FMul a b | FDiv a b => fvars_ok n a && fvars_ok n b
  | FInv a => fvars_ok n a
  end.

(* x^k for any integer k: negative powers are powers of the inverse *)
Definition fr_pow (x : frac) (k : Z) : frac :=
  if k <? 0 then fr_inv (fr_pow_nat x (Z.to_nat (- k))) else fr_pow_nat x (Z.to_nat k).
