(* C19 - what "survives a crash" means, written from the property text.
   1. The durability contract assumed of the store (SQLite, WAL journal, synchronous=NORMAL, against a
      process kill): statements act on the connection's view only; COMMIT publishes the view atomically;
      a kill keeps exactly what was published and nothing of the pending transaction.
   2. The logical effect of a list of insert calls (no connection, no transaction, no crash): what a reader
      expects to find once all of them have returned.
   3. The vocabulary of the theorems: acknowledged records present, rows are started records, keys. *)
From Coq Require Import ZArith List Bool.
From IPV8V Require Import lib.PyErr lib.Bytes model.M19_crash.
Import ListNotations.
Open Scope Z_scope.

(* ---------------------------------------------------------------- 1. the store contract *)
Record contract {S : Type} (O : store_ops S) : Prop := {
  k_exec_res : forall s q, fst (s_exec O s q) = fst (apply_stmt (s_view O s) q);
  k_exec_view : forall s q, s_view O (snd (s_exec O s q)) = snd (apply_stmt (s_view O s) q);
  k_exec_durable : forall s q, s_durable O (snd (s_exec O s q)) = s_durable O s;
  k_commit_view : forall s, s_view O (s_commit O s) = s_view O s;
  k_commit_durable : forall s, s_durable O (s_commit O s) = s_view O s;
  k_crash_view : forall s, s_view O (s_crash O s) = s_durable O s;       (* no pending row is visible *)
  k_crash_durable : forall s, s_durable O (s_crash O s) = s_durable O s   (* published rows survive *)
}.

(* ---------------------------------------------------------------- 2. configuration read off the source *)
(* an insert function is one INSERT followed by one commit, on a data table *)
Definition insert_okb (ops : list dbop) : bool :=
  match ops with
  | [OExec _ t; OCommit] => negb (t =? T_OPTION)
  | _ => false
  end.

Fixpoint script_split (sc : list stmt) : list tdef * list stmt :=
  match sc with
  | SCreate td :: tl => let '(a, b) := script_split tl in (td :: a, b)
  | _ => ([], sc)
  end.

Definition pk_is_first (pk : list nat) : bool := match pk with [O] => true | _ => false end.

Fixpoint nodup_z (l : list Z) : bool :=
  match l with
  | [] => true
  | x :: tl => negb (existsb (Z.eqb x) tl) && nodup_z tl
  end.

(* schema script: CREATE TABLE IF NOT EXISTS ...; delete the version row; insert the version row *)
Definition script_okb (latest : Z) (sc : list stmt) : bool :=
  let '(tds, rest) := script_split sc in
  match rest with
  | [SDelete t c v; SInsert false t2 [k; v2]] =>
      (t =? T_OPTION) && Nat.eqb c 0 && (v =? K_VERSION) && (t2 =? T_OPTION) && (k =? K_VERSION) && (v2 =? latest)
  | _ => false
  end
  && existsb (fun td => (t_id td =? T_OPTION) && pk_is_first (t_pk td)) tds
  && nodup_z (map t_id tds).

Definition schema_tables (cfg : dbcfg) : list tdef :=
  match cfg_check cfg with
  | OScript sc :: _ => fst (script_split sc)
  | _ => []
  end.

Definition call_table (cfg : dbcfg) (fn : nat) : option Z :=
  match nth_error (cfg_inserts cfg) fn with
  | Some (OExec _ t :: _) => Some t
  | _ => None
  end.

Definition cfg_okb (cfg : dbcfg) : bool :=
  match cfg_check cfg with
  | [OScript sc; OCommit] =>
      script_okb (cfg_latest cfg) sc
      && forallb insert_okb (cfg_inserts cfg)
      && forallb (fun ops => match ops with
                             | OExec _ t :: _ => existsb (fun td => t_id td =? t) (fst (script_split sc))
                             | _ => false end) (cfg_inserts cfg)
  | _ => false
  end.

(* ---------------------------------------------------------------- 3. logical effect of insert calls *)
Definition call_stmt (cfg : dbcfg) (c : nat * row) : option stmt :=
  match nth_error (cfg_inserts cfg) (fst c) with
  | Some (OExec ig t :: _) => Some (SInsert ig t (snd c))
  | _ => None
  end.

Fixpoint effect (cfg : dbcfg) (d : dstate) (wl : list (nat * row)) : dstate :=
  match wl with
  | [] => d
  | c :: tl =>
      match call_stmt cfg c with
      | Some q => effect cfg (snd (apply_stmt d q)) tl
      | None => effect cfg d tl
      end
  end.

(* the calls that return normally *)
Fixpoint returned (cfg : dbcfg) (d : dstate) (wl : list (nat * row)) : list (nat * row) :=
  match wl with
  | [] => []
  | c :: tl =>
      match call_stmt cfg c with
      | Some q =>
          (match fst (apply_stmt d q) with SOk => [c] | _ => [] end)
          ++ returned cfg (snd (apply_stmt d q)) tl
      | None => returned cfg d tl
      end
  end.

Definition calls_of (acts : list action) : list (nat * row) :=
  flat_map (fun a => match a with ACall fn r => [(fn, r)] | _ => [] end) acts.
Definition all_calls (h : list (list action * nat)) : list (nat * row) :=
  flat_map (fun p => calls_of (fst p)) h.
Definition is_call (a : action) : bool := match a with ACall _ _ => true | _ => false end.
Definition only_calls (h : list (list action * nat)) : Prop :=
  Forall (fun p => forallb is_call (fst p) = true) h.

(* ---------------------------------------------------------------- 4. the clauses of the property *)
(* what can be on disk: the version row is absent or current; tables are the schema's *)
Definition valid_disk (cfg : dbcfg) (d : dstate) : Prop :=
  (version_row d = None \/ version_row d = Some (cfg_latest cfg)) /\
  incl (d_tables d) (schema_tables cfg).

(* an acknowledged record is stored: a row with its key columns is present ... *)
Definition ack_stored (cfg : dbcfg) (d : dstate) (c : nat * row) : Prop :=
  exists t td r', call_table cfg (fst c) = Some t /\ In td (schema_tables cfg) /\ t_id td = t /\
                  In (t, r') (d_rows d) /\ key_of (t_pk td) r' = key_of (t_pk td) (snd c).
(* ... and, unchanged, the record itself *)
Definition ack_present (cfg : dbcfg) (d : dstate) (c : nat * row) : Prop :=
  exists t, call_table cfg (fst c) = Some t /\ In (t, snd c) (d_rows d).

(* every data row is, column for column, a record whose insert call had started *)
Definition rows_started (cfg : dbcfg) (started : list (nat * row)) (d : dstate) : Prop :=
  forall t r, In (t, r) (d_rows d) -> t <> T_OPTION ->
              exists fn, In (fn, r) started /\ call_table cfg fn = Some t.

(* distinct records offered to one table never share their key columns *)
Definition key_consistent (cfg : dbcfg) (calls : list (nat * row)) : Prop :=
  forall c1 c2 t td, In c1 calls -> In c2 calls ->
    call_table cfg (fst c1) = Some t -> call_table cfg (fst c2) = Some t ->
    In td (schema_tables cfg) -> t_id td = t ->
    key_of (t_pk td) (snd c1) = key_of (t_pk td) (snd c2) -> snd c1 = snd c2.

(* a freshly created (empty) file *)
Definition fresh {S : Type} (O : store_ops S) (s : S) : Prop :=
  s_view O s = empty_d /\ s_durable O s = empty_d.
