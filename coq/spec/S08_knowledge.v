(* What a party can compute in the term-algebra instance (the reading of "holds session keys" used by the
   secrecy statement): written from the property text, independent of the protocol model. *)
From Coq Require Import ZArith List.
From IPV8V Require Import model.M08_toy.
Import ListNotations.
Open Scope Z_scope.

(* what an agent holding the secrets in A can compute: X25519 with a held secret and any public value;
   session keys from two computable inputs.  MACs, public keys and ciphertexts on the wire give nothing. *)
Inductive tcan_sec (A : list Z) : tsec -> Prop :=
| cs_dh a p s : In a A -> tdh a p = Some s -> tcan_sec A s.
Inductive tcan_key (A : list Z) : tkeys -> Prop :=
| ck_kdf s1 s2 : tcan_sec A s1 -> tcan_sec A s2 -> tcan_key A (TKdf s1 s2).

