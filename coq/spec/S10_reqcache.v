(* Vocabulary in which the C10 theorems are stated (counting of events, resolution, future outcomes).
   Written from the property text; no proofs. *)
From Coq Require Import ZArith List Bool Arith.
From IPV8V Require Import lib.PyErr model.M10_reqcache.
Import ListNotations.
Open Scope Z_scope.

(* number of times cache c was accepted by add / was resolved (popped, timed out, or dropped by
   clear/shutdown) in an event history *)
Fixpoint n_add (c : nat) (l : list ev) : nat :=
  match l with
  | [] => 0
  | EAdded c' :: r => (if Nat.eqb c' c then 1 else 0) + n_add c r
  | _ :: r => n_add c r
  end.
Fixpoint n_res (c : nat) (l : list ev) : nat :=
  match l with
  | [] => 0
  | EPopped c' :: r | ETimeout c' :: r => (if Nat.eqb c' c then 1 else 0) + n_res c r
  | EDropped cs :: r => (if memn c cs then 1 else 0) + n_res c r
  | _ :: r => n_res c r
  end.

Definition is_res (c : nat) (e : ev) : Prop := e = EPopped c \/ e = ETimeout c.

Definition not_pending (f : fstate) : Prop := f <> FPending.
Definition configured (sp : fspec) : fstate :=
  match sp with SNone => FNone | SVal v => FVal v | SExc v => FExc v end.

Definition resolved (c : nat) (l : list ev) : Prop :=
  exists e, In e l /\ (e = EPopped c \/ e = ETimeout c \/ exists cs, e = EDropped cs /\ In c cs).

Definition not_iterbegin (o : op) : bool := match o with IterBegin => false | _ => true end.
