(* Exit policy, stated from the property text and the protocol documents (BEP-29 uTP header,
   BEP-15 UDP tracker, bencoded DHT dictionaries, IPv8 prefix layout), independently of the code. *)
From Coq Require Import ZArith List Bool.
From IPV8V Require Import lib.PyErr lib.Bytes lib.BE.
Import ListNotations.
Open Scope Z_scope.

Definition EXIT_BT : Z := 2.    (* wire value of the BitTorrent-exit peer flag *)
Definition EXIT_IPV8 : Z := 4.  (* wire value of the IPv8-exit peer flag *)

Definition has_flag (f : Z) (flags : list Z) : bool := existsb (Z.eqb f) flags.

(* uTP: at least a 20-byte header; first byte = type (high nibble, 0..4) and version 1 (low nibble);
   second byte = extension 0..3 *)
Definition utp_shaped (d : bytes) : bool :=
  match d with
  | b0 :: b1 :: _ =>
      (20 <=? blen d) && existsb (Z.eqb b0) [1; 17; 33; 49; 65] && existsb (Z.eqb b1) [0; 1; 2; 3]
  | _ => false
  end.

(* UDP tracker: a 32-bit big-endian action 0..3 at offset 0 (>= 8 bytes) or at offset 8 (>= 12 bytes) *)
Definition action_at (d : bytes) : bool :=
  match d with
  | a :: b :: c :: e :: _ => (a =? 0) && (b =? 0) && (c =? 0) && existsb (Z.eqb e) [0; 1; 2; 3]
  | _ => false
  end.
Definition tracker_shaped (d : bytes) : bool :=
  ((8 <=? blen d) && action_at d) || ((12 <=? blen d) && action_at (skipn 8 d)).

(* DHT: a bencoded dictionary: 'd' ... 'e', at least two bytes *)
Definition dht_shaped (d : bytes) : bool :=
  match d with
  | x :: _ :: _ => (x =? 100) && (last d 0 =? 101)     (* 'd' = 100, 'e' = 101 *)
  | _ => false
  end.

Definition bt_shaped (d : bytes) : bool := utp_shaped d || tracker_shaped d || dht_shaped d.

(* IPv8: 22-byte prefix (0x00, version 1 or 2, 20-byte community id) plus a message id *)
Definition ipv8_shaped (d : bytes) : bool :=
  match d with
  | z :: v :: _ => (z =? 0) && (23 <=? blen d) && ((v =? 1) || (v =? 2))
  | _ => false
  end.

Definition permitted (flags : list Z) (prefix d : bytes) : bool :=
  (bt_shaped d && has_flag EXIT_BT flags)
  || (ipv8_shaped d && (has_flag EXIT_IPV8 flags || bytes_eqb (firstn 22 d) prefix)).
