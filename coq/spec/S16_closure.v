(* C16 - declarative reading of "the owner's signed chain" for a collection T of offered tokens:
   the least set of tokens of T that are validly signed by the tree's key and whose predecessor pointer is
   the genesis hash or the hash of a member.  Written from the property text; the only things shared with
   the model are the token record and the definitions of a token's hash / signature check. *)
From Coq Require Import ZArith List Bool.
From IPV8V Require Import lib.PyErr lib.Bytes model.M16_tokentree.
Import ListNotations.

Section Closure.
Variable hash : bytes -> bytes.
Variable sigverify : bytes -> bytes -> bytes -> bool.
Variable pk : bytes.

Inductive in_closure (T : list token) : token -> Prop :=
| ic_root : forall t,
    In t T -> tverify sigverify pk t = true -> t_prev t = genesis hash pk -> in_closure T t
| ic_child : forall t u,
    In t T -> tverify sigverify pk t = true -> in_closure T u -> t_prev t = thash hash u ->
    in_closure T t.

(* the hashes under which the closure is stored *)
Definition closure_keys (T : list token) (h : bytes) : Prop :=
  exists t, in_closure T t /\ thash hash t = h.

(* the closure only depends on which tokens were offered, not on order or multiplicity *)
Lemma in_closure_ext T1 T2 t :
  (forall x, In x T1 -> In x T2) -> in_closure T1 t -> in_closure T2 t.
Proof.
  intros H I. induction I.
  - apply ic_root; auto.
  - eapply ic_child; eauto.
Qed.

(* forged / foreign tokens (signature does not verify under the key) and dangling tokens are outside *)
Lemma in_closure_signed T t : in_closure T t -> tverify sigverify pk t = true /\ In t T.
Proof. intros I; destruct I; auto. Qed.

Lemma in_closure_connected T t :
  in_closure T t ->
  t_prev t = genesis hash pk \/ exists u, in_closure T u /\ t_prev t = thash hash u.
Proof. intros I; destruct I; [left; auto | right; eauto]. Qed.

End Closure.
