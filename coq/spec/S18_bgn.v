(* C18 - what is assumed of the bilinear-group construction (ec.py, boneh.py get_good_wp /
   generate_keypair), stated once: the values of the Weil pairing form a finite abelian group in which
   the public generators have the orders the scheme of Boneh, Goh and Nissim needs.  These are the
   hypotheses of the protocol theorems; they are not proved about ec.py. *)
From Coq Require Import ZArith List Bool.
From IPV8V Require Import lib.PyErr model.M18_hom.
Open Scope Z_scope.

Section Spec.
  Variable G : Type.
  Variable gmul : G -> G -> G.
  Variable gone : G.
  Variable ginv : G -> G.
  Variable geqb : G -> G -> bool.

  Definition abelian_group : Prop :=
    (forall a b c, gmul a (gmul b c) = gmul (gmul a b) c) /\
    (forall a b, gmul a b = gmul b a) /\
    (forall a, gmul gone a = a) /\
    (forall a, gmul (ginv a) a = gone).

  (* the code's == decides equality of group elements *)
  Definition eq_decides : Prop := forall a b, geqb a b = true <-> a = b.

  (* generate_keypair: n = t1*t2, p = l*n - 1, g of order n, h = u^t2 of order t1 *)
  Definition bgn_keypair (g h : G) (t1 t2 P : Z) : Prop :=
    abelian_group /\ eq_decides /\ 2 < t2 /\
    gpow G gmul gone ginv h t1 = gone /\
    gpow G gmul gone ginv g (t1 * t2) = gone /\
    (forall m, 0 < m < t2 -> gpow G gmul gone ginv (gpow G gmul gone ginv g t1) m <> gone) /\
    0 < P + 1 /\ (t1 * t2 | P + 1).

  (* the commitment a^m * b^r *)
  Definition commit (a b : G) (m r : Z) : G := gmul (gpow G gmul gone ginv a m) (gpow G gmul gone ginv b r).
End Spec.
