(* The authenticated message sets of the shipped protocols, written by hand (overlay -> ids whose handler
   must be behind signature verification; ids that are deliberately unauthenticated).  Peer-discovery core
   (every Community): introduction request/response 246/245 (old) 234/233 (new), puncture 249 / 231 are
   signed; puncture-request 250 / 232 is unsigned by design (it is relayed by a third party that cannot sign
   for the requester).  DiscoveryCommunity: similarity 1, 2 signed; ping/pong 3, 4 unsigned by design. *)
From Coq Require Import ZArith List Bool String.
Import ListNotations.
Local Open Scope string_scope.
Local Open Scope Z_scope.

Definition core_signed : list Z := [231; 233; 234; 245; 246; 249].
Definition core_unsigned : list Z := [232; 250].

Definition expected_signed : list (string * list Z) :=
  [("AttestationCommunity", ([1; 2; 3; 4; 5] ++ core_signed)%list);
   ("DHTCommunity", ([1; 2; 3; 4; 5; 6] ++ core_signed)%list);
   ("DHTDiscoveryCommunity", ([1; 2; 3; 4; 5; 6; 7; 8; 9; 10] ++ core_signed)%list);
   ("DiscoveryCommunity", [1; 2; 231; 233; 234; 245; 249]);   (* 246 is parsed by hand with _ez_unpack_auth *)
   ("HiddenTunnelCommunity", ([8] ++ core_signed)%list);
   ("IdentityCommunity", ([1; 2; 3; 4] ++ core_signed)%list);
   ("TunnelCommunity", ([8] ++ core_signed)%list)].

Definition expected_unsigned : list (string * list Z) :=
  [("AttestationCommunity", core_unsigned);
   ("DHTCommunity", core_unsigned);
   ("DHTDiscoveryCommunity", core_unsigned);
   ("DiscoveryCommunity", ([3; 4] ++ core_unsigned)%list);
   ("HiddenTunnelCommunity", core_unsigned);
   ("IdentityCommunity", core_unsigned);
   ("TunnelCommunity", core_unsigned)].
