(* The wire table of doc/reference/serialization.rst ("Available data types"), written by hand:
   what other versions and implementations rely on.  All multi-byte values big-endian; struct
   letters as in Python's struct module (B/H/I,L/Q unsigned 1/2/4/8, l/q signed 4/8, ? bool,
   c one char, f/d IEEE single/double, <n>s fixed n bytes); varlen<L>[x<k>]: length prefix of width
   L counting units of k bytes; "-list": one-byte count; "payload": two-byte length prefix;
   arrays: two-byte count, 1/8/8-byte elements. *)
From Coq Require Import ZArith List Bool String.
From IPV8V Require Import lib.PyErr lib.Bytes model.M02_wire.
Import ListNotations.
Local Open Scope string_scope.

Definition documented : list (string * rfmt) :=
  [("?", RF (FStruct [PBool]));
   ("B", RF (FStruct [PU 1]));
   ("BBH", RF (FStruct [PU 1; PU 1; PU 2]));
   ("BH", RF (FStruct [PU 1; PU 2]));
   ("c", RF (FStruct [PChar]));
   ("f", RF (FStruct [PF 4]));
   ("d", RF (FStruct [PF 8]));
   ("H", RF (FStruct [PU 2]));
   ("HH", RF (FStruct [PU 2; PU 2]));
   ("I", RF (FStruct [PU 4]));
   ("l", RF (FStruct [PS 4]));
   ("LL", RF (FStruct [PU 4; PU 4]));
   ("q", RF (FStruct [PS 8]));
   ("Q", RF (FStruct [PU 8]));
   ("QH", RF (FStruct [PU 8; PU 2]));
   ("QL", RF (FStruct [PU 8; PU 4]));
   ("QQHHBH", RF (FStruct [PU 8; PU 8; PU 2; PU 2; PU 1; PU 2]));
   ("ccB", RF (FStruct [PChar; PChar; PU 1]));
   ("4SH", RF (FStruct [PBytes 4; PU 2]));
   ("20s", RF (FStruct [PBytes 20]));
   ("32s", RF (FStruct [PBytes 32]));
   ("64s", RF (FStruct [PBytes 64]));
   ("74s", RF (FStruct [PBytes 74]));
   ("c20s", RF (FStruct [PChar; PBytes 20]));
   ("bits", RF FBits);
   ("ipv4", RF FIPv4);
   ("ip_address", RF (FAddr true));
   ("address", RF (FAddr false));
   ("raw", RF FRaw);
   ("varlenBx2", RF (FVarLen 1 2 false));
   ("varlenH", RF (FVarLen 2 1 false));
   ("varlenHutf8", RF (FVarLen 2 1 true));
   ("varlenIutf8", RF (FVarLen 4 1 true));
   ("varlenHx20", RF (FVarLen 2 20 false));
   ("varlenH-list", RF (FListOf 1 (FVarLen 2 1 false)));
   ("varlenI", RF (FVarLen 4 1 false));
   ("doublevarlenH", RF (FVarLen 2 1 false));
   ("payload", RPayload);
   ("payload-list", RPayloadList 1);
   ("arrayH-?", RF (FArray PBool 2));
   ("arrayH-q", RF (FArray (PS 8) 2));
   ("arrayH-d", RF (FArray (PF 8) 2))].

(* formats added by the shipped overlays (tunnel peer flags: 16-bit mask; DHT node list) *)
Definition documented_overlay : list (string * rfmt) :=
  [("flags", RF (FFlags 2));
   ("node-list", RF (FListOf 1 FNode))].
