(* Declarative side of C05: what "the same routing entry" means, which ids a node holds, and the
   well-formedness of routing tables.  Written from the property text. *)
From Coq Require Import ZArith List Bool Lia.
From IPV8V Require Import lib.PyErr lib.Bytes lib.BE model.M02_wire model.M03_recv model.M04_onion model.M05_isolation.
Import ListNotations.
Open Scope Z_scope.

Section Spec5.
Variable key : Type.

(* the identity of an entry: everything except counters and flags that traffic legitimately moves *)
Definition relay_core (r : relay_route key) := (rr_cid r, rr_hop r, rr_dir r, rr_rdv r).
Definition circuit_core (c : circuit key) := (c_goal c, c_ctype c, c_hops c, c_unverified c, c_hs c, c_closing c).
Definition exit_core (e : exit_sock key) := (es_cid e, es_hop e).

Definition cores {A B} (f : A -> B) (l : list (Z * A)) : list (Z * B) := map (fun kv => (fst kv, f (snd kv))) l.

(* same ids, same entries up to counters (relay_early counts, the exit socket's enabled flag) *)
Definition same_tables (a b : node key) : Prop :=
  n_prefix a = n_prefix b /\ n_max_early a = n_max_early b /\ n_flags a = n_flags b /\
  n_handlers a = n_handlers b /\ n_data_ids a = n_data_ids b /\ n_tunnel_ep a = n_tunnel_ep b /\
  cores circuit_core (n_circuits a) = cores circuit_core (n_circuits b) /\
  cores relay_core (n_relays a) = cores relay_core (n_relays b) /\
  cores exit_core (n_exits a) = cores exit_core (n_exits b).

(* an entry that exists before a step is, after the step, either gone or the same entry: never re-keyed,
   never re-routed, never replaced *)
Definition entries_kept {A B} (f : A -> B) (before after : list (Z * A)) : Prop :=
  forall cid v, assoc cid before = Some v ->
    assoc cid after = None \/ exists v', assoc cid after = Some v' /\ f v' = f v.

Definition no_replacement (a b : node key) : Prop :=
  entries_kept relay_core (n_relays a) (n_relays b) /\ entries_kept exit_core (n_exits a) (n_exits b).

(* ---- well-formed routing tables (the invariant of C05) ---- *)
Definition ids_in {A} (l : list (Z * A)) (x : Z) : Prop := has x l = true.

Record tables_ok (c : cnode key) : Prop := mkTablesOk {
  (* an id of one of our own circuits is not also a relay or exit id *)
  ok_roles : forall x, ids_in (n_circuits (cn_tab c)) x ->
               has x (n_relays (cn_tab c)) = false /\ has x (n_exits (cn_tab c)) = false;
  (* an id is relay and exit at once only in the hand-over window exit -> relay (removal already scheduled),
     and then both entries carry the same session keys *)
  ok_handover : forall x r es, assoc x (n_relays (cn_tab c)) = Some r -> assoc x (n_exits (cn_tab c)) = Some es ->
               In (PExit x) (cn_pending c) /\ h_keys (rr_hop r) = h_keys (es_hop es);
  (* an exit socket answers under the id it is filed under *)
  ok_exit_id : forall x es, assoc x (n_exits (cn_tab c)) = Some es -> es_cid es = x;
  (* the target id drawn for an extend in progress is not in use, and no two extends share one *)
  ok_create : forall n rq, assoc n (cn_create c) = Some rq -> in_use (cn_tab c) (cr_to rq) = false;
  ok_create_distinct : forall n1 n2 r1 r2, assoc n1 (cn_create c) = Some r1 -> assoc n2 (cn_create c) = Some r2 ->
               n1 <> n2 -> cr_to r1 <> cr_to r2 }.

(* ids drawn at random are assumed not to collide with ids in use or drawn before (probability 2^-32 each);
   a create does not arrive under an id this node has itself just drawn for an outgoing create (only the
   chosen next hop ever sees that id) *)
Definition no_pending_target (c : cnode key) (cid : Z) : Prop :=
  forall n rq, assoc n (cn_create c) = Some rq -> cr_to rq <> cid.

Definition op_fresh {nonce : Type} (c : cnode key) (o : cop key nonce) : Prop :=
  match o with
  | OExtend _ _ _ _ _ _ number tocid =>
      in_use (cn_tab c) tocid = false /\ no_pending_target c tocid /\ assoc number (cn_create c) = None
  | ONewCircuit cid _ => in_use (cn_tab c) cid = false /\ no_pending_target c cid
  | OCreate _ cid _ _ _ _ => no_pending_target c cid
  | _ => True
  end.

(* keys of entries that survive a step are unchanged; exit sockets and their previous hop are unchanged *)
Definition keys_kept (a b : node key) : Prop :=
  (forall x r r', assoc x (n_relays a) = Some r -> assoc x (n_relays b) = Some r' -> h_keys (rr_hop r') = h_keys (rr_hop r))
  /\ (forall x e e', assoc x (n_exits a) = Some e -> assoc x (n_exits b) = Some e' -> exit_core e' = exit_core e).

(* ---- who may cause which removal ---- *)
(* the authenticated sender pk is a stored neighbour of the entry p names: the next hop of the relay entry
   itself, the next hop of its partner entry, the previous hop of the exit socket, the first hop of our circuit *)
Definition adjacent (c : cnode key) (pk : Z) (p : pending) : Prop :=
  match p with
  | PRelay x =>
      exists r, assoc x (n_relays (cn_tab c)) = Some r
                /\ (pk = h_pk (rr_hop r)
                    \/ exists pr, assoc (rr_cid r) (n_relays (cn_tab c)) = Some pr /\ pk = h_pk (rr_hop pr))
  | PExit x => exists es, assoc x (n_exits (cn_tab c)) = Some es /\ pk = h_pk (es_hop es)
  | PCircuit x => exists ci h0, assoc x (n_circuits (cn_tab c)) = Some ci /\ circuit_hop ci = Ok h0 /\ pk = h_pk h0
  end.

(* after a destroy: no relay / exit entry touched, no cache touched; removals scheduled only for entries the
   sender is adjacent to *)
Definition destroy_post (c : cnode key) (pk : Z) (c' : cnode key) : Prop :=
  n_relays (cn_tab c') = n_relays (cn_tab c) /\ n_exits (cn_tab c') = n_exits (cn_tab c) /\
  cn_created c' = cn_created c /\ cn_create c' = cn_create c /\
  exists added, cn_pending c' = cn_pending c ++ added /\ forall p, In p added -> adjacent c pk p.

(* deliveries to the originator's consumer *)
Definition is_consumer (a : action) : bool :=
  match a with RawData _ _ _ | Reinject _ _ _ | NotifyOther _ _ => true | _ => false end.

End Spec5.

Arguments relay_core {key}. Arguments circuit_core {key}. Arguments exit_core {key}.
Arguments same_tables {key}. Arguments no_replacement {key}.
Arguments tables_ok {key}. Arguments op_fresh {key nonce}. Arguments keys_kept {key}.
Arguments no_pending_target {key}.
Arguments adjacent {key}. Arguments destroy_post {key}.

Section Spec5run.
Variables key nonce : Type.
Variable enc : key -> dir -> nonce -> bytes -> bytes.
Variable dec : key -> dir -> bytes -> option bytes.
(* freshness of the ids drawn along a history *)
Fixpoint run_fresh (c : cnode key) (ops : list (cop key nonce)) : Prop :=
  match ops with
  | [] => True
  | o :: tl => op_fresh c o /\ match cstep enc dec c o with Ok (c1, _) => run_fresh c1 tl | Raise _ => True end
  end.
End Spec5run.
Arguments run_fresh {key nonce}.
