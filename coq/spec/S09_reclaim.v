(* C09 - what "reclaimed within a bounded time" means, written from the property text and the
   documentation of TunnelSettings / do_remove, independently of the translated rules. *)
From Coq Require Import ZArith List Bool.
From IPV8V Require Import gen.G09_rules model.M09_reclaim.
Import ListNotations.
Open Scope Z_scope.

(* the three reasons for which the periodic sweep drops an entry *)
Definition inactive (st : settings) (tnow : Z) (r : ro) : bool := la r + s_max_inactive st <? tnow.
Definition too_old (st : settings) (tnow : Z) (r : ro) : bool := creation r + s_max_time st <? tnow.
Definition overused (st : settings) (r : ro) : bool := s_max_traffic st <? up r + down r.

Definition c_ready (c : circuit) : bool := negb (c_closing c) && (c_goal c <=? c_hops c).

(* Some destroy = the entry is dropped, and a destroy message is sent iff destroy *)
Definition circuit_verdict (st : settings) (tnow : Z) (c : circuit) : option bool :=
  if c_ready c && inactive st tnow (c_ro c) then Some false
  else if too_old st tnow (c_ro c) then Some false
  else if overused st (c_ro c) then Some true else None.
Definition relay_verdict (st : settings) (tnow : Z) (r : relay) : option bool :=
  if inactive st tnow (r_ro r) then Some false
  else if overused st (r_ro r) then Some true else None.
Definition exit_verdict (st : settings) (tnow : Z) (e : exitsock) : option bool :=
  if inactive st tnow (e_ro e) then Some false
  else if too_old st tnow (e_ro e) then Some false
  else if overused st (e_ro e) then Some true else None.

Definition dropped (k : rkind) (cid : Z) (v : option bool) : list deferred :=
  match v with Some d => [DRemove k cid (if d then 1 else 0) false] | None => [] end.

(* what one sweep must schedule: exactly the entries with a verdict, table by table, in table order *)
Definition sweep_spec (st : settings) (s : node) : list deferred :=
  flat_map (fun kc => dropped KCirc (fst kc) (circuit_verdict st (now s) (snd kc))) (circuits s)
  ++ flat_map (fun kr => dropped KRelay (fst kr) (relay_verdict st (now s) (snd kr))) (relays s)
  ++ flat_map (fun ke => dropped KExit (fst ke) (exit_verdict st (now s) (snd ke))) (exits s).

(* the bounds *)
Definition B_entry (st : settings) : Z := s_max_inactive st + s_sweep st + s_remove_delay st.
Definition tries0 (st : settings) : Z := initial_tries (s_circuit_timeout st) (s_next_hop_timeout st).
Definition build_bound (st : settings) (goal : Z) : Z := s_next_hop_timeout st * (tries0 st + goal - 1).
Definition circuit_deadline (st : settings) (c : circuit) : Z :=
  Z.max (la (c_ro c) + s_max_inactive st + s_sweep st) (creation (c_ro c) + build_bound st (c_goal c))
  + s_remove_delay st.

Definition settings_ok (st : settings) : Prop :=
  0 <= s_max_inactive st /\ 0 <= s_sweep st /\ 0 <= s_remove_delay st
  /\ 0 < s_next_hop_timeout st /\ s_next_hop_timeout st <= s_circuit_timeout st.

(* presence of an id in the tables of a node *)
Definition holds_id (s : node) (cid : Z) : bool :=
  ahas cid (circuits s) || ahas cid (relays s) || ahas cid (exits s).
