(* C14 - what "a valid Kademlia tree" and "the k closest nodes" mean, written from the property
   text and the Kademlia paper, independently of how routing.py computes them. *)
From Coq Require Import ZArith List Bool Arith Sorted.
From IPV8V Require Import lib.PyErr model.M14_routing.
Import ListNotations.
Open Scope Z_scope.

Definition is_prefix (p l : bits) : Prop := exists s, l = p ++ s.

(* bucket b is stored in the table under the key (bit string) k *)
Definition bucket_at (rt : rtable) (k : bits) (b : bucket) : Prop := tget (tr rt) k = Ok b.

(* every node of every bucket *)
Definition table_nodes (rt : rtable) : list node := all_nodes (tr rt).

Record valid_table (W cap : nat) (rt : rtable) : Prop := {
  (* the bucket keys are prefix-free ... *)
  vt_prefix_free : forall k1 b1 k2 b2,
      bucket_at rt k1 b1 -> bucket_at rt k2 b2 -> is_prefix k1 k2 -> k1 = k2;
  (* ... and complete: every W-bit identifier has an owning bucket, exactly one, and get_bucket finds it *)
  vt_complete : forall i, length i = W ->
      exists k b, bucket_at rt k b /\ is_prefix k i /\ find_bucket (tr rt) i = Ok (k, b) /\
                  (forall k' b', bucket_at rt k' b' -> is_prefix k' i -> k' = k);
  (* a bucket knows its own key *)
  vt_key : forall k b, bucket_at rt k b -> bprefix b = k /\ (length k <= W)%nat;
  (* every node sits in the bucket that owns its identifier *)
  vt_owned : forall k b n, bucket_at rt k b -> In n (bnodes b) -> length (nid n) = W /\ is_prefix k (nid n);
  (* no bucket exceeds its capacity *)
  vt_capacity : forall k b, bucket_at rt k b -> (length (bnodes b) <= cap)%nat;
  (* node identifiers are unique in the whole table *)
  vt_unique : NoDup (map nid (table_nodes rt));
  (* only buckets on the path of our own identifier were ever split:
     every bucket key is the root or a one-bit extension of a prefix of our own id *)
  vt_own_path : forall k b, bucket_at rt k b -> k = [] \/ exists q x, k = q ++ [x] /\ is_prefix q (own rt)
}.

(* a node that closest_nodes may return: not BAD, not the excluded one *)
Definition eligible (excl : option bits) (n : node) : Prop :=
  nfailed n < 2 /\ match excl with None => True | Some e => nid n <> e end.

(* res is the list of the k eligible nodes of the table nearest to the target by XOR distance, nearest first *)
Record k_closest (rt : rtable) (target : bits) (excl : option bits) (k : nat) (res : list node) : Prop := {
  kc_sorted : StronglySorted (fun a b => dist (nid a) target < dist (nid b) target) res;
  kc_members : forall n, In n res -> In n (table_nodes rt) /\ eligible excl n;
  kc_count : forall elig, NoDup elig -> (forall n, In n elig <-> In n (table_nodes rt) /\ eligible excl n) ->
             length res = Nat.min k (length elig);
  kc_nearest : forall n m, In n res -> In m (table_nodes rt) -> eligible excl m -> ~ In m res ->
               dist (nid n) target < dist (nid m) target
}.

(* histories: additions, bad-node removal, status changes of nodes; identifiers are W bits wide *)
Definition op_ok (W : nat) (o : op) : Prop :=
  match o with
  | Add n => length (nid n) = W
  | RemoveBad => True
  | Touch i _ _ => length i = W
  end.

Definition reachable (W cap : nat) (me : bits) (rt : rtable) : Prop :=
  exists ops, Forall (op_ok W) ops /\ run W cap (rt_init me) ops = Ok rt.

(* ---- the prefix tree: "pruned" means that no node object without a value in its sub-tree remains
   below the root (deleting a key removes the value-less leaf chain it leaves behind) *)
Section TrieSpec.
Context {A : Type}.

Fixpoint nonvoid (t : trie A) : bool :=
  match t with
  | Empty => false
  | TNode v c0 c1 => (match v with Some _ => true | None => false end) || nonvoid c0 || nonvoid c1
  end.

Fixpoint compact_sub (t : trie A) : Prop :=
  match t with
  | Empty => True
  | TNode v c0 c1 => nonvoid t = true /\ compact_sub c0 /\ compact_sub c1
  end.

Definition compact (t : trie A) : Prop :=
  match t with Empty => True | TNode _ c0 c1 => compact_sub c0 /\ compact_sub c1 end.

End TrieSpec.
