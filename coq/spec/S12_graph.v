(* C12 - what the peer graph *is*, and what every query must answer, written from the property text
   and the docstrings of ipv8/peerdiscovery/network.py.  Nothing here mentions an index or a cache:
   the graph is the set of verified Peer objects (identity, key, addresses), the advertised services
   per key, and the known addresses with who introduced them. *)
From Coq Require Import ZArith List Bool.
From IPV8V Require Import lib.PyErr lib.Bytes model.M02_wire model.M12_network.
Import ListNotations.
Open Scope Z_scope.

Record graph : Type := mkGraph {
  g_peers : list (nat * obj);                  (* verified Peer objects: identity, (key, addresses) *)
  g_services : list (key * list service);      (* advertised services per key *)
  g_addrs : list (addr * walk)                 (* every known address: introducer, service, new-style *)
}.

(* the abstraction of a Network state: only the authoritative structures, no index, no cache *)
Definition abs (n : net) : graph :=
  mkGraph (map (fun i => (i, hget (heap n) i)) (verified n)) (services n) (all_addrs n).

Definition p_id (p : nat * obj) : nat := fst p.
Definition p_key (p : nat * obj) : key := fst (snd p).
Definition p_addrs (p : nat * obj) : list addr := am_values (snd (snd p)).

Definition g_svc (g : graph) (k : key) : list service := svc_lookup (g_services g) k.

(* lookup by public key: the verified peer with that key *)
Definition spec_by_key (g : graph) (k : key) : option nat :=
  option_map p_id (find (fun p => p_key p =? k) (g_peers g)).

(* lookup by address: any verified peer that has the address (None iff there is none) *)
Definition spec_owners (g : graph) (a : addr) : list nat :=
  map p_id (filter (fun p => mem_addr a (p_addrs p)) (g_peers g)).

(* peers per service: the verified peers that advertised it *)
Definition serves_peer (g : graph) (s : service) (p : nat * obj) : bool := mem_z s (g_svc g (p_key p)).
Definition spec_peers_for_service (g : graph) (s : service) : list nat :=
  map p_id (filter (serves_peer g s) (g_peers g)).

(* walkable addresses: known addresses that no verified peer (offering the service, if one is asked
   for) uses; with a service also: discovered through that service or introduced by a peer that
   advertised it, and not new-style if only old-style ones are wanted *)
Definition taken (g : graph) (sel : nat * obj -> bool) : list addr :=
  flat_map p_addrs (filter sel (g_peers g)).
Definition serves_addr (g : graph) (s : service) (old : bool) (a : addr) : bool :=
  match d_get addr_eqb a (g_addrs g) with
  | None => false
  | Some w =>
      negb (old && w_new w) &&
      (opt_z_eqb (Some s) (w_service w) ||
       mem_z s (match w_intro w with Some k => g_svc g k | None => [] end))
  end.
Definition spec_walkable (g : graph) (so : option service) (old : bool) : list addr :=
  match so with
  | None => filter (fun a => negb (mem_addr a (taken g (fun _ => true)))) (map fst (g_addrs g))
  | Some s => filter (fun a => negb (mem_addr a (taken g (serves_peer g s))) && serves_addr g s old a)
                     (map fst (g_addrs g))
  end.

(* introductions of a peer: the known addresses it introduced *)
Definition spec_introductions (g : graph) (k : key) : list addr := intros_of (g_addrs g) k.

Definition spec_services (g : graph) (k : key) : list service := g_svc g k.

(* a snapshot holds the preferred, non-null address of every verified peer *)
Definition spec_snapshot_addrs (g : graph) : list addr :=
  filter (fun a => negb (addr_eqb a null_addr)) (map (fun p => am_preferred (snd (snd p))) (g_peers g)).

(* nobody in the graph has this key / uses this address *)
Definition absent_key (g : graph) (k : key) : Prop := forall p, In p (g_peers g) -> p_key p <> k.
Definition unused_addr (g : graph) (a : addr) : Prop := forall p, In p (g_peers g) -> ~ In a (p_addrs p).

(* ------------------------------------------------------------------ the property, per state *)
(* every way of asking gives what the graph implies (as sets where the API promises no order) *)
Definition answers_agree (n : net) : Prop :=
  let g := abs n in
  (forall k, get_verified_by_public_key_bin n k = spec_by_key g k) /\
  (forall a hint, match snd (get_verified_by_address n a hint) with
                  | Some i => In i (spec_owners g a)
                  | None => spec_owners g a = []
                  end) /\
  (forall s i, In i (snd (get_peers_for_service n s)) <-> In i (spec_peers_for_service g s)) /\
  (forall k, get_services_for_peer n k = spec_services g k) /\
  (forall so old a, In a (snd (get_walkable_addresses n so old)) <-> In a (spec_walkable g so old)) /\
  (forall k a, In a (snd (get_introductions_from n k)) <-> In a (spec_introductions g k)) /\
  (forall a, In a (snapshot_addrs n) <-> In a (spec_snapshot_addrs g)).

(* no lookup that returns peers returns one with this key *)
Definition never_returned (n : net) (k : key) : Prop :=
  get_verified_by_public_key_bin n k = None /\
  (forall a hint i, snd (get_verified_by_address n a hint) = Some i -> hkey (heap n) i <> k) /\
  (forall s i, In i (snd (get_peers_for_service n s)) -> hkey (heap n) i <> k).

Definition all_queries (qs : list op) : Prop := forallb is_query qs = true.

(* well-formed addresses: what the `address` packer of the wire model accepts (M02_wire.addr_ok:
   4 / 16 address bytes, port below 65536, host name valid UTF-8 shorter than 65536 bytes) *)
Definition packable (a : addr) : Prop := addr_ok false a = true.
Definition opt_packable (o : option addr) : Prop := match o with Some a => packable a | None => True end.
Definition am_ok (m : addrmap) : Prop := opt_packable (am4 m) /\ opt_packable (am6 m) /\ opt_packable (amd m).
Definition op_ok (o : op) : Prop :=
  match o with
  | AddVerified _ am | DiscoverAddress _ am _ _ _ | DiscoverServices _ am _ => am_ok am
  | _ => True
  end.

(* what a dict keyed by addresses holds after the addresses `l` were assigned in this order: the keys it
   had, then the new ones in order of first occurrence *)
Definition add_key (acc : list addr) (a : addr) : list addr := if mem_addr a acc then acc else acc ++ [a].
Definition uniq (l : list addr) : list addr := fold_left add_key l [].

(* the bytes of a snapshot holding the addresses `l`: their `address` records (C02 wire model), concatenated *)
Definition packed (l : list addr) : res bytes := concat_res (map pack_address l).
