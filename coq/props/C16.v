(* C16 - a token tree only ever holds its owner's signed chain, in any order.  Property theorems only.
   Model: model/M16_tokentree.v (gather_token with the repaired chain reaction that wakes every waiter).
   SHA3-256 (`hash`), the signature check (`sigverify`), the widths on the wire (`hl`, `sl`) and the tree's
   key (`pk`) are universally quantified: nothing is assumed about them. *)
From Coq Require Import ZArith List Bool Permutation.
From IPV8V Require Import lib.PyErr lib.Bytes model.M16_tokentree spec.S16_closure
  proofs.P16_gather proofs.P16_props.
Import ListNotations.
Open Scope Z_scope.

(* Whatever is offered, in whatever order, gather_token never fails (no KeyError from the waiting
   area, the recursion of the chain reaction is bounded by the waiting area). *)
Theorem gather_never_fails : forall hash sigverify pk c arr,
  exists tr, gather_all hash sigverify pk (empty_tree c) arr = Ok tr.
Proof. exact gather_all_total_l. Qed.
Print Assumptions gather_never_fails.

(* elements_sound: in every reachable state every element is validly signed by the tree's key, is one
   of the offered tokens, and the dict is ordered so that each element's predecessor pointer is the
   genesis hash or the hash of an earlier element (no dangling element, no cycle); keys are unique.
   Waiting tokens are validly signed offered tokens whose predecessor is not (yet) an element. *)
Theorem elements_sound : forall hash sigverify pk c arr tr,
  gather_all hash sigverify pk (empty_tree c) arr = Ok tr ->
  Forall (fun e => tverify sigverify pk e = true /\ exists p, In p arr /\ same_fields p e) (elements tr)
  /\ chain_ok hash pk (elements tr)
  /\ NoDup (keys hash (elements tr))
  /\ Forall (fun u => tverify sigverify pk u = true /\ (exists p, In p arr /\ same_fields p u) /\
                      ~ In (t_prev u) (keys hash (elements tr))) (unchained tr).
Proof. exact elements_sound_l. Qed.
Print Assumptions elements_sound.

(* forged or foreign tokens (signature does not verify under the tree's key) and dangling tokens are
   never elements *)
Theorem forged_foreign_dangling_never_elements : forall hash sigverify pk c arr tr t e,
  gather_all hash sigverify pk (empty_tree c) arr = Ok tr -> In e (elements tr) -> same_fields t e ->
  tverify sigverify pk t = true /\
  (t_prev t = genesis hash pk \/ In (t_prev t) (keys hash (elements tr))).
Proof. exact only_signed_connected_l. Qed.
Print Assumptions forged_foreign_dangling_never_elements.

(* verify / get_root_path succeed on every element (maxdepth at least the number of elements; the
   default is 1000) ... *)
Theorem elements_verify : forall hash sigverify pk c arr tr e md,
  gather_all hash sigverify pk (empty_tree c) arr = Ok tr -> In e (elements tr) ->
  Z.of_nat (length (elements tr)) <= md ->
  tree_verify hash sigverify pk tr e md = true /\
  exists p, get_root_path hash sigverify pk tr e md = e :: p.
Proof. exact elements_verify_l. Qed.
Print Assumptions elements_verify.

(* ... and, on any tree and any token, verify only answers True when the token is validly signed and a
   path of stored, validly signed predecessors leads to the genesis pointer *)
Theorem verify_only_rooted : forall hash sigverify pk tr t md,
  tree_verify hash sigverify pk tr t md = true -> rooted hash sigverify pk (elements tr) t.
Proof. exact verify_implies_rooted_l. Qed.
Print Assumptions verify_only_rooted.

(* elements_complete_any_order: for every list of offers (duplicates allowed, any order) in wire form,
   as long as the number of distinct offers fits the waiting area, the run ends with exactly the closure
   of the offers: the validly signed offers connected to genesis through other such offers. *)
Theorem elements_complete_any_order : forall hash sigverify hl pk c arr,
  Forall (prev_wire hl) arr -> (distinct_offers arr <= c)%nat ->
  exists tr, gather_all hash sigverify pk (empty_tree c) arr = Ok tr /\
             forall h, In h (keys hash (elements tr)) <-> closure_keys hash sigverify pk arr h.
Proof. exact elements_complete_l. Qed.
Print Assumptions elements_complete_any_order.

(* hence the result does not depend on order or multiplicity of arrival *)
Theorem order_independent : forall hash sigverify hl pk c arr1 arr2,
  (forall t, In t arr1 <-> In t arr2) ->
  Forall (prev_wire hl) arr1 -> (distinct_offers arr1 <= c)%nat ->
  exists tr1 tr2,
    gather_all hash sigverify pk (empty_tree c) arr1 = Ok tr1 /\
    gather_all hash sigverify pk (empty_tree c) arr2 = Ok tr2 /\
    forall h, In h (keys hash (elements tr1)) <-> In h (keys hash (elements tr2)).
Proof. exact order_independent_l. Qed.
Print Assumptions order_independent.

Theorem permutation_independent : forall hash sigverify hl pk c arr1 arr2,
  Permutation arr1 arr2 -> Forall (prev_wire hl) arr1 -> (distinct_offers arr1 <= c)%nat ->
  exists tr1 tr2,
    gather_all hash sigverify pk (empty_tree c) arr1 = Ok tr1 /\
    gather_all hash sigverify pk (empty_tree c) arr2 = Ok tr2 /\
    forall h, In h (keys hash (elements tr1)) <-> In h (keys hash (elements tr2)).
Proof. exact permutation_independent_l. Qed.
Print Assumptions permutation_independent.

(* the waiting area never exceeds its capacity *)
Theorem waiting_area_bounded : forall hash sigverify pk c arr tr,
  gather_all hash sigverify pk (empty_tree c) arr = Ok tr -> (length (unchained tr) <= c)%nat.
Proof. exact waiting_bounded_l. Qed.
Print Assumptions waiting_area_bounded.

(* content_bound: receive_content accepts exactly the contents that hash to the pointer; tokens built by
   the constructor / from_database_tuple satisfy content_ok; and if the offered tokens do, every token in
   the tree does, each attached content being the content of some offered token. *)
Theorem receive_content_only_matching : forall hash t c,
  snd (receive_content hash t c) = true <-> hash c = t_chash t.
Proof. exact receive_content_accepts. Qed.
Print Assumptions receive_content_only_matching.

Theorem constructed_tokens_content_ok : forall hash prev sg chash content,
  content_ok hash (from_db hash prev sg chash content).
Proof. exact from_db_content_ok. Qed.
Print Assumptions constructed_tokens_content_ok.

Theorem content_bound : forall hash sigverify pk c arr tr,
  Forall (content_ok hash) arr -> gather_all hash sigverify pk (empty_tree c) arr = Ok tr ->
  Forall (content_ok hash) (elements tr) /\ Forall (content_ok hash) (unchained tr).
Proof. exact content_bound_l. Qed.
Print Assumptions content_bound.

Theorem content_provenance : forall hash sigverify pk c arr tr e ct,
  Forall (content_ok hash) arr -> gather_all hash sigverify pk (empty_tree c) arr = Ok tr ->
  In e (elements tr) -> t_content e = Some ct ->
  hash ct = t_chash e /\ exists p, In p arr /\ t_content p = Some ct.
Proof. exact content_provenance_l. Qed.
Print Assumptions content_provenance.

(* public_roundtrip: the public dump of a reachable tree (offers in wire form) reloads, into a fresh tree
   of the same key, to exactly the same elements in the same order (contents are not part of the dump)
   and unserialize_public answers True ... *)
Theorem public_roundtrip : forall hash sigverify hl sl pk c arr tr c2,
  (0 < hl)%nat -> Forall (wire_form hl sl) arr ->
  gather_all hash sigverify pk (empty_tree c) arr = Ok tr ->
  unserialize_public hash sigverify hl sl pk (empty_tree c2) (serialize_public tr)
  = (mkTree (map strip (elements tr)) [] c2, Ok true).
Proof. exact public_roundtrip_l. Qed.
Print Assumptions public_roundtrip.

(* ... and whatever order the chunks are emitted in, the reloaded tree has the same elements, provided
   the fresh tree's waiting area can hold them *)
Theorem public_roundtrip_any_order : forall hash sigverify hl sl pk c arr tr c2 l,
  (0 < hl)%nat -> Forall (wire_form hl sl) arr ->
  gather_all hash sigverify pk (empty_tree c) arr = Ok tr ->
  Permutation l (elements tr) -> (length (elements tr) <= c2)%nat ->
  exists tr2 b,
    unserialize_public hash sigverify hl sl pk (empty_tree c2) (flat_map signed l) = (tr2, Ok b) /\
    forall h, In h (keys hash (elements tr2)) <-> In h (keys hash (elements tr)).
Proof. exact public_roundtrip_any_order_l. Qed.
Print Assumptions public_roundtrip_any_order.

(* ------------------------------------------------------------------------------------------------
   Non-vacuity and the pinned behaviour, on a concrete instance: 1-byte digests given by a table,
   key [9], genesis [0]; p is a child of genesis (hash [1]); a, b are children of p (hashes [2], [3]);
   d is dangling (valid signature, unknown predecessor); f is p with a forged signature. *)
Definition ex_hash := tbl_hash [([9], [0]); ([0;11;21], [1]); ([1;12;22], [2]); ([1;13;23], [3]);
                                ([7;14;24], [4]); ([0;11;99], [5]); ([50], [12]); ([51], [77])].
Definition ex_ver := tbl_verify [([0;11], [21]); ([1;12], [22]); ([1;13], [23]); ([7;14], [24])].
Definition ex_p := mkToken [0] [11] [21] None.
Definition ex_a := mkToken [1] [12] [22] None.
Definition ex_b := mkToken [1] [13] [23] None.
Definition ex_d := mkToken [7] [14] [24] None.
Definition ex_f := mkToken [0] [11] [99] None.

(* the fork arrives before its parent, mixed with a forged, a dangling and a duplicate token:
   the repaired chain reaction chains both children *)
Example c16_fork_before_parent :
  gather_all ex_hash ex_ver [9] (empty_tree 100) [ex_a; ex_f; ex_b; ex_d; ex_a; ex_p]
  = Ok (mkTree [ex_p; ex_a; ex_b] [ex_d] 100).
Proof. vm_compute. reflexivity. Qed.

(* the hypotheses of elements_complete_any_order are met by this run *)
Example c16_complete_hypotheses :
  Forall (prev_wire 1) [ex_a; ex_f; ex_b; ex_d; ex_a; ex_p] /\
  (distinct_offers [ex_a; ex_f; ex_b; ex_d; ex_a; ex_p] <= 100)%nat.
Proof. split; [repeat constructor|vm_compute; repeat constructor]. Qed.

(* the pinned chain reaction (only the first waiter is woken) refutes completeness / order independence:
   the same three offers end with three elements in one order and two in another *)
Theorem pinned_chain_reaction_refuted :
  exists hash sigverify pk arr1 arr2,
    Permutation arr1 arr2 /\
    exists tr1 tr2,
      gather_all_pinned hash sigverify pk (empty_tree 100) arr1 = Ok tr1 /\
      gather_all_pinned hash sigverify pk (empty_tree 100) arr2 = Ok tr2 /\
      length (elements tr1) = 3%nat /\ length (elements tr2) = 2%nat /\ unchained tr2 = [ex_b].
Proof.
  exists ex_hash, ex_ver, [9], [ex_p; ex_a; ex_b], [ex_a; ex_b; ex_p]. split.
  - apply (Permutation_cons_app [ex_a; ex_b] [] ex_p). apply Permutation_refl.
  - eexists. eexists. vm_compute. repeat split; reflexivity.
Qed.
Print Assumptions pinned_chain_reaction_refuted.

(* content is attached only when it hashes to the pointer (hash [50] = [12] = ex_a's pointer) *)
Example c16_content :
  let right := from_db ex_hash [1] [22] [12] (Some [50]) in
  let wrong := from_db ex_hash [1] [22] [12] (Some [51]) in
  t_content right = Some [50] /\ t_content wrong = None /\
  gather_all ex_hash ex_ver [9] (empty_tree 100) [ex_p; wrong; right]
  = Ok (mkTree [ex_p; mkToken [1] [12] [22] (Some [50])] [] 100).
Proof. vm_compute. repeat split; reflexivity. Qed.

(* verify, get_root_path, the public dump and its reload on the example tree *)
Example c16_verify_and_dump :
  let tr := mkTree [ex_p; ex_a; ex_b] [ex_d] 100 in
  tree_verify ex_hash ex_ver [9] tr ex_b 1000 = true /\
  get_root_path ex_hash ex_ver [9] tr ex_b 1000 = [ex_b; ex_p] /\
  tree_verify ex_hash ex_ver [9] tr ex_d 1000 = false /\
  tree_verify ex_hash ex_ver [9] tr ex_f 1000 = false /\
  serialize_public tr = [0;11;21; 1;12;22; 1;13;23] /\
  unserialize_public ex_hash ex_ver 1 1 [9] (empty_tree 100) (serialize_public tr)
  = (mkTree [ex_p; ex_a; ex_b] [] 100, Ok true) /\
  snd (unserialize_public ex_hash ex_ver 1 1 [9] (empty_tree 100) [0;11;21; 1;12]) = Raise StructError.
Proof. vm_compute. repeat split; reflexivity. Qed.

(* the toy instance (identity hash, signature = key ++ message) runs as well *)
Example c16_toy :
  let k := [7] in
  let p := toy_token k (genesis toy_hash k) [1] in
  let a := toy_token k (thash toy_hash p) [2] in
  let b := toy_token k (thash toy_hash p) [3] in
  let x := mkToken (thash toy_hash p) [4] [8;8] None in
  gather_all toy_hash toy_verify k (empty_tree 2) [a; x; b; p] = Ok (mkTree [p; a; b] [] 2).
Proof. vm_compute. reflexivity. Qed.
