(* C07 (extension) - the TunnelEndpoint over the function bodies REGENERATED FROM THE SOURCE on every run
   (gen/G07_tunnel_ep.v, by tools/tr/tr_tunnel_ep.py, from TunnelEndpoint.__init__ / set_tunnel_community /
   set_anonymity / send / notify_listeners and TunnelCommunity.find_circuits), executed by the run-time library
   model/M07_tunnel_ep_rt.v and assembled into a state machine by model/M07_tunnel_ep_gen.v.  Property theorems only.
   `step_gen s o = Ok (s', outs)`: the generated code, run on state s for operation o, terminates without raising
   (fuel: one loop iteration per waiting packet + 1), leaves s' and made exactly the calls outs
   (Raw = wrapped endpoint's send, Tunnel = send_data, CreateCircuit = create_circuit). *)
From Coq Require Import ZArith List Bool.
From IPV8V Require Import lib.PyErr lib.Bytes gen.G07_consts model.M07_tunnel_ep model.M07_tunnel_ep_rt
  gen.G07_tunnel_ep model.M07_tunnel_ep_gen spec.S07_anon_spec proofs.P07_tunnel_ep proofs.P07_tunnel_ep_gen.
Import ListNotations.
Open Scope Z_scope.

(* The generated functions compute exactly what the hand model computes: same successor state, same calls (the hand
   model's additional markers Queued / Evicted / Dropped are not calls), for every state and every operation; in
   particular they never raise and never run out of fuel.  Every theorem of props/C07.v therefore holds of the
   generated code. *)
Theorem gen_refines_hand_model : forall s o,
  step_gen s o = Ok (fst (step s o), calls (snd (step s o))).
Proof. exact gen_step_refines_l. Qed.
Print Assumptions gen_refines_hand_model.

(* The generated __init__ builds the hand model's initial state (hops 0, detached, no switches, empty deque with
   the documented bound). *)
Theorem gen_init_is_model_init : init_gen = Ok (ep_of init, w_of init).
Proof. exact gen_init_l. Qed.
Print Assumptions gen_init_is_model_init.

Theorem gen_never_raises : forall s o, exists s' outs, step_gen s o = Ok (s', outs).
Proof. exact gen_never_raises_l. Qed.
Print Assumptions gen_never_raises.

(* The generated find_circuits returns, in dict order, exactly the circuits meeting every criterion that is given
   (state, type, exit flags a subset of the circuit's, goal hops); its defaults are DATA / READY / any / any; and
   the lookup send() performs is the hand model's `matches` (DATA, any state, EXIT_IPV8 among the exit flags,
   goal_hops = configured hops). *)
Theorem gen_find_circuits_meets_spec : forall cs ctype state fl hops,
  g_find_circuits cs ctype state fl hops = filter (fc_ok ctype state fl hops) cs.
Proof. exact gen_find_circuits_spec_l. Qed.
Print Assumptions gen_find_circuits_meets_spec.

Theorem gen_find_circuits_defaults :
  g_find_circuits_default_ctype = Some CTYPE_DATA /\ g_find_circuits_default_state = Some READY
  /\ g_find_circuits_default_exit_flags = None /\ g_find_circuits_default_hops = None.
Proof. exact gen_find_defaults_l. Qed.
Print Assumptions gen_find_circuits_defaults.

Theorem gen_send_lookup_is_matches : forall h cs,
  g_find_circuits cs (Some CTYPE_DATA) None (Some [PEER_FLAG_EXIT_IPV8]) (Some h) = filter (matches h) cs.
Proof. exact gen_find_circuits_l. Qed.
Print Assumptions gen_send_lookup_is_matches.

(* ---- the property, stated directly of the generated code ---- *)
(* never raw: the wrapped endpoint's send is only called with the packet being submitted, and only if its prefix
   is off at that moment *)
Theorem gen_anon_never_raw : forall s o s' outs a p,
  step_gen s o = Ok (s', outs) -> In (Raw a p) outs -> anon_on s p = false /\ exists nh, o = Send a p nh.
Proof. exact gen_anon_never_raw_l. Qed.
Print Assumptions gen_anon_never_raw.

(* an overlay whose prefix is switched on never has a packet handed to the raw socket in any later history that
   does not switch it off *)
Theorem gen_asked_never_raw : forall pfx ops s r sf,
  switch s pfx = true -> Forall (keeps_on pfx) ops -> run_gen s ops = Ok (r, sf) ->
  Forall (fun x => forall a p, In (Raw a p) (fst (fst x)) -> pfx_of p <> pfx) r.
Proof. exact gen_asked_never_raw_l. Qed.
Print Assumptions gen_asked_never_raw.

Theorem gen_histories_never_raise : forall ops s, exists r sf, run_gen s ops = Ok (r, sf).
Proof. exact gen_run_total_l. Qed.
Print Assumptions gen_histories_never_raise.

(* the three fates of an anonymized packet *)
Theorem gen_anon_send_fate : forall s a p nh s' outs,
  step_gen s (Send a p nh) = Ok (s', outs) -> anon_on s p = true ->
  exists outs_h, fate s a p outs_h s' /\ outs = calls outs_h.
Proof. exact gen_anon_send_fate_l. Qed.
Print Assumptions gen_anon_send_fate.

Theorem gen_tunnel_send_wellformed : forall s o s' outs,
  step_gen s o = Ok (s', outs) -> Forall (tunnel_ok s) outs.
Proof. exact gen_tunnel_wellformed_l. Qed.
Print Assumptions gen_tunnel_send_wellformed.

(* queued packets keep their classification: the flushing step makes no raw send at all; bytes equal to a waiting
   packet go raw only by a new plain submission that leaves the state untouched; whatever is in the queue was
   submitted while its prefix was on *)
Theorem gen_flush_never_raw : forall s a p nh s' outs,
  step_gen s (Send a p nh) = Ok (s', outs) -> anon_on s p = true -> forall b q, ~ In (Raw b q) outs.
Proof. exact gen_flush_never_raw_l. Qed.
Print Assumptions gen_flush_never_raw.

Theorem gen_queued_never_raw : forall s o s' outs e,
  step_gen s o = Ok (s', outs) -> In e (queue s) -> In (Raw (fst e) (snd e)) outs ->
  (exists nh, o = Send (fst e) (snd e) nh) /\ anon_on s (snd e) = false /\ s' = s.
Proof. exact gen_queued_never_raw_l. Qed.
Print Assumptions gen_queued_never_raw.

Theorem gen_queue_entries_were_anonymized : forall s o s' outs e,
  step_gen s o = Ok (s', outs) -> In e (queue s') ->
  In e (queue s) \/ (exists nh, o = Send (fst e) (snd e) nh /\ anon_on s (snd e) = true).
Proof. exact gen_queue_origin_l. Qed.
Print Assumptions gen_queue_entries_were_anonymized.

(* The waiting queue is bounded: over every history of the generated code, started from the freshly constructed
   endpoint, the queue never holds more than 100 packets - after every single step (the second component of each
   step record is |queue| after that step) and at the end.  And no run of generated code leaves the endpoint with a
   deque of another bound, or without one. *)
Theorem gen_queue_bounded : forall ops r sf, run_gen init ops = Ok (r, sf) ->
  Z.of_nat (length (queue sf)) <= 100 /\ Forall (fun x => snd (fst x) <= 100) r.
Proof. exact gen_queue_bounded_l. Qed.
Print Assumptions gen_queue_bounded.

Theorem gen_deque_bound_is_kept : forall (m : M unit) s s' outs, exec m s = Ok (s', outs) ->
  exists g, m (mkGS (ep_of s) (w_of s) [] []) = Ok (tt, g) /\ e_qmax (g_ep g) = Some SEND_QUEUE_MAXLEN.
Proof. exact exec_keeps_bound_l. Qed.
Print Assumptions gen_deque_bound_is_kept.

(* the generated notify_listeners delivers, in order, to exactly the candidates whose anonymize flag equals
   from_tunnel *)
Theorem gen_delivery_filter : forall ls from_tunnel, notify_gen ls from_tunnel = Ok (notify ls from_tunnel).
Proof. exact gen_notify_l. Qed.
Print Assumptions gen_delivery_filter.

(* ---- non-vacuity: the generated code run on concrete histories ---- *)
Example c07x_flush :
  run_gen init [Launch pA true; Attach 1; Send 7 (pA ++ [1]) (Some exitH); Send 9 (pP ++ [3]) None;
                AddHop 0 exitH; Send 7 (pA ++ [4]) None]
  = Ok ([([], 0, 0); ([], 0, 0); ([CreateCircuit 1 [4]], 1, 1); ([Raw 9 (pP ++ [3])], 1, 1); ([], 1, 1);
         ([Tunnel 50 0 7 0 (pA ++ [4]); Tunnel 50 0 7 0 (pA ++ [1])], 0, 1)],
        final init [Launch pA true; Attach 1; Send 7 (pA ++ [1]) (Some exitH); Send 9 (pP ++ [3]) None;
                    AddHop 0 exitH; Send 7 (pA ++ [4]) None]).
Proof. vm_compute. reflexivity. Qed.

(* the anonymity of a waiting packet's prefix is switched off before the flush: it still leaves as tunnel data *)
Example c07x_requeue :
  let pB := 0 :: 2 :: repeat 66 20 in
  match run_gen init [SetAnon pA true; SetAnon pB true; Attach 1; Send 7 (pA ++ [1]) (Some exitH); Toggle pA;
                      AddHop 0 exitH; Send 9 (pB ++ [2]) None] with
  | Ok (r, _) => map (fun x => fst (fst x)) r
  | Raise _ => []
  end
  = [[]; []; []; [CreateCircuit 1 [4]]; []; []; [Tunnel 50 0 9 0 (pB ++ [2]); Tunnel 50 0 7 0 (pA ++ [1])]].
Proof. vm_compute. reflexivity. Qed.

(* queue -> ready -> flush -> circuit gone -> 103 sends: 100 wait *)
Example c07x_overflow_after_flush :
  match run_gen init ([SetAnon pA true; Attach 1; Send 7 pA (Some exitH); AddHop 0 exitH; Send 8 pA None; Remove 0]
                      ++ map (fun i => Send (Z.of_nat i) pA None) (seq 0 103)) with
  | Ok (r, sf) => (length (queue sf), last (map (fun x => snd (fst x)) r) 0)
  | Raise _ => (0%nat, -1)
  end = (100%nat, 100).
Proof. vm_compute. reflexivity. Qed.

Example c07x_find_circuits :
  let c1 := mkCirc 0 false 1 0 [mkHop 50 [4]] None in          (* READY, IPv8 exit *)
  let c2 := mkCirc 1 false 2 0 [mkHop 60 [1]] None in          (* EXTENDING *)
  let c3 := mkCirc 2 true 1 0 [mkHop 51 [2; 4]] None in        (* CLOSING *)
  g_find_circuits [c1; c2; c3] (Some 0) None (Some [4]) (Some 1) = [c1; c3]
  /\ g_find_circuits [c1; c2; c3] g_find_circuits_default_ctype g_find_circuits_default_state None None = [c1].
Proof. vm_compute. split; reflexivity. Qed.

Example c07x_delivery :
  notify_gen [(1, Some true); (2, Some false); (3, None)] true = Ok [1]
  /\ notify_gen [(1, Some true); (2, Some false); (3, None)] false = Ok [2; 3].
Proof. vm_compute. split; reflexivity. Qed.
