(* C15 - DHT values are stored only for authorised writers and read back authentic.  Property theorems only.
   hash = SHA-1, enc = base64, verify / siglen = the key vault, all universally quantified; limits and periods
   are the constants regenerated from the source (gen/G15_consts.v). *)
From Coq Require Import ZArith List Bool.
From IPV8V Require Import lib.PyErr lib.Bytes lib.BE gen.G15_consts model.M15_dht_store
  proofs.P15_storage proofs.P15_codec proofs.P15_token proofs.P15_b64.
Import ListNotations.
Open Scope Z_scope.

(* ------------------------------------------------------------------ authorised writers ---------------- *)

(* A store request either presents a token equal to hash(identity of the requester ++ s) for one of the
   node's current secrets AND stays within the size and count limits - or it changes nothing and is not
   answered. *)
Theorem store_requires_token : forall hash enc verify siglen st rq now tok target vals nc,
  (Forall (fun v => blen v <= MAX_ENTRY_SIZE) vals /\ Z.of_nat (length vals) <= MAX_VALUES_IN_STORE
   /\ exists s, In s (secrets st) /\ tok = hash (ident hash enc rq ++ s))
  \/ on_store hash enc verify siglen st rq now tok target vals nc = (st, RStore false None).
Proof. exact store_requires_token_l. Qed.
Print Assumptions store_requires_token.

(* Tokens bind address and key, and live for fewer than TOKEN_SECRETS_MAXLEN rotations: if a token handed out by
   a find in state st is later accepted by the store gate - after ANY operations in between - then it was handed
   out to the same address and the same key, and fewer than TOKEN_SECRETS_MAXLEN rotations happened in between.
   (SHA-1 collision free, base64 injective on digests, secrets pairwise distinct and of one length, address
   texts without a space.) *)
Theorem token_window : forall hash enc verify siglen,
  (forall a b, hash a = hash b -> a = b) ->
  (forall a b, enc (hash a) = enc (hash b) -> hash a = hash b) ->
  forall st rq' target' off' force' tok vals' ops rq vals,
  secrets st <> [] ->
  NoDup (secrets st ++ rotations ops) ->
  (forall s s', In s (secrets st ++ rotations ops) -> In s' (secrets st ++ rotations ops) -> length s = length s') ->
  ~ In 32 (r_addr rq) -> ~ In 32 (r_addr rq') ->
  snd (on_find hash enc st rq' target' off' force') = RFind tok vals' ->
  store_gate hash enc (fst (run hash enc verify siglen st ops)) rq tok vals = true ->
  r_addr rq' = r_addr rq /\ r_pk rq' = r_pk rq /\ Z.of_nat (length (rotations ops)) < Z.max 1 TOKEN_SECRETS_MAXLEN.
Proof. exact token_window_l. Qed.
Print Assumptions token_window.

(* the first hypothesis of token_window holds in every reachable state: a node always has a secret *)
Theorem secrets_never_empty : forall hash enc verify siglen s0 ops,
  1 <= TOKEN_SECRETS_MAXLEN -> secrets (fst (run hash enc verify siglen (init_state s0) ops)) <> [].
Proof. exact secrets_never_empty_l. Qed.
Print Assumptions secrets_never_empty.

(* With rotations driven by a timer of period P (each exactly P after the previous one, the next one not overdue
   when the store arrives), an accepted token is at most TOKEN_SECRETS_MAXLEN * P seconds old. *)
Theorem token_age_bound : forall hash enc verify siglen,
  (forall a b, hash a = hash b -> a = b) ->
  (forall a b, enc (hash a) = enc (hash b) -> hash a = hash b) ->
  forall P t0 t_issue t_store st rq' target' off' force' tok vals' tops rq vals,
  0 <= P -> 1 <= TOKEN_SECRETS_MAXLEN ->
  secrets st <> [] ->
  NoDup (secrets st ++ rotations (map snd tops)) ->
  (forall s s', In s (secrets st ++ rotations (map snd tops)) -> In s' (secrets st ++ rotations (map snd tops)) ->
                length s = length s') ->
  ~ In 32 (r_addr rq) -> ~ In 32 (r_addr rq') ->
  timed_ok P t0 tops -> t0 <= t_issue -> t_store <= last_rotation t0 tops + P ->
  snd (on_find hash enc st rq' target' off' force') = RFind tok vals' ->
  store_gate hash enc (fst (run hash enc verify siglen st (map snd tops))) rq tok vals = true ->
  t_store - t_issue <= TOKEN_SECRETS_MAXLEN * P.
Proof. exact token_age_bound_l. Qed.
Print Assumptions token_age_bound.

(* and with the periods of the source that is the documented validity window *)
Theorem token_window_matches_constants :
  TOKEN_SECRETS_MAXLEN * TOKEN_ROTATION_INTERVAL <= TOKEN_EXPIRATION_TIME /\ 1 <= TOKEN_SECRETS_MAXLEN
  /\ 0 <= TOKEN_ROTATION_INTERVAL.
Proof. exact token_constants_l. Qed.
Print Assumptions token_window_matches_constants.

(* Over any interleaving of finds, stores, store-peers, rotations, maintenance runs and lookups: whatever is in
   the storage at the end was there at the start, or was carried by a store request of the sequence that passed
   the gate (token + limits) in the state it met; it was stored under that request's target and time, with a
   lifetime derived from the limit, and it is authentic (reads back as plain, or as signed with a signature
   that verifies; filed under the id and version it carries). *)
Theorem stored_only_via_authorised_request : forall hash enc verify siglen ops st k v,
  no_put ops ->
  In v (sget (store (fst (run hash enc verify siglen st ops))) k) ->
  In v (sget (store st) k)
  \/ exists pre rq now tok vals nc post,
       ops = pre ++ OStore rq now tok k vals nc :: post
       /\ store_gate hash enc (fst (run hash enc verify siglen st pre)) rq tok vals = true
       /\ In (v_data v) vals /\ v_last v = now /\ v_maxage v = store_max_age nc
       /\ authentic hash verify siglen v.
Proof. exact stored_only_via_authorised_request_l. Qed.
Print Assumptions stored_only_via_authorised_request.

(* For a node that started empty: every stored value is authentic, its lifetime is within MAX_ENTRY_AGE, and
   ids are unique per key. *)
Theorem reachable_store_ok : forall hash enc verify siglen s0 ops k v,
  no_put ops -> 0 <= MAX_ENTRY_AGE ->
  In v (sget (store (fst (run hash enc verify siglen (init_state s0) ops))) k) ->
  authentic hash verify siglen v /\ 0 <= v_maxage v <= MAX_ENTRY_AGE
  /\ NoDup (map v_id (sget (store (fst (run hash enc verify siglen (init_state s0) ops))) k)).
Proof. exact reachable_store_ok_l. Qed.
Print Assumptions reachable_store_ok.

(* store-peer: accepted only with a valid token and only under the requester's own member id; then exactly the
   requester's key is (kept or) added under that id; otherwise nothing happens. *)
Theorem store_peer_bound : forall hash enc st rq tok target,
  ((exists s, In s (secrets st) /\ tok = hash (ident hash enc rq ++ s)) /\ target = hash (r_pk rq)
   /\ exists l, on_store_peer hash enc st rq tok target
                = (mkSt (secrets st) (store st) (pset (peers st) target l), RStorePeer true)
                /\ (l = pget (peers st) target \/ l = pget (peers st) target ++ [r_pk rq]))
  \/ on_store_peer hash enc st rq tok target = (st, RStorePeer false).
Proof. exact store_peer_bound_l. Qed.
Print Assumptions store_peer_bound.

(* the real base64 of the model is injective on byte strings (discharges the encoding hypothesis above for
   digests, which are byte strings) *)
Theorem base64_injective : forall a b, bytes_ok a -> bytes_ok b -> b64 a = b64 b -> a = b.
Proof. exact b64_inj. Qed.
Print Assumptions base64_injective.

(* ------------------------------------------------------------------ read back authentic ---------------- *)

(* unserialize_value reports a signer only for a value that splits into a signed part and a signature of the
   length the key prescribes which verifies under that key over ALL bytes before it; data, version and key are
   the fields of that value. *)
Theorem signed_only_if_verifies : forall verify siglen value d pk ver,
  unserialize verify siglen value = Ok (Some (d, Some pk, ver)) ->
  exists n, unpack_signed value = Ok (d, ver, pk)
    /\ siglen pk = Ok n
    /\ verify pk (slice value None (Some (- Z.of_nat n))) (slice value (Some (- Z.of_nat n)) None) = true
    /\ slice value None (Some (- Z.of_nat n)) ++ slice value (Some (- Z.of_nat n)) None = value.
Proof. exact unserialize_signed_l. Qed.
Print Assumptions signed_only_if_verifies.

(* post_process_values: data reported as signed by pk comes from an input that verifies under pk, and carries
   the highest version among all inputs that verify under pk. *)
Theorem lookup_signed_highest_version : forall verify siglen vals res data pk,
  post_process verify siglen vals = Ok res -> In (data, Some pk) res ->
  exists value ver, In value vals /\ unserialize verify siglen value = Ok (Some (data, Some pk, ver))
    /\ forall value' d' ver', In value' vals ->
         unserialize verify siglen value' = Ok (Some (d', Some pk, ver')) -> ver' <= ver.
Proof. exact lookup_signed_l. Qed.
Print Assumptions lookup_signed_highest_version.

(* one result per signer, signed results first; every validly signed input is represented; unsigned results are
   exactly the plain inputs *)
Theorem lookup_shape : forall verify siglen vals res,
  post_process verify siglen vals = Ok res ->
  exists sg us, res = sg ++ us /\ NoDup (map snd sg) /\ (forall e, In e sg -> snd e <> None)
                /\ (forall e, In e us -> snd e = None).
Proof. exact lookup_shape_l. Qed.
Print Assumptions lookup_shape.

Theorem lookup_complete : forall verify siglen vals res value data pk ver,
  post_process verify siglen vals = Ok res -> In value vals ->
  unserialize verify siglen value = Ok (Some (data, Some pk, ver)) ->
  exists data', In (data', Some pk) res.
Proof. exact lookup_complete_l. Qed.
Print Assumptions lookup_complete.

Theorem lookup_unsigned : forall verify siglen vals res data,
  post_process verify siglen vals = Ok res ->
  (In (data, None) res <-> exists value, In value vals /\ value = DHT_ENTRY_STR :: data).
Proof. exact lookup_unsigned_l. Qed.
Print Assumptions lookup_unsigned.

(* what serialize_value(sign=True) writes is read back with exactly its data, key and version *)
Theorem signed_roundtrip : forall verify siglen sign sk pk data ver n,
  blen data < 65536 -> blen pk < 65536 -> 0 <= ver < 4294967296 ->
  siglen pk = Ok n -> (0 < n)%nat ->
  (forall msg, length (sign sk msg) = n /\ verify pk msg (sign sk msg) = true) ->
  unserialize verify siglen (serialize_signed sign sk pk data ver) = Ok (Some (data, Some pk, ver)).
Proof. exact signed_roundtrip_l. Qed.
Print Assumptions signed_roundtrip.

(* ------------------------------------------------------------------ versions ---------------- *)

(* a put never loses a value and never lowers a version *)
Theorem put_version_monotone : forall hash s now key data id ma ver k v,
  In v (sget s k) ->
  exists v', In v' (sget (put hash s now key data id ma ver) k) /\ v_id v' = v_id v /\ v_version v <= v_version v'.
Proof. exact put_monotone_l. Qed.
Print Assumptions put_version_monotone.

(* after any sequence of puts the stored version of every (key, id) is the maximum put so far *)
Theorem version_is_max_of_puts : forall hash ps k i,
  stored_version (fold_left (apply_put hash) ps []) k i = max_put hash None ps k i.
Proof. exact version_is_max_of_puts_l. Qed.
Print Assumptions version_is_max_of_puts.

Theorem max_put_is_maximum : forall hash ps k i,
  (forall p, In p ps -> put_hits hash p k i = true ->
             exists m, max_put hash None ps k i = Some m /\ put_version p <= m)
  /\ (forall m, max_put hash None ps k i = Some m ->
                exists p, In p ps /\ put_hits hash p k i = true /\ put_version p = m).
Proof. exact max_put_spec_l. Qed.
Print Assumptions max_put_is_maximum.

(* over any operation sequence of the node without a maintenance run (store requests with any tokens and values,
   finds, rotations, store-peers, direct puts): a stored (key, id) keeps a version at least as high *)
Theorem version_monotone : forall hash enc verify siglen ops st k v,
  no_clean ops -> In v (sget (store st) k) ->
  exists v', In v' (sget (store (fst (run hash enc verify siglen st ops))) k)
             /\ v_id v' = v_id v /\ v_version v <= v_version v'.
Proof. exact run_monotone_l. Qed.
Print Assumptions version_monotone.

(* ------------------------------------------------------------------ expiry ---------------- *)

(* after clean at time now exactly the values with age <= lifetime remain, in their order *)
Theorem expired_gone : forall now s k v,
  In v (sget (clean now s) k) <-> In v (sget s k) /\ now - v_last v <= v_maxage v.
Proof. exact clean_exact_l. Qed.
Print Assumptions expired_gone.

Theorem clean_keeps_order : forall now s k,
  sget (clean now s) k = filter (fun v => negb (expired now v)) (sget s k).
Proof. exact clean_order_l. Qed.
Print Assumptions clean_keeps_order.

(* the same inside the node: right after value_maintenance nothing older than its lifetime is left *)
Theorem maintenance_removes_expired : forall hash enc verify siglen st now k v,
  In v (sget (store (fst (step hash enc verify siglen st (OClean now)))) k) -> now - v_last v <= v_maxage v.
Proof. exact maintenance_l. Qed.
Print Assumptions maintenance_removes_expired.

(* the pinned tree (early break at the first unexpired value) does NOT have this property *)
Theorem expired_gone_refuted_on_pinned_tree :
  exists now s k v, In v (sget (clean_early_break now s) k) /\ now - v_last v > v_maxage v.
Proof. exact clean_early_break_refuted_l. Qed.
Print Assumptions expired_gone_refuted_on_pinned_tree.

(* ------------------------------------------------------------------ non-vacuity ---------------- *)
(* toy primitives (hash = identity, two nibbles per byte, checksum signatures) satisfy every hypothesis above *)
Example toy_primitives_satisfy_hypotheses :
  (forall a b, toy_hash a = toy_hash b -> a = b)
  /\ (forall a b, toy_enc (toy_hash a) = toy_enc (toy_hash b) -> toy_hash a = toy_hash b)
  /\ (forall sk msg, length (toy_sign sk msg) = 2%nat /\ toy_verify sk msg (toy_sign sk msg) = true).
Proof. split; [exact toy_hash_inj | split; [intros a b; apply toy_enc_inj | exact toy_sign_ok]]. Qed.

(* a full history on the toy node: a token is issued, a signed value (version 5) is stored with it, an older
   version (3) is refused, after one rotation the token still works, after two it does not, a token issued to
   another address does not work, and after the lifetime maintenance removes the value *)
Example c15_nonvacuous :
  let rq := mkRq [49; 58; 50] [9; 9] in
  let rq2 := mkRq [49; 58; 51] [9; 9] in
  let run := run toy_hash toy_enc toy_verify toy_siglen in
  let v5 := serialize_signed toy_sign [9; 9] [9; 9] [7] 5 in
  let v3 := serialize_signed toy_sign [9; 9] [9; 9] [8] 3 in
  let tok := token_for toy_hash toy_enc rq [1] in
  let tok2 := token_for toy_hash toy_enc rq2 [1] in
  let versions st := map v_version (sget (store st) [4]) in
  let ops := [OFind rq [4] 0 false; OStore rq 10 tok [4] [v5] 0; OStore rq 11 tok [4] [v3] 0] in
  snd (run (init_state [1]) ops) = [RFind tok []; RStore true None; RStore true None]
  /\ versions (fst (run (init_state [1]) ops)) = [5]
  /\ snd (run (init_state [1]) (ops ++ [OStore rq2 12 tok [4] [v5] 0; OStore rq 12 tok2 [4] [v5] 0]))
     = [RFind tok []; RStore true None; RStore true None; RStore false None; RStore false None]
  /\ snd (run (init_state [1]) [ORotate [2]; OStore rq 12 tok [4] [v5] 0; ORotate [3]; OStore rq 13 tok [4] [v5] 0])
     = [RNone; RStore true None; RNone; RStore false None]
  /\ versions (fst (run (init_state [1]) (ops ++ [OClean (10 + MAX_ENTRY_AGE)]))) = [5]
  /\ versions (fst (run (init_state [1]) (ops ++ [OClean (11 + MAX_ENTRY_AGE)]))) = [].
Proof. vm_compute. repeat split; reflexivity. Qed.

(* the lookup picks the highest version per signer and drops a forged value *)
Example c15_lookup_nonvacuous :
  let v5 := serialize_signed toy_sign [9; 9] [9; 9] [7] 5 in
  let v3 := serialize_signed toy_sign [9; 9] [9; 9] [8] 3 in
  let forged := serialize_signed toy_sign [1] [9; 9] [6] 9 in
  post_process toy_verify toy_siglen [v3; serialize_plain [1; 2]; forged; v5]
  = Ok [([7], Some [9; 9]); ([1; 2], None)].
Proof. vm_compute. reflexivity. Qed.
