(* C02 (extension) - the class-specific glue of the old-style payload classes: constructor, to_pack_list,
   from_unpack_list and their helpers, translated from the source (gen/G02_oldstyle.v), round-trip on legal
   field values (spec/S02_oldstyle.v) and compose with the format-level theorem msg_roundtrip.
   Property theorems only. *)
From Coq Require Import String Ascii.
From Coq Require Import ZArith List Bool.
From IPV8V Require Import lib.PyErr lib.Bytes lib.BE model.M02_wire model.M02_oldstyle gen.G02_registry
  gen.G02_oldstyle spec.S02_oldstyle proofs.P02_oldstyle.
Import ListNotations.
Open Scope Z_scope.

(* Every translated class has a legal-value specification, and its format_list, resolved through the live packer
   registry, is exactly the definition G02_registry ships for it (the one shipped_roundtrip speaks about). *)
Theorem oldstyle_all_specified : forall c, In c oldstyle_table ->
  (exists spec, spec_of (oc_name c) oldstyle_specs = Some spec) /\
  In (oc_name c, class_fmts c) msgdefs /\
  mapM (find_fmt REG) (oc_formats c) = Ok (class_fmts c).
Proof. exact table_specified_l. Qed.
Print Assumptions oldstyle_all_specified.

(* The glue alone: for a legal instance x, to_pack_list() succeeds, names exactly the formats of format_list, its
   values are legal for those formats, and from_unpack_list applied to what the wire hands back for them
   (`bits` come back as eight 0/1 integers) rebuilds x - same class, same attributes, flags in the form they are
   handed back (canon_obj). *)
Theorem oldstyle_glue_roundtrip : forall c spec x,
  In c oldstyle_table -> spec_of (oc_name c) oldstyle_specs = Some spec ->
  legal (oc_short c) spec x = true ->
  exists pl vs,
    oc_to_pack c x = Ok pl /\ map fst pl = oc_formats c /\ entry_vals (class_fmts c) pl = Ok vs /\
    (forall key_ok, msg_ok key_ok (msg_of_list (class_fmts c)) (wire_image (class_fmts c) vs) = true) /\
    oc_from_unpack c (unpack_args (class_fmts c) (wire_image (class_fmts c) vs)) = Ok (canon_obj spec x).
Proof. intros c spec x Hin Hs. exact (oldstyle_glue_l c spec Hin Hs x). Qed.
Print Assumptions oldstyle_glue_roundtrip.

(* Class level, on the wire: decode(encode x) = x with the exact end offset, at any offset, between any bytes. *)
Theorem oldstyle_class_roundtrip : forall key_ok c spec x bs (pre suf : bytes),
  In c oldstyle_table -> spec_of (oc_name c) oldstyle_specs = Some spec ->
  legal (oc_short c) spec x = true ->
  encode_obj REG key_ok (oc_to_pack c) x = Ok bs ->
  (msg_greedy (msg_of_list (class_fmts c)) = false \/ suf = []) ->
  decode_obj REG key_ok (oc_formats c) (oc_from_unpack c) (pre ++ bs ++ suf) (length pre)
    = Ok (canon_obj spec x, (length pre + length bs)%nat).
Proof. exact oldstyle_class_roundtrip_l. Qed.
Print Assumptions oldstyle_class_roundtrip.

(* ... and it is not vacuous: every legal instance can be encoded. *)
Theorem oldstyle_encode_defined : forall key_ok c spec x,
  In c oldstyle_table -> spec_of (oc_name c) oldstyle_specs = Some spec ->
  legal (oc_short c) spec x = true -> exists bs, encode_obj REG key_ok (oc_to_pack c) x = Ok bs.
Proof. exact oldstyle_encode_defined_l. Qed.
Print Assumptions oldstyle_encode_defined.

(* What comes back equals what went in, in Python's sense (True == 1), is itself legal, and is a fixed point:
   an instance whose flags are already held as 0/1 (False/True for `advice`) comes back identical. *)
Theorem oldstyle_canon_equal : forall short spec x, legal short spec x = true ->
  obj_pyeq (canon_obj spec x) x = Ok true /\ legal short spec (canon_obj spec x) = true /\
  canon_obj spec (canon_obj spec x) = canon_obj spec x.
Proof.
  intros short spec x H. exact (conj (canon_pyeq_l short spec x H) (conj (canon_legal_l short spec x H) (canon_idem_l short spec x H))).
Qed.
Print Assumptions oldstyle_canon_equal.

(* one named instance per shipped old-style class (class_roundtrips: spec/S02_oldstyle.v) *)
Theorem IntroductionRequestPayload_roundtrip : class_roundtrips IntroductionRequestPayload_class.
Proof. apply class_roundtrips_l. unfold oldstyle_table. cbn [In]. tauto. Qed.
Print Assumptions IntroductionRequestPayload_roundtrip.
Theorem IntroductionResponsePayload_roundtrip : class_roundtrips IntroductionResponsePayload_class.
Proof. apply class_roundtrips_l. unfold oldstyle_table. cbn [In]. tauto. Qed.
Print Assumptions IntroductionResponsePayload_roundtrip.
Theorem PunctureRequestPayload_roundtrip : class_roundtrips PunctureRequestPayload_class.
Proof. apply class_roundtrips_l. unfold oldstyle_table. cbn [In]. tauto. Qed.
Print Assumptions PunctureRequestPayload_roundtrip.
Theorem PuncturePayload_roundtrip : class_roundtrips PuncturePayload_class.
Proof. apply class_roundtrips_l. unfold oldstyle_table. cbn [In]. tauto. Qed.
Print Assumptions PuncturePayload_roundtrip.
Theorem BinMemberAuthenticationPayload_roundtrip : class_roundtrips BinMemberAuthenticationPayload_class.
Proof. apply class_roundtrips_l. unfold oldstyle_table. cbn [In]. tauto. Qed.
Print Assumptions BinMemberAuthenticationPayload_roundtrip.
Theorem GlobalTimeDistributionPayload_roundtrip : class_roundtrips GlobalTimeDistributionPayload_class.
Proof. apply class_roundtrips_l. unfold oldstyle_table. cbn [In]. tauto. Qed.
Print Assumptions GlobalTimeDistributionPayload_roundtrip.
Theorem SimilarityRequestPayload_roundtrip : class_roundtrips SimilarityRequestPayload_class.
Proof. apply class_roundtrips_l. unfold oldstyle_table. cbn [In]. tauto. Qed.
Print Assumptions SimilarityRequestPayload_roundtrip.
Theorem SimilarityResponsePayload_roundtrip : class_roundtrips SimilarityResponsePayload_class.
Proof. apply class_roundtrips_l. unfold oldstyle_table. cbn [In]. tauto. Qed.
Print Assumptions SimilarityResponsePayload_roundtrip.
Theorem PingPayload_roundtrip : class_roundtrips PingPayload_class.
Proof. apply class_roundtrips_l. unfold oldstyle_table. cbn [In]. tauto. Qed.
Print Assumptions PingPayload_roundtrip.
Theorem PongPayload_roundtrip : class_roundtrips PongPayload_class.
Proof. apply class_roundtrips_l. unfold oldstyle_table. cbn [In]. tauto. Qed.
Print Assumptions PongPayload_roundtrip.
Theorem DiscoveryIntroductionRequestPayload_roundtrip : class_roundtrips DiscoveryIntroductionRequestPayload_class.
Proof. apply class_roundtrips_l. unfold oldstyle_table. cbn [In]. tauto. Qed.
Print Assumptions DiscoveryIntroductionRequestPayload_roundtrip.
Theorem RequestAttestationPayload_roundtrip : class_roundtrips RequestAttestationPayload_class.
Proof. apply class_roundtrips_l. unfold oldstyle_table. cbn [In]. tauto. Qed.
Print Assumptions RequestAttestationPayload_roundtrip.
Theorem VerifyAttestationRequestPayload_roundtrip : class_roundtrips VerifyAttestationRequestPayload_class.
Proof. apply class_roundtrips_l. unfold oldstyle_table. cbn [In]. tauto. Qed.
Print Assumptions VerifyAttestationRequestPayload_roundtrip.
Theorem AttestationChunkPayload_roundtrip : class_roundtrips AttestationChunkPayload_class.
Proof. apply class_roundtrips_l. unfold oldstyle_table. cbn [In]. tauto. Qed.
Print Assumptions AttestationChunkPayload_roundtrip.
Theorem ChallengePayload_roundtrip : class_roundtrips ChallengePayload_class.
Proof. apply class_roundtrips_l. unfold oldstyle_table. cbn [In]. tauto. Qed.
Print Assumptions ChallengePayload_roundtrip.
Theorem ChallengeResponsePayload_roundtrip : class_roundtrips ChallengeResponsePayload_class.
Proof. apply class_roundtrips_l. unfold oldstyle_table. cbn [In]. tauto. Qed.
Print Assumptions ChallengeResponsePayload_roundtrip.

(* non-vacuity: real instances, built by the translated constructors (identifier 70000 is reduced to 4464),
   are legal, encode, and decode at offset 3 to the same instance *)
Definition demo (c : oldcls) (args : list val) (suf : bytes) : bool :=
  match oc_new c args with
  | Ok x =>
      legal (oc_short c) (spec_for c) x &&
      match encode_obj REG nokey (oc_to_pack c) x with
      | Ok bs => res_eqb on_eqb (decode_obj REG nokey (oc_formats c) (oc_from_unpack c) ([7; 7; 7] ++ bs ++ suf) 3)
                                (Ok (canon_obj (spec_for c) x, (3 + length bs)%nat))
                 && negb (length bs =? 0)%nat
      | Raise _ => false
      end
  | Raise _ => false
  end.
Definition a4 (a b c d p : Z) : val := VAddr (A4 [a; b; c; d] p).
Definition h20 : bytes := [1; 2; 3; 4; 5; 6; 7; 8; 9; 10; 11; 12; 13; 14; 15; 16; 17; 18; 19; 20].
Example c02x_nonvacuous :
  demo IntroductionRequestPayload_class
       [a4 1 2 3 4 5; a4 10 0 0 1 80; a4 8 8 8 8 65535; VBool true; VStr conn_symmetric; VInt 70000; VBytes [9; 9]] [] = true /\
  demo IntroductionResponsePayload_class
       [a4 1 2 3 4 5; a4 10 0 0 1 80; a4 8 8 8 8 65535; a4 0 0 0 0 0; a4 9 9 9 9 9; VStr conn_public; VInt (-1); VBytes [];
        VBool true; VInt 0; VBool true] [] = true /\
  demo DiscoveryIntroductionRequestPayload_class
       [VBytes h20; a4 1 2 3 4 5; a4 10 0 0 1 80; a4 8 8 8 8 65535; VBool false; VStr conn_unknown; VInt 65536; VBytes [1]] [] = true /\
  demo SimilarityRequestPayload_class [VInt 3; a4 1 2 3 4 5; a4 5 4 3 2 1; VStr conn_public; VList [VBytes h20; VBytes h20]] [] = true /\
  demo SimilarityResponsePayload_class
       [VInt 65535; VList [VBytes h20]; VList [VTuple [VBytes h20; VInt 4294967295]; VTuple [VBytes h20; VInt 0]]] [] = true /\
  demo PongPayload_class [VInt 77] [5; 5] = true /\
  demo GlobalTimeDistributionPayload_class [VInt 18446744073709551615] [5] = true /\
  demo BinMemberAuthenticationPayload_class [VBytes h20] [5] = true /\
  demo AttestationChunkPayload_class [VBytes h20; VInt 513; VBytes [1; 2; 3]] [] = true.
Proof. vm_compute. repeat split; reflexivity. Qed.
