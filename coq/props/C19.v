(* C19 - stored identity data survives a crash at any point.  Property theorems only.
   Model: model/M19_crash.v (Database.open/_prepare_version/executescript/commit/__enter__/__exit__, the insert
   functions and check_database as generated in gen/G19_db.v from the source).  The store (SQLite: WAL journal,
   synchronous=NORMAL, against a process kill) is any `store_ops` meeting `contract` (spec/S19_durable.v):
   COMMIT publishes the connection's view atomically, a kill keeps exactly what was published.  Every theorem
   is for all stores meeting the contract, all workloads and all kill instants.
   `prepare_pinned`, `identity_cfg`, `wallet_cfg`, `with_block_users` are the generated definitions. *)
From Coq Require Import ZArith List Bool Permutation.
From IPV8V Require Import lib.PyErr lib.Bytes model.M16_tokentree proofs.P16_gather
  model.M19_crash gen.G19_db spec.S19_durable
  proofs.P19_base proofs.P19_crash proofs.P19_rebuild proofs.P19_gen.
Import ListNotations.
Open Scope Z_scope.

(* Each insert function of the two databases (insert_token, insert_metadata, insert_attestation; wallet
   insert_attestation) is exactly one INSERT into a data table followed by one commit, and outside a
   `with` block that commit is a real COMMIT.  Both generated configurations are well formed (schema script =
   CREATE TABLE IF NOT EXISTS ..., delete + insert of the version row; every insert targets a schema table). *)
Theorem every_insert_commits :
  Forall (fun ops => exists ig t, ops = [OExec ig t; OCommit] /\ t <> T_OPTION)
         (cfg_inserts identity_cfg ++ cfg_inserts wallet_cfg) /\
  (forall (S : Type) (O : store_ops S) (m : ms S), ms_pend m = 0 -> db_commit O m = real_commit O m).
Proof. exact every_insert_commits_l. Qed.
Print Assumptions every_insert_commits.

Theorem generated_configurations_well_formed : cfg_okb identity_cfg = true /\ cfg_okb wallet_cfg = true.
Proof. exact (conj identity_cfg_ok wallet_cfg_ok). Qed.
Print Assumptions generated_configurations_well_formed.

(* reopen_ok: take a fresh file and ANY history of processes - each opens the database, makes any insert
   calls, and is killed at any instant (before/after every statement of the schema script, every INSERT,
   every commit, every acknowledgement), possibly during open itself, possibly many times in a row.
   The next open succeeds, leaves the current version row and every table of the schema, publishes
   everything (nothing pending), and does not touch the data rows. *)
Theorem reopen_ok : forall (S : Type) (O : store_ops S) cfg s0 h,
  contract O -> cfg_okb cfg = true -> fresh O s0 -> only_calls h ->
  let m := run_history O cfg prepare_pinned (mkMs s0 0 [] []) h in
  exists tr m',
    open O cfg prepare_pinned m = (tr, m', Done) /\
    version_row (s_view O (ms_st m')) = Some (cfg_latest cfg) /\
    (forall td, In td (schema_tables cfg) -> find_table (s_view O (ms_st m')) (t_id td) = Some td) /\
    s_durable O (ms_st m') = s_view O (ms_st m') /\
    data_rows (s_view O (ms_st m')) = data_rows (s_view O (ms_st m)).
Proof. intros S O cfg s0 h K Ok. exact (reopen_ok_l O K cfg Ok s0 h). Qed.
Print Assumptions reopen_ok.

(* acked_durable: after any such history, every record whose insert call had returned (ms_acks) is stored:
   a row with its key columns is there; and when distinct records never share key columns
   (key_consistent), the record itself is there, column for column. *)
Theorem acked_durable : forall (S : Type) (O : store_ops S) cfg s0 h,
  contract O -> cfg_okb cfg = true -> fresh O s0 -> only_calls h ->
  let m := run_history O cfg prepare_pinned (mkMs s0 0 [] []) h in
  exists tr m',
    open O cfg prepare_pinned m = (tr, m', Done) /\
    Forall (ack_stored cfg (s_view O (ms_st m'))) (ms_acks m) /\
    (key_consistent cfg (all_calls h) -> Forall (ack_present cfg (s_view O (ms_st m'))) (ms_acks m)).
Proof. intros S O cfg s0 h K Ok. exact (acked_durable_l O K cfg Ok s0 h). Qed.
Print Assumptions acked_durable.

(* no partial row: every data row visible after the reopen is, column for column, the record of an insert
   call that had at least started before the kill (rows are atomic); acknowledged calls are among the
   started ones, which are calls of the workload. *)
Theorem no_partial_rows : forall (S : Type) (O : store_ops S) cfg s0 h,
  contract O -> cfg_okb cfg = true -> fresh O s0 -> only_calls h ->
  let m := run_history O cfg prepare_pinned (mkMs s0 0 [] []) h in
  exists tr m',
    open O cfg prepare_pinned m = (tr, m', Done) /\
    rows_started cfg (ms_started m) (s_view O (ms_st m')) /\
    incl (ms_acks m) (ms_started m) /\ incl (ms_started m) (all_calls h).
Proof. intros S O cfg s0 h K Ok. exact (no_partial_rows_l O K cfg Ok s0 h). Qed.
Print Assumptions no_partial_rows.

(* exactly a prefix: one process, any list of insert calls, from any opened state with nothing pending.
   At every kill instant x the published content is exactly the logical effect of the first j calls, where
   a calls have been acknowledged or raised, s have started, and a <= j <= s <= a+1: everything acknowledged,
   at most the one call in flight, nothing later. *)
Theorem crash_prefix_exact : forall (S : Type) (O : store_ops S) cfg wl m,
  contract O -> cfg_okb cfg = true ->
  ms_pend m = 0 -> s_durable O (ms_st m) = s_view O (ms_st m) ->
  exists tr m',
    run_actions O cfg m (map (fun c => ACall (fst c) (snd c)) wl) = (tr, m') /\
    s_view O (ms_st m') = effect cfg (s_view O (ms_st m)) wl /\
    ms_acks m' = ms_acks m ++ returned cfg (s_view O (ms_st m)) wl /\
    Forall (fun x => exists a j s, (a <= j)%nat /\ (j <= s)%nat /\ (s <= a + 1)%nat /\ (s <= length wl)%nat /\
              s_durable O (ms_st x) = effect cfg (s_durable O (ms_st m)) (firstn j wl) /\
              ms_acks x = ms_acks m ++ returned cfg (s_durable O (ms_st m)) (firstn a wl) /\
              ms_started x = ms_started m ++ firstn s wl) tr.
Proof. intros S O cfg wl m K Ok. exact (crash_prefix_exact_g O K cfg Ok wl m). Qed.
Print Assumptions crash_prefix_exact.

(* pseudonym_rebuild_verifies: if the tokens an uninterrupted run of the workload stores are a parent-first
   chain of validly signed tokens with distinct hashes (what add_credential inserts), then at every kill
   instant, the tree PseudonymManager.__init__ rebuilds from the surviving Tokens rows - loaded in any
   order - passes TokenTree.verify (model of C16) for every element.  hash, signature check, key and the
   decoding of a row into a Token are arbitrary. *)
Theorem pseudonym_rebuild_verifies :
  forall (S : Type) (O : store_ops S) cfg hash sigverify pk (tok : row -> token) (T : Z) wl m tr m',
  contract O -> cfg_okb cfg = true ->
  ms_pend m = 0 -> s_durable O (ms_st m) = s_view O (ms_st m) ->
  honest cfg hash sigverify pk tok T (s_view O (ms_st m)) wl ->
  run_actions O cfg m (map (fun c => ACall (fst c) (snd c)) wl) = (tr, m') ->
  forall snap, In snap (m :: tr) ->
  forall els c e md,
    Permutation els (stored_tokens tok T (s_durable O (ms_st (reboot O snap)))) ->
    In e els -> Z.of_nat (length els) <= md ->
    tree_verify hash sigverify pk (mkTree els [] c) e md = true.
Proof.
  intros S O cfg hash sigverify pk tok T wl m tr m' K Ok.
  exact (rebuild_verifies_l O K cfg (cfg_okb_wf cfg Ok) hash sigverify pk tok T wl m tr m').
Qed.
Print Assumptions pseudonym_rebuild_verifies.

(* with_block_defers: inside `with db:` every commit is deferred - whatever insert calls return there,
   nothing is published until the block is left (acknowledgements are NOT durable) ... *)
Theorem with_block_defers : forall (S : Type) (O : store_ops S) cfg wl m,
  contract O -> cfg_okb cfg = true ->
  exists tr m',
    run_actions O cfg m (AEnter :: map (fun c => ACall (fst c) (snd c)) wl) = (tr, m') /\
    Forall (fun x => s_durable O (ms_st x) = s_durable O (ms_st m)) tr /\
    s_durable O (ms_st m') = s_durable O (ms_st m) /\ 0 < ms_pend m'.
Proof. intros S O cfg wl m K Ok. exact (with_block_defers_g O K cfg Ok wl m). Qed.
Print Assumptions with_block_defers.

(* ... leaving it normally after at least one commit request publishes the whole view ... *)
Theorem with_block_exit_publishes : forall (S : Type) (O : store_ops S) cfg m,
  contract O -> 1 < ms_pend m ->
  exists m', run_action O cfg m (AExit XNone) = ([m'], m', Done) /\
             s_durable O (ms_st m') = s_view O (ms_st m) /\ s_view O (ms_st m') = s_view O (ms_st m) /\
             ms_pend m' = 0.
Proof. intros S O cfg m K. exact (with_block_exit_publishes_g O K cfg m). Qed.
Print Assumptions with_block_exit_publishes.

(* ... and no anchored caller wraps its inserts in such a block. *)
Theorem no_with_block_callers : with_block_users = [].
Proof. exact no_with_block_users. Qed.
Print Assumptions no_with_block_callers.

(* upgrades of files written by older releases: props/C19x.v (statement-level transaction model); here only the
   store-level fact they rest on: *)
(* for any store meeting the contract a script run as one transaction is all or nothing: at every
   kill instant the published content is the old one, except after the final COMMIT, where every statement
   has been applied; a failing statement publishes nothing. *)
Theorem atomic_script_all_or_nothing : forall (S : Type) (O : store_ops S) sc m,
  contract O ->
  exists tr m' o,
    run_atomic O m sc = (tr, m', o) /\
    (o = Done ->
       s_durable O (ms_st m') = fold_stmts (s_view O (ms_st m)) sc /\
       s_view O (ms_st m') = fold_stmts (s_view O (ms_st m)) sc /\
       exists tr0, tr = tr0 ++ [m'] /\ Forall (fun x => s_durable O (ms_st x) = s_view O (ms_st m)) tr0) /\
    (o <> Done -> Forall (fun x => s_durable O (ms_st x) = s_view O (ms_st m)) tr /\
                  s_durable O (ms_st m') = s_view O (ms_st m)).
Proof. intros S O sc m K. exact (atomic_script_l O K sc m). Qed.
Print Assumptions atomic_script_all_or_nothing.

(* the hypotheses on the store are satisfiable: the two-level store used for the correspondence meets them *)
Theorem contract_satisfiable : contract cstore_ops /\ fresh cstore_ops fresh_store.
Proof. exact (conj cstore_contract fresh_store_fresh). Qed.
Print Assumptions contract_satisfiable.

(* ------------------------------------------------------------------------------------------------
   What is false, kept visible.  ex_cfg is the identity database as on the pinned tree, written out
   (version 1; Attestations keyed by (public_key, metadata_pointer)), so that these statements do not move
   when the source does. *)
Definition ex_cfg : dbcfg :=
  mkCfg 1
    [OScript [SCreate (mkT 1 [0%nat; 1%nat; 3%nat]); SCreate (mkT 2 [0%nat; 1%nat]); SCreate (mkT 3 [0%nat; 2%nat]);
              SCreate (mkT 0 [0%nat]); SDelete 0 0%nat 0; SInsert false 0 [0; 1]]; OCommit]
    [[OExec true 1; OCommit]; [OExec true 2; OCommit]; [OExec true 3; OCommit]].
Definition ex_tables : list Z := [1; 2; 3].

Example ex_cfg_well_formed : cfg_okb ex_cfg = true.
Proof. vm_compute. reflexivity. Qed.

(* The pinned _prepare_version (a missing version row escapes as StopIteration): the schema script runs on
   every open in autocommit mode, so a kill between its DELETE and INSERT of the version row leaves a file
   that can never be opened again.  History: create the database; reopen, killed at instant 6 (after the
   DELETE). *)
Theorem pinned_reopen_refuted :
  exists h, only_calls h /\
    snd (open cstore_ops ex_cfg true
              (run_history cstore_ops ex_cfg true (mkMs fresh_store 0 [] []) h))
    = Raised EStopIteration.
Proof.
  exists [([], 100%nat); ([], 6%nat)]. split; [repeat constructor|vm_compute; reflexivity].
Qed.
Print Assumptions pinned_reopen_refuted.

(* Without key_consistent "the record itself is there" fails on a well-formed configuration: with
   Attestations keyed by (public_key, metadata_pointer), a second authority's attestation of the same metadata
   is acknowledged (INSERT OR IGNORE) and not stored.  Rows: [subject; authority; metadata; signature]. *)
Theorem acked_unchanged_refuted :
  exists h c, only_calls h /\
    let m := run_history cstore_ops ex_cfg false (mkMs fresh_store 0 [] []) h in
    In c (ms_acks m) /\
    ~ ack_present ex_cfg (cs_view (ms_st (snd (fst (open cstore_ops ex_cfg false m))))) c.
Proof.
  exists [([ACall 2 [10; 21; 30; 41]; ACall 2 [10; 22; 30; 42]], 100%nat)], (2%nat, [10; 22; 30; 42]).
  split; [repeat constructor|]. split; [vm_compute; auto|].
  intros [t [A B]]. vm_compute in A. inversion A; subst t. vm_compute in B.
  repeat (destruct B as [B|B]; [discriminate|]). exact B.
Qed.
Print Assumptions acked_unchanged_refuted.

(* ------------------------------------------------------------------------------------------------
   Non-vacuity: concrete histories on ex_cfg.
   Rows of Tokens: [key; previous; signature; content_hash; content]; tables 1 Tokens 2 Metadata 3 Attestations. *)
Definition ex_calls : list action :=
  [ACall 0 [10; 11; 12; 13; 14]; ACall 1 [10; 15; 16; 17]; ACall 2 [10; 20; 18; 19]; ACall 0 [10; 11; 12; 13; 14]].

(* killed between the INSERT of the second call and its commit (instant 14): the first record is there,
   the second is not, reopening works *)
Example c19_kill_between_insert_and_commit :
  crash_obs false ex_cfg ex_tables [(ex_calls, 14%nat)]
  = [1; 1;  1; 5; 10; 11; 12; 13; 14;  0;  0].
Proof. vm_compute. reflexivity. Qed.

(* killed right after that commit, before the acknowledgement (instant 15): the second record is there *)
Example c19_kill_after_commit :
  crash_obs false ex_cfg ex_tables [(ex_calls, 15%nat)]
  = [1; 1;  1; 5; 10; 11; 12; 13; 14;  1; 4; 10; 15; 16; 17;  0].
Proof. vm_compute. reflexivity. Qed.

(* killed inside the schema script of a reopen, between DELETE and INSERT of the version row, then a third
   process runs to its end: everything is there (the duplicate token is ignored), version row restored *)
Example c19_kill_in_reopen_then_continue :
  crash_obs false ex_cfg ex_tables [(firstn 2 ex_calls, 100%nat); ([], 6%nat); (skipn 2 ex_calls, 100%nat)]
  = [1; 1;  1; 5; 10; 11; 12; 13; 14;  1; 4; 10; 15; 16; 17;  1; 4; 10; 20; 18; 19].
Proof. vm_compute. reflexivity. Qed.

(* the same history on the pinned _prepare_version: the third process cannot open, nor can the observer *)
Example c19_pinned_history :
  crash_obs true ex_cfg ex_tables [(firstn 2 ex_calls, 100%nat); ([], 6%nat); (skipn 2 ex_calls, 100%nat)]
  = [4; -1;  1; 5; 10; 11; 12; 13; 14;  1; 4; 10; 15; 16; 17;  0].
Proof. vm_compute. reflexivity. Qed.

(* the hypotheses of acked_durable are met by this workload: records with equal keys are equal *)
Example c19_hypotheses_met :
  only_calls [(ex_calls, 14%nat)] /\ key_consistent ex_cfg (all_calls [(ex_calls, 14%nat)]).
Proof.
  split; [repeat constructor|].
  intros c1 c2 t td H1 H2 T1 T2 Htd Hid Hk.
  vm_compute in H1, H2.
  repeat (destruct H1 as [H1|H1]; [subst c1|]); try contradiction;
  repeat (destruct H2 as [H2|H2]; [subst c2|]); try contradiction;
  try reflexivity; vm_compute in T1, T2; congruence.
Qed.

(* inside a with block two acknowledged inserts publish nothing; a wallet duplicate raises IntegrityError *)
Example c19_with_block_and_duplicate :
  run_live_case (ex_cfg, ex_tables, [AEnter; ACall 0 [10; 11; 12; 13; 14]; ACall 1 [10; 15; 16; 17]])
  = [1;  1; 1; 0; 0; 0; 0; 0; 0;
         1; 2; 1; 5; 10; 11; 12; 13; 14; 0; 0; 0; 0; 0;
         1; 3; 1; 5; 10; 11; 12; 13; 14; 1; 4; 10; 15; 16; 17; 0; 0; 0; 0] /\
  run_live_case (mkCfg 2 [OScript [SCreate (mkT 4 [0%nat]); SCreate (mkT 0 [0%nat]); SDelete 0 0%nat 0;
                                   SInsert false 0 [0; 2]]; OCommit] [[OExec false 4; OCommit]],
                 [4], [ACall 0 [7; 8; 9; 6]; ACall 0 [7; 5; 4; 6]])
  = [1;  1; 0; 1; 4; 7; 8; 9; 6; 1; 4; 7; 8; 9; 6;
         2; 0; 1; 4; 7; 8; 9; 6; 1; 4; 7; 8; 9; 6].
Proof. vm_compute. split; reflexivity. Qed.
