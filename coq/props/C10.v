(* C10 - each outstanding request is resolved exactly once.  Property theorems only.
   Model: model/M10_reqcache.v (RequestCache + the TaskManager timeout tasks + loop iterations);
   vocabulary: spec/S10_reqcache.v; lemmas: proofs/P10_reqcache.v.
   `run cfg (init cfg) ops` ranges over every population of cache objects `cfg` (any number of caches,
   any prefixes / numbers / delays / callbacks) and every list of operations `ops`: add, pop,
   retrieve_cache, has/get, constructor, find_unclaimed_identifier, clear, passthrough enter/exit,
   clock advance, loop iteration begin/end, the scheduler running any timeout task (Fire, in any order),
   shutdown - including pops / adds / clear issued from inside on_timeout callbacks. *)
From Coq Require Import ZArith List Bool Arith.
From IPV8V Require Import lib.PyErr model.M10_reqcache spec.S10_reqcache proofs.P10_reqcache.
Import ListNotations.
Open Scope Z_scope.

(* The decidable reading of the property (`holds`, the same predicate the harness evaluates on the
   implementation) is true of every history: a cache is accepted only while not shut down and while no
   outstanding cache has its (prefix, number); a pop result and an on_timeout call are only ever delivered
   for an outstanding cache and end it; clear / shutdown drop outstanding caches only; after shutdown
   nothing is accepted and nothing times out. *)
Theorem resolved_at_most_once : forall cfg ops,
  holds cfg [] false (events (snd (run cfg (init cfg) ops))) = true.
Proof. exact holds_all_runs. Qed.
Print Assumptions resolved_at_most_once.

(* Counting form: at every point of every history, for every cache object,
   #resolutions <= #accepted adds <= #resolutions + 1   (resolution = pop result, timeout, or drop). *)
Theorem resolution_counts : forall cfg ops c,
  let l := events (snd (run cfg (init cfg) ops)) in
  (n_res c l <= n_add c l /\ n_add c l <= n_res c l + 1)%nat.
Proof. exact resolution_counts_l. Qed.
Print Assumptions resolution_counts.

(* Between a pop that returned cache c and a later timeout of c, c must have been added again. *)
Theorem pop_disables_timeout : forall cfg ops c l1 l2 l3,
  events (snd (run cfg (init cfg) ops)) = l1 ++ EPopped c :: l2 ++ ETimeout c :: l3 -> In (EAdded c) l2.
Proof. exact pop_disables_timeout_l. Qed.
Print Assumptions pop_disables_timeout.

Theorem timeout_disables_pop : forall cfg ops c l1 l2 l3,
  events (snd (run cfg (init cfg) ops)) = l1 ++ ETimeout c :: l2 ++ EPopped c :: l3 -> In (EAdded c) l2.
Proof. exact timeout_disables_pop_l. Qed.
Print Assumptions timeout_disables_pop.

Theorem timeout_fires_once : forall cfg ops c l1 l2 l3,
  events (snd (run cfg (init cfg) ops)) = l1 ++ ETimeout c :: l2 ++ ETimeout c :: l3 -> In (EAdded c) l2.
Proof. exact timeout_once_l. Qed.
Print Assumptions timeout_fires_once.

(* State form: in every reachable state a cache has a live timeout task exactly when it is the cache
   registered under its identity. *)
Theorem timer_iff_outstanding : forall cfg ops c,
  let s := fst (run cfg (init cfg) ops) in
  tk_get (tasks s) c <> None <-> tbl_get (table s) (ckey cfg c) = Some c.
Proof. exact timer_iff_outstanding_l. Qed.
Print Assumptions timer_iff_outstanding.

(* A successful pop removes the timer: the scheduler can no longer run that timeout. *)
Theorem pop_cancels_timer : forall cfg ops p n c,
  let s := fst (run cfg (init cfg) ops) in
  tbl_get (table s) (p, n) = Some c ->
  let s' := fst (step_b cfg s (BPop p n)) in
  snd (step_b cfg s (BPop p n)) = [OPop p n (Ok c)] /\ tk_get (tasks s') c = None /\
  snd (fire cfg s' c) = [ORefused c].
Proof. exact pop_cancels_timer_l. Qed.
Print Assumptions pop_cancels_timer.

(* After a timeout (callback doing nothing) a late response finds nothing: pop raises KeyError,
   and the timeout cannot run a second time. *)
Theorem timeout_then_pop_keyerror : forall cfg ops c,
  let s := fst (run cfg (init cfg) ops) in
  tk_get (tasks s) c = Some TReady -> c_script (getc cfg c) = [] ->
  let s' := fst (fire cfg s c) in
  In (OTimeout c) (snd (fire cfg s c)) /\
  snd (step_b cfg s' (BPop (fst (ckey cfg c)) (snd (ckey cfg c))))
  = [OPop (fst (ckey cfg c)) (snd (ckey cfg c)) (Raise KeyError)] /\
  snd (fire cfg s' c) = [ORefused c].
Proof. exact timeout_then_pop_keyerror_l. Qed.
Print Assumptions timeout_then_pop_keyerror.

Theorem pop_keyerror_iff_free : forall cfg s p n,
  snd (step_b cfg s (BPop p n)) = [OPop p n (Raise KeyError)] <-> tbl_get (table s) (p, n) = None.
Proof. exact pop_keyerror_iff_l. Qed.
Print Assumptions pop_keyerror_iff_free.

(* identity_exclusive: while an identity is taken, add of another cache with that identity returns None
   and changes nothing; the NumberCache constructor raises exactly for taken identities; the random
   identifier search only returns free numbers; and add never fails half-way ("Task already exists"). *)
Theorem identity_exclusive : forall cfg s c c0,
  tbl_get (table s) (ckey cfg c) = Some c0 -> shut s = false -> 0 < c_delay (getc cfg c) ->
  step_b cfg s (BAdd c) = (s, [OAdd c ADup]).
Proof. exact add_duplicate_refused_l. Qed.
Print Assumptions identity_exclusive.

Theorem constructor_guard : forall cfg s p n,
  snd (step_b cfg s (BNew p n)) = [ONew p n true] <-> tbl_get (table s) (p, n) <> None.
Proof. exact constructor_guard_l. Qed.
Print Assumptions constructor_guard.

Theorem find_unclaimed_is_free : forall t p draws n,
  first_unclaimed t p draws = Ok n -> tbl_get t (p, n) = None /\ In n draws.
Proof. exact find_unclaimed_free_l. Qed.
Print Assumptions find_unclaimed_is_free.

Theorem add_never_fails_halfway : forall cfg ops c,
  let s := fst (run cfg (init cfg) ops) in
  snd (step_b cfg s (BAdd c)) <> [OAdd c (ARaise RuntimeError)].
Proof. exact add_never_task_exists_l. Qed.
Print Assumptions add_never_fails_halfway.

(* futures_completed: when a timeout runs, on return no managed future of the cache is pending, and each
   future that was still pending after the callback has exactly its configured result / exception. *)
Theorem futures_completed : forall cfg ops c,
  let s := fst (run cfg (init cfg) ops) in
  (c < length cfg)%nat -> tk_get (tasks s) c = Some TReady ->
  In (OTimeout c) (snd (fire cfg s c)) /\
  Forall not_pending (nth c (futs (fst (fire cfg s c))) []).
Proof. exact futures_completed_l. Qed.
Print Assumptions futures_completed.

Theorem futures_get_configured_value : forall cfg ops c,
  let s := fst (run cfg (init cfg) ops) in
  (c < length cfg)%nat -> tk_get (tasks s) c = Some TReady ->
  exists s2 o2,
    run_b cfg (set_tasks (set_table s (tbl_del (table s) (ckey cfg c))) (tk_del (tasks s) c))
          (c_script (getc cfg c)) = (s2, o2) /\
    forall k sp f, nth_error (c_futs (getc cfg c)) k = Some sp -> nth_error (nth c (futs s2) []) k = Some f ->
      nth_error (nth c (futs (fst (fire cfg s c))) []) k
      = Some (match f with FPending => configured sp | x => x end).
Proof. exact futures_configured_value_l. Qed.
Print Assumptions futures_get_configured_value.

(* shutdown_final: the synchronous part of shutdown empties the table, removes every timer and leaves no
   managed future of a registered cache pending; and whatever happens afterwards (ops2), the cache stays shut
   and empty, no on_timeout runs and no add is accepted. *)
Theorem shutdown_final : forall cfg ops1 ops2,
  let s0 := fst (run cfg (init cfg) ops1) in
  let s1 := fst (step cfg s0 Shutdown) in
  shut s1 = true /\ table s1 = [] /\ tasks s1 = [] /\
  (forall c, In c (map snd (table s0)) -> Forall not_pending (nth c (futs s1) [])) /\
  let s2 := fst (run cfg s1 ops2) in
  shut s2 = true /\ table s2 = [] /\ tasks s2 = [] /\
  (forall c, ~ In (OTimeout c) (snd (run cfg s1 ops2)) /\ ~ In (OAdd c AAdded) (snd (run cfg s1 ops2))).
Proof. exact shutdown_final_l. Qed.
Print Assumptions shutdown_final.

Theorem add_after_shutdown : forall cfg s c,
  shut s = true -> 0 < c_delay (getc cfg c) ->
  snd (step_b cfg s (BAdd c)) = [OAdd c ADropped] /\
  table (fst (step_b cfg s (BAdd c))) = table s /\ tasks (fst (step_b cfg s (BAdd c))) = tasks s /\
  Forall not_pending (nth c (futs (fst (step_b cfg s (BAdd c)))) []).
Proof. exact add_after_shutdown_l. Qed.
Print Assumptions add_after_shutdown.

(* resolved_eventually (bounded liveness).  A cache registered with delay d > 0: after the iteration in which
   its task takes its first step, once the clock has advanced by d, two further iterations of a loop that
   leaves no runnable task behind (IterEnd reports nothing) contain its resolution - whatever else (A, B, D:
   any operations, any scheduler choices) happens in between.  Together with resolved_at_most_once: exactly once. *)
Theorem resolved_eventually : forall cfg ops0 c d A B D,
  let s := fst (run cfg (init cfg) ops0) in
  tk_get (tasks s) c = Some (TCreated d) -> 0 < d ->
  forallb not_iterbegin A = true -> forallb not_iterbegin B = true -> forallb not_iterbegin D = true ->
  now s + d <= now (fst (run cfg s (IterBegin :: A))) ->
  let ops := (IterBegin :: A) ++ IterBegin :: B ++ IterBegin :: D in
  snd (step cfg (fst (run cfg s ops)) IterEnd) = [OIterEnd []] ->
  resolved c (events (snd (run cfg s ops))).
Proof. exact resolved_eventually_l. Qed.
Print Assumptions resolved_eventually.

(* a timer whose deadline has passed is resolved within two iterations *)
Theorem due_timer_resolved : forall cfg ops0 c dl A B,
  let s := fst (run cfg (init cfg) ops0) in
  tk_get (tasks s) c = Some (TSleep dl) -> dl <= now s ->
  forallb not_iterbegin A = true -> forallb not_iterbegin B = true ->
  let ops := IterBegin :: A ++ IterBegin :: B in
  snd (step cfg (fst (run cfg s ops)) IterEnd) = [OIterEnd []] ->
  resolved c (events (snd (run cfg s ops))).
Proof. exact due_timer_resolved_l. Qed.
Print Assumptions due_timer_resolved.

(* passthrough() with timeout 0: the cache times out in the very next iteration *)
Theorem passthrough_zero_resolved_next_iteration : forall cfg ops0 c B,
  let s := fst (run cfg (init cfg) ops0) in
  tk_get (tasks s) c = Some (TCreated 0) -> forallb not_iterbegin B = true ->
  let ops := IterBegin :: B in
  snd (step cfg (fst (run cfg s ops)) IterEnd) = [OIterEnd []] ->
  resolved c (events (snd (run cfg s ops))).
Proof. exact passthrough_zero_l. Qed.
Print Assumptions passthrough_zero_resolved_next_iteration.

(* ---- non-vacuity: concrete histories exercising the hypotheses ---- *)
Definition ex_cfg : list cache :=
  [ mkCache 0 1 2 [0] [SNone; SVal 7; SExc 3] [BPop 0 2; BAdd 1%nat];   (* callback pops cache 1's identity, re-adds it *)
    mkCache 0 2 2 [1] [SVal 5] [];
    mkCache 0 1 5 [2;1] [] [BAdd 2%nat] ].                              (* same identity as cache 0; re-adds itself *)

(* both timers woken in the same iteration; cache 0's callback pops cache 1 (whose wake-up is already
   scheduled: it never times out) and re-adds it; a duplicate identity is refused; a late pop raises KeyError *)
Example c10_nonvacuous_timeout_pop_in_callback :
  snd (run ex_cfg (init ex_cfg)
        [OpB (BAdd 0%nat); OpB (BAdd 1%nat); OpB (BAdd 2%nat); IterBegin; IterEnd; Advance 2; IterBegin; IterEnd;
         IterBegin; Fire 0%nat; Fire 1%nat; IterEnd; OpB (BPop 0 1); Snap])
  = [OAdd 0 AAdded; OAdd 1 AAdded; OAdd 2 ADup; ONop; OIterEnd []; ONop; ONop; OIterEnd []; ONop;
     OTimeout 0; OPop 0 2 (Ok 1%nat); OAdd 1 AAdded; OTimeoutEnd 0 [FNone; FVal 7; FExc 3]; ORefused 1; OIterEnd [];
     OPop 0 1 (Raise KeyError);
     OSnap [((0, 2), 1%nat)] [1%nat] [[FNone; FVal 7; FExc 3]; [FPending]; []] false].
Proof. vm_compute. reflexivity. Qed.

(* a cache that re-adds itself from its own on_timeout is registered again with a fresh timer *)
Example c10_nonvacuous_readd_self :
  snd (run ex_cfg (init ex_cfg)
        [OpB (BPassEnter 0 None); OpB (BAdd 2%nat); OpB BPassExit; IterBegin; Fire 2%nat; IterEnd; Snap;
         Shutdown; OpB (BAdd 1%nat); Snap])
  = [ONop; OAdd 2 AAdded; ONop; ONop; OTimeout 2; OAdd 2 AAdded; OTimeoutEnd 2 []; OIterEnd [];
     OSnap [((0, 1), 2%nat)] [2%nat] [[FPending; FPending; FPending]; [FPending]; []] false;
     OShutdown [2%nat]; OAdd 1 ADropped;
     OSnap [] [] [[FPending; FPending; FPending]; [FCancelled]; []] true].
Proof. vm_compute. reflexivity. Qed.

(* the hypotheses of resolved_eventually are satisfiable: registered with delay 2, clock advanced by 2 *)
Example c10_nonvacuous_liveness :
  let s := fst (run ex_cfg (init ex_cfg) [OpB (BAdd 1%nat)]) in
  tk_get (tasks s) 1%nat = Some (TCreated 2) /\
  now s + 2 <= now (fst (run ex_cfg s (IterBegin :: [IterEnd; Advance 2]))) /\
  let ops := (IterBegin :: [IterEnd; Advance 2]) ++ IterBegin :: [IterEnd] ++ IterBegin :: [Fire 1%nat] in
  snd (step ex_cfg (fst (run ex_cfg s ops)) IterEnd) = [OIterEnd []] /\
  events (snd (run ex_cfg s ops)) = [ETimeout 1%nat].
Proof. vm_compute. repeat split; discriminate. Qed.
