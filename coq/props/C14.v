(* C14 - the DHT routing table stays a valid Kademlia tree.  Property theorems only.
   Model: model/M14_routing.v (trie.py, Bucket, RoutingTable); vocabulary: spec/S14_kademlia.v.
   W = identifier width (160 in the code), cap = Bucket.max_size (8 in the code); all statements
   hold for every W and every cap >= 1. *)
From Coq Require Import ZArith List Bool Arith Sorted.
From IPV8V Require Import lib.PyErr model.M14_routing spec.S14_kademlia
  proofs.P14_bits proofs.P14_trie proofs.P14_bucket proofs.P14_table proofs.P14_closest proofs.P14_main.
Import ListNotations.
Open Scope Z_scope.

(* After any sequence of additions (new ids, known ids, rejected ids), bad-node removals and status
   changes, with arbitrary W-bit identifiers, round-trip times and failure counts: no operation raises
   or exhausts the recursion budget, and the table is a valid Kademlia tree - bucket keys prefix-free
   and complete (one owner per identifier, found by get_bucket), every node in the bucket owning its
   id, capacity respected, identifiers unique, only buckets on our own path ever split. *)
Theorem tree_valid : forall W cap me ops,
  (0 < cap)%nat -> Forall (op_ok W) ops ->
  exists rt, run W cap (rt_init me) ops = Ok rt /\ own rt = me /\ valid_table W cap rt.
Proof. exact tree_valid_l. Qed.
Print Assumptions tree_valid.

(* Every bucket key is the root or p ++ [b] with p a prefix of our own identifier: a bucket that does
   not contain our own id is never split. *)
Theorem split_only_on_own_path : forall W cap me rt k b,
  (0 < cap)%nat -> reachable W cap me rt -> bucket_at rt k b ->
  k = [] \/ exists q x, k = q ++ [x] /\ is_prefix q me.
Proof. exact own_path_l. Qed.
Print Assumptions split_only_on_own_path.

(* RoutingTable.add on any reachable table: returns (never KeyError, never more than W + 1 nested
   calls) and leads to a reachable table. *)
Theorem add_total : forall W cap me rt n,
  (0 < cap)%nat -> reachable W cap me rt -> length (nid n) = W ->
  exists rt' r, rt_add W cap rt n = Ok (rt', r) /\ reachable W cap me rt'.
Proof. exact add_total_l. Qed.
Print Assumptions add_total.

(* Bucket.split of any bucket of a reachable table drops no node and invents none: the two halves are
   the order-preserving partition of its nodes by their next identifier bit. *)
Theorem split_keeps_all_nodes : forall W cap me rt k b b0 b1,
  (0 < cap)%nat -> reachable W cap me rt -> bucket_at rt k b -> (length k < W)%nat ->
  bsplit cap b = Some (b0, b1) ->
  b0 = mkBucket (k ++ [false]) (filter (fun n => starts_with (k ++ [false]) (nid n)) (bnodes b)) /\
  b1 = mkBucket (k ++ [true]) (filter (fun n => negb (starts_with (k ++ [false]) (nid n))) (bnodes b)).
Proof. exact split_keeps_all_nodes_l. Qed.
Print Assumptions split_keeps_all_nodes.

(* closest_nodes(target, k, exclude) on any reachable table returns exactly the k live (not BAD, not
   excluded) nodes with the smallest XOR distance to the target, nearest first; fewer only if fewer
   exist.  For every k (also 0 and k larger than the table), with and without exclude_node. *)
Theorem closest_exact : forall W cap me rt target k excl,
  (0 < cap)%nat -> reachable W cap me rt -> length target = W ->
  exists res, closest rt target k excl = Ok res /\ k_closest rt target excl k res.
Proof. exact closest_exact_l. Qed.
Print Assumptions closest_exact.

(* The specification k_closest has exactly one solution (so closest_exact pins the result down). *)
Theorem k_closest_unique : forall rt target excl k r1 r2,
  NoDup (map nid (table_nodes rt)) ->
  k_closest rt target excl k r1 -> k_closest rt target excl k r2 -> r1 = r2.
Proof. exact k_closest_unique_l. Qed.
Print Assumptions k_closest_unique.

(* Functional reading: the first k of the live nodes sorted by distance. *)
Theorem closest_is_sorted_prefix : forall W cap me rt target k excl,
  (0 < cap)%nat -> reachable W cap me rt -> length target = W ->
  closest rt target k excl = Ok (firstn k (sort_by_dist target (filter (live excl) (table_nodes rt)))).
Proof. exact closest_functional_l. Qed.
Print Assumptions closest_is_sorted_prefix.

(* The fact the outward sub-tree walk rests on: an identifier sharing the prefix p with the target is
   strictly closer to it than any identifier that does not. *)
Theorem xor_order_by_common_prefix : forall p t a b,
  starts_with p t = true -> starts_with p a = true -> starts_with p b = false ->
  length a = length t -> length b = length t -> dist a t < dist b t.
Proof. exact P14_bits.xor_order_by_common_prefix. Qed.
Print Assumptions xor_order_by_common_prefix.

(* The integer XOR of routing.distance is the bitwise XOR of the two identifiers. *)
Theorem distance_is_bitwise_xor : forall a b, length a = length b -> dist a b = bval (xorl a b).
Proof. exact dist_xorl. Qed.
Print Assumptions distance_is_bitwise_xor.

(* ---- trie.py *)
Theorem trie_set_get : forall (A : Type) (t : trie A) k v k',
  tget (tset t k v) k' = if bits_eqb k' k then Ok v else tget t k'.
Proof. exact trie_set_get_l. Qed.
Print Assumptions trie_set_get.

(* __delitem__ of a stored key succeeds and removes exactly that key *)
Theorem trie_del_removes_exactly : forall (A : Type) (t : trie A) k v,
  tget t k = Ok v ->
  exists t', tdel t k = Ok t' /\ tget t' k = Raise KeyError /\ (forall k', k' <> k -> tget t' k' = tget t k').
Proof. exact @tdel_present. Qed.
Print Assumptions trie_del_removes_exactly.

(* __delitem__ of a missing key raises KeyError *)
Theorem trie_del_missing : forall (A : Type) (t : trie A) k e, tget t k = Raise e -> tdel t k = Raise KeyError.
Proof. exact @tdel_absent. Qed.
Print Assumptions trie_del_missing.

(* pruning: starting from an empty trie no value-less leaf chain ever remains *)
Theorem trie_stays_pruned : forall (A : Type) (t : trie A) k,
  compact t -> (forall v, compact (tset t k v)) /\ (forall t', tdel t k = Ok t' -> compact t').
Proof. exact trie_stays_pruned_l. Qed.
Print Assumptions trie_stays_pruned.

(* suffixes(p) lists, each once, exactly the s for which p + s is a stored key; the buckets visited
   through it by closest_nodes are exactly the values stored below p, and no lookup fails *)
Theorem trie_suffixes_exact : forall (A : Type) (t : trie A) p,
  NoDup (suffixes t p) /\ (forall s, In s (suffixes t p) <-> exists v, tget t (p ++ s) = Ok v) /\
  under t p = Ok (tvalues (tfind t p)).
Proof. exact trie_suffixes_exact_l. Qed.
Print Assumptions trie_suffixes_exact.

(* ---- Bucket.generate_id (after the fix): for every random draw the identifier lies in the bucket and
   has full width; the drawn number is its suffix *)
Theorem refresh_id_in_bucket : forall W b r,
  (length (bprefix b) <= W)%nat -> owns b (gen_id W b r) = true /\ length (gen_id W b r) = W.
Proof. exact gen_id_owned_l. Qed.
Print Assumptions refresh_id_in_bucket.

Theorem refresh_id_suffix_is_draw : forall W b r,
  0 <= r < 2 ^ Z.of_nat (W - length (bprefix b)) ->
  bval (skipn (length (bprefix b)) (gen_id W b r)) = r.
Proof. exact gen_id_suffix_l. Qed.
Print Assumptions refresh_id_suffix_is_draw.

(* ---- the two defects of the pinned tree, kept visible (fixed in the worktree; the model follows the fix) *)
Theorem refresh_id_pinned_refuted :
  exists b r, (length (bprefix b) <= 160)%nat /\ 0 <= r <= 2 ^ (160 - Z.of_nat (length (bprefix b))) /\
              owns b (gen_id_pinned 160 b r) = false.
Proof. exact gen_id_pinned_refuted_l. Qed.
Print Assumptions refresh_id_pinned_refuted.

Theorem trie_del_pinned_refuted :
  exists (t : trie Z) k v, tget t k = Ok v /\ tdel_pinned t k = Raise KeyError.
Proof. exact tdel_pinned_refuted_l. Qed.
Print Assumptions trie_del_pinned_refuted.

(* ---- non-vacuity: the concrete history ex_ops of proofs/P14_main.v (4-bit identifiers, capacity 2, own id
   0110): one addition splits three times (buckets 1, 00, 010, 011), a full bucket evicts its bad node and
   its slow node, a node goes bad and is removed, and is added again later *)
Example c14_nonvacuous_ops_ok : Forall (op_ok 4) ex_ops.
Proof. repeat constructor. Qed.

Example c14_nonvacuous_tree :
  ex_table = [([false; false], []); ([false; true; false], [4; 5]); ([false; true; true], [6; 7]); ([true], [14])].
Proof. vm_compute. reflexivity. Qed.

(* closest_nodes on that table: nearest first, the excluded node skipped, the walk leaves the target's bucket *)
Example c14_nonvacuous_closest :
  (ex_closest 5 3 None, ex_closest 5 3 (Some 4), ex_closest 13 8 None) = ([5; 4; 7], [5; 7; 6], [14; 5; 4; 7; 6]).
Proof. vm_compute. reflexivity. Qed.

(* deletion prunes the chain it leaves behind, and only that *)
Example c14_nonvacuous_trie :
  let t := tset (tset (tset empty_root [true; true; true] 3) [false] 1) [true] 2 in
  (tdel t [true; true; true], suffixes t [true])
  = (Ok (TNode None (TNode (Some 1) Empty Empty) (TNode (Some 2) Empty Empty)), [[]; [true; true]]).
Proof. vm_compute. reflexivity. Qed.

Example c14_nonvacuous_refresh :
  bitsZ (gen_id 8 (mkBucket [true; false; true] []) 6) = 166 /\
  owns (mkBucket [true; false; true] []) (Z_to_bits 8 166) = true.
Proof. vm_compute. split; reflexivity. Qed.
